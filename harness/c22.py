"""C22 WebAssembly execution follows the specification.

Two parts:
 1. integer runtime helpers (ppci/wasm/execution/runtime.py): correspondence of Model.WasmRt and evaluation of
    "helper = wasm operator" on the real functions (oracle Spec.WasmInt through the driver);
 2. whole modules: modules built with the real `ppci.wasm` components API are instantiated with
    `ppci.wasm.instantiate(module, target='python'|'native')` in forked worker processes, their exports are invoked, and
    results / traps / final memory / globals are compared with the reference interpreter Spec.Wasm (Lean, written from the
    specification) through the driver.  Layers: operator matrix (every numeric opcode on boundary + random operands),
    hand-written patterns (comparison;eqz/if/br_if/select, constants, locals, globals, loads/stores incl. out of bounds,
    memory.grow, br_table, loops, unwinding, calls, call_indirect, start, segments, two instances), random typed programs.
    Files: c22_gen.py (module descriptions, generators, serialisers), c22_exec.py (workers), c22_run.py (comparison)."""
from harness import c22_gen as G_
from harness import c22_exec as X_
from harness import c22_run as R_
from harness import c22_shrink as S_

PROP = "C22"
LEAN_PROPS = "PpciVerif/Props/C22.lean"
LEAN_TARGETS = ["PpciVerif.Props.C22", "Drivers.C22"]
LEVEL = "proof"
LEVEL_TEXT = (
    "PARTIAL. What the Lean theorems cover (for ALL inputs): (a) the integer helpers of ppci/wasm/execution/runtime.py - i32/i64_rotl, rotr, "
    "clz, ctz, popcnt, i32_extend8_s/16_s, i64_extend8_s/16_s/32_s (hand model Model.WasmRt, the same composition of the C39 bitfun model as "
    "in the source) - return the value of the WebAssembly specification's integer operator (Spec.WasmInt on BitVec 32/64) for every host "
    "integer; (b) meta-properties of the reference interpreter Spec.Wasm (an executable reading of the core specification: i32/i64/f32/f64, "
    "all numeric instructions with their traps, control, calls incl. call_indirect, locals, globals, memory, segments, start): the outcome of "
    "a terminating execution does not depend on the fuel (interp_fuel_monotone, interp_outcome_unique, invoke_fuel_monotone); i32.eqz of an "
    "integer comparison is the opposite comparison for every width; every float comparison with a NaN operand is 0 (ne: 1), hence eqz of an "
    "ordered float comparison is NOT the negated comparison; division traps exactly for a zero divisor; shifts take their count modulo the "
    "width. Theorems = helper operators + interpreter meta-properties, nothing more. Whole-module conformance of ppci's two execution targets "
    "(wasm->IR translation, ir2py / native code generation, instantiation) is NOT proved: it is established only by a SAMPLED correspondence - "
    "operator matrix, hand-written patterns and random typed programs built with the real ppci.wasm components API are executed by "
    "ppci.wasm.instantiate(target='python'; 'native' in the thorough tier) and compared (results by bit pattern with any NaN = any NaN, traps, "
    "final memory, globals) with Spec.Wasm. No reference engine (wasmtime) exists in the sandbox: Spec.Wasm is the reference. The full "
    "statement is kept as `def execution_conforms_full` (unproved). Many genuine differences are open known findings (see findings/C22.json).")
LEVEL_NOTE = (
    "trusted: Lean kernel; axioms propext/Classical.choice/Quot.sound; Lean core BitVec operations and Lean's Float/Float32 (hardware IEEE "
    "754, executed, never reasoned about) as the reading of the specification's numerics; Spec.Wasm itself (hand-written from the "
    "specification text, validated only against ppci where both agree - about 99% of the sampled invocations - and by the kernel-checked "
    "examples in Props/C22.lean); the generators of harness/c22_gen.py bound what is sampled. Random programs avoid, and are not compared "
    "after entering, the regions of open known findings (f32 arithmetic not rounded / float division by zero / division overflow / missing "
    "bounds and call_indirect checks on the python target; NaN comparisons and every trap on the native target): those regions are covered "
    "precisely by the operator matrix and the patterns.")
TECHNIQUE = ("Lean 4 proof (helper operators = spec operators; fuel monotonicity and operator laws of a reference interpreter written from the "
             "specification) + differential correspondence of the real ppci execution targets with that interpreter through a line-protocol driver")
RULE = (
    "helpers: per helper boundary values (0, +-1, min, max, 2^k, 2^k+-1, -2^k, patterns) and random values in signed and unsigned "
    "representation; every rotation count for the boundary values. modules: every numeric opcode of the subset on a fixed boundary matrix "
    "(0, +-1, INT_MIN/MAX, 2^k+-1, shift counts >= width; +-0.0, +-inf, NaN (quiet, negative, signalling, payload), subnormals, values at "
    "and next to 2^31, 2^32, 2^63, 2^64, +-0.5, ties) plus seeded random operands; fixed patterns; seeded random programs (nested "
    "block/loop/if/br_if/br_table, locals, globals, loads/stores of all widths, direct and indirect calls). distinct = distinct "
    "(target, module, label, arguments) sampled 1-in-50 per module; evaluations = compared invocations + final memory/global comparisons")
TRUSTED = [
    "hand model Model.WasmRt (composition of Model.Bitfun, see C39) of the integer helpers of ppci/wasm/execution/runtime.py, tied by differential run on every check",
    "Spec.WasmInt / Spec.Wasm: the WebAssembly core specification as Lean definitions (BitVec for integers and for float bit patterns, Lean Float/Float32 for rounding arithmetic); it is the reference, no wasmtime in the sandbox",
    "Spec.WasmParse + harness/c22_gen.py: the two serialisations of one module description (to ppci components and to the S-expression) are assumed to denote the same module",
    "forked worker processes (harness/c22_exec.py): each python-target module gets a fresh irpy runtime (ppci shares one heap between all instances of a process)",
]
ASSUMPTIONS = [
    "host representation of an iN value is a Python int; the value it denotes is its residue mod 2^N (signed and unsigned representative accepted); f32/f64 values are Python floats, compared by bit pattern, any NaN = any NaN",
    "a trap is a raised WasmTrapException or runtime.Unreachable; any other exception, a wrong value, or a dead process is a difference",
    "NaN sign/payload of computed NaNs is unspecified: once such bits become observable as integers (store, reinterpret) integer results and memory are compared tolerantly",
    "memory.grow succeeds whenever the limit allows it (the specification also allows failure)",
    "CPython int semantics as in C39; x86-64 Linux for the native target",
]

ROT = ["rotl", "rotr"]
UN = ["clz", "ctz", "popcnt"]
EXT = {"i32": [8, 16], "i64": [8, 16, 32]}


def values(rng, n, nrand):
    xs = {0, 1, -1, 2, -2, 3, (1 << (n - 1)) - 1, -(1 << (n - 1)), -(1 << (n - 1)) + 1, (1 << (n - 1)) - 2}
    for k in range(1, n):
        xs |= {1 << k, (1 << k) - 1, (1 << k) + 1, -(1 << k), -(1 << k) - 1, -(1 << k) + 1}
    m = (1 << n) - 1
    for pat in ("10", "01", "1100", "0011", "11110000", "0001"):
        p = int(pat * n, 2) & m
        xs.add(p)
    xs |= {rng.getrandbits(n) for _ in range(nrand)}
    xs |= {rng.getrandbits(rng.randint(1, n)) for _ in range(nrand)}
    out = set()
    for x in xs:
        x &= m
        out.add(x)                                  # unsigned representative
        out.add(x - (1 << n) if x >> (n - 1) else x)  # signed representative
    return sorted(out)


def gen_cases(ctx):
    rng = ctx.rng
    nrand = 300 if ctx.thorough else 40
    cases = [("i32_rotl", (-(1 << 31), 1)), ("i32_rotr", (1, -31)), ("i64_clz", (-1,)), ("i32_clz", (0,)), ("i64_ctz", (0,)),
             ("i32_popcnt", (-1,)), ("i32_extend8_s", (0x1280,)), ("i64_extend32_s", (0x80000000,)), ("i64_rotl", (1, 64)),
             ("i32_ctz", (-(1 << 31),)), ("i64_popcnt", (-(1 << 63),)), ("i32_extend16_s", (-32769,))]
    for ty, n in (("i32", 32), ("i64", 64)):
        vals = values(rng, n, nrand)
        bvals = values(rng, n, 0)
        for v in vals:
            for u in UN:
                cases.append((f"{ty}_{u}", (v,)))
            for m in EXT[ty]:
                cases.append((f"{ty}_extend{m}_s", (v,)))
            cnts = {0, 1, n - 1, n, n + 1, -1, -n, rng.randrange(n), rng.randrange(n), rng.getrandbits(n) - (1 << (n - 1)), rng.getrandbits(n)}
            for c in cnts:
                for r in ROT:
                    cases.append((f"{ty}_{r}", (v, c)))
        for v in bvals[:: 1 if ctx.thorough else 5]:
            for c in range(n):
                for r in ROT:
                    cases.append((f"{ty}_{r}", (v, c)))
        # outside the iN representations
        for v in [(1 << n) + 5, -(1 << n) - 7, (3 << n) | 0x80, rng.getrandbits(n + 20), -rng.getrandbits(n + 20)]:
            for u in UN:
                cases.append((f"{ty}_{u}", (v,)))
            for m in EXT[ty]:
                cases.append((f"{ty}_extend{m}_s", (v,)))
            for r in ROT:
                cases.append((f"{ty}_{r}", (v, rng.randrange(n))))
    return cases


def in_domain(op, a):
    n = 32 if op.startswith("i32") else 64
    return -(1 << (n - 1)) <= a[0] < (1 << n)


def run(R, op, a):
    try:
        r = getattr(R, op)(*a)
    except Exception as e:  # noqa
        return "err " + type(e).__name__
    if isinstance(r, bool) or not isinstance(r, int):
        return "ok <" + type(r).__name__ + ">"
    return f"ok {r}"


def evaluate(ctx, op, a, impl, spec):
    if impl == spec:
        return
    case = {"op": op, "args": list(a)}
    if impl.startswith("err"):
        cls = "raises-" + impl[4:]
    elif not impl[3:].lstrip("-").isdigit():
        cls = "not-an-int"
    else:
        n = 32 if op.startswith("i32") else 64
        cls = "wrong-representative" if ("rot" in op or "extend" in op) and (int(impl[3:]) - int(spec[3:])) % (1 << n) == 0 else "wrong-value"
    ctx.fail(f"{op}:{cls}", f"{op}{tuple(a)} -> {impl}, wasm operator gives {spec[3:]}", case, impl=impl, spec=spec)


def nontrivial(op, a):
    if a[0] in (0, -1):
        return False
    n = 32 if op.startswith("i32") else 64
    return not ("rot" in op and a[1] % n == 0)


def check_helpers(ctx):
    from ppci.wasm.execution import runtime as R
    cases = list(dict.fromkeys(gen_cases(ctx)))
    reqs = [op + " " + " ".join(str(x) for x in a) for op, a in cases]
    impl = [run(R, op, a) for op, a in cases]
    out = ctx.driver("C22", reqs + ["spec." + r for r in reqs])
    model, spec = out[: len(reqs)], out[len(reqs):]
    if "bad-op" in out:
        from harness.common import BrokenCheck
        raise BrokenCheck("driver rejected a request: " + str([q for q, m in zip(reqs + reqs, out) if m == "bad-op"][:3]))
    ood = 0
    for (op, a), rq, i, m, s in zip(cases, reqs, impl, model, spec):
        ctx.count("eval_" + op)
        if nontrivial(op, a):
            ctx.nontrivial(rq)
        if in_domain(op, a):
            if i != m:
                ctx.disagree(op, rq, i, m)
            evaluate(ctx, op, a, i, s)
        else:
            ctx.count("out_of_domain")
            if i != m:
                ood += 1
                if ood <= 5:
                    ctx.note(f"argument outside the iN representations (not part of the property): {rq}: impl {i}, model {m}")
    for k in (0, 6, len(cases) // 3, len(cases) // 2, len(cases) - 1):
        ctx.sample({"request": reqs[k], "impl": impl[k], "model": model[k], "spec": spec[k]})


# ---------------------------------------------------------------------------------------------------------------
# whole modules: real ppci (python / native target) against the reference interpreter Spec.Wasm


def native_split(task, parsed):
    """native target, operator matrix: a division that traps in the specification kills the process (SIGFPE); such calls are
    run in one-function modules of their own (a few per opcode), the rest in the big module"""
    inst, outs, final = parsed
    safe, danger = [], {}
    for k, c in enumerate(task["calls"]):
        spec = outs[k] if k < len(outs) else None
        divlike = any(x in c[2] for x in (".div_", ".rem_"))
        n = 32 if c[2].startswith("i32") else 64
        overflow = divlike and len(c[1]) == 2 and c[1][0] == 1 << (n - 1) and c[1][1] == (1 << n) - 1
        if (spec and spec[0] == "trap" and ("divide" in spec[1] or "division" in spec[1])) or overflow:
            danger.setdefault(c[2], []).append(k)
        else:
            safe.append(k)
    parts = [(dict(task, id=task["id"] + "-safe", calls=[task["calls"][k] for k in safe]), (inst, [outs[k] for k in safe], None))]
    for label, ks in danger.items():
        ov = [k for k in ks if task["calls"][k][1][1] != 0][:1]
        ks = sorted(set(ks[:1] + ks[-1:] + ov))
        d = R_.single_op_module(label)
        sub = dict(task, id=f"ops-{label}", desc=d, calls=[(0, task["calls"][k][1], label) for k in ks], nofinal=True)
        parts.append((sub, (inst, [outs[k] for k in ks], None)))
    return parts


def thin_for_native(task):
    st = task.get("native_stride")
    return dict(task, calls=task["calls"][::st]) if st else task


def run_tasks(ctx, tasks, targets, budget=240, workers=4):
    """reference run (Lean) + real runs (worker processes) + comparison; every difference goes to ctx.fail.
    `tasks`: list of task dicts; a task with "targets" runs only on those."""
    from harness.common import BrokenCheck
    failed_ops = {}
    todo = []          # (task, target)
    for target in targets:
        for t in tasks:
            if target in t.get("targets", targets):
                todo.append((thin_for_native(t) if target == "native" else t, target))
    # one reference run per distinct task (the native variant of a thinned task is a different request)
    reqs, index = [], {}
    for t, _target in todo:
        if id(t) not in index:
            index[id(t)] = len(reqs)
            reqs.append(G_.request(G_.prepare(t["desc"]), [(c[0], c[1]) for c in t["calls"]], R_.FUEL))
    import time as _time
    t0 = _time.time()
    replies = ctx.driver("C22", reqs)
    t1 = _time.time()
    plan = []          # (task, target, parsed)
    for t, target in todo:
        rep = replies[index[id(t)]]
        parsed = R_.parse_reply(rep)
        if parsed[0][0] == "bad" or str(parsed[0]).startswith("inst-stuck") or any(o[0] == "stuck" for o in parsed[1]):
            raise BrokenCheck(f"the reference interpreter rejected generated task {t['id']} (generator bug): {rep[:300]}")
        if target == "native" and t["kind"] == "ops":
            for sub, sp in native_split(t, parsed):
                plan.append((sub, target, sp))
        else:
            plan.append((t, target, parsed))
    jobs = [X_.Job((t["id"], target), t["desc"], target, [(c[0], c[1]) for c in t["calls"]], t.get("stateless", False),
                   120 if t["kind"] == "program" else budget, after=t.get("after"), twice=t.get("twice", False))
            for t, target, _p in plan]
    X_.warm(targets)
    X_.run_jobs(jobs, workers=workers)
    t2 = _time.time()
    ctx.extra_cov.setdefault("timing_s", {}).update({"reference_interpreter": round(t1 - t0, 1), "ppci_workers": round(t2 - t1, 1)})
    first = {}

    deferred = []

    def report(sig, what, case, **detail):
        ctx.count("fail_" + sig.split(":")[0])
        if sig not in first:
            first[sig] = 1
            tgt, label, cls = sig.split(":", 2)
            if label == "program" and "labels" in case and not cls.startswith("instantiate-") and len(deferred) < 2:
                deferred.append((sig, what, case, detail))      # reduced below to the instruction sequence responsible
            else:
                ctx.fail(sig, what, case, **detail)
    # the operator matrix first (attribution of pattern failures to their leading opcode)
    order = sorted(range(len(plan)), key=lambda i: 0 if plan[i][0]["kind"] == "ops" else 1)
    for i in order:
        t, target, parsed = plan[i]
        cnt = R_.evaluate(t, target, jobs[i], parsed, report, failed_ops)
        ctx.count(f"eval_{target}_{t['kind']}", cnt["calls"])
        ctx.count(f"agree_{target}", cnt["agree"])
        for k in ("skipped_nan_bits", "skipped_oof", "skipped_known_region", "skipped_slow_instantiate"):
            if cnt.get(k):
                ctx.count(f"{k}_{target}", cnt[k])
        ctx.count("programs" if t["kind"] == "program" else "modules")
        for c in t["calls"][:: max(1, len(t["calls"]) // 50)]:
            ctx.nontrivial(f"{target}:{t['id']}:{c[2]}:{c[1]}")
    for sig, what, case, detail in deferred:
        # a failing random program: delta-debug it to the smallest module with the same difference class and name the
        # failure after the opcodes that are left ("<target>:<op;op;...>:<class>")
        tgt, _label, cls = sig.split(":", 2)
        try:
            d2, calls2, used = S_.shrink(case["module"], case["calls"], tgt, lambda lines: ctx.driver("C22", lines), cls, rounds=40, seconds=150)
            label = S_.opcode_label(d2) or "program"
            case = dict(case, module=d2, calls=[[c[0], list(c[1])] for c in calls2], labels=[label] * len(calls2), label=label,
                        original_module=case["module"], original_calls=case["calls"])
            what = what + f" [reduced in {used} rounds to calls {[[c[0], list(c[1])] for c in calls2]} of: {G_.to_sexp(d2)[:700]}]"
            sig = f"{tgt}:{label}:{cls}"
        except Exception as ex:  # noqa
            ctx.note(f"reduction of a failing random program failed: {type(ex).__name__}: {ex}"[:300])
        ctx.fail(sig, what, case, **detail)
    return plan, jobs


def module_tasks(ctx):
    """fixed part first (independent of the seed: boundary operator matrix, patterns = corpus incl. the inputs of every known
    finding), then the seeded part (random operands of the matrix, random programs)"""
    import random
    ops = G_.ops_task(ctx.rng, ctx.thorough)
    tasks = [ops]
    if ctx.thorough:
        # the native target gets the smaller (quick-tier) matrix: same fixed boundary part, fewer random operands
        ops["targets"] = ["python"]
        tasks.append(dict(G_.ops_task(random.Random(ctx.rng.getrandbits(32)), False), id="ops-native", targets=["native"]))
    tasks += G_.pattern_tasks(None, ctx.thorough)
    progs = G_.program_tasks(ctx.rng, 300 if ctx.thorough else 60)
    for k, p in enumerate(progs):
        if k >= 80:
            p["targets"] = ["python"]          # native compilation is slow: the first 80 programs only
    return tasks + progs


def check_modules(ctx):
    tasks = module_tasks(ctx)
    targets = ["python"] + (["native"] if ctx.thorough else [])
    plan, jobs = run_tasks(ctx, tasks, targets)
    progs = [t for t in tasks if t["kind"] == "program"]
    if progs:
        t = progs[0]
        ctx.sample({"random program": G_.to_wat(t["desc"])[:1500], "calls": [[c[0], list(c[1])] for c in t["calls"][:3]]})
    ops = tasks[0]
    ctx.sample({"operator matrix": f"{len(G_.NUMERIC)} numeric opcodes, {len(ops['calls'])} invocations", "first": [list(map(str, c)) for c in ops["calls"][:3]]})
    ctx.extra_cov["targets"] = targets
    ctx.extra_cov["native_target"] = "thorough tier only" if not ctx.thorough else "run"
    ctx.extra_cov["reference"] = "Spec.Wasm (Lean interpreter written from the specification); no reference engine (wasmtime) exists in the sandbox"


def check(ctx):
    check_helpers(ctx)
    check_modules(ctx)
    ctx.extra_cov["exhaustive"] = False
    ctx.extra_cov["covered_part"] = ("theorems: integer runtime helpers + interpreter meta-properties; sampled correspondence: whole modules on the python target "
                                     "(and the native target in the thorough tier) against Spec.Wasm")
    ctx.extra_cov["not_covered"] = ("imports, multiple memories/tables, table.* / memory.fill/copy/init, reference types, multi-value function results; "
                                    "whole-module conformance is sampled, not proved")


def replay(ctx, rp):
    case = rp.get("case") or {}
    if isinstance(case, dict) and "op" in case:
        from ppci.wasm.execution import runtime as R
        op, a = case["op"], tuple(case["args"])
        rq = op + " " + " ".join(str(x) for x in a)
        i = run(R, op, a)
        out = ctx.driver("C22", [rq, "spec." + rq])
        print(f"replay {op}{a}: impl={i} model={out[0]} spec={out[1]}")
        if i != out[0]:
            ctx.disagree(op, rq, i, out[0])
        evaluate(ctx, op, a, i, out[1])
    elif isinstance(case, dict) and "module" in case:
        label = case.get("label", "replay")
        labels = case.get("labels") or [label] * len(case.get("calls", []))
        t = G_.task("replay", case["module"], [(c[0], tuple(c[1]), l) for c, l in zip(case.get("calls", []), labels)], kind="pattern",
                    name=case.get("name", label),
                    after=case.get("after"), twice=case.get("twice", False))
        run_tasks(ctx, [t], [case.get("target", "python")])
        for f in ctx.failures:
            print("replay:", f["signature"], "-", f["what"][:300])
        if not ctx.failures:
            print("replay: ppci agrees with the specification on this input")
    else:
        check(ctx)
