"""C22 (sliver) WebAssembly integer runtime helpers: correspondence of Model.WasmRt with
ppci/wasm/execution/runtime.py and evaluation of "helper = wasm spec operator" on the real
functions (oracle: Spec.WasmInt on BitVec 32/64 through the driver)."""
from harness import c22_gen as G_
from harness import c22_exec as X_
from harness import c22_run as R_

PROP = "C22"
LEAN_PROPS = "PpciVerif/Props/C22.lean"
LEAN_TARGETS = ["PpciVerif.Props.C22", "Drivers.C22"]
LEVEL = "proof"
LEVEL_TEXT = (
    "PARTIAL. Lean theorems (suffix _partial) for ALL host integers: the integer helpers of ppci/wasm/execution/runtime.py - "
    "i32/i64_rotl, rotr, clz, ctz, popcnt, i32_extend8_s/16_s, i64_extend8_s/16_s/32_s (hand model Model.WasmRt = the same composition "
    "of the C39 bitfun model as in the source) - return the value of the WebAssembly specification's integer operator (irotl, irotr, "
    "iclz, ictz, ipopcnt, iextendM_s; Spec.WasmInt on BitVec 32/64, Lean core's bit-vector library as reference) applied to the iN values "
    "the arguments denote, read back signed (rotations, extensions) or as a count. NOT covered and not claimed: the wasm->IR "
    "translation, control flow, calls, locals/globals/memory, floating point, truncations, traps, instantiation, and both execution "
    "targets as a whole (the full statement is kept as `def execution_conforms_full`); no reference engine (wasmtime) exists in the sandbox.")
LEVEL_NOTE = (
    "trusted: Lean kernel; axioms propext/Classical.choice/Quot.sound; Lean core BitVec.rotateLeft/rotateRight/clz/ctz/cpop/signExtend as "
    "the reading of the wasm spec text (section 4.3.2); hand model <-> source correspondence is sampled (boundary and random i32/i64 values, "
    "every rotation count), not proved. Only a sliver of the property is decided: everything that is not an integer runtime helper is outside.")
TECHNIQUE = "Lean 4 proof (bridge from BitVec operators to bit-index definitions, reuse of the C39 theorems) over a hand model + differential correspondence with the Python functions"
RULE = (
    "per helper: boundary values of the width (0, +-1, min, max, 2^k, 2^k+-1, -2^k, alternating patterns) and random values in signed and "
    "unsigned representation; rotations: every count 0..N-1 for the boundary values, plus negative, >= N and random 32/64-bit counts; a few "
    "arguments outside [-2^(N-1), 2^N) (compared, a difference there is only a note). distinct = distinct (helper,args); non-trivial = "
    "value not in {0,-1} and, for rotations, count mod N != 0")
TRUSTED = [
    "hand model Model.WasmRt (composition of Model.Bitfun, see C39) of the integer helpers of ppci/wasm/execution/runtime.py, tied by differential run on every check",
    "Spec.WasmInt: wasm integer operators as Lean core BitVec operations (reading of the WebAssembly core specification 4.3.2)",
]
ASSUMPTIONS = [
    "host representation of an iN value is a Python int; the value it denotes is its residue mod 2^N (both the signed and the unsigned representative are accepted)",
    "CPython int semantics as in C39",
]

ROT = ["rotl", "rotr"]
UN = ["clz", "ctz", "popcnt"]
EXT = {"i32": [8, 16], "i64": [8, 16, 32]}


def values(rng, n, nrand):
    xs = {0, 1, -1, 2, -2, 3, (1 << (n - 1)) - 1, -(1 << (n - 1)), -(1 << (n - 1)) + 1, (1 << (n - 1)) - 2}
    for k in range(1, n):
        xs |= {1 << k, (1 << k) - 1, (1 << k) + 1, -(1 << k), -(1 << k) - 1, -(1 << k) + 1}
    m = (1 << n) - 1
    for pat in ("10", "01", "1100", "0011", "11110000", "0001"):
        p = int(pat * n, 2) & m
        xs.add(p)
    xs |= {rng.getrandbits(n) for _ in range(nrand)}
    xs |= {rng.getrandbits(rng.randint(1, n)) for _ in range(nrand)}
    out = set()
    for x in xs:
        x &= m
        out.add(x)                                  # unsigned representative
        out.add(x - (1 << n) if x >> (n - 1) else x)  # signed representative
    return sorted(out)


def gen_cases(ctx):
    rng = ctx.rng
    nrand = 300 if ctx.thorough else 40
    cases = [("i32_rotl", (-(1 << 31), 1)), ("i32_rotr", (1, -31)), ("i64_clz", (-1,)), ("i32_clz", (0,)), ("i64_ctz", (0,)),
             ("i32_popcnt", (-1,)), ("i32_extend8_s", (0x1280,)), ("i64_extend32_s", (0x80000000,)), ("i64_rotl", (1, 64)),
             ("i32_ctz", (-(1 << 31),)), ("i64_popcnt", (-(1 << 63),)), ("i32_extend16_s", (-32769,))]
    for ty, n in (("i32", 32), ("i64", 64)):
        vals = values(rng, n, nrand)
        bvals = values(rng, n, 0)
        for v in vals:
            for u in UN:
                cases.append((f"{ty}_{u}", (v,)))
            for m in EXT[ty]:
                cases.append((f"{ty}_extend{m}_s", (v,)))
            cnts = {0, 1, n - 1, n, n + 1, -1, -n, rng.randrange(n), rng.randrange(n), rng.getrandbits(n) - (1 << (n - 1)), rng.getrandbits(n)}
            for c in cnts:
                for r in ROT:
                    cases.append((f"{ty}_{r}", (v, c)))
        for v in bvals[:: 1 if ctx.thorough else 5]:
            for c in range(n):
                for r in ROT:
                    cases.append((f"{ty}_{r}", (v, c)))
        # outside the iN representations
        for v in [(1 << n) + 5, -(1 << n) - 7, (3 << n) | 0x80, rng.getrandbits(n + 20), -rng.getrandbits(n + 20)]:
            for u in UN:
                cases.append((f"{ty}_{u}", (v,)))
            for m in EXT[ty]:
                cases.append((f"{ty}_extend{m}_s", (v,)))
            for r in ROT:
                cases.append((f"{ty}_{r}", (v, rng.randrange(n))))
    return cases


def in_domain(op, a):
    n = 32 if op.startswith("i32") else 64
    return -(1 << (n - 1)) <= a[0] < (1 << n)


def run(R, op, a):
    try:
        r = getattr(R, op)(*a)
    except Exception as e:  # noqa
        return "err " + type(e).__name__
    if isinstance(r, bool) or not isinstance(r, int):
        return "ok <" + type(r).__name__ + ">"
    return f"ok {r}"


def evaluate(ctx, op, a, impl, spec):
    if impl == spec:
        return
    case = {"op": op, "args": list(a)}
    if impl.startswith("err"):
        cls = "raises-" + impl[4:]
    elif not impl[3:].lstrip("-").isdigit():
        cls = "not-an-int"
    else:
        n = 32 if op.startswith("i32") else 64
        cls = "wrong-representative" if ("rot" in op or "extend" in op) and (int(impl[3:]) - int(spec[3:])) % (1 << n) == 0 else "wrong-value"
    ctx.fail(f"{op}:{cls}", f"{op}{tuple(a)} -> {impl}, wasm operator gives {spec[3:]}", case, impl=impl, spec=spec)


def nontrivial(op, a):
    if a[0] in (0, -1):
        return False
    n = 32 if op.startswith("i32") else 64
    return not ("rot" in op and a[1] % n == 0)


def check_helpers(ctx):
    from ppci.wasm.execution import runtime as R
    cases = list(dict.fromkeys(gen_cases(ctx)))
    reqs = [op + " " + " ".join(str(x) for x in a) for op, a in cases]
    impl = [run(R, op, a) for op, a in cases]
    out = ctx.driver("C22", reqs + ["spec." + r for r in reqs])
    model, spec = out[: len(reqs)], out[len(reqs):]
    if "bad-op" in out:
        from harness.common import BrokenCheck
        raise BrokenCheck("driver rejected a request: " + str([q for q, m in zip(reqs + reqs, out) if m == "bad-op"][:3]))
    ood = 0
    for (op, a), rq, i, m, s in zip(cases, reqs, impl, model, spec):
        ctx.count("eval_" + op)
        if nontrivial(op, a):
            ctx.nontrivial(rq)
        if in_domain(op, a):
            if i != m:
                ctx.disagree(op, rq, i, m)
            evaluate(ctx, op, a, i, s)
        else:
            ctx.count("out_of_domain")
            if i != m:
                ood += 1
                if ood <= 5:
                    ctx.note(f"argument outside the iN representations (not part of the property): {rq}: impl {i}, model {m}")
    for k in (0, 6, len(cases) // 3, len(cases) // 2, len(cases) - 1):
        ctx.sample({"request": reqs[k], "impl": impl[k], "model": model[k], "spec": spec[k]})


# ---------------------------------------------------------------------------------------------------------------
# whole modules: real ppci (python / native target) against the reference interpreter Spec.Wasm


def native_split(task, parsed):
    """native target, operator matrix: a division that traps in the specification kills the process (SIGFPE); such calls are
    run in one-function modules of their own (a few per opcode), the rest in the big module"""
    inst, outs, final = parsed
    safe, danger = [], {}
    for k, c in enumerate(task["calls"]):
        spec = outs[k] if k < len(outs) else None
        if spec and spec[0] == "trap" and ("divide" in spec[1] or "division" in spec[1]):
            danger.setdefault(c[2], []).append(k)
        else:
            safe.append(k)
    parts = [(dict(task, id=task["id"] + "-safe", calls=[task["calls"][k] for k in safe]), (inst, [outs[k] for k in safe], None))]
    for label, ks in danger.items():
        ks = ks[:1] + ks[-2:]
        d = R_.single_op_module(label)
        sub = dict(task, id=f"ops-{label}", desc=d, calls=[(0, task["calls"][k][1], label) for k in ks], nofinal=True)
        parts.append((sub, (inst, [outs[k] for k in ks], None)))
    return parts


def thin_for_native(task):
    st = task.get("native_stride")
    return dict(task, calls=task["calls"][::st]) if st else task


def run_tasks(ctx, tasks, targets, budget=240, workers=4):
    """reference run (Lean) + real runs (forked children) + comparison; every difference goes to ctx.fail"""
    from harness.common import BrokenCheck
    failed_ops = {}
    plan = []          # (task, target, parsed)
    for target in targets:
        ts = [thin_for_native(t) if target == "native" else t for t in tasks]
        reqs = [G_.request(G_.prepare(t["desc"]), [(c[0], c[1]) for c in t["calls"]], R_.FUEL) for t in ts]
        replies = ctx.driver("C22", reqs)
        for t, rep in zip(ts, replies):
            parsed = R_.parse_reply(rep)
            if parsed[0][0] == "bad" or str(parsed[0]).startswith("inst-stuck") or any(o[0] == "stuck" for o in parsed[1]):
                raise BrokenCheck(f"the reference interpreter rejected generated task {t['id']} (generator bug): {rep[:300]}")
            if target == "native" and t["kind"] == "ops":
                for sub, sp in native_split(t, parsed):
                    plan.append((sub, target, sp))
            else:
                plan.append((t, target, parsed))
    jobs = [X_.Job((t["id"], target), t["desc"], target, [(c[0], c[1]) for c in t["calls"]], t.get("stateless", False),
                   40 if t["kind"] == "program" else budget)
            for t, target, _p in plan]
    X_.run_jobs(jobs, workers=workers)
    first = {}

    def report(sig, what, case, **detail):
        ctx.count("fail_" + sig.split(":")[0])
        if sig not in first:
            first[sig] = 1
            ctx.fail(sig, what, case, **detail)
    # the operator matrix first (attribution of pattern failures to their leading opcode)
    order = sorted(range(len(plan)), key=lambda i: 0 if plan[i][0]["kind"] == "ops" else 1)
    for i in order:
        t, target, parsed = plan[i]
        cnt = R_.evaluate(t, target, jobs[i], parsed, report, failed_ops)
        ctx.count(f"eval_{target}_{t['kind']}", cnt["calls"])
        ctx.count(f"agree_{target}", cnt["agree"])
        for k in ("skipped_nan_bits", "skipped_oof", "skipped_known_region"):
            if cnt[k]:
                ctx.count(f"{k}_{target}", cnt[k])
        ctx.count("programs" if t["kind"] == "program" else "modules")
        for c in t["calls"][:: max(1, len(t["calls"]) // 50)]:
            ctx.nontrivial(f"{target}:{t['id']}:{c[2]}:{c[1]}")
    return plan, jobs


def module_tasks(ctx):
    """fixed part first (independent of the seed: boundary operator matrix, patterns = corpus incl. the inputs of every known
    finding), then the seeded part (random operands of the matrix, random programs)"""
    tasks = [G_.ops_task(ctx.rng, ctx.thorough)] + G_.pattern_tasks()
    tasks += G_.program_tasks(ctx.rng, 400 if ctx.thorough else 70)
    return tasks


def check_modules(ctx):
    tasks = module_tasks(ctx)
    targets = ["python"] + (["native"] if ctx.thorough else [])
    plan, jobs = run_tasks(ctx, tasks, targets)
    progs = [t for t in tasks if t["kind"] == "program"]
    if progs:
        t = progs[0]
        ctx.sample({"random program": G_.to_wat(t["desc"])[:1500], "calls": [[c[0], list(c[1])] for c in t["calls"][:3]]})
    ops = tasks[0]
    ctx.sample({"operator matrix": f"{len(G_.NUMERIC)} numeric opcodes, {len(ops['calls'])} invocations", "first": [list(map(str, c)) for c in ops["calls"][:3]]})
    ctx.extra_cov["targets"] = targets
    ctx.extra_cov["native_target"] = "thorough tier only" if not ctx.thorough else "run"
    ctx.extra_cov["reference"] = "Spec.Wasm (Lean interpreter written from the specification); no reference engine (wasmtime) exists in the sandbox"


def check(ctx):
    check_helpers(ctx)
    check_modules(ctx)
    ctx.extra_cov["exhaustive"] = False
    ctx.extra_cov["covered_part"] = ("theorems: integer runtime helpers + interpreter meta-properties; sampled correspondence: whole modules on the python target "
                                     "(and the native target in the thorough tier) against Spec.Wasm")
    ctx.extra_cov["not_covered"] = ("imports, multiple memories/tables, table.* / memory.fill/copy/init, reference types, multi-value function results; "
                                    "whole-module conformance is sampled, not proved")


def replay(ctx, rp):
    case = rp.get("case") or {}
    if isinstance(case, dict) and "op" in case:
        from ppci.wasm.execution import runtime as R
        op, a = case["op"], tuple(case["args"])
        rq = op + " " + " ".join(str(x) for x in a)
        i = run(R, op, a)
        out = ctx.driver("C22", [rq, "spec." + rq])
        print(f"replay {op}{a}: impl={i} model={out[0]} spec={out[1]}")
        if i != out[0]:
            ctx.disagree(op, rq, i, out[0])
        evaluate(ctx, op, a, i, out[1])
    elif isinstance(case, dict) and "module" in case:
        label = case.get("label", "replay")
        t = G_.task("replay", case["module"], [(c[0], tuple(c[1]), label) for c in case.get("calls", [])], kind="pattern", name=label)
        run_tasks(ctx, [t], [case.get("target", "python")])
        for f in ctx.failures:
            print("replay:", f["signature"], "-", f["what"][:300])
        if not ctx.failures:
            print("replay: ppci agrees with the specification on this input")
    else:
        check(ctx)
