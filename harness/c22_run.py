"""C22: compare the outcome of the real ppci execution (c22_exec) with the reference interpreter Spec.Wasm (replies of
the Lean driver) and classify every difference into a signature "<target>:<instruction or pattern>:<class>"."""
import struct

from . import c22_gen as G
from . import c22_exec as X

FUEL = 60000


def parse_reply(reply):
    """-> (inst, [call outcomes], final) ; outcome = ("v", [bits], nanflag) | ("trap", why, nanflag) | ("oof",) | ("stuck", why)"""
    if not reply.startswith("ok "):
        return ("bad", reply), [], None
    head, _, tail = reply[3:].partition(" | ")
    ws = head.split()
    inst = ws[0]
    outs = []
    for w in ws[1:]:
        haz = 0
        if "~" in w:
            w, _, h = w.partition("~")
            haz = int(h)
        nan = w.endswith("!")
        if nan:
            w = w[:-1]
        if w.startswith("v:"):
            outs.append(("v", [int(x) for x in w[2:].split(",") if x], nan, haz))
        elif w.startswith("trap/"):
            outs.append(("trap", w[5:], nan, haz))
        elif w == "oof":
            outs.append(("oof",))
        else:
            outs.append(("stuck", w))
    final = None
    if tail:
        f = dict(x.split(":", 1) for x in tail.split())
        pages, _, runs = f["m"].partition(":")
        mem = {}
        for r in runs.split(";"):
            if r:
                a, _, h = r.partition("=")
                mem[a] = h
        final = {"globals": [int(x) for x in f["g"].split(",") if x], "mem": [int(pages), mem], "nan": f["nan"] == "1"}
    return inst, outs, final


def f32_round_bits(f64bits):
    """bits of the binary32 nearest to the Python float with these binary64 bits (None: not finite in binary32)"""
    x = G.bits_f64(f64bits)
    try:
        return G.f32_bits(x)
    except OverflowError:
        return None


def cmp_value(t, spec_bits, impl, args_nan, args_inf):
    """None if equal, else a class string"""
    kind, v = impl
    if kind == "t":
        return "result-type-" + str(v)
    if t in G.INTS:
        n = G.BITS[t]
        if kind != "i":
            return "result-type-float"
        if not (-(1 << (n - 1)) <= v < (1 << n)):
            return "result-out-of-range"
        if v % (1 << n) == spec_bits:
            return None
        return "nan-operand" if args_nan else "wrong-value"
    # float result
    if kind == "i":
        return "result-type-int"
    if t == "f64":
        if v == spec_bits or (G.is_nan("f64", v) and G.is_nan("f64", spec_bits)):
            return None
        if G.is_nan("f64", v) != G.is_nan("f64", spec_bits):
            return "nan-operand" if args_nan else "nan-result"
        if (v ^ spec_bits) == 1 << 63 and (v << 1) & ((1 << 64) - 1) == 0:
            return "zero-sign"
        if args_nan:
            return "nan-operand"
        return "inf-operand" if args_inf else "wrong-value"
    # f32: the host value is a Python float
    if G.is_nan("f64", v):
        if G.is_nan("f32", spec_bits):
            return None
        return "nan-operand" if args_nan else "nan-result"
    if G.is_nan("f32", spec_bits):
        return "nan-operand" if args_nan else "nan-result"
    r = f32_round_bits(v)
    exact = r is not None and G.f64_bits(G.bits_f32(r)) == v
    if exact:
        if r == spec_bits:
            return None
        if (r ^ spec_bits) == 1 << 31 and (r << 1) & 0xFFFFFFFF == 0:
            return "zero-sign"
        if args_nan:
            return "nan-operand"
        return "inf-operand" if args_inf else "wrong-value"
    # the host value is not a binary32 number at all
    if r == spec_bits or (r is None and G.is_inf("f32", spec_bits)):
        return "f32-not-rounded"
    if args_nan:
        return "nan-operand"
    return "inf-operand" if args_inf else "wrong-value"


def classify_call(ptypes, rtypes, args, spec, impl):
    """None if the call agrees, else (class, tolerant?) — tolerant: only because computed NaN bits were observed"""
    args_nan = any(G.is_nan(t, b) for t, b in zip(ptypes, args))
    args_inf = any(G.is_inf(t, b) for t, b in zip(ptypes, args))
    if impl[0] == "timeout":
        return "timeout"
    if impl[0].startswith("crash-"):      # the process died (the signal is in the text, not in the signature)
        return "trap-as-crash" if spec[0] == "trap" else "crash"
    if spec[0] == "trap":
        if impl[0] == "exc":
            return None if impl[1] in X.TRAP_NAMES else "trap-as-" + impl[1]
        return "trap-missing"
    # spec has values
    if impl[0] == "exc":
        return "spurious-trap" if impl[1] in X.TRAP_NAMES else "raises-" + impl[1]
    vals = impl[1]
    if not rtypes:
        return None          # no results: whatever the host call returns is not a wasm result
    if len(vals) != len(rtypes):
        return "result-count"
    for t, sb, iv in zip(rtypes, spec[1], vals):
        c = cmp_value(t, sb, iv, args_nan, args_inf)
        if c:
            return c
    return None


# Regions of the input space where ppci has OPEN known findings (recorded precisely by the operator matrix and the
# patterns, see findings/C22.json).  A random program whose *reference* execution enters such a region is not compared
# from that call on (its state may legitimately have diverged); everything before is compared.
KNOWN_HAZARDS = {"python": {2: "f32 arithmetic is evaluated in double precision and not rounded",
                            4: "float division by zero raises a spurious trap"},
                 "native": {1: "float comparison with a NaN operand"}}
KNOWN_TRAPS = {"python": ("integer-overflow-in-division", "out-of-bounds-memory-access", "undefined-element", "uninitialized-element",
                          "indirect-call-type-mismatch"),
               "native": None}    # None: every trap (the native target has no working trap at all)


def known_region(target, spec):
    """reason string if this reference outcome lies in a region with an open known finding for `target`"""
    if spec[0] == "trap":
        kt = KNOWN_TRAPS[target]
        if kt is None or spec[1] in kt:
            return "trap:" + spec[1]
    for bit, why in KNOWN_HAZARDS[target].items():
        if spec[3] & bit:
            return "hazard:" + str(bit)
    return None


def component(label):
    """leading numeric opcode of a pattern label ("f64.lt;i32.eqz;if" -> "f64.lt"), None if there is none"""
    head = label.split(";")[0].split("[")[0]
    return head if head in G.NUMERIC and head != label else None


def evaluate(task, target, job, parsed, report, failed_ops=None):
    """compare one (task, target).  `parsed` = parse_reply(...) of the reference run.  report(signature, what, case, **detail)
    is called per failing call.  `failed_ops`: {(target, opcode, args): class} of the operator matrix — filled for kind "ops",
    consulted for patterns: a pattern that fails on operands on which its leading opcode alone already fails is attributed to
    that opcode's signature.  Returns a dict of counters."""
    d = task["desc"]
    cnt = {"calls": 0, "agree": 0, "skipped_nan_bits": 0, "skipped_oof": 0, "skipped_known_region": 0}
    inst, outs, final = parsed
    name0 = task.get("name", task["id"])
    case0 = {"task": task["id"], "target": target}
    if task.get("after") is not None:
        case0["after"] = task["after"]
    if task.get("twice"):
        case0["twice"] = True
    allcalls = [[c[0], list(c[1])] for c in task["calls"]]
    alllabels = [c[2] for c in task["calls"]]
    case0["name"] = name0
    if inst[0] == "bad" or inst.startswith("inst-stuck"):
        raise RuntimeError(f"reference interpreter rejected task {task['id']}: {inst}")
    ji = job.inst or {"inst": "no-reply"}
    if inst != "inst-ok":
        if inst == "inst-oof":
            cnt["skipped_oof"] += 1
            return cnt
        cnt["calls"] += 1
        if ji["inst"] == "exc" and ji.get("name") in X.TRAP_NAMES:
            cnt["agree"] += 1
        else:
            cls = "trap-missing" if ji["inst"] == "ok" else ("trap-as-" + ji.get("name", ji["inst"]))
            report(f"{target}:{name0}:instantiate-{cls}", f"instantiation must trap ({inst}), ppci: {ji}", dict(case0, module=d, calls=[]))
        return cnt
    if ji["inst"] == "timeout":
        cnt["skipped_slow_instantiate"] = 1      # compile time under load, not a verdict
        return cnt
    if ji["inst"] != "ok":
        cls = "raises-" + ji["name"] if ji["inst"] == "exc" else ji["inst"]
        report(f"{target}:{name0}:instantiate-{cls}", f"instantiate(target={target!r}) fails: {ji}", dict(case0, module=d, calls=[]))
        return cnt
    tolerant = False
    complete = True
    for k, (fi, args, label) in enumerate(task["calls"]):
        if k >= len(outs):
            complete = False
            break
        spec = outs[k]
        if spec[0] == "oof":
            cnt["skipped_oof"] += 1
            complete = False
            break
        if spec[0] == "stuck":
            raise RuntimeError(f"reference interpreter stuck in task {task['id']} call {k}: {spec}")
        if task["kind"] == "program":
            why = known_region(target, spec)
            if why:
                cnt["skipped_known_region"] += len(task["calls"]) - k
                complete = False
                break
        if k not in job.results:
            complete = False
            break
        impl = job.results[k]
        cnt["calls"] += 1
        ft = d["types"][d["funcs"][fi]["type"]]
        cls = classify_call(ft[0], ft[1], args, spec, impl)
        if cls is None:
            cnt["agree"] += 1
        elif (tolerant or spec[2]) and cls in ("wrong-value", "nan-operand", "nan-result", "zero-sign"):
            cnt["skipped_nan_bits"] += 1
        else:
            sig_label, sig_cls = label, cls
            if task["kind"] == "ops" and failed_ops is not None:
                failed_ops[(target, label, tuple(args))] = cls
            comp = component(label)
            if comp and failed_ops and (target, comp, tuple(args)) in failed_ops:
                sig_label, sig_cls = comp, failed_ops[(target, comp, tuple(args))]
            what = (f"{label}({', '.join(show(t, b) for t, b in zip(ft[0], args))}) on target {target}: ppci gives {show_impl(ft[1], impl)}, "
                    f"the specification gives {show_spec(ft[1], spec)}")
            if task["kind"] == "ops":
                case = dict(case0, module=single_op_module(label), calls=[[0, list(args)]], label=label)
            elif task.get("stateless"):
                case = dict(case0, module=d, calls=[[fi, list(args)]], label=label)
            else:
                case = dict(case0, module=d, calls=allcalls[:k + 1], labels=alllabels[:k + 1], label=label)
            report(f"{target}:{sig_label}:{sig_cls}", what, case, impl=impl, spec=list(spec))
        if not task.get("stateless"):
            tolerant = tolerant or bool(spec[2])      # NaN bits may sit in memory / globals from now on
        if impl[0] == "timeout" or impl[0].startswith("crash-"):
            if not task.get("stateless"):
                return cnt
    # final state (only when every call was executed and compared on both sides)
    if complete and not task.get("nofinal") and final is not None and job.final is not None:
        tol = tolerant or final["nan"]
        jm = job.final.get("mem")
        case = dict(case0, module=d, calls=allcalls, labels=alllabels, label=name0)
        if d.get("mem") is not None:
            cnt["calls"] += 1
            if not isinstance(jm, list) or len(jm) != 2 or not isinstance(jm[1], dict):
                report(f"{target}:{name0}:memory-read-{'-'.join(str(x) for x in (jm or ['none'])[:2])}", f"reading the exported memory failed: {jm}", case)
            elif jm[0] != final["mem"][0]:
                report(f"{target}:{name0}:memory-size", f"exported memory has {jm[0]} pages, the specification gives {final['mem'][0]}", case)
            elif jm[1] != final["mem"][1]:
                if tol:
                    cnt["skipped_nan_bits"] += 1
                else:
                    diff = {a: (jm[1].get(a), final["mem"][1].get(a)) for a in sorted(set(jm[1]) | set(final["mem"][1]), key=int)
                            if jm[1].get(a) != final["mem"][1].get(a)}
                    report(f"{target}:{name0}:memory-differs", f"final memory differs (addr: ppci, specification): {trim(diff)}", case)
            else:
                cnt["agree"] += 1
        for gi, (g, sb) in enumerate(zip(d.get("globals", []), final["globals"])):
            ig = job.final["globals"][gi] if gi < len(job.final["globals"]) else ["exc", "missing", ""]
            cnt["calls"] += 1
            cls = classify_call([], [g[0]], [], ("v", [sb], False, 0), ig)
            if cls is None:
                cnt["agree"] += 1
            elif tol and cls in ("wrong-value", "nan-result", "zero-sign"):
                cnt["skipped_nan_bits"] += 1
            else:
                report(f"{target}:{name0}:global-{g[0]}-{cls}", f"exported global {gi} ({g[0]}): ppci {ig}, specification bits {sb}", dict(case, glob=gi))
    return cnt


def trim(m, n=6):
    items = sorted(m.items(), key=lambda kv: int(kv[0]))
    return dict(items[:n])


def show(t, bits):
    if t in G.INTS:
        return f"{t}:{G.to_host(t, bits)}"
    return f"{t}:{G.to_host(t, bits)!r}[{bits:#x}]"


def show_spec(rtypes, spec):
    if spec[0] == "trap":
        return "trap (" + spec[1] + ")"
    return "[" + ", ".join(show(t, b) for t, b in zip(rtypes, spec[1])) + "]"


def show_impl(rtypes, impl):
    if impl[0] != "v":
        return " ".join(str(x) for x in impl)
    out = []
    for t, (k, v) in zip(rtypes, impl[1]):
        out.append(f"{t}:{v}" if k != "f" else f"{t}:{struct.unpack('<d', struct.pack('<Q', v))[0]!r}")
    return "[" + ", ".join(out) + "]"


def single_op_module(op):
    """the one-function module for a numeric opcode (replay input of the operator matrix)"""
    params, results = G.NUMERIC[op]
    d = G.new_module()
    G.add_func(d, params, results, [], [["local.get", k] for k in range(len(params))] + [[op]])
    return d
