"""C33 IntegerSet: correspondence of Model.IntSet with ppci/utils/integer_set.py and evaluation of
the property on the real class against set-of-integers semantics computed independently
(Python `set` on the small universe, a breakpoint sweep for big integers, and the Lean
`Spec.IntSet` through the driver)."""
import bisect as _bisect
import itertools
import signal

from . import common

PROP = "C33"
LEAN_PROPS = "PpciVerif/Props/C33.lean"
LEAN_TARGETS = ["PpciVerif.Props.C33", "Drivers.C33"]
LEVEL = "proof"
LEVEL_TEXT = (
    "Lean theorems, for ALL lists of integer ranges and all integers (no bound): the constructor (filter empty, sort, "
    "merge_overlapping_intervals) yields the canonical form (non-empty, ascending, non-overlapping, non-adjacent ranges) and denotes "
    "exactly the union of its input ranges; union/intersection/difference/symmetric_difference return canonical results that denote "
    "the set-theoretic operation; contains (bisect) <-> membership; __iter__ is the unique strictly ascending enumeration of the members; "
    "cardinality = number of members (length of that enumeration = Set.ncard); empty() <-> no member; two canonical lists with the same "
    "members are equal, so __eq__ is set equality; a closure theorem states all of this for every object reachable from constructor "
    "calls through | & - ^ with no hypothesis. The while loops of intersection/difference/bisect are well-founded recursions "
    "(termination proved). The model is hand-written and tied to ppci/utils/integer_set.py by a differential run on every check "
    "(every pair of subsets of a 7-element universe, random sets to +-2^70).")
LEVEL_NOTE = (
    "trusted: Lean kernel; axioms propext/Classical.choice/Quot.sound; hand model <-> source correspondence is sampled/enumerated "
    "(exhaustive on the 7-element universe in the thorough tier), not proved; CPython tuple comparison, sorted(), bisect, range; "
    "__hash__ (= hash(ranges)) and __len__ (CPython raises OverflowError above sys.maxsize; cardinality() is what is proved) are only tested")
TECHNIQUE = "Lean 4 proof by functional induction over a hand model + differential correspondence with the Python class"
RULE = (
    "sets: every subset of U={-3..3} (128), each written as a shuffled list of possibly overlapping/adjacent/nested/duplicated/empty input "
    "ranges (ints for some singletons); every ordered pair of subsets (16384, thorough: 2 independent spellings each; quick: 3000 sampled "
    "pairs); every list of <=3 ranges with endpoints in a 7-value window through the constructor (quick: <=2 ranges over 7 values, <=3 over 4 values); random lists "
    "of 0..10 ranges with endpoints up to +-2^70 that share/abut endpoints; fixed corpus of boundary cases. Operations: constructor, "
    "| & - ^, ==, hash, contains, bisect index, iteration, cardinality/len, empty/bool. distinct = distinct request line; non-trivial = an "
    "operand whose spelling differs from its canonical form, or a result with >= 2 ranges")
TRUSTED = [
    "hand model Model.IntSet of ppci/utils/integer_set.py (insertion sort stands for sorted(); (value,) < (a,b) modelled as value <= a), "
    "tied by differential run on every check",
    "Spec.IntSet (Mem = lies in one of the ranges; Canon = a_i <= b_i and b_i + 1 < a_{i+1}); validated against Python set() on every run",
]
ASSUMPTIONS = [
    "sorted() on tuples of ints returns the ascending lexicographic permutation",
    "bisect.bisect(ranges, (v,)) is bisect_right with CPython tuple ordering ((v,) < (a,b) iff v <= a)",
    "IntegerSet.ranges is only ever assigned by __init__ (no external mutation), so Canon is a class invariant",
    "arguments are ints or 2-tuples of ints (the int(...) conversion of other types is not modelled)",
]

U = list(range(-3, 4))
OPS = [("union", "union", "|"), ("inter", "intersection", "&"), ("diff", "difference", "-"), ("sym", "symmetric_difference", "^")]

# fixed corpus: (rawA, rawB) boundary cases; always runs first
CORPUS = [
    ([], []), ([(1, 1)], []), ([], [(1, 1)]), ([(3, 2)], [(5, 1)]),
    ([(1, 2), (3, 4)], [(2, 3)]), ([(1, 2), (4, 5)], [(3, 3)]), ([(1, 5)], [(1, 5)]), ([(1, 5)], [(2, 4)]),
    ([(1, 5)], [(1, 1)]), ([(1, 5)], [(5, 5)]), ([(1, 5)], [(0, 0)]), ([(1, 5)], [(6, 6)]), ([(1, 5)], [(6, 9)]),
    ([(1, 5)], [(7, 9)]), ([(1, 5)], [(-3, 0)]), ([(1, 5)], [(-3, -1)]), ([(1, 5)], [(0, 1)]), ([(1, 5)], [(5, 6)]),
    ([(1, 10)], [(2, 3), (5, 6), (8, 9)]), ([(1, 2), (4, 5), (7, 8)], [(2, 7)]), ([(1, 2), (4, 5), (7, 8)], [(3, 3), (6, 6)]),
    ([(1, 3), (5, 7)], [(3, 5)]), ([(1, 3), (5, 7)], [(4, 4)]), ([(0, 0), (2, 2), (4, 4)], [(1, 1), (3, 3)]),
    ([(5, 7), (1, 3), (4, 4), (9, 8), (6, 10), (13, 13)], [(10, 13)]), ([(1, 5), (2, 3), (2, 9), (2, 2)], [(1, 1), (1, 9)]),
    ([(-(1 << 70), -(1 << 70) + 1), ((1 << 70) - 1, 1 << 70)], [(-(1 << 70) + 1, (1 << 70) - 1)]),
    ([(-(1 << 64), 1 << 64)], [(-1, -1), (0, 0), (1, 1)]), ([((1 << 63) - 1, (1 << 63) - 1), (1 << 63, 1 << 63)], [(1 << 63, (1 << 63) + 1)]),
    ([(0, 0), (0, 0), (0, 0)], [(0, 0)]), ([(-1, -1), (1, 1)], [(0, 0)]), ([(2, 4), (2, 3), (2, 5)], [(2, 2)]),
]


# ---------------------------------------------------------------------------------------------
# independent semantics

def in_raw(raw, v):
    return any(a <= v <= b for a, b in raw)


def sweep(raws, pred):
    """Canonical range list of {v | pred(v)} where pred is a Boolean combination of membership in the
    range lists `raws`: membership is constant between consecutive breakpoints {a, b+1}."""
    pts = sorted({p for raw in raws for a, b in raw if a <= b for p in (a, b + 1)})
    out = []
    for p, q in zip(pts, pts[1:]):
        if pred(p):
            if out and out[-1][1] + 1 == p:
                out[-1] = (out[-1][0], q - 1)
            else:
                out.append((p, q - 1))
    return out


def runs(points):
    """canonical range list of a finite Python set of ints"""
    out = []
    for v in sorted(points):
        if out and out[-1][1] + 1 == v:
            out[-1] = (out[-1][0], v)
        else:
            out.append((v, v))
    return out


def pyset(raw):
    s = set()
    for a, b in raw:
        s |= set(range(a, b + 1))
    return s


def noncanon_kind(rs):
    for a, b in rs:
        if a > b:
            return "empty-range"
    for (a, b), (c, d) in zip(rs, rs[1:]):
        if c < a:
            return "unsorted"
        if c <= b:
            return "overlapping"
        if c == b + 1:
            return "adjacent"
    return None


SEM = {
    "union": lambda x, y: x or y, "inter": lambda x, y: x and y,
    "diff": lambda x, y: x and not y, "sym": lambda x, y: x != y,
}


# ---------------------------------------------------------------------------------------------
# calling the real class

class Timeout(Exception):
    pass


ARMED = [False]
INSTALLED = [False]
TIMEOUTS = {}


def _alarm(_sig, _frm):
    if ARMED[0]:
        ARMED[0] = False
        raise Timeout()


def _site(f):
    g = getattr(f, "__func__", f)
    c = getattr(g, "__code__", None)
    return (c.co_filename.rsplit("/", 1)[-1], c.co_name, c.co_firstlineno) if c else getattr(f, "__name__", "?")


def guarded(f, *a):
    """('ok', value) | ('err', ExceptionName) | ('err', 'Timeout') when the call uses more than 0.3 s of CPU time
    (retried once with 1 s; process CPU time, so machine load cannot cause a false timeout).  A call site that has timed out 20 times is not called any more
    (('skip', None)): a change that makes a loop spin forever must not stall the check for hours."""
    key = _site(f)
    if TIMEOUTS.get(key, 0) >= 20:
        return ("skip", None)
    if not INSTALLED[0]:
        signal.signal(signal.SIGVTALRM, _alarm)
        INSTALLED[0] = True
    if True:
        for budget in (0.3, 1.0) if TIMEOUTS.get(key, 0) < 3 else (0.1,):
            try:
                signal.setitimer(signal.ITIMER_VIRTUAL, budget)
                ARMED[0] = True
                v = f(*a)
                ARMED[0] = False
                return ("ok", v)
            except Timeout:
                continue
            except Exception as e:  # noqa
                ARMED[0] = False
                return ("err", type(e).__name__)
            finally:
                ARMED[0] = False
                signal.setitimer(signal.ITIMER_VIRTUAL, 0)
        TIMEOUTS[key] = TIMEOUTS.get(key, 0) + 1
        return ("err", "Timeout")


def fmt(raw):
    return "[" + ",".join(f"{a},{b}" for a, b in raw) + "]"


def flat(xs):
    return "[" + ",".join(str(x) for x in xs) + "]"


def mkset(IS, raw):
    args = [a if (a == b and i % 2 == 0) else (a, b) for i, (a, b) in enumerate(raw)]
    return IS(*args)


def okranges(r):
    return "ok " + fmt(r[1].ranges) if r[0] == "ok" else "err " + r[1]


# ---------------------------------------------------------------------------------------------
# generators

def cover(rng, a, b):
    """random list of ranges whose union is exactly [a, b]: adjacent pieces, stretched to overlap, plus nested ones"""
    cuts = sorted({rng.randint(a, b) for _ in range(rng.choice([0, 0, 1, 1, 2, 3]))} - {a})
    starts = [a] + cuts
    ends = [c - 1 for c in cuts] + [b]
    out = []
    for s, e in zip(starts, ends):
        if rng.random() < 0.35:
            s = rng.randint(a, s)
        if rng.random() < 0.35:
            e = rng.randint(e, b)
        out.append((s, e))
    for _ in range(rng.choice([0, 0, 0, 1, 2])):
        s = rng.randint(a, b)
        out.append((s, rng.randint(s, b)))
    if rng.random() < 0.15:
        out.append(rng.choice(out))
    return out


def spell(rng, subset, lo, hi):
    """a raw constructor argument list denoting `subset`"""
    raw = []
    for a, b in runs(subset):
        raw += cover(rng, a, b)
    for _ in range(rng.choice([0, 0, 0, 1, 2])):
        x = rng.randint(lo, hi + 1)
        raw.append((x, rng.randint(lo - 1, x - 1)))       # empty range (a > b)
    rng.shuffle(raw)
    return raw


def big_raw(rng):
    n = rng.choice([0, 1, 1, 2, 3, 4, 5, 6, 8, 10])
    raw, ends = [], []
    for _ in range(n):
        if ends and rng.random() < 0.5:
            a = rng.choice(ends) + rng.choice([-2, -1, 0, 1, 2])
        else:
            k = rng.choice([0, 1, 8, 31, 32, 62, 63, 64, 65, 69, 70])
            a = rng.choice([-1, 1]) * (rng.getrandbits(k + 1) if rng.random() < 0.5 else (1 << k)) + rng.randint(-2, 2)
        m = rng.random()
        if m < 0.12:
            b = a - rng.randint(1, 5)                        # empty
        elif m < 0.3:
            b = a
        elif m < 0.6:
            b = a + rng.randint(1, 6)
        elif ends and m < 0.8:
            b = rng.choice(ends) + rng.choice([-1, 0, 1])
        else:
            b = a + rng.getrandbits(rng.choice([8, 33, 64, 71]))
        raw.append((a, b))
        ends += [a, b]
    return raw


def relation_kind(r, s):
    (a, b), (c, d) = r, s
    if b + 1 < c or d + 1 < a:
        return "apart"
    if b + 1 == c or d + 1 == a:
        return "adjacent"
    if (a, b) == (c, d):
        return "equal"
    if a <= c and d <= b:
        return "contains-shared-end" if (a == c or b == d) else "contains"
    if c <= a and b <= d:
        return "inside-shared-end" if (a == c or b == d) else "inside"
    return "overlap"


# ---------------------------------------------------------------------------------------------

class Run:
    def __init__(self, ctx):
        from ppci.utils.integer_set import IntegerSet
        self.ctx = ctx
        self.IS = IntegerSet
        self.reqs, self.impl, self.site = [], [], []
        self.post = []          # (kind, index into reqs, payload) Lean-spec evaluations of real outputs
        self.unary_seen = set()

    def ask(self, site, req, impl):
        self.reqs.append(req)
        self.impl.append(impl)
        self.site.append(site)
        return len(self.reqs) - 1

    def tie(self, site, req, r, f):
        """correspondence request for a guarded result of the real class (nothing is asked for a skipped call)"""
        if r[0] == "skip":
            return None
        return self.ask(site, req, "ok " + f(r[1]) if r[0] == "ok" else "err " + r[1])

    def errs(self, site, r, case):
        """True when the guarded call produced a value; reports exceptions / non-termination as property failures"""
        if r[0] == "ok":
            return True
        if r[0] == "skip":
            self.ctx.count("skipped_after_timeouts")
            return False
        cls = "does-not-terminate" if r[1] == "Timeout" else "raises-" + r[1]
        self.ctx.fail(f"{site}:{cls}", f"{site} {cls} on {case}", case)
        return False

    # -- judging a real result against the independent expectation -------------------------------
    def judge(self, site, case, res, exp):
        ctx = self.ctx
        if not self.errs(site, res, case):
            return None
        ctx.count("eval_" + site)
        got = [tuple(r) for r in res[1].ranges]
        if got == exp:
            return got
        den = sweep([[r for r in got if r[0] <= r[1]]], lambda v: in_raw(got, v))
        if den != exp:
            pts = sorted({p for rs in (got, exp) for a, b in rs for p in (a, b, a - 1, b + 1)})
            w = next(v for v in pts if in_raw(got, v) != in_raw(exp, v))
            cls = "denotation-extra" if in_raw(got, w) else "denotation-missing"
            ctx.fail(f"{site}:{cls}", f"{site}: result {got} but the set is {exp} (differs at {w})", case,
                     got=fmt(got), expected=fmt(exp), witness=w)
        else:
            kind = noncanon_kind(got) or "other"
            ctx.fail(f"{site}:not-canonical-{kind}", f"{site}: result {got} is not canonical ({kind}); canonical form is {exp}",
                     case, got=fmt(got), expected=fmt(exp))
        return got

    def probes(self, raws, small):
        pts = {p for raw in raws for a, b in raw for p in (a - 1, a, a + 1, b - 1, b, b + 1)}
        if small:
            pts |= set(range(U[0] - 2, U[-1] + 3))
        else:
            pts |= {0, -1, 1, (1 << 70) + 5, -(1 << 70) - 5}
            pts |= {self.ctx.rng.randint(-(1 << 71), 1 << 71) for _ in range(3)}
        return sorted(pts)

    # -- one set: constructor, contains, bisect, iteration, cardinality, emptiness -------------
    def unary(self, raw, small):
        key = fmt(raw)
        if key in self.unary_seen:
            return
        self.unary_seen.add(key)
        ctx, IS = self.ctx, self.IS
        case = {"op": "unary", "a": raw}
        exp = sweep([raw], lambda v: in_raw(raw, v))
        if small:
            if exp != runs(pyset(raw)):
                raise common.BrokenCheck(f"sweep oracle disagrees with set() on {raw}")
        r = guarded(mkset, IS, raw)
        self.tie("constructor", "mk " + key, r, lambda s_: fmt(s_.ranges))
        got = self.judge("constructor", case, r, exp)
        if exp != [tuple(x) for x in raw]:
            ctx.nontrivial("mk " + key)
        for x, y in zip(raw, raw[1:]):
            if x[0] <= x[1] and y[0] <= y[1]:
                ctx.count("rel_input_" + relation_kind(x, y))
        if got is None:
            return
        s = r[1]
        self.post.append(("canon", self.ask("spec", "canon " + fmt(got), "ok 1"), None))
        pr = self.probes([raw, got], small)
        expm = [int(in_raw(raw, v)) for v in pr]
        # Lean Spec.memB of the raw list must be the Python semantics (validates the specification)
        self.ask("spec", f"specmem {key} {flat(pr)}", "ok " + flat(expm))
        # contains
        c = guarded(lambda: [int(bool(s.contains(v))) for v in pr])
        c2 = guarded(lambda: [int(v in s) for v in pr])
        self.tie("contains", f"contains {key} {flat(pr)}", c, flat)
        for cc, nm in ((c, "contains"), (c2, "__contains__")):
            if self.errs(nm, cc, case):
                ctx.count("eval_" + nm, len(pr))
                if cc[1] != expm:
                    w = next(v for v, x, y in zip(pr, cc[1], expm) if x != y)
                    cls = "false-positive" if not in_raw(raw, w) else "false-negative"
                    at = "range-start" if any(w == a for a, _ in got) else "range-end" if any(w == b for _, b in got) else "other"
                    ctx.fail(f"{nm}:{cls}-at-{at}", f"{nm}({w}) is {not in_raw(raw, w)} on {got}", case, witness=w)
        b = guarded(lambda: [_bisect.bisect(s.ranges, (v,)) for v in pr])
        self.tie("bisect", f"bisect {key} {flat(pr)}", b, flat)
        # cardinality / len / empty / bool
        ecard = sum(b_ - a_ + 1 for a_, b_ in exp)
        k = guarded(s.cardinality)
        self.tie("cardinality", "card " + key, k, str)
        if self.errs("cardinality", k, case):
            ctx.count("eval_cardinality")
            if k[1] != ecard:
                ctx.fail("cardinality:wrong", f"cardinality() = {k[1]} but the set has {ecard} members: {raw}", case)
        if ecard < (1 << 62):
            ln = guarded(len, s)
            if self.errs("len", ln, case) and ln[1] != ecard:
                ctx.fail("len:wrong", f"len() = {ln[1]} but the set has {ecard} members: {raw}", case)
        e = guarded(s.empty)
        self.tie("empty", "empty " + key, e, lambda v: str(int(bool(v))))
        bl = guarded(bool, s)
        if self.errs("empty", e, case) and self.errs("bool", bl, case):
            ctx.count("eval_empty")
            if bool(e[1]) != (not exp) or bl[1] != bool(exp):
                ctx.fail("empty:wrong", f"empty() = {e[1]}, bool() = {bl[1]} for {got}", case)
        # iteration
        if ecard <= 400:
            it = guarded(lambda: list(s))
            self.tie("iter", "iter " + key, it, flat)
            expi = [v for a_, b_ in exp for v in range(a_, b_ + 1)]
            if small and expi != sorted(pyset(raw)):
                raise common.BrokenCheck("enumeration oracle disagrees with set()")
        else:
            it = guarded(lambda: list(itertools.islice(iter(s), 64)))
            expi = list(itertools.islice((v for a_, b_ in exp for v in range(a_, b_ + 1)), 64))
        if self.errs("iter", it, case):
            ctx.count("eval_iter")
            if it[1] != expi:
                cls = "not-ascending" if any(x >= y for x, y in zip(it[1], it[1][1:])) else "wrong-members"
                ctx.fail(f"iter:{cls}", f"iteration gives {it[1][:20]} expected {expi[:20]}", case)

    # -- a pair of sets: | & - ^ == hash ------------------------------------------------------------
    def binary(self, ra, rb, small, lean_spec=False):
        ctx, IS = self.ctx, self.IS
        self.unary(ra, small)
        self.unary(rb, small)
        A, B = guarded(mkset, IS, ra), guarded(mkset, IS, rb)
        if A[0] != "ok" or B[0] != "ok":
            return
        A, B = A[1], B[1]
        case = {"op": "binary", "a": ra, "b": rb}
        ka, kb = fmt(ra), fmt(rb)
        ca, cb = sweep([ra], lambda v: in_raw(ra, v)), sweep([rb], lambda v: in_raw(rb, v))
        if small:
            for x in A.ranges:
                for y in B.ranges:
                    ctx.count("rel_operands_" + relation_kind(tuple(x), tuple(y)))
        results = {}
        for op, meth, sym in OPS:
            exp = sweep([ra, rb], lambda v: SEM[op](in_raw(ra, v), in_raw(rb, v)))
            if small:
                sa, sb = pyset(ra), pyset(rb)
                want = {"union": sa | sb, "inter": sa & sb, "diff": sa - sb, "sym": sa ^ sb}[op]
                if exp != runs(want):
                    raise common.BrokenCheck(f"sweep oracle disagrees with set() on {op} {ra} {rb}")
            r = guarded(getattr(A, meth), B)
            req = f"{op} {ka} {kb}"
            self.tie(meth, req, r, lambda s_: fmt(s_.ranges))
            got = self.judge(meth, dict(case, op=op), r, exp)
            if got is None:
                continue
            r2 = guarded({"|": lambda: A | B, "&": lambda: A & B, "-": lambda: A - B, "^": lambda: A ^ B}[sym])
            if r2[0] != "skip" and (r2[0] != "ok" or r2[1].ranges != r[1].ranges):
                ctx.fail(f"{meth}:operator-differs", f"A {sym} B differs from A.{meth}(B)", dict(case, op=op))
            results[op] = (r[1], exp)
            if len(exp) >= 2 or ca != ra or cb != rb:
                ctx.nontrivial(req)
            self.post.append(("canon", self.ask("spec", "canon " + fmt(got), "ok 1"), None))
            if lean_spec:
                pr = self.probes([ra, rb, got], small)
                want = [int(SEM[op](in_raw(ra, v), in_raw(rb, v))) for v in pr]
                # Lean Spec.memB of the REAL result at every breakpoint = the set operation
                self.post.append(("specmem", self.ask("spec", f"specmem {fmt(got)} {flat(pr)}", "ok " + flat(want)), (meth, dict(case, op=op))))
        # equality: equal sets compare equal (and hash equal), different sets compare different
        same = ca == cb
        e = guarded(lambda: (A == B, A != B, hash(A) == hash(B)))
        self.tie("eq", f"eq {ka} {kb}", e, lambda v: str(int(bool(v[0]))))
        if self.errs("eq", e, dict(case, op="eq")):
            ctx.count("eval_eq")
            if bool(e[1][0]) != same or bool(e[1][1]) == same:
                ctx.fail("eq:equal-sets-compare-unequal" if same else "eq:different-sets-compare-equal",
                         f"{A.ranges} == {B.ranges} gives {e[1][0]}, != gives {e[1][1]}", dict(case, op="eq"))
            if same and not e[1][2]:
                ctx.fail("hash:equal-sets-hash-differently", f"hash differs for {A.ranges} and {B.ranges}", dict(case, op="eq"))
        # consequences on real objects: results computed along different routes are the same object value
        if all(k in results for k in ("union", "inter", "diff", "sym")):
            u, i_, d, x = (results[k][0] for k in ("union", "inter", "diff", "sym"))
            alt = guarded(lambda: ((u - i_) == x, hash(u - i_) == hash(x), (d | i_) == A))
            if alt[0] != "skip":
                ctx.count("eval_identities")
                if alt[0] != "ok" or not all(alt[1]):
                    ctx.fail("eq:same-set-different-object",
                             f"(A|B)-(A&B) == A^B, same hash, (A-B)|(A&B) == A gives {alt[1]} for A={A.ranges} B={B.ranges}",
                             dict(case, op="identity"))


def check(ctx, extra_cases=()):
    TIMEOUTS.clear()
    run = Run(ctx)
    rng = ctx.rng
    # 0. replayed cases and the fixed corpus first
    for ra, rb in list(extra_cases) + CORPUS:
        small = all(U[0] - 1 <= x <= U[-1] + 1 for r in ra + rb for x in r)
        run.binary(ra, rb, small, lean_spec=True)
        run.binary(rb, ra, small, lean_spec=True)
        ctx.count("corpus_pairs", 2)
    # 1. every list of <= 3 ranges over a small window through the constructor
    #    (thorough: 7 values, 120 099 lists; quick: <= 2 ranges over 7 values and <= 3 ranges over 4 values)
    n0 = len(run.unary_seen)
    for win, kmax in (((-3, 4), 3),) if ctx.thorough else (((-3, 4), 2), ((-1, 3), 3)):
        rs = [(a, b) for a in range(*win) for b in range(*win)]
        for k in range(1, kmax + 1):
            for raw in itertools.product(rs, repeat=k):
                run.unary(list(raw), True)
    ctx.extra_cov["constructor_lists_enumerated"] = len(run.unary_seen) - n0
    # 2. the 7-element universe: all subsets; pairs exhaustive (thorough) or sampled (quick)
    subsets = [[v for i, v in enumerate(U) if m >> i & 1] for m in range(1 << len(U))]
    for s in subsets:
        for _ in range(3):
            run.unary(spell(rng, s, U[0], U[-1]), True)
    if ctx.thorough:
        pairs = [(i, j) for i in range(128) for j in range(128)] * 2
    else:
        pairs = [(rng.randrange(128), rng.randrange(128)) for _ in range(3000)]
    for n, (i, j) in enumerate(pairs):
        ra, rb = spell(rng, subsets[i], U[0], U[-1]), spell(rng, subsets[j], U[0], U[-1])
        run.binary(ra, rb, True, lean_spec=(n % 8 == 0))
        ctx.nontrivial(("pair", i, j))
    ctx.count("universe_pairs", len(pairs))
    ctx.extra_cov["universe"] = f"all subsets of {{{U[0]}..{U[-1]}}}"
    ctx.extra_cov["universe_pairs_distinct"] = len(set(pairs))
    ctx.extra_cov["exhaustive"] = bool(ctx.thorough)
    ctx.extra_cov["exhaustive_what"] = ("all 16384 ordered pairs of subsets of a 7-element universe (2 random spellings each); all lists of <=3 ranges "
                                        "over 7 values through the constructor" if ctx.thorough else
                                        "quick tier: 3000 sampled pairs; all lists of <=2 ranges over 7 values and <=3 ranges over 4 values through the constructor")
    # 3. big integers
    for n in range(6000 if ctx.thorough else 600):
        ra, rb = big_raw(rng), big_raw(rng)
        if rng.random() < 0.3:                                   # related operands: perturb a copy
            rb = [(a + rng.choice([-1, 0, 0, 1]), b + rng.choice([-1, 0, 0, 1])) for a, b in ra if rng.random() < 0.8]
        run.binary(ra, rb, False, lean_spec=(n % 4 == 0))
        ctx.count("big_pairs")
    # ---- model side ---------------------------------------------------------------------------
    out = ctx.driver("C33", run.reqs)
    for k, (site, rq, i, m) in enumerate(zip(run.site, run.reqs, run.impl, out)):
        ctx.count("corr_" + site)
        if i != m and site != "spec":
            ctx.disagree(site, rq, i, m)
    # Lean specification evaluated on the real outputs (and validated against Python's semantics)
    postidx = {idx: (kind, payload) for kind, idx, payload in run.post}
    for k, (site, rq, i, m) in enumerate(zip(run.site, run.reqs, run.impl, out)):
        if site != "spec" or i == m:
            continue
        kind, payload = postidx.get(k, ("specval", None))
        if kind == "canon":
            ctx.fail("spec:result-not-canonical", f"Spec.canonB rejects a real result: {rq}", rq)
        elif kind == "specmem":
            meth, case = payload
            ctx.fail(f"{meth}:spec-denotation", f"Lean Spec.Mem of the real result differs from the set operation: {rq} -> {m}, wanted {i}", case)
        else:
            ctx.disagree("spec-vs-python-semantics", rq, i, m)
    for k in (0, len(run.reqs) // 2, len(run.reqs) - 1):
        ctx.sample({"request": run.reqs[k][:300], "impl": run.impl[k][:300], "model": out[k][:300]})
    ctx.extra_cov["requests"] = len(run.reqs)
    ctx.extra_cov["distinct_sets_through_constructor"] = len(run.unary_seen)


def replay(ctx, rp):
    """re-evaluate the recorded failing case first, then the whole check"""
    case = rp.get("case") if isinstance(rp, dict) else None
    extra = []
    if isinstance(case, dict) and "a" in case:
        ra = [tuple(x) for x in case["a"]]
        rb = [tuple(x) for x in case.get("b", [])]
        extra.append((ra, rb))
    check(ctx, extra_cases=extra)
