"""C15 IR text format round-trips.

Real code: ppci.irutils.print_module -> read_module -> print_module, compared
  * textually (second print == first print),
  * structurally with harness/irser.py (a field walk over the objects; phi inputs are a
    dictionary, so they are ordered canonically; not ppci's own equality),
  * behaviourally for a sample (Spec.IR reference interpreter on both modules).
Model: Model.IRText (printer, tokenizer, recursive-descent reader over the shared construction
layer Model.IRBuild) behind Drivers/C15.lean; the model's text must equal ppci's text character
by character, the module the model reads from ppci's text must equal the one ppci reads, the model's
token-level printer must equal its tokenizer on its own text (the lexical theorem `lexical_step`, re-evaluated), and the
Lean fragment predicate `fragText` (guard of `roundtrip_partial`) is evaluated for every module:
inside the fragment the real round trip must succeed; outside it, a failure is attributed to the
excluded construct the predicate names.
"""
import io

from harness import c15_common as K
from harness import irser, irrun

PROP = "C15"
LEAN_PROPS = "PpciVerif/Props/C15.lean"
LEAN_TARGETS = ["PpciVerif.Props.C15", "Drivers.C15", "Drivers.IR"]
LEVEL = "proof"
LEVEL_TEXT = (
    "Lean theorems about an executable model of the IR text writer (ir.py __str__ methods + Writer), the tokenizer and the "
    "recursive-descent Reader, for ALL modules of an explicitly delimited decidable fragment (Model.IRFrag.fragText: unambiguous "
    "names, ppci's constructor type checks, lexable identifiers, float constants whose text is one token, no inline asm), on "
    "CHARACTERS: reading the printed text succeeds and yields the module itself up to the order of phi inputs (a dictionary in "
    "ppci), printing that module gives the same text character by character, and that module behaves identically "
    "(Spec.IR.exec gives the same outcome for every configuration, entry, arguments, external-call oracle and step budget; "
    "lock-step simulation). The step from characters to tokens (maximal munch never merges or splits a token the writer "
    "emits) is proved for every module of the fragment, so the theorem has no lexical hypothesis. Forward references through "
    "typed placeholders are covered. Each excluded construct has a Lean-proved counterexample replayed on the real code. The "
    "model is tied to ppci by a differential run on every check (text equality, read-back equality).")
LEVEL_NOTE = (
    "partial: the guard excludes inline asm, values named like a global (name capture) and non-identifier names (open findings); "
    "float <-> decimal text stays a parameter pair fmt/fparse (CPython's str/float are the oracle): the fragment asks that "
    "fmt b is ASCII and is ONE token when followed by ';' (decidable check, evaluated for every constant met), the theorem asks "
    "fparse(fmt b) = b for the module's constants (CPython guarantee float(str(x)) == x, nan by bit pattern of the canonical nan); "
    "model <-> source correspondence is sampled, not proved")
TECHNIQUE = "Lean 4 proof (induction over modules / instruction lists with a placeholder invariant; compositional maximal-munch lemmas over the printer; lock-step simulation for behaviour) over a hand model + differential correspondence"
RULE = ("modules: fixed corner corpus (every instruction kind/operator/type/constant class, forward references incl. one later-defined value in TWO operand slots of every two-operand instruction kind, 15 name-collision modules "
        "across functions, 7 blob types of equal size/different alignment in every type position, one module per finding), "
        "irgen modules under 6 configurations decorated with volatile flags, address initialisers, special constants, underscore names, "
        "shuffled block order, one value in both operand slots of binops/cjmps, C front-end modules plain and after mem2reg/CSE/clean; distinct = distinct module text; "
        "non-trivial = module with >= 1 function (all but none)")
TRUSTED = [
    "hand models Model.IRText / Model.IRBuild of ppci/irutils/{writer,reader}.py and ppci/ir.py __str__/constructors, tied by differential run on every check",
    "Spec.IR (reference semantics and the by-name module syntax) and harness/irser.py (structural serialiser independent of ppci's writers)",
    "CPython str(float)/float(str) as oracle for float constants (passed to the model as a table)",
]
ASSUMPTIONS = [
    "float(str(x)) == x for every float x, compared by bit pattern (CPython guarantee; inf/nan are written as float 'inf' / float 'nan'); str(x) of a finite float has the form d+.d+(e[+-]d+)? or d+e[+-]d+ (checked by the Lean predicate floatTextOk for every constant met)",
    "ASCII text only (Python's \\d and \\s also match non-ASCII digits/blanks; the model answers Unsupported there)",
    "line-by-line tokenisation = whole-text tokenisation with newline as white space and no newline inside quoted strings",
]

FINDING_OF = {"inline-asm": "irtext:inline-asm", "identifier": "irtext:identifier"}
# the two directions of name capture that the CURRENT readers exhibit (the Lean model predicts both)
CAPTURE_A = "irtext:name-capture:value-hides-global-used-in-same-function"
CAPTURE_B = "irtext:name-capture:later-value-captures-forward-reference"


def finding_signature(reasons, m):
    r = reasons[0]
    if r == "name-capture":
        return CAPTURE_A if K.capture_in_same_function(m) else CAPTURE_B
    return FINDING_OF.get(r, "irtext:" + r)
ILL_FORMED = {"global-names", "init-bytes", "local-names", "dangling-operand", "dangling-block", "types",
              "early-terminator", "entry", "phi-keys"}


def real_roundtrip(m):
    """-> dict(stage, exc, text, text2, s1, s2)"""
    from ppci.irutils import print_module, read_module
    r = {"stage": "ok", "exc": None, "text": None, "text2": None, "s2": None}
    try:
        f = io.StringIO()
        print_module(m, file=f, verify=False)
        r["text"] = f.getvalue()
    except Exception as e:  # noqa
        r.update(stage="print", exc=type(e).__name__)
        return r
    try:
        m2 = read_module(io.StringIO(r["text"]))
    except Exception as e:  # noqa
        r.update(stage="read", exc=type(e).__name__)
        return r
    r["m2"] = m2
    try:
        r["id2"] = K.identity_walk(m2)
        r["book2"] = K.bookkeeping(m2)
        r["s2"] = irser.serialize(m2)
        f = io.StringIO()
        print_module(m2, file=f, verify=False)
        r["text2"] = f.getvalue()
    except Exception as e:  # noqa
        r.update(stage="reprint", exc=type(e).__name__)
    return r


def failure_kind(r, s1, id1=None, book1="skip"):
    if r["stage"] != "ok":
        return f"{r['stage']}:{r['exc']}"
    if r["text2"] != r["text"]:
        return "text-differs"
    if K.norm_phi(r["s2"]) != K.norm_phi(s1):
        return "structure-differs"
    if id1 is not None and r.get("id2") != id1:
        return "identity-differs"
    if book1 is None and r.get("book2") is not None:
        # the original has sane def-use information (and verifies), the re-read module does not
        return "reread-bookkeeping:" + r["book2"]
    return None


def collect(ctx):
    cover = lambda k: ctx.count("feature_" + k)  # noqa: E731
    cases = []
    for label, m, reason, _ in K.corner_modules():
        cases.append({"label": label, "module": m, "gen": None, "expect": reason})
    n = 80 if ctx.thorough else 10
    for label, g in K.generated(ctx, n, cover):
        cases.append({"label": label, "module": g.module, "gen": g, "expect": None})
    # generated modules carrying one excluded construct
    for k, which in enumerate(["inline-asm", "name-capture"] * (4 if ctx.thorough else 1)):
        g = K.irgen.gen_module(ctx.rng, K.irgen.GenConfig(**K.CONFIGS[k % len(K.CONFIGS)]), name=f"genx{k}")
        if K.add_finding_feature(ctx.rng, g, which):
            cases.append({"label": f"genx{k}-{which}", "module": g.module, "gen": None, "expect": which})
    for label, g in K.c_modules(ctx):
        cases.append({"label": label, "module": g.module, "gen": g, "expect": None})
    return cases


def check(ctx):
    cases = collect(ctx)
    reqs, irreqs = [], []
    for c in cases:
        m = c["module"]
        c["plain"] = K.plain_names(m)
        c["s1"] = irser.serialize(m)
        c["id1"] = K.identity_walk(m)
        c["verifies"] = K.ppci_verifies(m)
        c["book1"] = K.bookkeeping(m)
        c["real"] = real_roundtrip(m)
        c["at"] = len(reqs)
        tab = K.float_table(m)
        s1 = c["s1"]
        reqs += [K.ftab_line(tab), f"frag {s1}", f"print {s1}", f"toks {s1}"]
        reqs.append("read " + c["real"]["text"].encode().hex() if c["real"]["text"] else "frag " + s1)
        c["irat"] = len(irreqs)
        irreqs += ["load " + s1, "wf"]
    out = ctx.driver("C15", reqs)
    # one call of the Spec.IR driver: well-formedness of every module, then (sample) the behaviour of
    # original and re-read module for modules inside the fragment whose real round trip succeeded
    lim = 40 if ctx.thorough else 6
    runs_of = {}
    for c in cases:
        g, r = c["gen"], c["real"]
        if (len(runs_of) < lim and g is not None and g.entries and out[c["at"] + 1] == "ok 1"
                and failure_kind(r, c["s1"], c["id1"], c["book1"]) is None):
            runs = [(e, a) for e in g.entries if e.external_ok for a in K.irgen.gen_args(ctx.rng, e, 2)][:6]
            if runs:
                runs_of[c["label"]] = runs
                c["beh_at"] = len(irreqs)
                irreqs += irrun.spec_requests(g, runs, fuel=100000, ptr=8, text=c["s1"])
                irreqs += irrun.spec_requests(g, runs, fuel=100000, ptr=8, text=r["s2"])
    wf = ctx.driver("IR", irreqs)
    behave = []
    for c in cases:
        label, r, s1 = c["label"], c["real"], c["s1"]
        o_frag, o_print, o_toks, o_read = out[c["at"] + 1: c["at"] + 5]
        ctx.count("eval_roundtrip")
        ctx.count("programs")
        ctx.nontrivial(r["text"] or label)
        well_formed = wf[c["irat"] + 1] == "ok 1"
        ctx.count("wf_spec_ir" if well_formed else "not_wf_spec_ir")
        if not c["plain"] or wf[c["irat"]] == "bad-op" or o_frag == "bad-op":
            ctx.disagree("exchange-format", label, "irser output", f"IR driver {wf[c['irat']]} / C15 driver {o_frag}")
            continue
        in_frag = o_frag == "ok 1"
        reasons = sorted(set(o_frag[5:].split(","))) if not in_frag else []
        ctx.count("in_fragment" if in_frag else "outside_fragment")
        for rs in reasons:
            ctx.count("reason_" + rs)
        kind = failure_kind(r, s1, c["id1"], c["book1"])
        ctx.count("real_" + (kind or "roundtrip-ok"))
        # what the Lean model of the CURRENT reader predicts for this text (None = the model does not cover it)
        if o_read.startswith("ok "):
            predicted_ok = K.norm_phi(o_read[3:]) == K.norm_phi(s1)
        elif o_read == "err Unsupported" or r["text"] is None:
            predicted_ok = None
        else:
            predicted_ok = False
        # ---- correspondence: model printer / tokenizer / reader vs ppci --------------------------------------
        if r["text"] is not None:
            mt = bytes.fromhex(o_print[3:]).decode() if o_print not in ("ok -",) and o_print.startswith("ok ") else ""
            if "inline-asm" not in reasons and mt != r["text"]:
                ctx.disagree("print_module", label, first_diff(r["text"], mt), "model text differs")
            if in_frag and o_toks != "ok 1":
                ctx.disagree("lexAll(printModule m) = toksModule m", label, "n/a", o_toks)
            if o_read == "err Unsupported":
                ctx.count("model_unsupported")
            elif r["stage"] == "read":
                if o_read != "err " + r["exc"]:
                    ctx.disagree("read_module (exception)", label, r["exc"], o_read[:200])
            elif r["s2"] is not None and o_read != "ok " + r["s2"]:
                ctx.disagree("read_module", label, first_diff(r["s2"], o_read[3:]), o_read[:60])
        # ---- the property on the real code -------------------------------------------------------------------------
        ill = [x for x in reasons if x in ILL_FORMED]
        if not (well_formed or c["verifies"]) or ill:
            ctx.count("skipped_not_well_formed")
            if well_formed and ill:
                ctx.note(f"{label}: Spec.IR wf holds but the fragment predicate reports {ill}")
            continue
        if in_frag:
            if kind:
                ctx.fail("irtext:roundtrip:" + kind, f"module {label} is inside the proved fragment but the real round trip fails: {kind}",
                         {"label": label, "module": s1}, text=r["text"])
        elif kind and predicted_ok:
            # outside the proved fragment, but the model of the current reader reads this text back exactly:
            # the failure is not one of the known limitations of the format
            ctx.fail("irtext:roundtrip:" + kind,
                     f"{label}: {kind}; the module is outside the proved fragment ({reasons}) but the model of the reader round-trips it",
                     {"label": label, "module": s1}, text=r["text"])
        elif kind:
            sig = finding_signature(reasons, c["module"])
            ctx.fail(sig, f"{label}: {kind} (excluded construct: {reasons})", {"label": label, "module": s1}, text=r["text"])
        else:
            ctx.count("outside_fragment_but_roundtrips")
        if c["expect"] and c["expect"] not in reasons:
            ctx.disagree("fragment predicate", label, f"expected reason {c['expect']}", o_frag)
        if in_frag and not kind and c["gen"] is not None and c["gen"].entries:
            behave.append(c)
        if len(ctx.samples) < 4 and c["gen"] is not None:
            ctx.sample({"module": label, "text_bytes": len(r["text"] or ""), "in_fragment": in_frag, "real": kind or "round-trips"})
    # ---- behaviour of original and re-read module in Spec.IR (sample) ----------------------------------------------------
    for c in behave:
        if c["label"] not in runs_of:
            continue
        runs = runs_of[c["label"]]
        k = 3 + len(runs)                    # config, load, wf, runs
        a = wf[c["beh_at"]: c["beh_at"] + k]
        b = wf[c["beh_at"] + k: c["beh_at"] + 2 * k]
        for (e, args), x, y in zip(runs, a[3:], b[3:]):
            ctx.count("eval_behaviour")
            if irrun.strip_steps(x) != irrun.strip_steps(y):
                ctx.fail("irtext:roundtrip:behaviour-differs", f"{c['label']}.{e.name}{args}: {x[:80]} vs {y[:80]}",
                         {"label": c["label"], "module": c["s1"], "entry": e.name, "args": [str(v) for v in args]})
    ctx.extra_cov["exhaustive"] = False


def first_diff(a, b):
    a, b = a or "", b or ""
    for i, (x, y) in enumerate(zip(a, b)):
        if x != y:
            return f"@{i}: impl …{a[max(0, i - 40): i + 40]!r} model …{b[max(0, i - 40): i + 40]!r}"
    return f"lengths {len(a)} vs {len(b)}; tail impl {a[-40:]!r} model {b[-40:]!r}"


def replay(ctx, rp):
    check(ctx)
