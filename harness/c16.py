"""C16 IR JSON serialisation round-trips.

Real code: ppci.irutils.to_json -> from_json, compared structurally with harness/irser.py (field walk over
the objects: names, types, operands by identity, constants, initial values, volatile flags; not ppci's
own equality) and, for a sample, behaviourally with the Spec.IR interpreter.
Model: Model.IRJson (DictWriter / DictReader at the level of the JSON tree, over the construction layer
Model.IRBuild) behind Drivers/C16.lean: the model's tree must equal ppci's dict, the module the model
reads from ppci's JSON must equal the one ppci reads (or fail with the same exception class), and the Lean
fragment predicate `fragCore` (guard of `roundtrip_partial`) is evaluated for every module: inside the
fragment the real round trip must be exact; outside, a failure is attributed to the excluded construct.
"""
import json

from harness import c15_common as K
from harness import irser, irrun

PROP = "C16"
LEAN_PROPS = "PpciVerif/Props/C16.lean"
LEAN_TARGETS = ["PpciVerif.Props.C16", "Drivers.C16", "Drivers.IR"]
LEVEL = "proof"
LEVEL_TEXT = (
    "Lean theorem about an executable model of ppci/irutils/io.py (DictWriter and DictReader with its scopes, typed placeholders for "
    "forward references and their replacement, constructor checks, asserts), for ALL modules of the decidable fragment "
    "Model.IRFrag.fragCore (unambiguous names, ir.py's constructor checks, no inline asm): the writer is defined and the reader "
    "rebuilds EXACTLY the module written - externals, variables with initial values, functions, blocks in order, instructions, operand "
    "bindings (also for values/functions/blocks mentioned before their definition), types, constants, volatility. The two excluded "
    "constructs have Lean-proved counterexamples that are replayed on ppci. JSON text <-> tree is Python's json module (not modelled). "
    "The model is tied to ppci by a differential run on every check (dict equality, read-back equality).")
LEVEL_NOTE = (
    "partial: the guard excludes inline asm and function-level values named like a module-level value (name capture); "
    "json.dumps/json.loads are trusted (key order, big ints, floats by repr incl. Infinity/NaN); "
    "model <-> source correspondence is sampled, not proved")
TECHNIQUE = "Lean 4 proof (induction over modules / instruction lists with a placeholder invariant) over a hand model + differential correspondence"
RULE = ("modules: the corpus of C15 (fixed corner modules incl. one per finding, decorated irgen modules, C front-end modules plain and "
        "optimised); distinct = distinct JSON text; non-trivial = every module")
TRUSTED = [
    "hand models Model.IRJson / Model.IRBuild of ppci/irutils/io.py and the ppci/ir.py constructors, tied by differential run on every check",
    "Python's json module (text <-> tree), ppci.utils.binary_txt modelled (bin2asc/asc2bin with the 30-byte rule)",
    "Spec.IR (by-name module syntax, reference semantics) and harness/irser.py (structural serialiser independent of ppci's writers)",
]
ASSUMPTIONS = [
    "json.loads(json.dumps(d)) == d for dicts of str/int/float/bool/None/list (floats compared by bit pattern, NaN included)",
]

FINDING_OF = {"inline-asm": "irjson:inline-asm"}
CAPTURE_A = "irjson:name-capture:value-hides-global-used-in-same-function"
CAPTURE_B = "irjson:name-capture:later-value-captures-forward-reference"


def finding_signature(reasons, m):
    r = reasons[0]
    if r == "name-capture":
        return CAPTURE_A if K.capture_in_same_function(m) else CAPTURE_B
    return FINDING_OF.get(r, "irjson:" + r)
ILL_FORMED = {"global-names", "init-bytes", "local-names", "dangling-operand", "dangling-block", "types",
              "early-terminator", "entry", "phi-keys"}


def to_wire(x):
    """Python value -> JSON-able value in which a float is {"$float": "<bits>"}"""
    if isinstance(x, bool) or x is None or isinstance(x, (int, str)):
        return x
    if isinstance(x, float):
        return {"$float": str(K.fbits(x))}
    if isinstance(x, list):
        return [to_wire(v) for v in x]
    if isinstance(x, dict):
        return {k: to_wire(v) for k, v in x.items()}
    raise TypeError(type(x))


def real_roundtrip(m):
    from ppci.irutils import to_json, from_json
    r = {"stage": "ok", "exc": None, "text": None, "s2": None, "dict": None}
    try:
        r["text"] = to_json(m)
        r["dict"] = json.loads(r["text"])
    except Exception as e:  # noqa
        r.update(stage="write", exc=type(e).__name__)
        return r
    try:
        m2 = from_json(r["text"])
    except Exception as e:  # noqa
        r.update(stage="read", exc=type(e).__name__)
        return r
    try:
        r["id2"] = K.identity_walk(m2)
        r["book2"] = K.bookkeeping(m2)
        r["s2"] = irser.serialize(m2)
    except Exception as e:  # noqa
        r.update(stage="walk", exc=type(e).__name__)
    return r


def failure_kind(r, s1, id1=None, book1="skip"):
    if r["stage"] != "ok":
        return f"{r['stage']}:{r['exc']}"
    if r["s2"] != s1:
        return "structure-differs"
    if id1 is not None and r.get("id2") != id1:
        return "identity-differs"
    if book1 is None and r.get("book2") is not None:
        # the original has sane def-use information (and verifies), the re-read module does not
        return "reread-bookkeeping:" + r["book2"]
    return None


def collect(ctx):
    cover = lambda k: ctx.count("feature_" + k)  # noqa: E731
    cases = []
    for label, m, _, reason in K.corner_modules():
        cases.append({"label": label, "module": m, "gen": None, "expect": reason})
    n = 80 if ctx.thorough else 10
    for label, g in K.generated(ctx, n, cover):
        cases.append({"label": label, "module": g.module, "gen": g, "expect": None})
    for k, which in enumerate(["inline-asm", "name-capture", "float-text"] * (4 if ctx.thorough else 1)):
        g = K.irgen.gen_module(ctx.rng, K.irgen.GenConfig(**K.CONFIGS[k % len(K.CONFIGS)]), name=f"genx{k}")
        if K.add_finding_feature(ctx.rng, g, which):
            cases.append({"label": f"genx{k}-{which}", "module": g.module, "gen": None,
                          "expect": which if which != "float-text" else None})
    for label, g in K.c_modules(ctx):
        cases.append({"label": label, "module": g.module, "gen": g, "expect": None})
    return cases


def check(ctx):
    cases = collect(ctx)
    reqs, irreqs = [], []
    for c in cases:
        m = c["module"]
        c["plain"] = K.plain_names(m)
        c["s1"] = irser.serialize(m)
        c["id1"] = K.identity_walk(m)
        c["verifies"] = K.ppci_verifies(m)
        c["book1"] = K.bookkeeping(m)
        c["real"] = real_roundtrip(m)
        c["at"] = len(reqs)
        s1 = c["s1"]
        reqs += [f"frag {s1}", f"write {s1}"]
        if c["real"]["dict"] is not None:
            reqs.append("read " + json.dumps(to_wire(c["real"]["dict"]), separators=(",", ":")))
        else:
            reqs.append("frag " + s1)
        c["irat"] = len(irreqs)
        irreqs += ["load " + s1, "wf"]
    out = ctx.driver("C16", reqs)
    lim = 40 if ctx.thorough else 6
    runs_of = {}
    for c in cases:
        g, r = c["gen"], c["real"]
        if (len(runs_of) < lim and g is not None and g.entries and out[c["at"]] == "ok 1"
                and failure_kind(r, c["s1"], c["id1"], c["book1"]) is None):
            runs = [(e, a) for e in g.entries if e.external_ok for a in K.irgen.gen_args(ctx.rng, e, 2)][:6]
            if runs:
                runs_of[c["label"]] = runs
                c["beh_at"] = len(irreqs)
                irreqs += irrun.spec_requests(g, runs, fuel=100000, ptr=8, text=c["s1"])
                irreqs += irrun.spec_requests(g, runs, fuel=100000, ptr=8, text=r["s2"])
    wf = ctx.driver("IR", irreqs)
    for c in cases:
        label, r, s1 = c["label"], c["real"], c["s1"]
        o_frag, o_write, o_read = out[c["at"]: c["at"] + 3]
        ctx.count("eval_roundtrip")
        ctx.count("programs")
        ctx.nontrivial(r["text"] or label)
        well_formed = wf[c["irat"] + 1] == "ok 1"
        ctx.count("wf_spec_ir" if well_formed else "not_wf_spec_ir")
        if not c["plain"] or wf[c["irat"]] == "bad-op" or o_frag == "bad-op":
            ctx.disagree("exchange-format", label, "irser output", f"IR driver {wf[c['irat']]} / C16 driver {o_frag}")
            continue
        in_frag = o_frag == "ok 1"
        reasons = sorted(set(o_frag[5:].split(","))) if not in_frag else []
        ctx.count("in_fragment" if in_frag else "outside_fragment")
        for rs in reasons:
            ctx.count("reason_" + rs)
        kind = failure_kind(r, s1, c["id1"], c["book1"])
        ctx.count("real_" + (kind or "roundtrip-ok"))
        # what the Lean model of the CURRENT writer/reader predicts (None = the model does not cover it)
        if r["stage"] == "write":
            predicted_ok = False if o_write.startswith("err ") else None
        elif o_read.startswith("ok "):
            predicted_ok = o_read[3:] == s1
        elif o_read == "err Unsupported":
            predicted_ok = None
        else:
            predicted_ok = False
        # ---- correspondence -------------------------------------------------------------------------------------------
        if r["stage"] == "write":
            if o_write != "err " + r["exc"]:
                ctx.disagree("to_json (exception)", label, r["exc"], o_write[:120])
        else:
            if not o_write.startswith("ok "):
                ctx.disagree("to_json", label, "a dict", o_write[:120])
            else:
                try:
                    md = json.loads(o_write[3:])
                except ValueError:
                    md = None
                if md != to_wire(r["dict"]):
                    ctx.disagree("to_json", label, json.dumps(to_wire(r["dict"]), sort_keys=True)[:300],
                                 json.dumps(md, sort_keys=True)[:300] if md is not None else o_write[:300])
            if o_read == "err Unsupported":
                ctx.count("model_unsupported")
            elif r["stage"] == "read":
                if o_read != "err " + r["exc"]:
                    ctx.disagree("from_json (exception)", label, r["exc"], o_read[:200])
            elif r["s2"] is not None and o_read != "ok " + r["s2"]:
                ctx.disagree("from_json", label, r["s2"][:200], o_read[:200])
        # ---- the property on the real code ---------------------------------------------------------------------------------
        ill = [x for x in reasons if x in ILL_FORMED]
        if not (well_formed or c["verifies"]) or ill:
            ctx.count("skipped_not_well_formed")
            if well_formed and ill:
                ctx.note(f"{label}: Spec.IR wf holds but the fragment predicate reports {ill}")
            continue
        if in_frag:
            if kind:
                ctx.fail("irjson:roundtrip:" + kind, f"module {label} is inside the proved fragment but the real round trip fails: {kind}",
                         {"label": label, "module": s1})
        elif kind and predicted_ok:
            ctx.fail("irjson:roundtrip:" + kind,
                     f"{label}: {kind}; the module is outside the proved fragment ({reasons}) but the model of the reader round-trips it",
                     {"label": label, "module": s1})
        elif kind:
            sig = finding_signature(reasons, c["module"])
            ctx.fail(sig, f"{label}: {kind} (excluded construct: {reasons})", {"label": label, "module": s1})
        else:
            ctx.count("outside_fragment_but_roundtrips")
        if c["expect"] and c["expect"] not in reasons:
            ctx.disagree("fragment predicate", label, f"expected reason {c['expect']}", o_frag)
        if c["label"] in runs_of:
            runs = runs_of[c["label"]]
            k = 3 + len(runs)
            a = wf[c["beh_at"]: c["beh_at"] + k]
            b = wf[c["beh_at"] + k: c["beh_at"] + 2 * k]
            for (e, args), x, y in zip(runs, a[3:], b[3:]):
                ctx.count("eval_behaviour")
                if irrun.strip_steps(x) != irrun.strip_steps(y):
                    ctx.fail("irjson:roundtrip:behaviour-differs", f"{label}.{e.name}{args}: {x[:80]} vs {y[:80]}",
                             {"label": label, "module": s1, "entry": e.name, "args": [str(v) for v in args]})
        if len(ctx.samples) < 4 and c["gen"] is not None:
            ctx.sample({"module": label, "json_bytes": len(r["text"] or ""), "in_fragment": in_frag, "real": kind or "round-trips"})
    ctx.extra_cov["exhaustive"] = False


def replay(ctx, rp):
    check(ctx)
