"""C25 dominators / post-dominators / reachability.

Every case is a REAL `ppci.graph.cfg.ControlFlowGraph` (built with the real
`ControlFlowNode`/`add_edge`, or produced by `ir_function_to_graph`/`CfgInfo`
from a real `ir.Procedure`).  Its real outputs

    lt.LengauerTarjan.compute (idom, dfnum, parent, semi), get_immediate_dominator,
    tree_map[..].interval, dominates, strictly_dominates, calculate_dominance_frontier/df,
    can_reach/_reach, post_dominates/_pdom, get_immediate_post_dominator/_ipdom, CfgInfo.df

are (a) validated by the Lean validator `Spec.Graph.checkIdom` (proved sound) and
compared with the path-based definitions computed by the verified `Spec.Graph`
functions (this is the evaluation of the property: `ctx.fail`), and (b) compared
with the hand models `Model.LT` / `Model.Dom` (correspondence: `ctx.disagree`).
"""
import json
import multiprocessing
import os
import subprocess
import time

from harness import common

PROP = "C25"
LEAN_PROPS = "PpciVerif/Props/C25.lean"
LEAN_TARGETS = ["PpciVerif.Props.C25", "Drivers.C25"]
LEVEL = "proof"
LEVEL_TEXT = (
    "Lean theorems for ALL finite digraphs (no size bound), spec = inductive paths (Spec.Graph): the executable reference "
    "reachB/domB/idom/dfB decide path reachability / dominance / the immediate dominator / dominance-frontier membership; "
    "dominance is a partial order on reachable nodes whose dominator sets are chains, every reachable non-entry node has a unique idom. "
    "About the models of the code: the fixed-point post-dominator sets equal path-defined post-dominance for every exit "
    "(and the loop terminates within n^2+2 rounds), immediate-post-dominator selection returns the path-defined one, "
    "calculate_reach equals the transitive closure (>= 1 edge) and terminates; given the idom map is the path-defined one, the worklist "
    "numbering of the dominator tree terminates and its interval tests below_or_same/below decide dominance/strict dominance on all "
    "reachable nodes, and (all nodes reachable) the bottom_up + Cytron computation yields exactly the path-defined dominance frontier. "
    "Lengauer-Tarjan itself is NOT proved: it is covered as a verified validator (checkIdom_sound: an accepted idom map is the "
    "path-defined immediate-dominator map), run on every real output."
)
LEVEL_NOTE = (
    "trusted: Lean kernel; axioms propext/Classical.choice/Quot.sound; hand models <-> source correspondence is sampled "
    "(all digraphs with <= 4 nodes incl. self-loops, all 5-node digraphs without self-loops in the thorough tier, random "
    "reducible/irreducible CFGs up to 200 nodes), not proved; the proof of Lengauer-Tarjan with path compression is not attempted "
    "(per-output validation instead); Python set iteration order is read off the real objects"
)
TECHNIQUE = ("Lean 4 proofs about path-based graph definitions and hand models of the fixed-point/numbering/frontier code; "
             "verified validator for Lengauer-Tarjan outputs; differential correspondence on real ControlFlowGraph objects")
RULE = ("cases = real ControlFlowGraph objects: every labelled digraph with entry 0 whose nodes are all reachable, n <= 4 with "
        "self-loops and n = 5 without self-loops (thorough; quick: n <= 3 complete, n = 4 every 3rd edge set, n = 5 sampled, odd strides), each also reversed for the post-dominator side "
        "(exit 0); random tree+extra-edge graphs, structured (reducible) CFGs, chains/ladders with back and cross edges, dense graphs, "
        "IR procedures through CfgInfo, up to 200 nodes. distinct = distinct (kind, n, edge set, entry/exit); non-trivial = some node's "
        "idom differs from its DFS parent (Lengauer-Tarjan had to use semidominators/buckets) or a non-empty dominance frontier, "
        "for the post side: some node with >= 2 successors")
TRUSTED = [
    "hand models Model.LT (lt.py, digraph.dfs) and Model.Dom (fixed_point_dominator.py, cfg.py numbering/frontier/reach), tied by differential run on every check",
    "Spec.Graph (paths, dominance, immediate dominator, dominance frontier, post-dominance = dominance in the reversed graph; "
    "pdom_iff_paths relates it to forward paths to the exit)",
    "the harness' reading of the real objects (graph.nodes order = node index; set iteration order of suc_map/pre_map)",
    "Lean's code generator + bundled clang (the driver runs as a native executable built from the same Lean definitions; "
    "it is cross-checked against the interpreter on the corpus in every run; C25_INTERPRETED=1 forces the interpreter)",
]
ASSUMPTIONS = [
    "dominator side: every node is reachable from the entry (as the property says); otherwise lt.py raises KeyError on an unreachable "
    "predecessor and dominates() raises TypeError on an un-numbered node",
    "ControlFlowGraph.validate(): entry_node and exit_node are set",
    "immediate post-dominators are claimed only for nodes from which the exit is reachable (others have no key / vacuous sets)",
    "Python set/dict semantics; node objects hash by identity",
]

SELF = os.path.abspath(__file__)


# --------------------------------------------------------------------------------------
# real objects
# --------------------------------------------------------------------------------------
def build(case):
    """Build the real ControlFlowGraph of a case {n, edges, entry, exit}."""
    from ppci.graph.cfg import ControlFlowGraph, ControlFlowNode
    g = ControlFlowGraph()
    nodes = [ControlFlowNode(g, name=f"n{i}") for i in range(case["n"])]
    for u, v in case["edges"]:
        nodes[u].add_edge(nodes[v])
    g.entry_node = nodes[case["entry"]]
    g.exit_node = nodes[case["exit"]]
    return g


def build_ir(case):
    """Build a real ir.Procedure from {n, edges, entry} (out-degree <= 2) and take CfgInfo's graph."""
    from ppci import ir
    from ppci.graph.domtree import CfgInfo
    f = ir.Procedure("f", ir.Binding.GLOBAL)
    blocks = [ir.Block(f"b{i}") for i in range(case["n"])]
    for b in blocks:
        f.add_block(b)
    f.entry = blocks[case["entry"]]
    out = [[] for _ in range(case["n"])]
    for u, v in case["edges"]:
        out[u].append(v)
    for u, b in enumerate(blocks):
        if not out[u]:
            b.add_instruction(ir.Exit())
        elif len(out[u]) == 1:
            b.add_instruction(ir.Jump(blocks[out[u][0]]))
        else:
            c = ir.Const(1, "c", ir.i32)
            b.add_instruction(c)
            b.add_instruction(ir.CJump(c, "==", c, blocks[out[u][0]], blocks[out[u][1]]))
    info = CfgInfo(f)
    return info


def extract(g):
    nodes = list(g.nodes)
    idx = {n: i for i, n in enumerate(nodes)}
    succ = [[idx[m] for m in g.successors(n)] for n in nodes]
    pred = [[idx[m] for m in g.predecessors(n)] for n in nodes]
    return nodes, idx, succ, pred


def rows(rs):
    return "s:" + ";".join(",".join(map(str, r)) for r in rs)


def exc(e):
    return "err:" + type(e).__name__


def real_dom(g, nodes, idx):
    """All dominator-side outputs of the real graph, canonical."""
    from ppci.graph import lt
    n = len(nodes)
    out = {}
    try:
        x = lt.LengauerTarjan(False)
        idom = x.compute(g, g.entry_node)
        out["lt"] = [idx[idom[v]] if v in idom else -1 for v in nodes]
        out["dfnum"] = [x.dfnum.get(v, -1) for v in nodes]
        out["parent"] = [idx[x.parent[v]] if x.parent.get(v) is not None else -1 for v in nodes]
        out["semi"] = [idx[x.semi[v]] if v in x.semi else -1 for v in nodes]
    except Exception as e:  # noqa
        out["lt"] = exc(e)
        out["dfnum"] = out["parent"] = out["semi"] = "-"
    try:
        r = [g.get_immediate_dominator(v) for v in nodes]
        out["idom"] = [idx[d] if d is not None else -1 for d in r]
    except Exception as e:  # noqa
        out["idom"] = exc(e)
    try:
        iv = []
        for v in nodes:
            t = g.tree_map[v].interval
            iv += list(t) if t is not None else [-1, -1]
        out["intv"] = iv
    except Exception as e:  # noqa
        out["intv"] = exc(e)
    for key, f in (("dom", g.dominates), ("sdom", g.strictly_dominates)):
        try:
            m = []
            for d in nodes:
                bits = 0
                for i, v in enumerate(nodes):
                    if f(d, v):
                        bits |= 1 << i
                m.append(bits)
            out[key] = m
        except Exception as e:  # noqa
            out[key] = exc(e)
    try:
        # the node-level API must agree with the graph-level one
        out["node_api"] = all(
            d.dominates(v) == bool(out["dom"][i] >> j & 1) for i, d in enumerate(nodes[:6]) for j, v in enumerate(nodes[:6]))
    except Exception as e:  # noqa
        out["node_api"] = exc(e)
    try:
        g.calculate_dominance_frontier()
        out["df"] = [sum(1 << idx[y] for y in g.df[v]) if v in g.df else -1 for v in nodes]
    except Exception as e:  # noqa
        out["df"] = exc(e)
    try:
        m = []
        for u in nodes:
            bits = 0
            for i, v in enumerate(nodes):
                if g.can_reach(u, v):
                    bits |= 1 << i
            m.append(bits)
        out["reach"] = m
    except Exception as e:  # noqa
        out["reach"] = exc(e)
    return out


def real_post(g, nodes, idx):
    out = {}
    try:
        m = []
        for v in nodes:
            bits = 0
            for i, d in enumerate(nodes):
                if g.post_dominates(d, v):
                    bits |= 1 << i
            m.append(bits)
        out["pdom"] = m
    except Exception as e:  # noqa
        out["pdom"] = exc(e)
    ip = []
    for v in nodes:
        try:
            d = g.get_immediate_post_dominator(v)
            ip.append(idx[d] if d is not None else -1)
        except KeyError:
            ip.append(-2)
        except AssertionError:
            ip.append(-3)
        except Exception as e:  # noqa
            ip.append(exc(e))
    out["ipdom"] = ip
    return out


# --------------------------------------------------------------------------------------
# talking to Lean
# --------------------------------------------------------------------------------------
_ENV = None


def lean_env():
    global _ENV
    if _ENV is None:
        p = subprocess.run(["lake", "env", "env"], cwd=common.LEAN, capture_output=True, text=True)
        if p.returncode != 0:
            raise common.BrokenCheck("lake env failed: " + p.stderr[-500:])
        _ENV = dict(l.split("=", 1) for l in p.stdout.splitlines() if "=" in l)
    return _ENV


NATIVE_MODS = ["PpciVerif.Model.Proto", "PpciVerif.Model.Dom", "PpciVerif.Model.LT", "PpciVerif.Spec.Graph",
               "Drivers.C25Impl", "Drivers.C25"]


def native_driver():
    """Compile Drivers/C25.lean to a native executable with Lean's own compiler (lake module facet `o` + leanc).
    Same Lean definitions as `lean --run Drivers/C25.lean`, ~40x faster; returns None when that is not possible
    (the interpreted driver is used then)."""
    import fcntl
    exe = common.LEAN / ".lake" / "build" / "c25" / "driver"
    srcs = [common.module_path(m) for m in NATIVE_MODS]
    if exe.exists() and all(p.exists() and p.stat().st_mtime < exe.stat().st_mtime for p in srcs):
        return str(exe)          # up to date w.r.t. every source module it is made of (they import nothing else)
    lock = open(common.LEAN / ".build.lock", "w")
    fcntl.flock(lock, fcntl.LOCK_EX)
    try:
        p = subprocess.run(["lake", "build"] + [m + ":o" for m in NATIVE_MODS], cwd=common.LEAN, capture_output=True, text=True)
        if p.returncode != 0:
            return None
        objs = [common.LEAN / ".lake" / "build" / "ir" / (m.replace(".", "/") + ".c.o.export") for m in NATIVE_MODS]
        if not all(o.exists() for o in objs):
            return None
        if not exe.exists() or any(o.stat().st_mtime > exe.stat().st_mtime for o in objs):
            exe.parent.mkdir(parents=True, exist_ok=True)
            tmp = exe.with_suffix(".tmp%d" % os.getpid())
            p = subprocess.run(["leanc", "-o", str(tmp)] + [str(o) for o in objs], cwd=common.LEAN, capture_output=True, text=True)
            if p.returncode != 0:
                return None
            os.replace(tmp, exe)
        return str(exe)
    except OSError:
        return None
    finally:
        fcntl.flock(lock, fcntl.LOCK_UN)
        lock.close()


def drive(lines, env, timeout=3000):
    if not lines:
        return []
    cmd = [env["C25_NATIVE"]] if env.get("C25_NATIVE") else ["lean", "--run", "Drivers/C25.lean"]
    p = subprocess.run(cmd, cwd=common.LEAN, env=env, input="".join(l + "\n" for l in lines),
                       capture_output=True, text=True, timeout=timeout)
    out = p.stdout.splitlines()
    if p.returncode != 0 or len(out) != len(lines):
        raise common.BrokenCheck(f"driver C25: rc={p.returncode}, {len(out)} replies for {len(lines)} requests\n" + p.stderr[-1500:])
    return out


def parse(reply):
    if not reply.startswith("ok "):
        raise common.BrokenCheck("driver C25 replied " + reply[:200])
    d = {}
    for tok in reply.split()[1:]:
        k, v = tok.split("=", 1)
        if v.startswith("["):
            d[k] = json.loads(v)
        elif v.lstrip("-").isdigit():
            d[k] = int(v)
        else:
            d[k] = v
    return d


# --------------------------------------------------------------------------------------
# one batch: real outputs -> Lean -> comparison.  Runs in a worker process.
# --------------------------------------------------------------------------------------
class Res:
    def __init__(self):
        self.counts = {}
        self.fails = []
        self.disagree = []
        self.nontriv = []
        self.samples = []

    def count(self, k, n=1):
        self.counts[k] = self.counts.get(k, 0) + n

    @staticmethod
    def size(case):
        return (case.get("n", 0), len(case.get("edges", ()))) if isinstance(case, dict) else (0, 0)

    def keep(self, lst, key, val, item):
        """keep the 2 smallest cases per signature (the smallest one becomes the replay)"""
        same = [f for f in lst if f[key] == val]
        if len(same) < 2:
            lst.append(item)
        else:
            worst = max(same, key=lambda f: self.size(f["case"]))
            if self.size(item["case"]) < self.size(worst["case"]):
                lst[lst.index(worst)] = item

    def fail(self, sig, what, case, **detail):
        self.count("fail_" + sig)
        self.keep(self.fails, "signature", sig, {"signature": sig, "what": what, "case": case, **detail})

    def dis(self, what, case, impl, model):
        self.count("disagree_" + what)
        self.keep(self.disagree, "what", what, {"what": what, "case": case, "impl": impl, "model": model})


def popcount(x):
    return bin(x).count("1")


def cmp_masks(res, sig, what, case, real, spec, n, strict_of=None):
    """property evaluation of a node-set valued query: real vs definition"""
    if isinstance(real, str):
        res.fail(sig + ":raises", f"{what} raised {real[4:]}", case, error=real)
        return
    for i in range(n):
        want = spec[i] & ~(1 << i) if strict_of else spec[i]
        if real[i] != want:
            extra, missing = real[i] & ~want, want & ~real[i]
            kind = "false-positive" if extra and not missing else "false-negative" if missing and not extra else "both"
            res.fail(f"{sig}:{kind}", f"{what}: node {i}: real {sorted(bits(real[i]))} definition {sorted(bits(want))}", case,
                     node=i, real=real[i], definition=want)
            return


def bits(m):
    return [i for i in range(m.bit_length()) if m >> i & 1]


def eval_dom(res, case, g, nodes, idx, succ, pred, real, rep):
    n = nodes if isinstance(nodes, int) else len(nodes)
    res.count("eval_dom_graph")
    res.count("eval_dom_queries", 2 * n * n + 3 * n)
    res.count(f"size_dom_{min(n, 256).bit_length()}")
    if rep["wf"] != 1:
        raise common.BrokenCheck("driver: graph not well-formed: " + json.dumps(case))
    # ---- property on the real outputs ---------------------------------------------------
    spec_idom = rep["idom"]
    for key, name in (("lt", "lt.calculate_idom"), ("idom", "get_immediate_dominator")):
        r = real[key]
        if isinstance(r, str):
            res.fail(f"{key}:raises", f"{name} raised {r[4:]}", case, error=r)
        elif r != spec_idom:
            v = next(i for i in range(n) if r[i] != spec_idom[i])
            res.fail(f"{key}:idom-mismatch", f"{name}: idom({v}) = {r[v]}, path-defined immediate dominator is {spec_idom[v]}", case,
                     node=v, real=r, definition=spec_idom)
    if not isinstance(real["lt"], str) and (rep["chk"] == 1) != (real["lt"] == spec_idom):
        raise common.BrokenCheck("Spec.checkIdom and Spec.idomT disagree on " + json.dumps(case))
    if rep["chk"] == 1:
        res.count("validator_accepts")
    else:
        res.count("validator_rejects")
    cmp_masks(res, "dominates", "dominates (interval test below_or_same)", case, real["dom"], rep["dom"], n)
    cmp_masks(res, "strictly_dominates", "strictly_dominates (interval test below)", case, real["sdom"], rep["dom"], n, strict_of=True)
    if real["node_api"] is not True:
        res.fail("node.dominates:differs", "ControlFlowNode.dominates differs from ControlFlowGraph.dominates", case)
    cmp_masks(res, "df", "dominance frontier", case, real["df"], rep["df"], n)
    cmp_masks(res, "can_reach", "can_reach", case, real["reach"], rep["reach"], n)
    # ---- correspondence with the models -------------------------------------------------
    mlt = rep["m.lt"]
    for key, mk in (("lt", "m.lt"), ("dfnum", "m.dfnum"), ("parent", "m.parent"), ("semi", "m.semi")):
        if real[key] != rep[mk]:
            res.dis("lt." + key, case, real[key], rep[mk])
    if real["intv"] != rep["m.intv"]:
        res.dis("number_dominator_tree", case, real["intv"], rep["m.intv"])
    if real["df"] != rep["m.df"]:
        res.dis("calculate_dominance_frontier", case, real["df"], rep["m.df"])
    if real["reach"] != rep["m.reach"]:
        res.dis("calculate_reach", case, real["reach"], rep["m.reach"])
    # ---- bookkeeping ----------------------------------------------------------------------
    if isinstance(mlt, list) and isinstance(rep["m.parent"], list):
        if any(a != b for a, b in zip(mlt, rep["m.parent"])) or any(rep["df"]):
            res.nontriv.append(case_key(case, "D"))
        if any(a != b for a, b in zip(mlt, rep["m.parent"])):
            res.count("lt_idom_differs_from_dfs_parent")
        if any(a != b for a, b in zip(rep["m.semi"], mlt)):
            res.count("lt_idom_differs_from_semi")
    if len(res.samples) < 2 and n >= 4:
        res.samples.append({"case": case, "real_idom": real["lt"], "spec_idom": spec_idom, "real_df": real["df"], "spec_df": rep["df"],
                            "checkIdom": rep["chk"]})


def eval_post(res, case, nodes, succ, real, rep):
    n = nodes if isinstance(nodes, int) else len(nodes)
    res.count("eval_post_graph")
    res.count("eval_post_queries", n * n + n)
    if rep["wf"] != 1:
        raise common.BrokenCheck("driver: graph not well-formed: " + json.dumps(case))
    cmp_masks(res, "post_dominates", "post_dominates", case, real["pdom"], rep["pdom"], n)
    rx = rep["rx"]
    for v in range(n):
        r = real["ipdom"][v]
        if rx >> v & 1:  # the exit is reachable from v: the claim applies
            if r != rep["ipdom"][v]:
                res.fail("ipdom:mismatch" if isinstance(r, int) and r >= -1 else "ipdom:raises",
                         f"get_immediate_post_dominator({v}) = {r}, path-defined immediate post-dominator is {rep['ipdom'][v]}",
                         case, node=v, real=real["ipdom"], definition=rep["ipdom"])
                break
    if real["pdom"] != rep["m.pdom"]:
        res.dis("calculate_post_dominators", case, real["pdom"], rep["m.pdom"])
    if real["ipdom"] != rep["m.ipdom"]:
        res.dis("calculate_immediate_post_dominators", case, real["ipdom"], rep["m.ipdom"])
    if rep["l.pdom"] != rep["m.pdom"]:
        res.count("post_legacy_differs")  # graphs on which the code before the fix commit was wrong
    if any(len(s) >= 2 for s in succ):
        res.nontriv.append(case_key(case, "P"))
    if len(res.samples) < 3 and n >= 4 and any(len(s) >= 2 for s in succ):
        res.samples.append({"case": case, "real_pdom": real["pdom"], "spec_pdom": rep["pdom"], "real_ipdom": real["ipdom"],
                            "spec_ipdom": rep["ipdom"]})


def case_key(case, side):
    return hash((side, case["n"], case["entry"], case["exit"], tuple(map(tuple, case["edges"])), case.get("kind") == "ir"))


def all_reach(n, out, start):
    seen = 1 << start
    todo = [start]
    while todo:
        u = todo.pop()
        for v in out[u]:
            if not seen >> v & 1:
                seen |= 1 << v
                todo.append(v)
    return seen == (1 << n) - 1


def enum_cases(n, selfloops, lo, hi, step):
    """labelled digraphs on n nodes, entry 0, all nodes reachable; one D case and one (reversed, exit 0) P case each"""
    pairs = [(u, v) for u in range(n) for v in range(n) if selfloops or u != v]
    for mask in range(lo, hi, step):
        edges = [pairs[i] for i in range(len(pairs)) if mask >> i & 1]
        out = [[] for _ in range(n)]
        for u, v in edges:
            out[u].append(v)
        if not all_reach(n, out, 0):
            continue
        yield {"kind": "enum", "n": n, "edges": edges, "entry": 0, "exit": n - 1, "sides": "D"}
        yield {"kind": "enum-rev", "n": n, "edges": [(v, u) for u, v in edges], "entry": n - 1, "exit": 0, "sides": "P"}


def run_batch(args):
    """worker: (spec, env) -> Res as dict"""
    import gc
    spec, env = args
    res = Res()
    t0 = time.time()
    gc.disable()   # thousands of live (cyclic) graph objects make generational collections quadratic; collect once at the end
    deadline = float(env.get("C25_DEADLINE", "0") or 0)

    def gen_all():
        for sp in spec:
            if sp[0] == "enum":
                _, n, loops, lo, hi, step = sp
                if deadline and time.time() > deadline and step == 1:
                    # time budget of the tier exhausted (overloaded machine): sample this block instead of dropping it
                    res.count("enum_blocks_sampled_after_deadline")
                    lo, step = lo + (hi - lo) % 7, 7
                else:
                    res.count("enum_blocks_complete" if step == 1 else "enum_blocks_sampled")
                yield from enum_cases(n, loops, lo, hi, step)
            else:
                yield from sp[1]
    cases = gen_all()
    lines, todo = [], []
    for case in cases:
        try:
            if case.get("kind") == "ir":
                info = build_ir(case)
                g = info.cfg
            else:
                info = None
                g = build(case)
            nodes, idx, succ, pred = extract(g)
            e, x = idx[g.entry_node], idx[g.exit_node]
            if info is not None:
                case = dict(case, real_nodes=len(nodes), real_entry=e, real_exit=x, real_succ=succ)
            sides = case["sides"]
            if "D" in sides and not all_reach(len(nodes), succ, e):
                sides = sides.replace("D", "")
                res.count("skipped_dom_side_unreachable_nodes")
            if "D" in sides:
                real = real_dom(g, nodes, idx)
                ridom = real["lt"] if isinstance(real["lt"], list) else (real["idom"] if isinstance(real["idom"], list) else [-1] * len(nodes))
                lines.append(f"D {len(nodes)} {e} {rows(succ)} {rows(pred)} {json.dumps(ridom, separators=(',', ':'))}")
                todo.append(("D", case, None, nodes if info is not None else len(nodes), None, succ, pred, real, info))
            if "P" in sides:
                real = real_post(g, nodes, idx)
                lines.append(f"P {len(nodes)} {x} {rows(succ)}")
                todo.append(("P", case, None, len(nodes), None, succ, pred, real, None))
        except common.BrokenCheck:
            raise
        except Exception as ex:  # noqa
            res.fail("harness:build-raises", f"building/reading the real graph raised {type(ex).__name__}: {ex}", case)
    t1 = time.time()
    replies = drive(lines, env)
    res.count('t_lean_ms', int(1000 * (time.time() - t1)))
    res.count('t_real_ms', int(1000 * (t1 - t0)))
    res.count('lean_lines', len(lines))
    for (side, case, g, nodes, idx, succ, pred, real, info), reply in zip(todo, replies):
        rep = parse(reply)
        if side == "D":
            eval_dom(res, case, g, nodes, idx, succ, pred, real, rep)
            if info is not None:
                # CfgInfo.df (domtree.py): the frontier mapped back to blocks
                res.count("eval_cfginfo_df")
                want = {}
                for i, nd in enumerate(nodes):
                    if info.has_block(nd):
                        want[info.get_block(nd).name] = sorted(info.get_block(nodes[j]).name for j in bits(rep["df"][i]) if info.has_block(nodes[j]))
                got = {b.name: sorted(o.name for o in s) for b, s in info.df.items()}
                if got != want:
                    res.fail("cfginfo.df:mismatch", f"CfgInfo.df = {got}, by definition {want}", case)
        else:
            eval_post(res, case, nodes, succ, real, rep)
    del todo
    gc.enable()
    gc.collect()
    return res.__dict__


# --------------------------------------------------------------------------------------
# generators
# --------------------------------------------------------------------------------------
CORPUS = [
    # the witness of the fixed defect: exit 0 has a successor (0 -> 1 -> 0, 2 -> 0)
    {"kind": "corpus", "n": 3, "edges": [(0, 1), (1, 0), (2, 0)], "entry": 2, "exit": 0, "sides": "P"},
    {"kind": "corpus", "n": 2, "edges": [(0, 1), (1, 0)], "entry": 1, "exit": 0, "sides": "P"},
    # single node, with and without self-loop
    {"kind": "corpus", "n": 1, "edges": [], "entry": 0, "exit": 0, "sides": "DP"},
    {"kind": "corpus", "n": 1, "edges": [(0, 0)], "entry": 0, "exit": 0, "sides": "DP"},
    # Appel fig. 19.8-like / the two graphs of test/graph/test_lt.py (renumbered)
    {"kind": "corpus", "n": 6, "edges": [(0, 1), (1, 2), (1, 3), (2, 4), (3, 4), (4, 1), (4, 5)], "entry": 0, "exit": 5, "sides": "DP"},
    {"kind": "corpus", "n": 13, "edges": [(0, 1), (0, 2), (1, 3), (1, 6), (2, 4), (2, 7), (3, 5), (3, 6), (4, 7), (4, 2), (5, 8), (5, 10),
                                         (6, 9), (7, 12), (8, 11), (9, 11), (10, 11), (11, 12)], "entry": 0, "exit": 12, "sides": "DP"},
    # irreducible loop with two entries, and an exit that is not reachable from a spinning node (ipdom precondition)
    {"kind": "corpus", "n": 5, "edges": [(0, 1), (0, 2), (1, 2), (2, 1), (1, 3), (2, 4), (4, 4), (3, 3), (4, 3)], "entry": 0, "exit": 3, "sides": "DP"},
    {"kind": "corpus", "n": 4, "edges": [(0, 1), (1, 1), (0, 2), (2, 3)], "entry": 0, "exit": 3, "sides": "DP"},
    # deep chain with back edges: long ancestor chains in the Lengauer-Tarjan forest
    {"kind": "corpus", "n": 9, "edges": [(i, i + 1) for i in range(8)] + [(8, 0), (7, 2), (6, 1), (5, 3), (0, 8), (2, 6)], "entry": 0, "exit": 8, "sides": "DP"},
    # IR procedure through CfgInfo: diamond with a loop
    {"kind": "ir", "n": 5, "edges": [(0, 1), (0, 2), (1, 3), (2, 3), (3, 4), (3, 0)], "entry": 0, "exit": 4, "sides": "DP"},
]


def gen_tree_plus(rng, n, extra, exit_succ=False):
    """out-tree from the entry + in-tree to the exit + random extra edges (usually irreducible)"""
    perm = list(range(n))
    rng.shuffle(perm)
    x = perm[-1] if exit_succ or n == 1 else rng.choice(perm[1:])
    edges = set()
    for i in range(1, n):
        cands = [p for p in perm[max(0, i - rng.choice((1, 2, 3, n))):i] if p != x or exit_succ] or [p for p in perm[:i] if p != x]
        edges.add((rng.choice(cands), perm[i]))
    perm2 = [v for v in range(n) if v != x]
    rng.shuffle(perm2)
    perm2.append(x)
    for i in range(n - 1):
        edges.add((perm2[i], perm2[rng.randrange(i + 1, min(n, i + 1 + rng.choice((1, 2, 3, n))))]))
    for _ in range(extra):
        u, v = rng.randrange(n), rng.randrange(n)
        if u == x and not exit_succ:
            continue
        edges.add((u, v))
    edges = sorted(edges)
    rng.shuffle(edges)
    return {"kind": "tree+extra", "n": n, "edges": edges, "entry": perm[0], "exit": x, "sides": "DP"}


def gen_structured(rng, budget):
    """reducible CFG from a random structured program (seq / if / if-else / while / do-while / break / return)"""
    edges, cnt = [], [0]

    def new():
        cnt[0] += 1
        return cnt[0] - 1

    rets = []

    def region(entry, b, brk):
        """emit a region starting in node `entry`; returns its fall-through node"""
        if b <= 1:
            return entry
        k = rng.randrange(7)
        if k == 0:  # sequence
            m = region(entry, b // 2, brk)
            n2 = new()
            edges.append((m, n2))
            return region(n2, b - b // 2, brk)
        if k == 1:  # if-then
            t, j = new(), new()
            edges.append((entry, t))
            edges.append((entry, j))
            edges.append((region(t, b - 2, brk), j))
            return j
        if k == 2:  # if-then-else
            t, e, j = new(), new(), new()
            edges.extend([(entry, t), (entry, e)])
            edges.append((region(t, (b - 3) // 2, brk), j))
            edges.append((region(e, (b - 3) // 2, brk), j))
            return j
        if k == 3:  # while
            h, body, out = new(), new(), new()
            edges.extend([(entry, h), (h, body), (h, out)])
            edges.append((region(body, b - 3, out), h))
            return out
        if k == 4:  # do-while
            body, out = new(), new()
            edges.append((entry, body))
            last = region(body, b - 2, out)
            edges.extend([(last, body), (last, out)])
            return out
        if k == 5 and brk is not None:  # if (..) break;
            j = new()
            edges.extend([(entry, brk), (entry, j)])
            return region(j, b - 1, brk)
        # if (..) return;
        j = new()
        rets.append(entry)
        edges.append((entry, j))
        return region(j, b - 1, brk)

    e = new()
    last = region(e, budget, None)
    x = new()
    edges.append((last, x))
    for r in rets:
        edges.append((r, x))
    edges = sorted(set(edges))
    rng.shuffle(edges)
    return {"kind": "structured", "n": cnt[0], "edges": edges, "entry": e, "exit": x, "sides": "DP"}


def gen_chain(rng, n, k):
    """chain 0 -> 1 -> ... -> n-1 with k random back / forward / cross edges: deep Lengauer-Tarjan forests"""
    edges = {(i, i + 1) for i in range(n - 1)}
    for _ in range(k):
        u, v = rng.randrange(n - 1), rng.randrange(n)
        edges.add((u, v))
    edges = sorted(edges)
    rng.shuffle(edges)
    return {"kind": "chain", "n": n, "edges": edges, "entry": 0, "exit": n - 1, "sides": "DP"}


def gen_ladder(rng, n):
    """two parallel chains with rungs in both directions (many semidominator candidates)"""
    h = n // 2
    edges = {(0, 1), (0, h)}
    for i in range(1, h - 1):
        edges.add((i, i + 1))
    for i in range(h, 2 * h - 1):
        edges.add((i, i + 1))
    for i in range(1, h):
        if rng.random() < 0.5:
            edges.add((i, min(2 * h - 1, h + i + rng.randrange(-1, 2))))
        if rng.random() < 0.5:
            edges.add((h + i - 1, max(1, i + rng.randrange(-1, 2))))
    edges.add((h - 1, 2 * h - 1))
    edges = sorted(e for e in edges if e[0] != 2 * h - 1)
    rng.shuffle(edges)
    return {"kind": "ladder", "n": 2 * h, "edges": edges, "entry": 0, "exit": 2 * h - 1, "sides": "DP"}


def gen_dense(rng, n, p):
    edges = [(u, v) for u in range(n) for v in range(n) if rng.random() < p]
    edges += [(i, i + 1) for i in range(n - 1)]
    edges = sorted(set(edges))
    rng.shuffle(edges)
    return {"kind": "dense", "n": n, "edges": edges, "entry": 0, "exit": n - 1, "sides": "DP"}


def gen_ir(rng, n):
    """random IR procedure (out-degree <= 2, some blocks return), analysed through CfgInfo"""
    out = {}
    perm = list(range(n))
    for i in range(1, n):
        u = perm[rng.randrange(max(0, i - 3), i)]
        if len(out.setdefault(u, [])) < 2:
            out[u].append(i)
        else:
            out.setdefault(i - 1, [])
            if len(out[i - 1]) < 2:
                out[i - 1].append(i)
    for u in range(n):
        o = out.setdefault(u, [])
        while len(o) < 2 and rng.random() < 0.5:
            v = rng.randrange(n)
            if v not in o:
                o.append(v)
    edges = [(u, v) for u in range(n) for v in out[u]]
    return {"kind": "ir", "n": n, "edges": edges, "entry": 0, "exit": n - 1, "sides": "DP"}


def random_cases(ctx):
    rng = ctx.rng
    k = 10 if ctx.thorough else 1
    cases = []
    for _ in range(60 * k):
        cases.append(gen_tree_plus(rng, rng.randint(2, 12), rng.randint(0, 12), exit_succ=rng.random() < 0.3))
    for _ in range(40 * k):
        cases.append(gen_tree_plus(rng, rng.randint(13, 60), rng.randint(0, 60), exit_succ=rng.random() < 0.3))
    for _ in range(60 * k):
        cases.append(gen_structured(rng, rng.randint(2, 40)))
    for _ in range(30 * k):
        cases.append(gen_chain(rng, rng.randint(3, 40), rng.randint(1, 30)))
    for _ in range(20 * k):
        cases.append(gen_ladder(rng, rng.randint(6, 40)))
    for _ in range(20 * k):
        cases.append(gen_dense(rng, rng.randint(2, 14), rng.choice((0.1, 0.2, 0.4))))
    for _ in range(40 * k):
        cases.append(gen_ir(rng, rng.randint(2, 30)))
    # the large ones (up to 200 nodes)
    for _ in range(3 * k if ctx.thorough else 1):
        cases.append(gen_tree_plus(rng, rng.randint(100, 200), rng.randint(50, 200)))
        cases.append(gen_structured(rng, rng.randint(100, 190)))
        cases.append(gen_chain(rng, rng.randint(100, 200), rng.randint(50, 150)))
    cases.append(gen_ladder(rng, 200))
    if ctx.thorough:
        cases.append(gen_ir(rng, 150))
        cases.append(gen_tree_plus(rng, 200, 200))
    return cases


# --------------------------------------------------------------------------------------
def merge(ctx, r, fails, dis):
    for k, v in r["counts"].items():
        ctx.count(k, v)
    fails += r["fails"]
    dis += r["disagree"]
    for k in r["nontriv"]:
        ctx.nontrivial(k)
    for s in r["samples"]:
        ctx.sample(s)


def check(ctx, only=None):
    env = dict(lean_env())
    t0 = time.time()
    exe = None if os.environ.get("C25_INTERPRETED") else native_driver()
    ctx.extra_cov["t_native_build_s"] = round(time.time() - t0, 1)
    if exe:
        env["C25_NATIVE"] = exe
        # the native executable and the interpreted driver (`lean --run`, the documented route) must agree
        probe = []
        for c in CORPUS:
            if c.get("kind") != "ir":
                g = build(c)
                nodes, idx, succ, pred = extract(g)
                probe.append(f"D {len(nodes)} {idx[g.entry_node]} {rows(succ)} {rows(pred)} {json.dumps([-1] * len(nodes), separators=(',', ':'))}")
                probe.append(f"P {len(nodes)} {idx[g.exit_node]} {rows(succ)}")
        if drive(probe, env) != ctx.driver("C25", probe):
            raise common.BrokenCheck("native and interpreted C25 driver disagree")
        ctx.extra_cov["t_probe_s"] = round(time.time() - t0, 1)
        ctx.extra_cov["driver"] = "native executable compiled from Drivers/C25.lean (lake :o facets + leanc); cross-checked against `lean --run` on the corpus"
    else:
        ctx.extra_cov["driver"] = "interpreted (`lean --run Drivers/C25.lean`)"
    jobs = []        # (estimated cost, [spec, ...])
    if only is not None:
        jobs.append((1, [("list", only)]))
    else:
        small_enum = [("list", CORPUS)] + [("enum", n, True, 0, 1 << (n * n), 1) for n in (1, 2, 3)]
        jobs.append((600, small_enum))
        if ctx.thorough:
            for lo in range(0, 1 << 16, 1 << 12):
                jobs.append((4096, [("enum", 4, True, lo, lo + (1 << 12), 1)]))
            for lo in range(0, 1 << 20, 1 << 13):
                jobs.append((8192, [("enum", 5, False, lo, lo + (1 << 13), 1)]))
            # 5 nodes with self-loops: sampled
            for _ in range(16):
                st = 9973 + 2 * ctx.rng.randrange(500)
                jobs.append(((1 << 25) // st, [("enum", 5, True, ctx.rng.randrange(997), 1 << 25, st)]))
        else:
            # 4 nodes incl. self-loops: 2^16 edge sets; quick takes every 3rd (seed-dependent residue; an odd stride,
            # so that no edge bit is pinned), the thorough tier all of them
            off = ctx.rng.randrange(3)
            for lo in range(0, 1 << 16, 1 << 12):
                jobs.append((1366, [("enum", 4, True, lo + (off - lo) % 3, lo + (1 << 12), 3)]))
            for _ in range(8):
                st = 1009 + 2 * ctx.rng.randrange(100)
                jobs.append(((1 << 20) // st, [("enum", 5, False, ctx.rng.randrange(499), 1 << 20, st)]))
        rc = random_cases(ctx)
        rc.sort(key=lambda c: -c["n"])
        big = [c for c in rc if c["n"] > 60]
        small = [c for c in rc if c["n"] <= 60]
        for c in big:
            jobs.append((40 * c["n"], [("list", [c])]))
        for i in range(0, len(small), 60):
            jobs.append((1500, [("list", small[i:i + 60])]))
    # pack the jobs into at most 16 (quick) process-sized bins, largest first
    jobs.sort(key=lambda j: -j[0])
    if ctx.thorough:
        bins = [j[1] for j in jobs]
    else:
        bins, load = [[] for _ in range(16)], [0] * 16
        for cost, specs in jobs:
            i = load.index(min(load))
            bins[i] += specs
            load[i] += cost
        bins = [b for b in bins if b]
    # budget: the exhaustive blocks are complete as long as the tier is within its time budget; on an overloaded
    # machine the blocks started after the deadline are sampled (stride 7) and the evidence says so
    env["C25_DEADLINE"] = str(ctx.t0 + (570 if ctx.thorough else 75))
    with multiprocessing.get_context("fork").Pool(16) as pool:
        fails, dis = [], []
        for r in pool.imap_unordered(run_batch, [(b, env) for b in bins]):
            merge(ctx, r, fails, dis)
    # smallest failing graph first: the first failure of a signature becomes its replay file
    for f in sorted(fails, key=lambda f: Res.size(f["case"])):
        f = dict(f)
        ctx.fail(f.pop("signature"), f.pop("what"), f.pop("case"), **f)
    for d in sorted(dis, key=lambda d: Res.size(d["case"]))[:200]:
        ctx.disagree(d["what"], d["case"], d["impl"], d["model"])
    degraded = ctx.counts.get("enum_blocks_sampled_after_deadline", 0)
    ctx.extra_cov["exhaustive"] = bool(ctx.thorough) and only is None and not degraded
    if degraded:
        ctx.note(f"time budget reached: {degraded} enumeration blocks were sampled (every 7th edge set) instead of enumerated completely")
    ctx.extra_cov["exhaustive_domain"] = (
        "all labelled digraphs with entry 0 and all nodes reachable: n<=4 incl. self-loops and n=5 without self-loops (thorough); "
        "n<=3 complete, n=4 every 3rd edge set, n=5 sampled with odd strides (quick); each also reversed with exit 0 for the post-dominator side")
    ctx.extra_cov["lean_validator"] = "Spec.Graph.checkIdom accepted %d / %d real Lengauer-Tarjan outputs" % (
        ctx.counts.get("validator_accepts", 0), ctx.counts.get("validator_accepts", 0) + ctx.counts.get("validator_rejects", 0))
    ctx.extra_cov["check_wall_s"] = round(time.time() - t0, 1)
    ctx.extra_cov["not_shown"] = "correctness of Lengauer-Tarjan for all graphs (validated per output instead)"


def replay(ctx, rp):
    case = rp.get("case")
    if isinstance(case, dict) and "edges" in case:
        case = {k: v for k, v in case.items() if not k.startswith("real_")}
        case["edges"] = [tuple(e) for e in case["edges"]]
        check(ctx, only=[case])
    else:
        check(ctx)
