"""C07 — instruction read/write annotations match machine semantics (RISC-V only).

regen: the annotation table of the modelled riscv classes is dumped from the LIVE Operand flags into
lean/PpciVerif/Gen/RVAnnot.lean; Props/C07.lean re-checks (decide +kernel) that every row covers the
register footprint of the class's instruction under Spec.RV32.step, and lifts that to all operands and
all machine states.  check: (1) the table rows vs used_registers/defined_registers of REAL instances,
(2) the property on the real code: the real bytes of each instance are decoded and executed by the Lean
spec on probe states, looking for a register outside the instance's defined registers that changes or a
register outside its used registers that influences the result."""
from harness import rvlib
from harness import c07_native
from harness import c07_decode

PROP = "C07"
LEAN_PROPS = "PpciVerif/Props/C07.lean"
LEAN_TARGETS = ["PpciVerif.Props.C07", "Drivers.C07"]
LEVEL = "proof"
LEVEL_TEXT = (
    "P, RISC-V only. Lean theorems for ALL machine states, all 96 modelled RV32I/M/Zicsr/RVC instruction classes "
    "(3 listed exceptions) and all operand values: executing the class's instruction under a one-step semantics written "
    "from the ISA manual (Spec.RV32.step) changes no integer register outside the declared writes, and pc/memory/CSRs/"
    "written registers of the result depend on no integer register outside the declared reads (plus sp for the four "
    "compressed classes where the ISA makes it implicit). The declared sets are the live Operand(read/write) flags, "
    "regenerated into a Lean table on every run and kernel-checked against the instruction footprint; the instruction a "
    "class executes is tied to its emitted bytes by C08. NOT covered: arm, thumb, m68k, mips, x86_64 (no formal ISA "
    "semantics exists here; no emulator in the sandbox) — nothing is PROVED or claimed for them; float classes; "
    "extra_uses/extra_defs/clobbers set by code generation on call instructions. "
    "x86_64 additionally gets an always-on NATIVE failing-input search WITHOUT any theorem: every instruction class that is "
    "safe to run in isolation is encoded by ppci and executed on the host CPU inside a register-file stub; a register that "
    "changes outside defined_registers/clobbers, or an undeclared register that influences the result, is reported. "
    "arm and thumb are covered by a DISASSEMBLER-BASED search only (no theorem, no emulator): the real bytes are decoded by "
    "llvm and, for the simple data-processing forms with unambiguous operand roles (mov/mvn, add/sub/and/orr/eor/bic/shifts/"
    "mul/adc/sbc/rsb, cmp/cmn/tst/teq), llvm's destination and source registers are compared with defined_registers / "
    "used_registers; everything else is counted as unknown. m68k and mips: nothing.")
LEVEL_NOTE = (
    "trusted: Lean kernel; Spec.RV32.step (written from the manual, not validated by an emulator — none exists in the "
    "sandbox; its decoder is validated against llvm-mc under C08); translate/c07_annot.py; meaning<->bytes by C08's theorem "
    "and correspondence")
TECHNIQUE = ("Lean 4 proof: generic frame/dependency theorems of the step function (case split over instruction forms) + "
             "decide +kernel over the regenerated annotation table, lifted from one generic operand tuple by a uniformity lemma; "
             "concrete counterexample search by executing the Lean semantics on probe states")
RULE = ("per class: register tuples corners+random (quick) / exhaustive for <=2 registers (thorough), a few in-range immediates; "
        "distinct = distinct (class, registers, immediate); non-trivial = has a register operand")
TRUSTED = [
    "Spec.RV32.step (one-step semantics from the RISC-V ISA manual; CSRs as plain storage; ecall/ebreak = environment)",
    "translate/c07_annot.py (dump of the live Operand read/write flags)",
    "C08: the instruction a class instance executes is what its emitted bytes decode to",
]
ASSUMPTIONS = [
    "x0 is never an allocatable register: reads/writes of x0 need no annotation",
    "implicit sp operand of c.lwsp/c.swsp/c.addi4spn/c.addi16sp counts as documented implicit state for READS only",
]

IMPLICIT_SP = {"CLwsp", "CSwsp", "CAddi4spn", "CAddi16sp"}

CORPUS = [("CJal", 0, 0, 0, 0), ("CJalr", 5, 0, 0, 0), ("CAddi16sp", 0, 0, 0, -32), ("CAddi", 5, 5, 0, -1),
          ("CSub", 9, 10, 0, 0), ("CAnd", 8, 15, 0, 0), ("Loadlrel", 3, 9, 0, 0), ("Sw", 5, 6, 0, -4),
          ("Blr", 1, 5, 0, 8), ("CSlli", 5, 5, 0, 3), ("CLwsp", 5, 0, 0, 8), ("CSwsp", 5, 0, 0, 8), ("CAddi4spn", 8, 0, 0, 16)]


def regen(ctx):
    import sys
    sys.path.insert(0, str(__import__("pathlib").Path(__file__).resolve().parent.parent / "translate"))
    import c07_annot
    if c07_annot.regen():
        ctx.note("regenerated Gen/RVAnnot.lean")


def regnums(regs):
    I, C, R = rvlib.modules()
    return sorted({r.num for r in regs if isinstance(r, R.RiscvRegister) and type(r) is R.RiscvRegister})


def cases(ctx, classes):
    out = list(CORPUS)
    n = 600 if ctx.thorough else 12
    for name in classes:
        doms, immd = rvlib.domain(name)
        nfree = len([d for d in doms if d != "=0"])
        tuples = rvlib.reg_tuples(ctx.rng, doms, ctx.thorough and nfree <= 2, n)
        imms = [0]
        if immd is not None:
            lo, hi, st, excl = immd
            imms = [v for v in {lo, hi - st, st, ctx.rng.randrange(lo, hi, st)} if v not in excl and lo <= v < hi]
        for k, t in enumerate(tuples):
            for v in (imms if k < 2 else imms[:1]):
                out.append((name, t[0], t[1], t[2], v))
    seen, uniq = set(), []
    for c in out:
        if c not in seen:
            seen.add(c); uniq.append(c)
    return uniq


def check(ctx):
    from pathlib import Path
    classes = (Path(__file__).resolve().parent.parent / "translate" / "c07_classes.txt").read_text().split()
    cs = cases(ctx, classes)
    insts, reqs_decl, reqs_probe = [], [], []
    for (name, a, b, c, imm) in cs:
        try:
            ins = rvlib.make(name, a, b, c, imm)
            bs = bytes(ins.encode())
        except Exception as e:  # noqa
            ctx.disagree("instance", [name, a, b, c, imm], type(e).__name__, "valid operands")
            continue
        used = regnums(ins.used_registers)
        defined = regnums(list(ins.defined_registers) + list(getattr(ins, "clobbers", [])))
        insts.append(((name, a, b, c, imm), ins, bs, used, defined))
        reqs_decl.append(f"decl {name} {a} {b} {c}")
        st = lambda xs: ",".join(map(str, xs)) if xs else "-"
        reqs_probe.append(f"probe {bs.hex()} {st(used)} {st(defined)} {1 if name in IMPLICIT_SP else 0}")
    out = ctx.driver("C07", ["uncovered", "classes"] + reqs_decl + reqs_probe)
    unc = out[0][3:]
    ctx.extra_cov["classes_not_covered_by_their_annotations"] = [] if unc == "-" else unc.split(",")
    if out[1][3:].split(",") != classes:
        ctx.disagree("class-list", "translate/c07_classes.txt", classes, out[1][3:].split(","))
    out = out[2:]
    decl, probe = out[:len(insts)], out[len(insts):]
    for (cse, ins, bs, used, defined), d, p in zip(insts, decl, probe):
        name = cse[0]
        ctx.count("eval_annot")
        ctx.count("class_" + name)
        if any(cse[1:4]):
            ctx.nontrivial(cse)
        # (1) table vs real instance
        f = dict(x.split("=") for x in d[3:].split())
        tr = sorted({int(x) for x in f["reads"].split(",")} if f["reads"] != "-" else set())
        tw = sorted({int(x) for x in f["writes"].split(",")} if f["writes"] != "-" else set())
        if tr != used or tw != defined:
            ctx.disagree("annotation-table", list(cse), {"used": used, "defined": defined}, {"reads": tr, "writes": tw})
        # (2) the property on the real bytes
        if p.startswith("ok held"):
            continue
        if p == "ok none":
            ctx.fail(f"riscv:{name}:undecodable", f"{ins} = {bs.hex()} is no instruction", list(cse))
            continue
        kind, reg = p.split()[1], p.split()[2]
        text = " ".join(p.split()[3:])
        ctx.fail(f"riscv:{name}:{kind}", f"'{ins}' ({bs.hex()} = {text}) {kind.replace('-', ' ')} {reg}: declared reads {used}, writes {defined}",
                 list(cse), bytes=bs.hex(), decoded=text, register=reg, used=used, defined=defined)
    if insts:
        ctx.sample({"case": list(insts[0][0]), "bytes": insts[0][2].hex(), "used": insts[0][3], "defined": insts[0][4], "probe": probe[0]})
        ctx.sample({"case": list(insts[-1][0]), "bytes": insts[-1][2].hex(), "used": insts[-1][3], "defined": insts[-1][4], "probe": probe[-1]})
    c07_native.check(ctx)
    c07_decode.check(ctx)
    ctx.extra_cov["exhaustive"] = False
    ctx.extra_cov["isas_not_covered"] = ["arm (llvm-decode search only)", "thumb (llvm-decode search only)", "m68k", "mips", "x86_64 (native search only, no theorem)"]


def replay(ctx, rp):
    check(ctx)
