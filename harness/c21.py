"""C21 WebAssembly modules round-trip through binary and text forms.

regen : dumps the live dictionaries OPCODES / REVERZ / OPERANDS (ppci.wasm.opcodes) and LANG_TYPES /
        LANG_TYPES_REVERSE (ppci.wasm.binary.io) into lean/PpciVerif/Gen/WasmOpcodes.lean;
        Props.C21.tables_sane re-checks (decide +kernel) what the round-trip theorems need of them.
check : (a) generated valid modules built with the REAL ppci.wasm.components API (typed generator: types,
        imports, functions with nested block/loop/if/br_table, globals, memories, data, tables, elems,
        exports, start) and modules ppci itself produces from generated C (c_to_ir + ir_to_wasm):
        real Module.to_bytes() -> real reader Module(bytes) -> to_bytes() byte identity and structural
        equality; the same bytes through the Lean reader (Drivers/C21) = the Python structure; Lean
        writer bytes = real writer bytes; Lean `Valid` / `Canon` hold of them;
        (b) non-canonical and damaged variants of those binaries (padded LEB128 sizes, reordered / empty /
        custom sections, split local runs, truncations, byte flips): real reader outcome (structure or
        exception class) = Lean reader outcome; for every input the Lean strict reader calls canonical the
        real read->write must reproduce the bytes;
        (c) text: Module.to_string() -> text parser -> to_bytes() equals the binary (real code only, the
        text layer is not modelled); (d) WAT sources written as text (generator + fixed corpus, not built through the
        components API) mixing explicit $ids and anonymous definitions in every index space, inline elem/data/import/export
        abbreviations, references by name and by index: text -> bytes equals the bytes of the same module written with
        numeric indices only, equals an independently hand-assembled binary, and text -> Module -> to_string -> Module
        gives the same bytes.
No reference engine / wat2wasm / spec test-suite exists in the sandbox: the last clause of the property
(accepted by a reference engine) is NOT evaluated."""
import io
import math
import resource
import struct

from . import common

PROP = "C21"
LEAN_PROPS = "PpciVerif/Props/C21.lean"
LEAN_TARGETS = ["PpciVerif.Props.C21", "Drivers.C21"]
LEVEL = "proof"
LEVEL_TEXT = (
    "PARTIAL (binary layer proved in both directions, text layer and reference-engine acceptance not). Lean theorems about Model.WasmBin, a "
    "hand model of ppci/wasm/binary/{writer,reader}.py whose opcode/operand/value-type dictionaries are regenerated from the live ppci objects "
    "on every run. Feature set: all 13 section ids incl. custom and datacount; every instruction of opcodes.py whose operand kinds both reader "
    "and writer implement (everything except ref.null / table.init / elem.drop / memory.init / data.drop / v128.const), generically over the "
    "table; nested block/loop/if/br_table of any depth; f32/f64 constants as opaque 4/8-byte strings. (1) read_write: for ALL modules m "
    "satisfying the decidable predicate Valid (well-nested bodies, known types/opcodes with matching operands, UTF-8 names, element segments on "
    "table 0, no signalling-NaN f32 constant, at most one start/datacount): read(write m) = m with the definitions in section order. "
    "(2) write_is_canonical: the written bytes satisfy the decidable predicate Canon = accepted by the strict reader (every LEB128 minimal in "
    "the C20 sense, sections in order custom*,1..12 at most once, no empty vector section, function/code counts equal, mut 0/1, maximal local "
    "runs, data flag 2 only with index>0, select with empty type list is 0x1B, no f32 sNaN, nothing the writer cannot emit). "
    "(3) canonical_input_reproduced / canon_iff_written: for EVERY byte string bs with Canon bs, the (Python-mirroring) reader returns a Valid "
    "module m and the writer's bytes for m are exactly bs; Canon is exactly the image of the writer - this is the first clause of C21 on the "
    "model, in full. Section framing (id,size,payload), vectors, names, limits, types, import/export descriptors, instructions, expressions and "
    "every LEB immediate (u32/s32/s64 via the C20 theorems) are separate theorems; the table facts (opcodes unique, every mnemonic has one "
    "encoding that decodes to itself, types one byte) are decide +kernel over the regenerated tables. Text layer: only the id-assignment rule of "
    "the WAT parser is modelled (Model.WatIds, tied by correspondence): a generated id $n is the index of its definition, accepted ids resolve "
    "to the definition's index, and the '$0 means index 0' convention of Ref.is_zero / the text writer is sound when no user id has the form "
    "$<decimal> (wat_auto_id_is_index, wat_resolve_index, wat_is_zero_sound). Everything else of the text format (Module.to_string / text "
    "parser) is NOT covered by proof - evaluated on the real code only (modules read from binary, generated WAT sources mixing named/anonymous "
    "definitions and inline abbreviations, compared with all-numeric sources and hand-assembled binaries); acceptance by a reference engine / agreement with a reference "
    "assembler - no wasmtime, wabt, wat2wasm or spec test-suite is available in the sandbox, nothing is claimed for that clause."
)
LEVEL_NOTE = (
    "trusted: Lean kernel; axioms propext/Classical.choice/Quot.sound; the table dump (regen) and the hand model <-> source correspondence, "
    "which is sampled by a differential run (generated + compiler-produced modules, non-canonical and damaged variants), not proved; names are "
    "modelled as UTF-8 byte strings (CPython's codec assumed to be the Unicode-standard one), f32/f64 constants as the bytes struct.pack "
    "produces; block types are single bytes as in ppci (no s33 type-index block types: ppci does not support them). Two defects were fixed in "
    "/repo (externref type byte, datacount read signed); open findings: f32 signalling-NaN constants are quieted by the reader, NaN "
    "payload/sign and names containing a double quote / line break are lost by the text form."
)
TECHNIQUE = ("Lean 4 proof (parser-combinator style induction over the module structure, reusing the C20 LEB128 theorems) about a hand model "
             "parameterised by tables + table translation (decide +kernel on the regenerated dictionaries) + differential correspondence of the "
             "real reader/writer with the model + evaluation of the binary and text round trip on the real code")
RULE = ("every unsigned numeric field (limits min/max in all six shapes (0,0) (n,n) (0,None) (n,None) (0,n) (n,m); memarg offsets; segment "
        "offsets; vector/name/data/locals/param/label-vector lengths; function counts) is drawn from a boundary-biased pool {0,1,2,63,64,65,127,"
        "128,129,255,256,2^14-1,2^14,2^14+1,2^16-1,2^16,2^21,2^28,2^31,2^32-1} where valid; a fixed corpus of ~490 hand-assembled canonical "
        "binaries (mini assembler independent of ppci's writer) covers every section kind with those boundary values; "
        "modules: typed random generator over the real components API (sizes 1-40 definitions, bodies nested to depth 5, br_table with distinct "
        "labels, memarg align/offset incl. offsets >= 64 and >= 2^31, indices >= 64 and >= 128 through many locals/functions, all four value "
        "types, boundary and random i32/i64 constants, float constants incl. inf/-0/denormal/canonical NaN, unicode names, data 0-300 bytes, "
        "active/passive data, imports of all four kinds, externref tables) + modules compiled by ppci from generated C; variants: every "
        "section-size LEB padded, sections swapped, empty vector section, custom section in front/middle/end, split local runs, truncation at "
        "random points, single-byte flips. distinct = distinct byte string; non-trivial = module with a function body containing a nested "
        "block, or any non-canonical/damaged variant")
TRUSTED = [
    "hand model Model.WasmBin of ppci/wasm/binary/writer.py and reader.py (structure of Module.definitions without the ids the writer ignores), tied by differential run on every check",
    "Gen.WasmOpcodes: dump of OPCODES/REVERZ/OPERANDS/LANG_TYPES/LANG_TYPES_REVERSE as search trees by harness/c21.py regen(); the bounds the model adds to the reverse lookups (keys < 256, sub-opcodes < maxSub) are asserted at dump time",
    "the S-expression canonicaliser of the harness (Python module -> text) and the driver's parser/printer",
    "C20: Model.Leb128 and its theorems (imported)",
    "hand model Model.WatIds of the WAT parser's id assignment (gen_id evaluated for every definition; resolve_references; Ref.is_zero), tied by differential run over named/anonymous/$N patterns in five index spaces",
]
ASSUMPTIONS = [
    "bytes.decode('utf-8') accepts exactly well-formed UTF-8 (Unicode table 3-7) and str.encode inverts it",
    "struct.unpack('f') then struct.pack('<f') is the identity on 4-byte strings except that a signalling NaN becomes the quiet NaN with the same payload (x86-64 cvtss2sd); '<d' is the identity on 8-byte strings",
    "generated modules are structurally well-formed and typed by construction; they were not validated by a reference engine (none available)",
]

KIND = {"TYPE": "type", "HEAPTYPE": "heaptype", "U8": "u8", "U32": "u32", "I32": "i32", "I64": "i64", "F32": "f32",
        "F64": "f64", "U8x16": "u8x16", "TYPEIDX": "typeidx", "TABLEIDX": "tableidx", "LOCALIDX": "localidx",
        "BLOCKIDX": "blockidx", "FUNCIDX": "funcidx", "LABELIDX": "labelidx", "GLOBALIDX": "globalidx",
        "ELEMIDX": "elemidx", "DATAIDX": "dataidx", "br_table": "brTable", "result_types": "resultTypes"}


# ----------------------------------------------------------------------------------------------
# translation: dump live tables
def _bst(items, var, show):
    if not items:
        return "none"
    if len(items) == 1:
        k, v = items[0]
        return f"if {var} = {k} then some {show(v)} else none"
    mid = len(items) // 2
    return f"if {var} < {items[mid][0]} then ({_bst(items[:mid], var, show)}) else ({_bst(items[mid:], var, show)})"


def gen_text():
    from ppci.wasm import opcodes as O
    from ppci.wasm.binary import io as IO
    names = list(O.OPCODES)
    idx = {m: i for i, m in enumerate(names)}
    tnames = list(IO.LANG_TYPES)
    tidx = {t: i for i, t in enumerate(tnames)}

    def kind(o):
        return "." + KIND[o.name if isinstance(o, O.ArgType) else o]

    def key(o):
        return f"({o[0]}, some {o[1]})" if isinstance(o, tuple) else f"({o}, none)"
    for m in names:
        assert '"' not in m and "\\" not in m
    rev1 = sorted((k, idx[m]) for k, m in O.REVERZ.items() if not isinstance(k, tuple))
    rev2 = {}
    for k, m in O.REVERZ.items():
        if isinstance(k, tuple):
            assert len(k) == 2
            rev2.setdefault(k[0], []).append((k[1], idx[m]))
    assert all(isinstance(k, int) and 0 <= k < 256 for k, _ in rev1), "single-byte REVERZ key out of range"
    max_sub = 1 + max([s for v in rev2.values() for s, _ in v] + [0])
    trev = sorted((b, tidx[t]) for b, t in IO.LANG_TYPES_REVERSE.items())
    assert all(isinstance(b, int) and 0 <= b < 256 for b, _ in trev)
    L = []
    L.append("import PpciVerif.Model.WasmBin")
    L.append("/- GENERATED by harness/c21.py regen() from the live dictionaries of ppci.wasm.opcodes (OPCODES, REVERZ, OPERANDS)")
    L.append("   and ppci.wasm.binary.io (LANG_TYPES, LANG_TYPES_REVERSE) of the checked tree - do not edit.")
    L.append("   The dictionaries are rendered as balanced search trees over the key so that kernel evaluation of a lookup is logarithmic. -/")
    L.append("namespace Gen.WasmOpcodes")
    L.append("open Model.WasmBin")
    L.append("")
    L.append("/-- `list(OPCODES)`: instruction id ↦ mnemonic -/")
    L.append("def names : List String := [" + ", ".join(f'"{m}"' for m in names) + "]")
    L.append("/-- `list(LANG_TYPES)`: type id ↦ name -/")
    L.append("def typeNames : List String := [" + ", ".join(f'"{t}"' for t in tnames) + "]")
    L.append("/-- `OPCODES[names[id]]` -/")
    L.append("def opcodeKey (id : Nat) : Option (Nat × Option Nat) :=\n  " + _bst([(idx[m], o) for m, o in O.OPCODES.items()], "id", key))
    L.append("/-- `REVERZ[b]` for the single-byte keys -/")
    L.append("def reverz1 (b : Nat) : Option Nat :=\n  " + _bst(rev1, "b", str))
    L.append("/-- `REVERZ[(p, s)]` for the tuple keys -/")
    body = "none"
    for p in sorted(rev2, reverse=True):
        body = f"if p = {p} then ({_bst(sorted(rev2[p]), 's', str)}) else {body}"
    L.append("def reverz2 (p s : Nat) : Option Nat :=\n  " + body)
    L.append("/-- `OPERANDS[names[id]]` -/")
    L.append("def operands (id : Nat) : Option (List ImmKind) :=\n  "
             + _bst([(idx[m], o) for m, o in O.OPERANDS.items()], "id", lambda o: "[" + ", ".join(kind(x) for x in o) + "]"))
    L.append("/-- `LANG_TYPES[typeNames[t]]` -/")
    L.append("def typeBytes (t : Nat) : Option Bytes :=\n  "
             + _bst([(tidx[t], list(b)) for t, b in IO.LANG_TYPES.items()], "t", lambda b: "[" + ", ".join(str(x) for x in b) + "]"))
    L.append("/-- `LANG_TYPES_REVERSE[b]` -/")
    L.append("def typeOfByte (b : Nat) : Option Nat :=\n  " + _bst(trev, "b", str))
    L.append("")
    L.append("def tables : Tables where")
    L.append(f"  count := {len(names)}\n  opcodeKey := opcodeKey\n  reverz1 := reverz1\n  reverz2 := reverz2\n  operands := operands")
    L.append(f"  ntypes := {len(tnames)}\n  typeBytes := typeBytes\n  typeOfByte := typeOfByte\n  maxSub := {max_sub}")
    L.append(f"  endId := {idx['end']}\n  blockId := {idx['block']}\n  loopId := {idx['loop']}\n  ifId := {idx['if']}")
    L.append(f"  funcref := {tidx['funcref']}\n  externref := {tidx['externref']}")
    L.append("")
    L.append("end Gen.WasmOpcodes")
    return "\n".join(L) + "\n"


def regen(ctx):
    txt = gen_text()
    p = common.LEAN / "PpciVerif" / "Gen" / "WasmOpcodes.lean"
    if not p.exists() or p.read_text() != txt:
        p.write_text(txt)


# ----------------------------------------------------------------------------------------------
# canonical S-expression of a real Module
def hexs(b):
    return bytes(b).hex() if len(b) else "-"


def sx_arg(kind, a):
    from ppci.wasm.opcodes import ArgType as A
    from ppci.wasm.components import Ref
    if kind == "br_table":
        return "(" + " ".join(f"{r.space}:{r.index}" for r in a) + ")"
    if kind == "result_types":
        return "(" + " ".join(a) + ")"
    if kind == A.TYPE:
        return str(a)
    if kind in (A.U8, A.U32):
        return str(int(a))
    if kind in (A.I32, A.I64):
        return str(int(a))
    if kind == A.F32:
        return "x" + hexs(struct.pack("<f", a))
    if kind == A.F64:
        return "x" + hexs(struct.pack("<d", a))
    if kind == A.U8x16:
        return "x" + hexs(a)
    if isinstance(a, Ref):
        return f"{a.space}:{a.index}"
    return "?" + repr(a)


def sx_instr(i):
    from ppci.wasm.opcodes import OPERANDS
    ops = OPERANDS[i.opcode]
    args = list(i.args)
    parts = [i.opcode] + [sx_arg(k, a) for k, a in zip(ops, args)]
    if len(ops) != len(args):
        parts.append(f"?argc{len(args)}")
    return "(" + " ".join(parts) + ")"


def sx_instrs(l):
    return "(" + " ".join(sx_instr(i) for i in l) + ")"


def sx_max(m):
    return "none" if m is None else str(m)


def sx_mode(mode):
    if not mode:
        return "none"
    ref, off = mode
    return f"({ref.index} {sx_instrs(off)})"


def sx_def(d):
    from ppci.wasm import components as C
    if isinstance(d, C.Type):
        return "(type (" + " ".join(t for _, t in d.params) + ") (" + " ".join(d.results) + "))"
    if isinstance(d, C.Import):
        if d.kind == "func":
            desc = f"(func {d.info[0].index})"
        elif d.kind == "table":
            desc = f"(table {d.info[0]} {d.info[1]} {sx_max(d.info[2])})"
        elif d.kind == "memory":
            desc = f"(memory {d.info[0]} {sx_max(d.info[1])})"
        else:
            desc = f"(global {d.info[0]} {int(bool(d.info[1]))})"
        return f"(import {hexs(d.modname.encode('utf-8'))} {hexs(d.name.encode('utf-8'))} {desc})"
    if isinstance(d, C.Func):
        return f"(func {d.ref.index} (" + " ".join(t for _, t in d.locals) + f") {sx_instrs(d.instructions)})"
    if isinstance(d, C.Table):
        return f"(table {d.kind} {d.min} {sx_max(d.max)})"
    if isinstance(d, C.Memory):
        return f"(memory {d.min} {sx_max(d.max)})"
    if isinstance(d, C.Global):
        return f"(global {d.typ} {int(bool(d.mutable))} {sx_instrs(d.init)})"
    if isinstance(d, C.Export):
        return f"(export {hexs(d.name.encode('utf-8'))} {d.kind} {d.ref.index})"
    if isinstance(d, C.Start):
        return f"(start {d.ref.index})"
    if isinstance(d, C.Elem):
        return f"(elem {sx_mode(d.mode)} (" + " ".join(str(r.index) for r in d.refs) + "))"
    if isinstance(d, C.Data):
        return f"(data {sx_mode(d.mode)} {hexs(d.data)})"
    if isinstance(d, C.DataCount):
        return f"(datacount {d.n})"
    if isinstance(d, C.Custom):
        return f"(custom {hexs(d.name.encode('utf-8'))} {hexs(d.data)})"
    return "?" + type(d).__name__


def sx_module(m):
    return "(module" + "".join(" " + sx_def(d) for d in m.definitions) + ")"


ORDER = ["custom", "type", "import", "table", "memory", "global", "export", "start", "elem", "func", "data", "datacount"]


def sx_module_normalized(m):
    """definitions grouped in the order the writer emits them (stable) - what the reader gives back"""
    defs = sorted(m.definitions, key=lambda d: ORDER.index(d.__name__))
    return "(module" + "".join(" " + sx_def(d) for d in defs) + ")"


def ids_sequential(m):
    """the reader numbers the definitions of each index space consecutively, imports first"""
    cnt = {}
    for d in m.definitions:
        space = d.kind if d.__name__ == "import" else d.__name__
        if space in ("type", "func", "table", "memory", "global", "elem", "data"):
            if d.id != cnt.get(space, 0):
                return False
            cnt[space] = cnt.get(space, 0) + 1
    return True


# ----------------------------------------------------------------------------------------------
# generator of valid modules (typed)
VT = ["i32", "i64", "f32", "f64"]
# boundary-biased pool for every unsigned numeric field (LEB128 length changes at 2^7k; 0; 1; all-ones)
BND = [0, 0, 1, 1, 2, 63, 64, 65, 127, 128, 129, 255, 256, 16383, 16384, 16385, 65535, 65536, 65537, (1 << 21) - 1, 1 << 21,
       (1 << 28) - 1, 1 << 28, (1 << 31) - 1, 1 << 31, (1 << 32) - 1]
SMALL_BND = [0, 0, 1, 1, 2, 63, 64, 65, 127, 128, 129]          # for vector lengths that are materialised
NAT_ALIGN = {"8": 0, "16": 1, "32": 2}


def f32r(x):
    return struct.unpack("<f", struct.pack("<f", x))[0]


class ModGen:
    def __init__(self, rng, big=False, many_funcs=False, feature=None):
        from ppci.wasm import components as C
        self.C = C
        self.rng = rng
        self.big = big
        self.many_funcs = many_funcs
        self.feature = feature or {}

    def I(self, op, *a):
        return self.C.Instruction(op, *a)

    def B(self, op, t="emptyblock"):
        return self.C.BlockInstruction(op, t)

    def ref(self, space, i):
        return self.C.Ref(space, index=i)

    # -- constants
    def const_i(self, bits):
        r = self.rng
        lo, hi = -(1 << (bits - 1)), (1 << (bits - 1)) - 1
        k = r.randrange(8)
        if k == 0:
            return r.choice([lo, hi, lo + 1, hi - 1, 0, -1, 1])
        if k == 1:
            s = r.randrange(1, bits)
            return max(lo, min(hi, r.choice([1, -1]) * (1 << s) + r.choice([-1, 0, 1])))
        if k == 2:
            return r.choice([63, 64, 65, -64, -65, 127, 128, -128, -129, 8191, 8192, -8192, -8193])
        if k == 3:
            return r.randint(lo, hi)
        return r.randint(-200, 200)

    def const_f(self, bits):
        r = self.rng
        k = r.randrange(6)
        if k == 0:
            v = r.choice([0.0, -0.0, 1.0, -1.0, math.inf, -math.inf, 0.5, 1.5, 2.75, 1e10, -3.25e-5, 0.1])
        elif k == 1:
            if bits == 32:
                v = struct.unpack("<f", struct.pack("<I", r.choice([1, 0x007FFFFF, 0x00800000, 0x7F7FFFFF, 0x80000001])))[0]
            else:
                v = struct.unpack("<d", struct.pack("<Q", r.choice([1, 0x000FFFFFFFFFFFFF, 0x0010000000000000, 0x7FEFFFFFFFFFFFFF])))[0]
        elif k == 2:
            v = math.nan  # the canonical quiet NaN
        else:
            v = r.uniform(-1e6, 1e6) * 10 ** r.randint(-20, 20)
        return f32r(v) if bits == 32 else v

    def const(self, t):
        if t == "i32":
            return [self.I("i32.const", self.const_i(32))]
        if t == "i64":
            return [self.I("i64.const", self.const_i(64))]
        if t == "f32":
            return [self.I("f32.const", self.const_f(32))]
        return [self.I("f64.const", self.const_f(64))]

    def bnd(self, hi=(1 << 32) - 1, lo=0):
        """a number in [lo, hi] from the boundary-biased pool BND (LEB128 length changes, 0, 1, all-ones) or, less often, random"""
        r = self.rng
        cand = [v for v in BND if lo <= v <= hi]
        if cand and r.random() < 0.75:
            return r.choice(cand)
        return r.randint(lo, min(hi, lo + r.choice([10, 300, 70000, hi])))

    def limits(self, hi):
        """(min, max): every shape - (0,0) (n,n) (0,None) (n,None) (0,n) (n,m) - with boundary-biased numbers"""
        r = self.rng
        k = r.randrange(7)
        n = self.bnd(hi)
        if k == 0:
            return 0, 0
        if k == 1:
            return n, n
        if k == 2:
            return 0, None
        if k == 3:
            return n, None
        if k == 4:
            return 0, n
        return n, self.bnd(hi, lo=n)

    def memarg(self, nbits):
        r = self.rng
        nat = {8: 0, 16: 1, 32: 2, 64: 3}[nbits]
        align = nat if r.random() < 0.5 else r.randint(0, nat)
        return align, self.bnd()

    # -- expressions (leave one value of type t)
    def expr(self, t, depth):
        r = self.rng
        f = self.f
        choices = ["const", "const"]
        if depth > 0:
            choices += ["bin", "bin", "un", "tee", "select", "block", "if", "cmp" if t == "i32" else "conv", "conv"]
            if [i for i, lt in enumerate(f["locals"]) if lt == t]:
                choices += ["local", "local"]
            if [i for i, (gt, _) in enumerate(self.globals) if gt == t]:
                choices += ["global"]
            if self.has_mem:
                choices += ["load", "load"]
                if t == "i32":
                    choices += ["memsize"]
            if [i for i, (ps, rs) in enumerate(self.funcsigs) if rs == [t]]:
                choices += ["call", "call"]
                if self.has_table:
                    choices += ["calli"]
        else:
            if [i for i, lt in enumerate(f["locals"]) if lt == t]:
                choices += ["local", "local", "local"]
        c = r.choice(choices)
        if c == "const":
            return self.const(t)
        if c == "local":
            i = r.choice([i for i, lt in enumerate(f["locals"]) if lt == t])
            return [self.I("local.get", self.ref("local", i))]
        if c == "tee":
            cand = [i for i, lt in enumerate(f["locals"]) if lt == t]
            if not cand:
                return self.const(t)
            return self.expr(t, depth - 1) + [self.I("local.tee", self.ref("local", r.choice(cand)))]
        if c == "global":
            i = r.choice([i for i, (gt, _) in enumerate(self.globals) if gt == t])
            return [self.I("global.get", self.ref("global", i))]
        if c == "bin":
            ops = (["add", "sub", "mul", "div_s", "div_u", "rem_s", "rem_u", "and", "or", "xor", "shl", "shr_s", "shr_u", "rotl", "rotr"]
                   if t[0] == "i" else ["add", "sub", "mul", "div", "min", "max", "copysign"])
            return self.expr(t, depth - 1) + self.expr(t, depth - 1) + [self.I(f"{t}.{r.choice(ops)}")]
        if c == "un":
            ops = ["clz", "ctz", "popcnt"] if t[0] == "i" else ["abs", "neg", "ceil", "floor", "trunc", "nearest", "sqrt"]
            if t == "i32" and r.random() < 0.3:
                ops = ["extend8_s", "extend16_s"]
            if t == "i64" and r.random() < 0.3:
                ops = ["extend8_s", "extend16_s", "extend32_s"]
            return self.expr(t, depth - 1) + [self.I(f"{t}.{r.choice(ops)}")]
        if c == "cmp":
            st = r.choice(VT)
            if r.random() < 0.2 and st[0] == "i":
                return self.expr(st, depth - 1) + [self.I(f"{st}.eqz")]
            ops = ["eq", "ne", "lt_s", "lt_u", "gt_s", "gt_u", "le_s", "le_u", "ge_s", "ge_u"] if st[0] == "i" else ["eq", "ne", "lt", "gt", "le", "ge"]
            return self.expr(st, depth - 1) + self.expr(st, depth - 1) + [self.I(f"{st}.{r.choice(ops)}")]
        if c == "conv":
            table = {
                "i32": [("i64", "i32.wrap_i64"), ("f32", "i32.trunc_f32_s"), ("f32", "i32.trunc_f32_u"), ("f64", "i32.trunc_f64_s"),
                        ("f64", "i32.trunc_f64_u"), ("f32", "i32.reinterpret_f32"), ("f32", "i32.trunc_sat_f32_s"), ("f64", "i32.trunc_sat_f64_u")],
                "i64": [("i32", "i64.extend_i32_s"), ("i32", "i64.extend_i32_u"), ("f32", "i64.trunc_f32_s"), ("f64", "i64.trunc_f64_u"),
                        ("f64", "i64.reinterpret_f64"), ("f32", "i64.trunc_sat_f32_u"), ("f64", "i64.trunc_sat_f64_s")],
                "f32": [("i32", "f32.convert_i32_s"), ("i32", "f32.convert_i32_u"), ("i64", "f32.convert_i64_s"), ("i64", "f32.convert_i64_u"),
                        ("f64", "f32.demote_f64"), ("i32", "f32.reinterpret_i32")],
                "f64": [("i32", "f64.convert_i32_s"), ("i32", "f64.convert_i32_u"), ("i64", "f64.convert_i64_s"), ("i64", "f64.convert_i64_u"),
                        ("f32", "f64.promote_f32"), ("i64", "f64.reinterpret_i64")],
            }
            st, op = r.choice(table[t])
            return self.expr(st, depth - 1) + [self.I(op)]
        if c == "select":
            typed = r.random() < 0.4
            return (self.expr(t, depth - 1) + self.expr(t, depth - 1) + self.expr("i32", depth - 1)
                    + [self.I("select", [t] if typed else [])])
        if c == "block":
            self.labels.append(t)
            body = self.stmts(depth - 1, r.randint(0, 2))
            if r.random() < 0.3:
                # conditional early exit carrying the block's value
                body += self.expr(t, depth - 1) + self.expr("i32", depth - 1) + [self.I("br_if", self.ref("label", 0)), self.I("drop")]
            body += self.expr(t, depth - 1)
            self.labels.pop()
            return [self.B("block", t)] + body + [self.I("end")]
        if c == "if":
            cond = self.expr("i32", depth - 1)
            self.labels.append(t)
            a = self.stmts(depth - 1, r.randint(0, 1)) + self.expr(t, depth - 1)
            b = self.stmts(depth - 1, r.randint(0, 1)) + self.expr(t, depth - 1)
            self.labels.pop()
            return cond + [self.B("if", t)] + a + [self.I("else")] + b + [self.I("end")]
        if c == "load":
            ops = {"i32": [("i32.load", 32), ("i32.load8_s", 8), ("i32.load8_u", 8), ("i32.load16_s", 16), ("i32.load16_u", 16)],
                   "i64": [("i64.load", 64), ("i64.load8_s", 8), ("i64.load8_u", 8), ("i64.load16_s", 16), ("i64.load16_u", 16),
                           ("i64.load32_s", 32), ("i64.load32_u", 32)],
                   "f32": [("f32.load", 32)], "f64": [("f64.load", 64)]}[t]
            op, nb = r.choice(ops)
            return self.expr("i32", depth - 1) + [self.I(op, *self.memarg(nb))]
        if c == "memsize":
            if r.random() < 0.5:
                return [self.I("memory.size", 0)]
            return self.expr("i32", depth - 1) + [self.I("memory.grow", 0)]
        if c in ("call", "calli"):
            i = r.choice([i for i, (ps, rs) in enumerate(self.funcsigs) if rs == [t]])
            ps, rs = self.funcsigs[i]
            out = []
            for p in ps:
                out += self.expr(p, depth - 1 if len(ps) <= 6 else 0)      # many-parameter signatures: flat arguments
            if c == "call":
                return out + [self.I("call", self.ref("func", i))]
            return out + self.expr("i32", depth - 1) + [self.I("call_indirect", self.ref("type", self.type_of_sig(ps, rs)), self.ref("table", 0))]
        raise AssertionError(c)

    # -- statements (stack neutral)
    def stmts(self, depth, n):
        out = []
        for _ in range(n):
            out += self.stmt(depth)
        return out

    def branch_targets(self):
        """labels (relative depth) that take no value: loops and void blocks"""
        return [d for d, t in enumerate(reversed(self.labels)) if t in ("emptyblock", "loop")]

    def stmt(self, depth):
        r = self.rng
        f = self.f
        choices = ["set", "drop", "nop"]
        if depth > 0:
            choices += ["block", "loop", "if", "ifelse", "brtable", "set", "set"]
            if self.has_mem:
                choices += ["store", "store"]
            if [g for g, (gt, mut) in enumerate(self.globals) if mut]:
                choices += ["gset"]
            if self.branch_targets():
                choices += ["br_if", "br_if"]
            if [i for i, (ps, rs) in enumerate(self.funcsigs) if rs == []]:
                choices += ["callv"]
        c = r.choice(choices)
        if c == "nop":
            return [self.I("nop")]
        if c == "set":
            if not f["locals"]:
                return [self.I("nop")]
            i = r.randrange(len(f["locals"]))
            return self.expr(f["locals"][i], depth - 1) + [self.I("local.set", self.ref("local", i))]
        if c == "gset":
            g = r.choice([g for g, (gt, mut) in enumerate(self.globals) if mut])
            return self.expr(self.globals[g][0], depth - 1) + [self.I("global.set", self.ref("global", g))]
        if c == "drop":
            return self.expr(r.choice(VT), max(depth - 1, 0)) + [self.I("drop")]
        if c == "store":
            t = r.choice(VT)
            ops = {"i32": [("i32.store", 32), ("i32.store8", 8), ("i32.store16", 16)],
                   "i64": [("i64.store", 64), ("i64.store8", 8), ("i64.store16", 16), ("i64.store32", 32)],
                   "f32": [("f32.store", 32)], "f64": [("f64.store", 64)]}[t]
            op, nb = r.choice(ops)
            return self.expr("i32", depth - 1) + self.expr(t, depth - 1) + [self.I(op, *self.memarg(nb))]
        if c == "callv":
            i = r.choice([i for i, (ps, rs) in enumerate(self.funcsigs) if rs == []])
            out = []
            for p in self.funcsigs[i][0]:
                out += self.expr(p, depth - 1 if len(self.funcsigs[i][0]) <= 6 else 0)
            return out + [self.I("call", self.ref("func", i))]
        if c == "br_if":
            return self.expr("i32", depth - 1) + [self.I("br_if", self.ref("label", r.choice(self.branch_targets())))]
        if c in ("block", "loop"):
            self.labels.append("emptyblock" if c == "block" else "loop")
            body = self.stmts(depth - 1, r.randint(0, 3))
            k = r.random()
            if k < 0.25:
                body += [self.I("br", self.ref("label", r.choice(self.branch_targets())))]
            elif k < 0.35:
                body += self.ret()
            elif k < 0.4:
                body += [self.I("unreachable")]
            self.labels.pop()
            return [self.B(c)] + body + [self.I("end")]
        if c in ("if", "ifelse"):
            cond = self.expr("i32", depth - 1)
            self.labels.append("emptyblock")
            a = self.stmts(depth - 1, r.randint(0, 2))
            b = self.stmts(depth - 1, r.randint(0, 2)) if c == "ifelse" else None
            self.labels.pop()
            return cond + [self.B("if")] + a + ([self.I("else")] + b if b is not None else []) + [self.I("end")]
        if c == "brtable":
            # n nested void blocks; the innermost dispatches with a br_table over distinct labels
            n = r.randint(1, 5)
            for _ in range(n):
                self.labels.append("emptyblock")
            tgts = self.branch_targets()
            k = r.randint(0, min(6, len(tgts) + 2))
            if r.random() < 0.08:
                k = r.choice([63, 64, 127, 128])           # label vector length on a LEB128 boundary
            lab = [r.choice(tgts) for _ in range(k)]
            default = r.choice(tgts)
            if len(tgts) > 1 and lab and r.random() < 0.8:
                lab[0] = tgts[0]
                default = tgts[-1]          # default differs from the first entry: order is observable
            inner = self.expr("i32", depth - 1) + [self.I("br_table", [self.ref("label", x) for x in lab + [default]])]
            out = [self.B("block")] * 0
            body = inner
            for j in range(n):
                self.labels.pop()
                body = [self.B("block")] + body + [self.I("end")] + (self.stmts(depth - 1, r.randint(0, 1)) if j < n - 1 else [])
            return body
        raise AssertionError(c)

    def ret(self):
        out = []
        for t in self.f["results"]:
            out += self.expr(t, 1)
        return out + [self.I("return")]

    def type_of_sig(self, ps, rs):
        key = (tuple(ps), tuple(rs))
        if key not in self.sigidx:
            self.sigidx[key] = len(self.sigs)
            self.sigs.append(key)
        return self.sigidx[key]

    def name(self):
        r = self.rng
        k = r.randrange(6)
        if k == 0:
            return r.choice(["", "a", "memory", "main", "_start", "x.y", "a b", "ÿ", "日本語", "π≈3", "😀", "a\\b", "tab\there"])
        alphabet = "abcdefghijklmnopqrstuvwxyzABCDEFGHIJKLMNOPQRSTUVWXYZ0123456789_.$-+*/<>=!?@#%^&|~:;,'`()[]{} éßλЖ中🙂"
        if k == 1:
            # ASCII name whose UTF-8 length sits on a LEB128 / small boundary (0, 1, 63, 64, 127, 128, ...)
            return "".join(r.choice(alphabet[:64]) for _ in range(r.choice(SMALL_BND + [255, 256])))
        return "".join(r.choice(alphabet) for _ in range(r.randint(1, 12 if k < 5 else 140)))

    def build(self):
        C, r = self.C, self.rng
        self.sigs, self.sigidx = [], {}
        defs_import, self.funcsigs, self.globals = [], [], []
        nimpf = r.choice([0, 0, 1, 2, 3])
        n_funcs = r.randint(1, 6) if not self.many_funcs else r.choice([63, 64, 65, 127, 128, 129, 140])
        if self.big:
            n_funcs = r.randint(4, 10)
        imp_table = r.random() < 0.15
        imp_mem = r.random() < 0.15
        self.has_table = imp_table or r.random() < 0.5
        self.has_mem = imp_mem or r.random() < 0.7
        # pre-register a few signatures so that type indices vary
        for _ in range(r.randint(0, 3)):
            self.type_of_sig([r.choice(VT) for _ in range(r.randint(0, 3))], [r.choice(VT)] if r.random() < 0.6 else [])
        kinds = ["func"] * nimpf + ["global"] * r.choice([0, 0, 1, 2]) + (["table"] if imp_table else []) + (["memory"] if imp_mem else [])
        r.shuffle(kinds)
        for kind in kinds:
            if kind == "func":
                ps = [r.choice(VT) for _ in range(r.randint(0, 4))]
                rs = [r.choice(VT)] if r.random() < 0.6 else []
                self.funcsigs.append((ps, rs))
                defs_import.append(("func", self.type_of_sig(ps, rs)))
            elif kind == "global":
                self.globals.append((r.choice(VT), r.random() < 0.3))
                defs_import.append(("global", len(self.globals) - 1))
            else:
                defs_import.append((kind, None))
        n_imp_globals = len(self.globals)
        # module-defined globals
        gdefs = []
        for _ in range(r.choice([0, 1, 1, 2, 4])):
            t = r.choice(VT)
            self.globals.append((t, r.random() < 0.6))
            gdefs.append(len(self.globals) - 1)
        # function signatures first (bodies may call any function)
        fdefs = []
        for k in range(n_funcs):
            ps = [r.choice(VT) for _ in range(r.randint(0, 3) if r.random() < 0.95 else r.choice([63, 64, 127, 128]))]
            rs = [r.choice(VT)] if r.random() < 0.6 else []
            if k == 0 and r.random() < 0.5:
                ps, rs = [], []          # candidate for start
            self.funcsigs.append((ps, rs))
            fdefs.append((ps, rs))
        out = []
        # bodies
        funcs = []
        for k, (ps, rs) in enumerate(fdefs):
            nloc = r.choice([0, 0, 1, 2, 3, 5, 8])
            if self.big and r.random() < 0.6:
                nloc = r.choice([63, 64, 65, 127, 128, 129, 200])
            if r.random() < 0.5:
                # runs of equal types (exercise the grouping of locals)
                ltypes = []
                while len(ltypes) < nloc:
                    ltypes += [r.choice(VT)] * r.randint(1, 4 if nloc < 50 else 70)
                ltypes = ltypes[:nloc]
            else:
                ltypes = [r.choice(VT) for _ in range(nloc)]
            self.f = {"locals": ps + ltypes, "results": rs}
            self.labels = []
            depth = r.choice([1, 2, 3, 4, 5]) if not self.many_funcs else r.choice([0, 1, 2])
            body = self.stmts(depth, r.randint(0, 4 if not self.many_funcs else 1))
            for t in rs:
                body += self.expr(t, depth)
            funcs.append(C.Func(nimpf + k, self.ref("type", self.type_of_sig(ps, rs)), [(None, t) for t in ltypes], body))
        # definitions
        for i, (ps, rs) in enumerate(self.sigs):
            out.append(C.Type(i, [(j, t) for j, t in enumerate(ps)], list(rs)))
        fi = gi = 0
        for kind, x in defs_import:
            if kind == "func":
                out.append(C.Import(self.name(), self.name(), "func", fi, (self.ref("type", x),)))
                fi += 1
            elif kind == "global":
                out.append(C.Import(self.name(), self.name(), "global", gi, (self.globals[x][0], self.globals[x][1])))
                gi += 1
            elif kind == "table":
                mn, mx = self.limits((1 << 32) - 1)
                out.append(C.Import(self.name(), self.name(), "table", 0,
                                    (r.choice(["funcref", "funcref", "externref"]) if not self.has_table_use() else "funcref", mn, mx)))
            else:
                mn, mx = self.limits(65536)
                out.append(C.Import(self.name(), self.name(), "memory", 0, (mn, mx)))
        if self.has_table and not imp_table:
            mn, mx = self.limits((1 << 32) - 1)
            out.append(C.Table(0, "funcref", mn, mx))
        elif not self.has_table and r.random() < 0.1:
            mn, mx = self.limits((1 << 32) - 1)
            out.append(C.Table(0, "externref", mn, mx))
        if self.has_mem and not imp_mem:
            mn, mx = self.limits(65536)
            out.append(C.Memory(0, mn, mx))
        for g in gdefs:
            t, mut = self.globals[g]
            init = self.const(t)
            imm = [i for i in range(n_imp_globals) if self.globals[i] == (t, False)]
            if imm and r.random() < 0.3:
                init = [self.I("global.get", self.ref("global", r.choice(imm)))]
            out.append(C.Global(g, t, mut, init))
        nf = nimpf + n_funcs
        for _ in range(r.choice([0, 1, 2, 4])):
            kind = r.choice(["func", "func", "table", "memory", "global"])
            if kind == "func":
                out.append(C.Export(self.name(), "func", self.ref("func", r.randrange(nf))))
            elif kind == "table" and self.has_table:
                out.append(C.Export(self.name(), "table", self.ref("table", 0)))
            elif kind == "memory" and self.has_mem:
                out.append(C.Export(self.name(), "memory", self.ref("memory", 0)))
            elif kind == "global" and self.globals:
                out.append(C.Export(self.name(), "global", self.ref("global", r.randrange(len(self.globals)))))
        if fdefs[0] == ([], []) and r.random() < 0.6:
            out.append(C.Start(self.ref("func", nimpf)))
        if self.has_table:
            for _ in range(r.choice([0, 1, 1, 2])):
                off = [self.I("i32.const", self.bnd((1 << 31) - 1))]
                imm = [i for i in range(n_imp_globals) if self.globals[i] == ("i32", False)]
                if imm and r.random() < 0.3:
                    off = [self.I("global.get", self.ref("global", r.choice(imm)))]
                out.append(C.Elem(0, (self.ref("table", 0), off), [self.ref("func", r.randrange(nf)) for _ in range(r.choice(SMALL_BND))]))
        out += funcs
        if self.has_mem:
            for _ in range(r.choice([0, 1, 1, 3])):
                n = r.choice(SMALL_BND + [300] + ([16383, 16384] if self.feature.get("thorough") else []) if r.random() < 0.9 else [5])
                data = bytes(r.randrange(256) for _ in range(n))
                k = r.random()
                if k < 0.15 and self.feature.get("passive", True):
                    mode = None
                else:
                    off = [self.I("i32.const", self.bnd((1 << 31) - 1) if r.random() < 0.8 else self.const_i(32))]
                    mode = (self.ref("memory", 0), off)
                out.append(C.Data(0, mode, data))
        # the definitions are kept in section order here; a shuffled copy is made by the caller
        m = C.Module()
        return out

    def has_table_use(self):
        return self.has_table


def new_module(defs):
    from ppci.wasm import Module
    m = Module()
    m.id = None
    m.definitions = list(defs)
    return m


def gen_module(rng, **kw):
    g = ModGen(rng, **kw)
    return new_module(g.build())


# ----------------------------------------------------------------------------------------------
# modules compiled by ppci from generated C
C_FIXED = [
    """
int g[4]={1,2,3,4};
int f(int a,int b){int s=0;for(int i=0;i<a;i++){switch(i&3){case 0:s+=b;break;case 1:s-=g[i&3];break;default:s^=i;}}return s;}
double h(double x,float y){return x*y+1.5;}
""",
    """
long long fact(int n){ if(n<2) return 1; return n*fact(n-1); }
unsigned char buf[300];
void fill(int v){ int i; for(i=0;i<300;i++) buf[i]=(unsigned char)(v+i); }
int sum(void){ int s=0,i=0; while(i<300){ s+=buf[i]; i++; } return s; }
""",
    """
struct P {int x; int y;};
int dot(struct P* a, struct P* b){ return a->x*b->x + a->y*b->y; }
float mix(float a, double b, int c){ if(c>3) return a; else if (c<-1000000) return (float)b; return a+(float)b*c; }
""",
]


def gen_c(rng):
    """a small C translation unit: int/long long/double functions with loops, ifs, switch, arrays, calls"""
    def e(depth, vars_):
        k = rng.randrange(6) if depth > 0 else rng.randrange(2)
        if k == 0:
            return str(rng.choice([0, 1, 2, 3, 7, 63, 64, 100, 127, 128, 255, 1000, 65536, 123456789, 2147483647]))
        if k == 1:
            return rng.choice(vars_)
        if k in (2, 3):
            return f"({e(depth-1, vars_)} {rng.choice(['+','-','*','&','|','^'])} {e(depth-1, vars_)})"
        if k == 4:
            return f"({e(depth-1, vars_)} {rng.choice(['<','>','==','!=','<=','>='])} {e(depth-1, vars_)})"
        return f"tab[({e(depth-1, vars_)}) & 15]"

    def st(depth, vars_):
        k = rng.randrange(6) if depth > 0 else 0
        if k == 0:
            return f"{rng.choice(vars_[:3])} = {e(2, vars_)};"
        if k == 1:
            return f"if ({e(2, vars_)}) {{ {st(depth-1, vars_)} }} else {{ {st(depth-1, vars_)} }}"
        if k == 2:
            return f"for (i = 0; i < {rng.randint(1, 9)}; i++) {{ {st(depth-1, vars_)} {st(depth-1, vars_)} }}"
        if k == 3:
            return f"while (a > {rng.randint(0, 5)}) {{ a = a - 1; {st(depth-1, vars_)} }}"
        if k == 4:
            cases = " ".join(f"case {c}: {st(depth-1, vars_)} break;" for c in rng.sample(range(0, 9), rng.randint(1, 4)))
            return f"switch ({e(1, vars_)}) {{ {cases} default: {st(depth-1, vars_)} }}"
        return f"tab[({e(1, vars_)}) & 15] = {e(2, vars_)};"
    src = "int tab[16] = {" + ",".join(str(rng.randint(-5, 300)) for _ in range(16)) + "};\n"
    n = rng.randint(1, 3)
    for k in range(n):
        vars_ = ["a", "b", "c", "i"]
        body = " ".join(st(rng.randint(1, 3), vars_) for _ in range(rng.randint(1, 4)))
        call = f" c = c + f{k-1}(b, a);" if k > 0 else ""
        src += f"int f{k}(int a, int b) {{ int c = {rng.randint(0, 99)}; int i = 0; {body}{call} return a + b + c + i; }}\n"
    if rng.random() < 0.5:
        src += "double d0(double x, int n) { double s = 0.5; int i; for (i = 0; i < n; i++) { s = s * x + " + repr(rng.uniform(-9, 9)) + "; } return s; }\n"
    return src


def compile_c(src):
    import logging
    from ppci import api
    from ppci.wasm import ir_to_wasm
    logging.disable(logging.CRITICAL)
    try:
        irm = api.c_to_ir(io.StringIO(src), "arm")
        return ir_to_wasm(irm)
    finally:
        logging.disable(logging.NOTSET)


# ----------------------------------------------------------------------------------------------
# binary variants
def uleb(n):
    out = bytearray()
    while True:
        b = n & 0x7F
        n >>= 7
        if n:
            out.append(b | 0x80)
        else:
            out.append(b)
            return bytes(out)


def uleb_read(b, i):
    r = s = 0
    while True:
        x = b[i]
        i += 1
        r |= (x & 0x7F) << s
        s += 7
        if not x & 0x80:
            return r, i


def pad_uleb(n, extra):
    e = bytearray(uleb(n))
    e[-1] |= 0x80
    e += b"\x80" * (extra - 1) + b"\x00"
    return bytes(e)


def split_sections(b):
    """[(id, payload)] of a binary the writer produced"""
    out, i = [], 8
    while i < len(b):
        sid = b[i]
        n, j = uleb_read(b, i + 1)
        out.append((sid, b[j:j + n]))
        i = j + n
    return out


def join_sections(secs, pad=None):
    out = bytearray(b"\x00asm\x01\x00\x00\x00")
    for k, (sid, p) in enumerate(secs):
        out.append(sid)
        out += pad_uleb(len(p), pad[1]) if pad and pad[0] == k else uleb(len(p))
        out += p
    return bytes(out)


def variants(rng, b):
    """(label, bytes) non-canonical / damaged versions of a writer-produced binary"""
    secs = split_sections(b)
    out = []
    if secs:
        k = rng.randrange(len(secs))
        out.append(("padded-size", join_sections(secs, pad=(k, rng.randint(1, 3)))))
        if len(secs) >= 2:
            i = rng.randrange(len(secs) - 1)
            s2 = list(secs)
            s2[i], s2[i + 1] = s2[i + 1], s2[i]
            out.append(("swapped-sections", join_sections(s2)))
        pos = rng.randint(0, len(secs))
        cust = (0, uleb(3) + b"abc" + bytes(rng.randrange(256) for _ in range(rng.randint(0, 5))))
        out.append(("custom-inserted", join_sections(secs[:pos] + [cust] + secs[pos:])))
        have = {sid for sid, _ in secs}
        missing = [sid for sid in (1, 2, 4, 5, 6, 7, 9, 11) if sid not in have]
        if missing:
            sid = rng.choice(missing)
            s2 = sorted(secs + [(sid, b"\x00")], key=lambda x: x[0])
            out.append(("empty-section", join_sections(s2)))
        out.append(("dup-section", join_sections(secs + [secs[-1]])))
    for _ in range(2):
        out.append(("truncated", b[:rng.randint(0, max(0, len(b) - 1))]))
    for _ in range(3):
        if len(b) > 8:
            i = rng.randrange(8, len(b))
            bb = bytearray(b)
            bb[i] = rng.randrange(256) if rng.random() < 0.7 else (bb[i] ^ (1 << rng.randrange(8)))
            out.append(("flipped", bytes(bb)))
    return out


# ----------------------------------------------------------------------------------------------
# hand-assembled canonical binaries: a mini assembler that shares nothing with ppci's writer, so that read -> write byte identity
# is checked against bytes ppci did not produce (a writer defect that its own reader maps back cannot hide here)
def sleb(n):
    out = bytearray()
    while True:
        b = n & 0x7F
        n >>= 7
        if (n == 0 and not b & 0x40) or (n == -1 and b & 0x40):
            out.append(b)
            return bytes(out)
        out.append(b | 0x80)


def a_vec(items):
    items = list(items)
    return uleb(len(items)) + b"".join(items)


def a_limits(mn, mx):
    return b"\x00" + uleb(mn) if mx is None else b"\x01" + uleb(mn) + uleb(mx)


def a_name(b):
    b = b.encode("utf-8") if isinstance(b, str) else bytes(b)
    return uleb(len(b)) + b


def a_sect(sid, payload):
    return bytes([sid]) + uleb(len(payload)) + payload


def a_module(*sections):
    return b"\x00asm\x01\x00\x00\x00" + b"".join(sections)


VTB = {"i32": b"\x7f", "i64": b"\x7e", "f32": b"\x7d", "f64": b"\x7c"}
NUMS = [0, 1, 63, 64, 127, 128, 16383, 16384]


def a_functype(ps=(), rs=()):
    return b"\x60" + a_vec(VTB[t] for t in ps) + a_vec(VTB[t] for t in rs)


def a_const(t, v):
    if t == "i32":
        return b"\x41" + sleb(v) + b"\x0b"
    if t == "i64":
        return b"\x42" + sleb(v) + b"\x0b"
    if t == "f32":
        return b"\x43" + struct.pack("<f", v) + b"\x0b"
    return b"\x44" + struct.pack("<d", v) + b"\x0b"


def a_code(locals_groups, body):
    """one code entry: body = instruction bytes without the final end"""
    inner = a_vec(uleb(c) + VTB[t] for c, t in locals_groups) + body + b"\x0b"
    return uleb(len(inner)) + inner


def limit_shapes(hi):
    out = [(0, 0), (0, None)]
    for n in NUMS + [65535, 65536, (1 << 32) - 1]:
        if 0 < n <= hi:
            out += [(n, None), (n, n), (0, n), (1, n)]
    return out


def hand_binaries(thorough=True):
    """(label, bytes, valid_module) - every section kind with boundary values; all canonically encoded, ppci section order"""
    out = []
    T1 = a_sect(1, a_vec([a_functype()]))
    F1 = a_sect(3, a_vec([uleb(0)]))
    C1 = a_sect(10, a_vec([a_code([], b"")]))
    # type section
    out.append(("type-empty-sig", a_module(T1), True))
    out.append(("type-mixed", a_module(a_sect(1, a_vec([a_functype(), a_functype(["i32"], ["i32"]), a_functype(["i64", "f32", "f64"], ["f64"]),
                                                       a_functype(["i32"] * 2, [])]))), True))
    for n in (63, 64, 127, 128):
        out.append((f"type-{n}-params", a_module(a_sect(1, a_vec([a_functype(["i32", "f64"] * (n // 2) + ["i64"] * (n % 2), ["i32"])]))), True))
        out.append((f"type-{n}-types", a_module(a_sect(1, a_vec([a_functype()] * n))), True))
    # imports
    for n in (0, 63, 64, 127, 128):
        types = a_sect(1, a_vec([a_functype()] * (n + 1)))
        out.append((f"import-func-type{n}", a_module(types, a_sect(2, a_vec([a_name("m") + a_name("f") + b"\x00" + uleb(n)]))), True))
    for mn, mx in limit_shapes((1 << 32) - 1):
        for rt, rb in (("funcref", b"\x70"), ("externref", b"\x6f")):
            out.append((f"import-table-{rt}-{mn}-{mx}", a_module(a_sect(2, a_vec([a_name("m") + a_name("t") + b"\x01" + rb + a_limits(mn, mx)]))), True))
            out.append((f"table-{rt}-{mn}-{mx}", a_module(a_sect(4, a_vec([rb + a_limits(mn, mx)]))), True))
    for mn, mx in limit_shapes(65536):
        out.append((f"import-memory-{mn}-{mx}", a_module(a_sect(2, a_vec([a_name("m") + a_name("mem") + b"\x02" + a_limits(mn, mx)]))), True))
        out.append((f"memory-{mn}-{mx}", a_module(a_sect(5, a_vec([a_limits(mn, mx)]))), True))
    for t in VTB:
        for mut in (0, 1):
            out.append((f"import-global-{t}-{mut}", a_module(a_sect(2, a_vec([a_name("") + a_name("g") + b"\x03" + VTB[t] + bytes([mut])]))), True))
    for n in (0, 1, 63, 64, 127, 128, 300):
        nm = "n" * n
        out.append((f"import-name-len{n}", a_module(T1, a_sect(2, a_vec([a_name(nm) + a_name(nm[: n // 2]) + b"\x00" + uleb(0)]))), True))
        out.append((f"export-name-len{n}", a_module(T1, F1, a_sect(7, a_vec([a_name(nm) + b"\x00" + uleb(0)])), C1), True))
    # globals
    consts = {"i32": [0, 1, -1, 63, 64, -64, -65, 127, 128, -128, -129, 8191, 8192, -8192, -8193, 2**31 - 1, -2**31],
              "i64": [0, -1, 63, 64, -64, -65, 2**31, -2**31 - 1, 2**62, -2**62 - 1, 2**63 - 1, -2**63],
              "f32": [0.0, -0.0, 1.5, float("inf"), -float("inf")], "f64": [0.0, -0.0, 0.1, float("inf"), 5e-324]}
    for t, vs in consts.items():
        out.append((f"globals-{t}", a_module(a_sect(6, a_vec(VTB[t] + bytes([k % 2]) + a_const(t, v) for k, v in enumerate(vs)))), True))
    out.append(("global-init-global.get", a_module(a_sect(2, a_vec([a_name("m") + a_name("g") + b"\x03\x7f\x00"])),
                                                   a_sect(6, a_vec([b"\x7f\x00\x23\x00\x0b"]))), True))
    # exports / start: index boundaries (the indices need not exist for the byte identity; flagged not valid)
    for k, kn in enumerate(("func", "table", "memory", "global")):
        for n in NUMS:
            out.append((f"export-{kn}-{n}", a_module(a_sect(7, a_vec([a_name("e") + bytes([k]) + uleb(n)]))), False))
    for n in NUMS + [(1 << 32) - 1]:
        out.append((f"start-{n}", a_module(a_sect(8, uleb(n))), False))
        out.append((f"datacount-{n}", a_module(a_sect(12, uleb(n))), False))
    out.append(("start-valid", a_module(T1, F1, a_sect(8, uleb(0)), C1), True))
    # element segments
    for off in (0, 1, 63, 64, 127, 128, 8191, 8192, 2**31 - 1):
        for nrefs in (0, 1, 2):
            out.append((f"elem-off{off}-refs{nrefs}", a_module(T1, F1, a_sect(4, a_vec([b"\x70" + a_limits(0, None)])),
                        a_sect(9, a_vec([b"\x00" + a_const("i32", off) + a_vec([uleb(0)] * nrefs)])), C1), True))
    for nrefs in (63, 64, 127, 128):
        out.append((f"elem-refs{nrefs}", a_module(T1, F1, a_sect(4, a_vec([b"\x70" + a_limits(nrefs, nrefs)])),
                    a_sect(9, a_vec([b"\x00" + a_const("i32", 0) + a_vec([uleb(0)] * nrefs)])), C1), True))
    out.append(("elem-funcidx-big", a_module(a_sect(9, a_vec([b"\x00" + a_const("i32", 5) + a_vec(uleb(n) for n in NUMS)]))), False))
    # function + code: locals runs, bodies
    for c in (1, 2, 63, 64, 127, 128) + ((16383, 16384) if thorough else ()):
        out.append((f"locals-run-{c}", a_module(T1, F1, a_sect(10, a_vec([a_code([(c, "i32"), (1, "f64"), (c, "i32")], b"")]))), True))
    for n in (2, 63, 64, 127, 128):
        out.append((f"funcs-{n}", a_module(a_sect(1, a_vec([a_functype(), a_functype(["i32"], [])])), a_sect(3, a_vec(uleb(k % 2) for k in range(n))),
                                           a_sect(10, a_vec(a_code([], b"\x01" * (k % 3)) for k in range(n)))), True))
    MEM = a_sect(5, a_vec([a_limits(1, None)]))
    for off in NUMS + [65535, 65536, 2**31, 2**32 - 1]:
        for align in (0, 1, 2):
            body = b"\x41\x00\x28" + uleb(align) + uleb(off) + b"\x1a" + b"\x41\x00\x41\x00\x36" + uleb(align) + uleb(off)
            out.append((f"memarg-a{align}-o{off}", a_module(T1, F1, MEM, a_sect(10, a_vec([a_code([], body)]))), True))
    out.append(("memarg-i64-align3", a_module(T1, F1, MEM, a_sect(10, a_vec([a_code([], b"\x41\x00\x29\x03\x01\x1a\x41\x00\x42\x00\x3e\x02\x40")]))), True))
    for n in (0, 1, 2, 63, 64, 127, 128):
        # n+1 nested blocks, br_table with n entries + default, all labels distinct where possible
        labels = [uleb(k % (n + 1)) for k in range(n)] + [uleb(n)]
        body = b"\x02\x40" * (n + 1) + b"\x41\x00\x0e" + a_vec(labels[:-1]) + labels[-1] + b"\x0b" * (n + 1)
        out.append((f"br_table-{n}", a_module(T1, F1, a_sect(10, a_vec([a_code([], body)]))), True))
    # block (result i32) .. br_if 0 .. end drop; loop if br 1 else nop end end; if (result f64) .. else .. end drop; select; typed select;
    # memory.size memory.grow drop; f32.const i32.trunc_sat_f32_s drop; return
    ctl = (b"\x02\x7f\x41\x01\x41\x00\x0d\x00\x1a\x41\x02\x0b\x1a"
           b"\x03\x40\x41\x00\x04\x40\x0c\x01\x05\x01\x0b\x0b"
           b"\x41\x00\x04\x7c\x44" + struct.pack("<d", 1.0) + b"\x05\x44" + struct.pack("<d", 2.0) + b"\x0b\x1a"
           b"\x41\x01\x41\x02\x41\x00\x1b\x1a"
           b"\x41\x01\x41\x02\x41\x00\x1c\x01\x7f\x1a"
           b"\x3f\x00\x40\x00\x1a"
           b"\x43" + struct.pack("<f", 1.5) + b"\xfc\x00\x1a"                       # f32.const; i32.trunc_sat_f32_s; drop
           b"\x0f")                                                                     # return
    out.append(("control-mix", a_module(T1, F1, MEM, a_sect(10, a_vec([a_code([], ctl)]))), True))
    out.append(("call_indirect", a_module(T1, F1, a_sect(4, a_vec([b"\x70" + a_limits(1, 1)])),
                                          a_sect(10, a_vec([a_code([], b"\x41\x00\x11\x00\x00\x10\x00")]))), True))
    for n in (63, 64, 127, 128):
        body = b"\x20" + uleb(n) + b"\x21" + uleb(n - 1) + b"\x20" + uleb(0) + b"\x22" + uleb(n) + b"\x1a"
        out.append((f"localidx-{n}", a_module(T1, F1, a_sect(10, a_vec([a_code([(n + 1, "i32")], body)]))), True))
    for v in consts["i32"]:
        out.append((f"i32.const-{v}", a_module(T1, F1, a_sect(10, a_vec([a_code([], b"\x41" + sleb(v) + b"\x1a")]))), True))
    for v in consts["i64"]:
        out.append((f"i64.const-{v}", a_module(T1, F1, a_sect(10, a_vec([a_code([], b"\x42" + sleb(v) + b"\x1a")]))), True))
    for size in (125, 126, 127, 128) + ((16381, 16382, 16383, 16384) if thorough else ()):   # 16K items cost ~10 s each in the driver
        # body whose byte size (locals vector + nops + end) crosses a LEB128 boundary of the body-size field
        out.append((f"body-size-{size}", a_module(T1, F1, a_sect(10, a_vec([a_code([], b"\x01" * (size - 2))]))), True))
    # data segments
    for n in (0, 1, 63, 64, 127, 128) + ((16383, 16384) if thorough else ()):
        out.append((f"data-active-len{n}", a_module(MEM, a_sect(11, a_vec([b"\x00" + a_const("i32", n) + uleb(n) + bytes(k & 0xFF for k in range(n))]))), True))
        out.append((f"data-passive-len{n}", a_module(MEM, a_sect(11, a_vec([b"\x01" + uleb(n) + bytes((k * 7) & 0xFF for k in range(n))]))), True))
    for mem in (1, 127, 128):
        out.append((f"data-mem{mem}", a_module(a_sect(11, a_vec([b"\x02" + uleb(mem) + a_const("i32", 0) + uleb(2) + b"hi"]))), False))
    out.append(("data-three", a_module(MEM, a_sect(11, a_vec([b"\x00" + a_const("i32", 0) + uleb(1) + b"$", b"\x01" + uleb(0),
                                                               b"\x00" + a_const("i32", 65536) + uleb(3) + b"\x00\xff\x80"]))), True))
    # custom sections (front only in ppci's order)
    for n in (0, 1, 127, 128):
        out.append((f"custom-name{n}", a_module(a_sect(0, a_name("c" * n) + b"\x00\x01\x02"), a_sect(0, a_name("z" * n)), T1), False))
    # everything at once, ppci section order
    out.append(("all-sections", a_module(
        a_sect(0, a_name("meta") + b"\xde\xad"),
        a_sect(1, a_vec([a_functype(), a_functype(["i32"], ["i32"])])),
        a_sect(2, a_vec([a_name("env") + a_name("f") + b"\x00" + uleb(1), a_name("env") + a_name("g") + b"\x03\x7f\x00"])),
        a_sect(3, a_vec([uleb(0), uleb(1)])),
        a_sect(4, a_vec([b"\x70" + a_limits(0, 0)])),
        a_sect(5, a_vec([a_limits(0, 0)])),
        a_sect(6, a_vec([b"\x7e\x01" + a_const("i64", -1)])),
        a_sect(7, a_vec([a_name("main") + b"\x00" + uleb(1), a_name("mem") + b"\x02" + uleb(0), a_name("tab") + b"\x01" + uleb(0),
                         a_name("glob") + b"\x03" + uleb(1)])),
        a_sect(8, uleb(1)),
        a_sect(9, a_vec([b"\x00" + b"\x23\x00\x0b" + a_vec([uleb(0), uleb(2)])])),
        a_sect(10, a_vec([a_code([], b""), a_code([(2, "i32")], b"\x20\x00")])),
        a_sect(11, a_vec([b"\x00" + a_const("i32", 0) + uleb(0)])),
        a_sect(12, uleb(1))), False))
    return out


# hand-made byte strings: boundary cases, past findings
def hx(s):
    return bytes.fromhex(s.replace(" ", ""))


HDR = "0061736d01000000"
CORPUS_BYTES = [
    ("empty-module", hx(HDR)),
    ("bad-magic", hx("0061736e01000000")),
    ("bad-version", hx("0061736d02000000")),
    ("short-header", hx("0061736d0100")),
    ("mut-byte-2", hx(HDR + "0606017f0241000b")),                        # global i32 mut=2: non-canonical, reads as mutable
    ("select-typed-empty", hx(HDR + "010401600000 03020100 0a0a0108004100410041001c000b")),
    ("select-typed-i32", hx(HDR + "010401600000 03020100 0a0d010b004100410041001c017f1a0b")),
    ("data-flag2-mem0", hx(HDR + "05030100010b08010200410 00b0161".replace(" ", ""))),
    ("locals-split", hx(HDR + "010401600000 03020100 0a0a01080 2017f017f010b".replace(" ", ""))),
    ("locals-zero-run", hx(HDR + "010401600000 03020100 0a080106 01007f010b".replace(" ", ""))),
    ("datacount-64", hx(HDR + "0c0140")),                                # fixed finding: was read as -64
    ("datacount-127", hx(HDR + "0c017f")),
    ("externref-table", hx(HDR + "0404016f0001")),                        # fixed finding: 0x6f is externref
    ("table-bad-kind", hx(HDR + "0404017f0001")),
    ("unknown-section", hx(HDR + "0d00")),
    ("section-overrun", hx(HDR + "0105016000")),
    ("section-leftover", hx(HDR + "01050160000000")),
    ("bad-utf8-name", hx(HDR + "0207010180 0161 0000".replace(" ", ""))),
    ("overlong-utf8", hx(HDR + "02080102c080 0161 0000".replace(" ", ""))),
    ("surrogate-utf8", hx(HDR + "02090103eda080 0161 0000".replace(" ", ""))),
    ("import-kind-4", hx(HDR + "0205010001610400")),
    ("export-kind-4", hx(HDR + "070501016504 00".replace(" ", ""))),
    ("limits-flag-2", hx(HDR + "0503010200")),
    ("elem-flag-1", hx(HDR + "09030101 00".replace(" ", ""))),
    ("code-without-function-section", hx(HDR + "0a040102000b")),
    ("unknown-opcode", hx(HDR + "010401600000 03020100 0a05010300 27 0b".replace(" ", ""))),
    ("unknown-fc-opcode", hx(HDR + "010401600000 03020100 0a06010400 fc63 0b".replace(" ", ""))),
    ("table-init-unsupported", hx(HDR + "010401600000 03020100 0a08010600 fc0c0000 0b".replace(" ", ""))),
    ("v128-const-readable", hx(HDR + "010401600000 03020100 0a17011500 fd0c 000102030405060708090a0b0c0d0e0f 1a 0b".replace(" ", ""))),
    ("unbalanced-end", hx(HDR + "010401600000 03020100 0a06010400 0b0b 0b".replace(" ", ""))),
    ("padded-leb-index", hx(HDR + "010401600000 03020100 0a0801060020808000 1a0b".replace(" ", ""))),
    ("huge-length-overflow", hx("0061736d0100000001190460037d7e7f0060017e017f60027f7d017c60037d7d7d017c0214bf09e697a5e69cace8aa9e065f73746172740002030201030a20011e03017d017f017d43000080008f8c22022201210244000000000000f87f0b")),  # past disagreement (OverflowError)
    ("two-function-sections", hx(HDR + "010401600000 03020100 03020100 0a040102000b".replace(" ", ""))),
]


def f32_module_bytes(bits4):
    """(module (func (f32.const <bits>) drop))"""
    return hx(HDR + "010401600000 03020100 0a0a01080043") + bytes(bits4) + hx("1a0b")


def f64_module_bytes(bits8):
    return hx(HDR + "010401600000 03020100 0a0e010c0044") + bytes(bits8) + hx("1a0b")


# ----------------------------------------------------------------------------------------------
def py_read(b):
    from ppci.wasm import Module
    try:
        m = Module(bytes(b))
    except MemoryError:
        return None, "err MemoryError"
    except OverflowError:
        # a length of 2^63 or more (only in damaged inputs): BytesIO.read() refuses the number before the reader can notice that
        # the data is too short; same outcome class as EOFError ("reads beyond the end")
        return None, "err EOFError"
    except Exception as e:  # noqa
        return None, "err " + type(e).__name__
    return m, None


def py_write(m):
    try:
        return m.to_bytes(), None
    except Exception as e:  # noqa
        return None, "err " + type(e).__name__


def text_roundtrip(m):
    """bytes of parse(print(m)) or ('err', where, class)"""
    from ppci.wasm import Module
    try:
        s = m.to_string()
    except Exception as e:  # noqa
        return ("print", type(e).__name__, None)
    try:
        m3 = Module(s)
    except Exception as e:  # noqa
        return ("parse", type(e).__name__, s)
    try:
        return ("ok", m3.to_bytes(), s)
    except Exception as e:  # noqa
        return ("rewrite", type(e).__name__, s)


def nested(m):
    for d in m.definitions:
        if d.__name__ == "func":
            depth = 0
            for i in d.instructions:
                if i.opcode in ("block", "loop", "if"):
                    depth += 1
                    if depth >= 2:
                        return True
                elif i.opcode == "end":
                    depth -= 1
    return False


def check(ctx):
    import random
    from ppci.wasm import Module, components as C
    rng = ctx.rng
    thorough = ctx.thorough
    soft, hard = resource.getrlimit(resource.RLIMIT_AS)

    reqs, expect = [], []   # driver requests and (what, case, impl value)

    def ask(line, what, case, impl):
        reqs.append(line)
        expect.append((what, case, impl))

    # ---------------- (a) valid modules ------------------------------------------------------
    mods = []     # (label, Module)
    # fixed corpus built with the API: findings / boundary structure
    I = C.Instruction
    R = C.Ref
    T0 = C.Type(0, [], [])
    fixed = [
        ("api-empty", []),
        ("api-datacount-64", [C.DataCount(64)]),
        ("api-datacount-200", [C.DataCount(200)]),
        ("api-externref-table", [C.Table(0, "externref", 1, None)]),
        ("api-externref-import", [C.Import("a", "b", "table", 0, ("externref", 1, 2))]),
        ("api-custom", [C.Custom("name", b"\x00\x01\xff"), C.Custom("ü", b""), T0]),
        ("api-unsorted", [C.Func(0, R("type", index=0), [], []), C.Export("e", "func", R("func", index=0)), T0,
                          C.Memory(0, 1, 2), C.Custom("c", b"zz")]),
        ("api-brtable", [T0, C.Func(0, R("type", index=0), [(None, "i32")], [
            C.BlockInstruction("block", "emptyblock"), C.BlockInstruction("loop", "emptyblock"), C.BlockInstruction("block", "emptyblock"),
            I("local.get", R("local", index=0)), I("br_table", [R("label", index=2), R("label", index=0), R("label", index=1)]),
            I("end"), I("end"), I("end")])]),
        ("api-memarg", [T0, C.Memory(0, 1, None), C.Func(0, R("type", index=0), [], [
            I("i32.const", 0), I("i64.load", 3, 1), I("drop"), I("i32.const", 0), I("i32.const", 0), I("i32.store16", 1, 64),
            I("i32.const", 0), I("f64.load", 0, 200), I("drop")])]),
        ("api-elem-offset", [T0, C.Table(0, "funcref", 200, None),
                             C.Elem(0, (R("table", index=0), [I("i32.const", 100)]), [R("func", index=0), R("func", index=0)]),
                             C.Elem(1, (R("table", index=0), [I("i32.const", 64)]), []),
                             C.Func(0, R("type", index=0), [], [])]),
        ("api-data-mem1", [C.Memory(0, 1, None), C.Data(0, (R("memory", index=1), [I("i32.const", 5)]), b"xy"), C.Data(1, None, b"passive")]),
        ("api-consts", [T0, C.Func(0, R("type", index=0), [], sum([[I("i32.const", v), I("drop")] for v in
                        (63, 64, -64, -65, 127, 128, -128, -129, 2**31 - 1, -2**31)], []) + sum([[I("i64.const", v), I("drop")] for v in
                        (2**62, -2**62 - 1, 2**63 - 1, -2**63)], []))]),
        ("api-limits-max0", [C.Memory(0, 0, 0), C.Table(0, "funcref", 0, 0)]),           # seeded change once missed: max 0 is not "no max"
        ("api-limits-import-max0", [C.Import("m", "mem", "memory", 0, (0, 0)), C.Import("m", "tab", "table", 0, ("funcref", 0, 0))]),
        ("api-limits-eq", [C.Memory(0, 1, 1), C.Table(0, "funcref", 128, 128)]),
        ("api-limits-bounds", [C.Memory(0, 0, 65536), C.Table(0, "externref", 16384, (1 << 32) - 1)]),
        ("api-table-min0", [C.Table(0, "funcref", 0, None)]),                       # fixed finding: printed as "(table funcref)"
        ("api-externref-table-min0", [C.Table(0, "externref", 0, None)]),
        ("api-passive-data-dollar", [C.Memory(0, 1, None), C.Data(0, None, b"$abc"), C.Data(1, None, b"$")]),   # fixed finding
        ("api-many-locals", [T0, C.Func(0, R("type", index=0), [(None, "i32")] * 70 + [(None, "f64")] * 130 + [(None, "i32")], [
            I("local.get", R("local", index=63)), I("local.set", R("local", index=64)), I("local.get", R("local", index=199)),
            I("local.set", R("local", index=128)), I("local.get", R("local", index=200)), I("drop")])]),
    ]
    for lab, defs in fixed:
        mods.append((lab, new_module(defs)))
    n_gen = 180 if thorough else 30
    for k in range(n_gen):
        sub = random.Random(rng.getrandbits(64))
        kw = {}
        if k % 10 == 3:
            kw["big"] = True
        if k % 25 == 7:
            kw["many_funcs"] = True
        m = gen_module(sub, feature={"thorough": thorough}, **kw)
        if k % 4 == 1:
            defs = list(m.definitions)
            sub.shuffle(defs)           # the writer sorts them into sections again
            m = new_module(defs)
        mods.append((f"gen{k}", m))
    n_c = 14 if thorough else 3
    csrcs = list(C_FIXED[: (3 if thorough else 1)]) + [gen_c(random.Random(rng.getrandbits(64))) for _ in range(n_c)]
    for k, src in enumerate(csrcs):
        try:
            mods.append((f"c{k}", compile_c(src)))
            ctx.count("compiled_c")
        except Exception as e:  # noqa  (the C front-end / wasm back-end rejecting a program is not this property)
            ctx.count("c_compile_rejected_" + type(e).__name__)

    bins = []    # canonical binaries for the variant stage
    for lab, m in mods:
        ctx.count("eval_module")
        sx_in = sx_module(m)
        b, err = py_write(m)
        ask("write " + sx_in, "writer", lab, "ok " + hexs(b) if b is not None else err)
        ask("valid " + sx_in, "valid", lab, "ok true")
        if b is None:
            ctx.fail("binary:writer-raises:" + err[4:], f"Module.to_bytes() raised {err[4:]} on a valid generated module", lab, module=sx_in[:2000])
            continue
        m2, err = py_read(b)
        ask("read " + hexs(b), "reader", lab, "ok " + sx_module(m2) if m2 is not None else err)
        ask("canon " + hexs(b), "canon-of-writer-output", lab, "ok true")
        if m2 is None:
            ctx.fail("binary:reader-raises:" + err[4:], f"reading the bytes of a valid module raised {err[4:]}", lab, bytes=b.hex()[:4000])
            continue
        if sx_module(m2) != sx_module_normalized(m):
            ctx.fail("binary:structure-differs", "Module(m.to_bytes()) is not m (definitions in section order)", lab,
                     written=sx_module_normalized(m)[:3000], read=sx_module(m2)[:3000])
        if not ids_sequential(m2):
            ctx.fail("binary:reader-ids", "ids assigned by the reader are not the running indices", lab)
        b2, err = py_write(m2)
        if b2 != b:
            ctx.fail("binary:reread-rewrite-differs", "Module(b).to_bytes() != b for writer-produced b", lab, bytes=b.hex()[:4000],
                     rewritten=(b2.hex()[:4000] if b2 is not None else err))
        if nested(m2):
            ctx.nontrivial(b.hex()[:200] + str(len(b)))
        bins.append((lab, b))
        # ---- text form (real code only)
        if any(d.__name__ in ("custom", "datacount") for d in m2.definitions):
            ctx.count("text_skipped_custom_or_datacount")   # Custom/DataCount have no text form in ppci (to_string raises by design)
        else:
            ctx.count("eval_text")
            st, val, s = text_roundtrip(m2)
            if st != "ok":
                ctx.fail(f"text:{st}-raises:{val}", f"text round trip: {st} raised {val}", lab, bytes=b.hex()[:4000], text=(s or "")[:3000])
            elif val != b:
                ctx.fail("text:roundtrip-bytes-differ", "Module(m.to_string()).to_bytes() != m.to_bytes()", lab, bytes=b.hex()[:4000],
                         reparsed=val.hex()[:4000], text=s[:3000])
        if len(ctx.samples) < 2 and lab.startswith("gen"):
            ctx.sample({"module": sx_in[:600], "bytes": b.hex()[:300]})

    # ---------------- known findings (reproduced on every run) and their neighbours ----------
    for bits, sig_expected in ((0x7FA00000, True), (0xFF800001, True), (0x7FC00000, False), (0xFFC00000, False), (0x7FC00001, False),
                               (0x7F800000, False)):
        b = f32_module_bytes(struct.pack("<I", bits))
        m2, err = py_read(b)
        ask("read " + hexs(b), "reader", f"f32-{bits:08x}", "ok " + sx_module(m2) if m2 is not None else err)
        ask("canon " + hexs(b), "canon", f"f32-{bits:08x}", "ok false" if sig_expected else "ok true")
        ctx.count("eval_f32_bits")
        if m2 is not None:
            b2, _ = py_write(m2)
            if b2 != b:
                ctx.fail("binary:f32-const-snan-quieted" if sig_expected else "binary:f32-const-bits-changed",
                         f"f32.const with bit pattern {bits:#010x} is rewritten with a different bit pattern", f"{bits:#010x}",
                         bytes=b.hex(), rewritten=(b2 or b"").hex())
    for bits in (0x7FF4000000000000, 0xFFF0000000000001, 0x7FF8000000000000):
        b = f64_module_bytes(struct.pack("<Q", bits))
        m2, err = py_read(b)
        ask("read " + hexs(b), "reader", f"f64-{bits:016x}", "ok " + sx_module(m2) if m2 is not None else err)
        ask("canon " + hexs(b), "canon", f"f64-{bits:016x}", "ok true")
        ctx.count("eval_f64_bits")
        if m2 is not None and py_write(m2)[0] != b:
            ctx.fail("binary:f64-const-bits-changed", f"f64.const {bits:#018x} is rewritten differently", f"{bits:#018x}", bytes=b.hex())
    # datacount section: the spec puts it between element and code; ppci writes it last
    m = new_module([C.Type(0, [], []), C.Memory(0, 1, None), C.Func(0, R("type", index=0), [], []), C.Data(0, None, b"x"), C.DataCount(1)])
    secs = split_sections(m.to_bytes())
    spec_order = sorted(secs, key=lambda x: 9.5 if x[0] == 12 else x[0])
    b = join_sections(spec_order)
    m2, err = py_read(b)
    ask("read " + hexs(b), "reader", "datacount-spec-order", "ok " + sx_module(m2) if m2 is not None else err)
    ask("canon " + hexs(b), "canon", "datacount-spec-order", "ok false")
    ctx.count("eval_datacount_order")
    if m2 is None or py_write(m2)[0] != b:
        ctx.fail("binary:datacount-section-order", "a binary with the datacount section where the specification puts it (between element and "
                 "code section) is rewritten with the datacount section at the end", "datacount-spec-order", bytes=b.hex(),
                 rewritten=(py_write(m2)[0] or b"").hex() if m2 is not None else err)
    # text: NaN payload / sign, names with quote or line break
    T0 = C.Type(0, [], [])
    for lab, v, kind in (("f32-nan-payload", struct.unpack("<f", struct.pack("<I", 0x7FC00001))[0], "f32"),
                         ("f32-neg-nan", struct.unpack("<f", struct.pack("<I", 0xFFC00000))[0], "f32"),
                         ("f64-nan-payload", struct.unpack("<d", struct.pack("<Q", 0x7FF8000000000001))[0], "f64"),
                         ("f64-neg-nan", struct.unpack("<d", struct.pack("<Q", 0xFFF8000000000000))[0], "f64")):
        m = new_module([T0, C.Func(0, R("type", index=0), [], [I(kind + ".const", v), I("drop")])])
        b = m.to_bytes()
        st, val, s = text_roundtrip(Module(b))
        ctx.count("eval_text")
        if st != "ok" or val != b:
            ctx.fail("text:nan-payload-or-sign-lost", f"{kind}.const NaN with payload/sign is printed as 'nan' and re-parsed as the canonical NaN",
                     lab, bytes=b.hex(), text=s)
    for lab, nm in (("quote", 'a"b'), ("newline", "a\nb"), ("cr", "a\rb"), ("trailing-backslash", "a\\")):
        m = new_module([T0, C.Func(0, R("type", index=0), [], []), C.Export(nm, "func", R("func", index=0))])
        b = m.to_bytes()
        st, val, s = text_roundtrip(Module(b))
        ctx.count("eval_text")
        if st != "ok" or val != b:
            ctx.fail("text:name-not-escaped", "an export/import name containing a double quote or a line break is printed unescaped and "
                     "re-parsed differently (or not at all)", lab, bytes=b.hex(), text=s, outcome=st)

    # ---------------- hand-assembled canonical binaries (bytes ppci did not produce) ------------
    def text_check(lab, m2, b):
        ctx.count("eval_text")
        st, val, s = text_roundtrip(m2)
        if st != "ok":
            ctx.fail(f"text:{st}-raises:{val}", f"text round trip: {st} raised {val}", lab, bytes=b.hex()[:4000], text=(s or "")[:3000])
        elif val != b:
            ctx.fail("text:roundtrip-bytes-differ", "Module(m.to_string()).to_bytes() != m.to_bytes()", lab, bytes=b.hex()[:4000],
                     reparsed=val.hex()[:4000], text=s[:3000])

    for lab, b, valid in hand_binaries(thorough):
        lab = "hand:" + lab
        ctx.count("eval_hand_binary")
        ctx.nontrivial(lab)
        m2, err = py_read(b)
        ask("read " + hexs(b), "reader", lab, "ok " + sx_module(m2) if m2 is not None else err)
        ask("canon " + hexs(b), "canon-hand", lab, "ok true")
        if m2 is None:
            ctx.fail("binary:reader-raises:" + err[4:], f"reading a hand-assembled canonical binary raised {err[4:]}", lab, bytes=b.hex()[:4000])
            continue
        b2, werr = py_write(m2)
        ask("write " + sx_module(m2), "writer", lab + ":rewrite", "ok " + hexs(b2) if b2 is not None else werr)
        if b2 != b:
            ctx.fail("binary:canonical-input-not-reproduced", "a canonically encoded binary (hand-assembled, independent of ppci's writer) is not "
                     "reproduced by read -> write", lab, bytes=b.hex()[:4000], rewritten=(b2.hex()[:4000] if b2 is not None else werr))
        if valid and not any(d.__name__ in ("custom", "datacount") for d in m2.definitions):
            text_check(lab, m2, b)

    # ---------------- WAT sources (not built through the components API) -----------------------
    for lab, text, numeric_text in WAT_FIXED:
        check_wat(ctx, "fixed:" + lab, text + "\n", numeric_text + "\n", None)
    n_wat = 400 if thorough else 60
    for k in range(n_wat):
        sub = random.Random(rng.getrandbits(64))
        g = WatGen(sub, multi=(k % 3 == 0), names=[None, None, "first", "later"][k % 4])
        S = g.build()
        text, _, _, _ = g.render(S, False)
        numeric_text, ex, el, da = g.render(S, True)
        hand = g.assemble(S, ex, el, da)
        ctx.count("wat_hand_assembled" if hand is not None else "wat_numeric_only")
        b1 = check_wat(ctx, f"wat{k}", text, numeric_text, hand)
        if b1 is not None:
            m2, err = py_read(b1)
            ask("read " + hexs(b1), "reader", f"wat{k}", "ok " + sx_module(m2) if m2 is not None else err)
            if len(ctx.samples) < 4 and k < 2:
                ctx.sample({"wat": text[:700]})

    # ---------------- WAT id assignment: Model.WatIds vs the real parser ------------------------
    from ppci.wasm.components import Ref as _Ref
    forms = {"type": lambda i: f"(type{i} (func))", "func": lambda i: f"(func{i} (type 0))", "table": lambda i: f"(table{i} 1 funcref)",
             "memory": lambda i: f"(memory{i} 1)", "global": lambda i: f"(global{i} i32 i32.const 0)"}
    pats = [[None], ["u"], ["u", None], [None, "u"], ["u", None, None], [None, "u", None], ["a0"], ["a1", None], [None, "a0"], ["u", "a0"],
            ["a1", "a0"], [None, None, "a1"], ["u", "u2", None, "a3"]]
    for _ in range(150 if thorough else 25):
        pats.append([rng.choice([None, None, "u", "u", f"a{rng.randrange(4)}"]) for _ in range(rng.randint(1, 5))])
    for pat in pats:
        pat = [f"u{k}" if p == "u" else p for k, p in enumerate(pat)]
        for space in ("table", "memory", "global", "func", "type"):
            ctx.count("eval_wat_ids")
            text = "(module" + ("" if space == "type" else " (type (func))")
            text += "".join(" " + forms[space]("" if p is None else (" $n" + p[1:] if p[0] == "u" else " $" + p[1:])) for p in pat) + ")"
            try:
                ids = [d.id for d in Module(text).definitions if d.__name__ == space]
                impl = "ok " + ",".join("a" + i[1:] if i[1:].isdigit() else "u" + i[2:] for i in ids)
            except Exception as e:  # noqa
                ids, impl = None, "err " + type(e).__name__
            ask("ids " + " ".join("_" if p is None else p for p in pat), "wat-ids", f"{space}:{pat}", impl)
            if ids is not None and not any(p and p[0] == "a" for p in pat) and space in ("table", "memory"):
                for i, name in enumerate(ids):
                    if _Ref(space, name=name).is_zero and i != 0:
                        ctx.fail("text:dollar0-id-not-index0", f"the {space} with id {name} ('is_zero': the text writer omits its use) has index {i}",
                                 f"{space}:{pat}", text=text)

    # ---------------- (b) non-canonical and damaged inputs ------------------------------------
    inputs = list(CORPUS_BYTES)
    per = 3 if thorough else 1
    for lab, b in bins:
        if lab.startswith("api-") or rng.random() < (0.9 if thorough else 0.6):
            vs = variants(rng, b)
            rng.shuffle(vs)
            if len(b) > 20000:
                vs = vs[:2]          # 16K-element modules: each variant costs seconds in the driver
            for vl, vb in vs[: (len(vs) if thorough else 5)][: per * 5]:
                inputs.append((f"{lab}:{vl}", vb))
    canon_queries = []
    try:
        resource.setrlimit(resource.RLIMIT_AS, (6 << 30, hard))
        for lab, b in inputs:
            ctx.count("eval_variant")
            ctx.nontrivial(b.hex()[:300] + str(len(b)))
            m2, err = py_read(b)
            if err == "err MemoryError":
                ctx.count("variant_skipped_memory")
                continue
            if m2 is not None and sum(len(d.locals) for d in m2.definitions if d.__name__ == "func") > 20000:
                ctx.count("variant_skipped_huge_locals")
                continue
            ask("read " + hexs(b), "reader", lab, "ok " + sx_module(m2) if m2 is not None else err)
            ctx.count("variant_" + (err[4:] if err else "ok"))
            if m2 is not None:
                b2, werr = py_write(m2)
                # writer correspondence on whatever structure the reader produced (also out-of-range immediates etc.)
                ask("write " + sx_module(m2), "writer", lab + ":rewrite", "ok " + hexs(b2) if b2 is not None else werr)
                canon_queries.append((lab, b, b2, werr))
    finally:
        resource.setrlimit(resource.RLIMIT_AS, (soft, hard))
    for lab, b, b2, werr in canon_queries:
        reqs.append("canon " + hexs(b))
        expect.append(("canon-oracle", lab, (b, b2, werr)))

    # ---------------- run the model ---------------------------------------------------------
    reqs.insert(0, "sane")
    expect.insert(0, ("sane", "tables", "ok true"))
    replies = ctx.driver("C21", reqs)
    for (what, case, impl), rq, rep in zip(expect, reqs, replies):
        if what == "canon-oracle":
            b, b2, werr = impl
            ctx.count("eval_canon_oracle")
            if rep == "ok true":
                ctx.count("canonical_inputs")
                if b2 is None:
                    # canonically encoded but not a valid module (e.g. an i32 immediate of more than 32 bits after a byte flip):
                    # the writer refuses it; outside the property, the refusal itself is compared with the model above
                    ctx.count("canonical_but_writer_refuses")
                elif b2 != b:
                    ctx.fail("binary:canonical-input-not-reproduced", "a canonically encoded binary is not reproduced by read -> write", case,
                             bytes=b.hex()[:4000], rewritten=(b2.hex()[:4000] if b2 is not None else werr))
            elif rep == "ok false":
                if b2 is not None:
                    # whatever the writer emits must be canonical and stable
                    m3, e3 = py_read(b2)
                    if m3 is None or py_write(m3)[0] != b2:
                        ctx.fail("binary:rewrite-not-stable", "write(read(bs)) is not a fixed point of read -> write", case, bytes=b.hex()[:4000])
            else:
                ctx.disagree("canon", case, "ok true|false", rep)
            continue
        ctx.count("eval_model_" + what)
        if rep != impl:
            ctx.disagree(what, f"{case}: {rq[:300]}", impl[:1500], rep[:1500])
    ctx.extra_cov["exhaustive"] = False
    ctx.extra_cov["reference_engine"] = "none available (no wasmtime / wabt / wat2wasm / spec test-suite in the sandbox): acceptance clause not evaluated"
    ctx.extra_cov["text_layer"] = "evaluated on the real code only (not modelled in Lean)"


def replay(ctx, rp):
    check(ctx)


def search(ctx):
    """proof obligations no longer build (e.g. tables_sane is false for the regenerated tables): the model and the driver
    do not depend on Props, so the full differential run + property evaluation still looks for a concrete failing input"""
    check(ctx)


# ----------------------------------------------------------------------------------------------
# text modules written as WAT source (not built through the components API): explicit $ids and anonymous definitions mixed in
# every index space, inline abbreviations, references by name and by index.  From one abstract description three things are
# rendered: the mixed WAT, a flat all-numeric WAT (no names, no abbreviations) and - where ppci's binary encoding is the
# standard one (element segments on table 0 only) - the bytes from the hand assembler above.
def wat_str(b):
    return '"' + "".join(chr(c) if 32 <= c < 127 and c not in (34, 92) else "\\%02x" % c for c in b) + '"'


class WatGen:
    def __init__(self, rng, multi=False, names=None):
        self.r = rng
        self.multi = multi
        self.names_mode = names        # None: coin per definition; "first": first of each space named, later ones anonymous

    def nm(self, space, k, pos):
        """optional $id for definition `pos` of an index space"""
        r = self.r
        if self.names_mode == "first":
            named = pos == 0
        elif self.names_mode == "later":
            named = pos > 0
        else:
            named = r.random() < 0.5
        return f"${space}_{k}{r.choice('abcxyz')}" if named else None

    def build(self):
        r = self.r
        S = {}
        S["types"] = [{"name": self.nm("sig", i, i), "params": ["i32"] * r.choice([0, 1, 2]), "results": ["i32"] * r.choice([0, 1])}
                      for i in range(r.randint(1, 4))]
        nt = len(S["types"])
        S["fimports"] = [{"name": None, "type": r.randrange(nt), "inline": r.random() < 0.5, "mod": "env", "field": f"f{i}"}
                         for i in range(r.choice([0, 0, 1, 2]))]
        S["gimports"] = [{"name": None, "t": "i32", "mut": False, "inline": r.random() < 0.5, "mod": "env", "field": f"g{i}"}
                         for i in range(r.choice([0, 0, 1, 2]))]
        ntab = r.choice([1, 2, 3]) if self.multi else r.choice([0, 1, 1])
        nmem = r.choice([1, 2, 3]) if self.multi else r.choice([0, 1, 1])
        nfunc = r.randint(1, 4)
        nf_total = len(S["fimports"]) + nfunc
        S["tables"] = []
        for i in range(ntab):
            imp = i == 0 and r.random() < 0.2
            t = {"name": None, "import": ("env", f"t{i}") if imp else None, "inline": r.random() < 0.5, "exports": []}
            if not imp and r.random() < 0.5:
                t["inline_elem"] = [r.randrange(nf_total) for _ in range(r.choice([0, 1, 2, 3]))]
                t["min"] = t["max"] = len(t["inline_elem"])
            else:
                t["inline_elem"] = None
                t["min"] = r.choice([0, 1, 4, 64, 128])
                t["max"] = r.choice([None, t["min"], t["min"] + 5])
            if not imp and r.random() < 0.3:
                t["exports"] = [f"tab{i}"]
            S["tables"].append(t)
        S["memories"] = []
        for i in range(nmem):
            imp = i == 0 and r.random() < 0.2
            m = {"name": None, "import": ("env", f"m{i}") if imp else None, "inline": r.random() < 0.5, "exports": []}
            if not imp and r.random() < 0.5:
                m["inline_data"] = bytes(r.choice(b"abc$\"\\\x00\xff xyz") for _ in range(r.choice([0, 1, 3, 8])))
                m["min"] = m["max"] = 1 if m["inline_data"] else 0
            else:
                m["inline_data"] = None
                m["min"] = r.choice([0, 1, 2, 64])
                m["max"] = r.choice([None, m["min"], m["min"] + 3])
            if not imp and r.random() < 0.3:
                m["exports"] = [f"mem{i}"]
            S["memories"].append(m)
        S["globals"] = []
        for i in range(r.choice([0, 1, 2, 3])):
            imm = [k for k, g in enumerate(S["gimports"])]
            init = ("get", r.choice(imm)) if imm and r.random() < 0.3 else ("const", r.choice([0, 1, -1, 63, 64, -65, 8192, 2**31 - 1, -2**31]))
            S["globals"].append({"name": None, "t": "i32", "mut": r.random() < 0.6, "init": init,
                                 "exports": [f"glob{i}"] if r.random() < 0.3 else []})
        # names: one coin sequence per index space, over imports + definitions in index order
        for space, lists in (("f", [S["fimports"]]), ("g", [S["gimports"], S["globals"]]), ("t", [S["tables"]]), ("m", [S["memories"]])):
            pos = 0
            for l in lists:
                for d in l:
                    d["name"] = self.nm(space, pos, pos)
                    pos += 1
        ng_total = len(S["gimports"]) + len(S["globals"])
        S["funcs"] = []
        for i in range(nfunc):
            ti = r.randrange(nt)
            locs = [(f"$l{k}" if r.random() < 0.5 else None, "i32") for k in range(r.choice([0, 1, 2, 3]))]
            f = {"name": self.nm("f", len(S["fimports"]) + i, len(S["fimports"]) + i), "type": ti, "locals": locs,
                 "exports": [f"fn{i}"] if r.random() < 0.3 else []}
            f["body"] = self.body(S, ti, locs, nf_total, ng_total, depth=2)
            S["funcs"].append(f)
        S["exports"] = []
        for i in range(r.choice([0, 1, 2])):
            kind = r.choice(["func", "table", "memory", "global"])
            n = {"func": nf_total, "table": ntab, "memory": nmem, "global": ng_total}[kind]
            if n:
                S["exports"].append((f"ex{i}", kind, r.randrange(n)))
        void = [len(S["fimports"]) + i for i, f in enumerate(S["funcs"]) if not S["types"][f["type"]]["params"] and not S["types"][f["type"]]["results"]]
        S["start"] = r.choice(void) if void and r.random() < 0.4 else None
        S["elems"] = []
        if ntab:
            for i in range(r.choice([0, 1, 2])):
                S["elems"].append({"name": self.nm("e", i, i), "table": r.randrange(ntab), "offset": r.choice([0, 1, 63, 64, 128]),
                                   "refs": [r.randrange(nf_total) for _ in range(r.choice([0, 1, 2]))],
                                   "explicit": r.random() < 0.5, "form": r.choice(["offset", "instr"])})
        S["datas"] = []
        if nmem:
            for i in range(r.choice([0, 1, 2])):
                passive = r.random() < 0.2
                S["datas"].append({"name": self.nm("d", i, i), "memory": None if passive else r.randrange(nmem), "offset": r.choice([0, 8, 64, 65536]),
                                   "bytes": bytes(r.choice(b"$ab\"\\\x00\x7f\x80") for _ in range(r.choice([0, 1, 4]))),
                                   "explicit": r.random() < 0.5, "form": r.choice(["offset", "instr"])})
        return S

    def body(self, S, ti, locs, nf, ng, depth, labels=()):
        """stack-neutral statements, then the result value"""
        r = self.r
        npar = len(S["types"][ti]["params"])
        nloc = npar + len(locs)
        out = []

        def sig_of(fi):
            if fi < len(S["fimports"]):
                return S["types"][S["fimports"][fi]["type"]]
            return S["types"][S["funcs"][fi - len(S["fimports"])]["type"]] if fi - len(S["fimports"]) < len(S["funcs"]) else None
        for _ in range(r.randint(0, 4)):
            k = r.randrange(9)
            if k == 0:
                out += [("i32.const", r.choice([0, 1, -1, 64, -65, 300])), ("drop",)]
            elif k == 1 and nloc:
                out += [("local.get", r.randrange(nloc)), ("drop",)]
            elif k == 2 and nloc:
                out += [("i32.const", r.randrange(100)), ("local.set", r.randrange(nloc))]
            elif k == 3 and ng:
                out += [("global.get", r.randrange(ng)), ("drop",)]
            elif k == 4:
                mut = [len(S["gimports"]) + i for i, g in enumerate(S["globals"]) if g["mut"]]
                if mut:
                    out += [("i32.const", 7), ("global.set", r.choice(mut))]
            elif k == 5:
                fi = r.randrange(nf)
                sg = sig_of(fi)
                if sg is not None:
                    out += [("i32.const", 1)] * len(sg["params"]) + [("call", fi)] + [("drop",)] * len(sg["results"])
            elif k == 6 and S["tables"]:
                t2 = r.randrange(len(S["types"]))
                sg = S["types"][t2]
                out += [("i32.const", 2)] * len(sg["params"]) + [("i32.const", 0), ("call_indirect", t2)] + [("drop",)] * len(sg["results"])
            elif k == 7 and depth > 0:
                lab = f"$L{len(labels)}" if r.random() < 0.5 else None
                inner = self.body(S, ti, locs, nf, ng, depth - 1, labels + (lab,))
                inner = [x for x in inner]
                if r.random() < 0.6:
                    inner += [("i32.const", 0), ("br_if", r.randrange(len(labels) + 1))]
                out += [(r.choice(["block", "loop"]), lab, inner)]
            elif k == 8 and S["memories"]:
                out += [("i32.const", 0), ("i32.load", r.choice([0, 1, 2]), r.choice([0, 4, 64])), ("drop",)]
        if not labels:
            out += [("i32.const", 5)] * len(S["types"][ti]["results"])
        return out

    # ---- rendering
    def render(self, S, numeric):
        r = self.r

        def ref(space, idx):
            """reference to definition idx of an index space: by name when it has one (coin), else by index"""
            if numeric:
                return str(idx)
            lists = {"type": [S["types"]], "func": [S["fimports"], S["funcs"]], "global": [S["gimports"], S["globals"]],
                     "table": [S["tables"]], "memory": [S["memories"]]}[space]
            flat = [d for l in lists for d in l]
            n = flat[idx]["name"]
            return n if n and r.random() < 0.7 else str(idx)

        def idn(d):
            return "" if numeric or not d["name"] else " " + d["name"]

        def lim(d):
            return f"{d['min']}" + ("" if d["max"] is None else f" {d['max']}")

        def instrs(body, f, labels=()):
            npar = len(S["types"][f["type"]]["params"])
            out = []
            for ins in body:
                op = ins[0]
                if op in ("block", "loop"):
                    lab = None if numeric else ins[1]
                    out.append(op + (f" {lab}" if lab else ""))
                    out += instrs(ins[2], f, labels + (lab,))
                    out.append("end")
                elif op in ("br", "br_if"):
                    d = ins[1]
                    lab = labels[len(labels) - 1 - d] if d < len(labels) else None
                    out.append(f"{op} {lab if lab and r.random() < 0.7 else d}")
                elif op in ("local.get", "local.set"):
                    i = ins[1]
                    nm = f["locals"][i - npar][0] if i >= npar else None
                    out.append(f"{op} {nm if nm and not numeric and r.random() < 0.7 else i}")
                elif op in ("global.get", "global.set"):
                    out.append(f"{op} {ref('global', ins[1])}")
                elif op == "call":
                    out.append(f"call {ref('func', ins[1])}")
                elif op == "call_indirect":
                    out.append(f"call_indirect (type {ref('type', ins[1])})")
                elif op == "i32.load":
                    nat = 2
                    a = []
                    if ins[2]:
                        a.append(f"offset={ins[2]}")
                    if ins[1] != nat:
                        a.append(f"align={2 ** ins[1]}")
                    out.append(" ".join(["i32.load"] + a))
                else:
                    out.append(" ".join(str(x) for x in ins))
            return out
        L = ["(module"]
        for t in S["types"]:
            ps = f" (param {' '.join(t['params'])})" if t["params"] else ""
            rs = f" (result {' '.join(t['results'])})" if t["results"] else ""
            L.append(f"  (type{idn(t)} (func{ps}{rs}))")
        for d in S["fimports"]:
            if d["inline"] and not numeric:
                L.append(f"  (func{idn(d)} (import \"{d['mod']}\" \"{d['field']}\") (type {ref('type', d['type'])}))")
            else:
                L.append(f"  (import \"{d['mod']}\" \"{d['field']}\" (func{idn(d)} (type {ref('type', d['type'])})))")
        for d in S["tables"]:
            if d["import"]:
                if d["inline"] and not numeric:
                    L.append(f"  (table{idn(d)} (import \"{d['import'][0]}\" \"{d['import'][1]}\") {lim(d)} funcref)")
                else:
                    L.append(f"  (import \"{d['import'][0]}\" \"{d['import'][1]}\" (table{idn(d)} {lim(d)} funcref))")
        for d in S["memories"]:
            if d["import"]:
                if d["inline"] and not numeric:
                    L.append(f"  (memory{idn(d)} (import \"{d['import'][0]}\" \"{d['import'][1]}\") {lim(d)})")
                else:
                    L.append(f"  (import \"{d['import'][0]}\" \"{d['import'][1]}\" (memory{idn(d)} {lim(d)}))")
        for d in S["gimports"]:
            gt = f"(mut {d['t']})" if d["mut"] else d["t"]
            if d["inline"] and not numeric:
                L.append(f"  (global{idn(d)} (import \"{d['mod']}\" \"{d['field']}\") {gt})")
            else:
                L.append(f"  (import \"{d['mod']}\" \"{d['field']}\" (global{idn(d)} {gt}))")
        exports, elems, datas = [], [], []
        for i, d in enumerate(S["tables"]):
            if d["import"]:
                continue
            ex = "" if numeric else "".join(f' (export "{e}")' for e in d["exports"])
            exports += [(e, "table", i) for e in d["exports"]]
            if d["inline_elem"] is not None:
                elems.append({"table": i, "offset": 0, "refs": d["inline_elem"], "explicit": True, "form": "instr", "name": None})
                if not numeric:
                    L.append(f"  (table{idn(d)}{ex} funcref (elem{''.join(' ' + ref('func', x) for x in d['inline_elem'])}))")
                    continue
            L.append(f"  (table{idn(d)}{ex} {lim(d)} funcref)")
        for i, d in enumerate(S["memories"]):
            if d["import"]:
                continue
            ex = "" if numeric else "".join(f' (export "{e}")' for e in d["exports"])
            exports += [(e, "memory", i) for e in d["exports"]]
            if d["inline_data"] is not None:
                datas.append({"memory": i, "offset": 0, "bytes": d["inline_data"], "explicit": True, "form": "instr", "name": None})
                if not numeric:
                    L.append(f"  (memory{idn(d)}{ex} (data {wat_str(d['inline_data'])}))")
                    continue
            L.append(f"  (memory{idn(d)}{ex} {lim(d)})")
        for i, d in enumerate(S["globals"]):
            gi = len(S["gimports"]) + i
            ex = "" if numeric else "".join(f' (export "{e}")' for e in d["exports"])
            exports += [(e, "global", gi) for e in d["exports"]]
            gt = f"(mut {d['t']})" if d["mut"] else d["t"]
            init = f"i32.const {d['init'][1]}" if d["init"][0] == "const" else f"global.get {ref('global', d['init'][1])}"
            L.append(f"  (global{idn(d)}{ex} {gt} {init})")
        for i, f in enumerate(S["funcs"]):
            fi = len(S["fimports"]) + i
            ex = "" if numeric else "".join(f' (export "{e}")' for e in f["exports"])
            exports += [(e, "func", fi) for e in f["exports"]]
            locs = "".join(f" (local{'' if numeric or not n else ' ' + n} {t})" for n, t in f["locals"])
            L.append(f"  (func{idn(f)}{ex} (type {ref('type', f['type'])}){locs}")
            L += ["    " + x for x in instrs(f["body"], f)]
            L.append("  )")
        exports += list(S["exports"])
        for (e, kind, idx) in (exports if numeric else S["exports"]):
            L.append(f"  (export \"{e}\" ({kind} {ref(kind, idx)}))")
        if S["start"] is not None:
            L.append(f"  (start {ref('func', S['start'])})")
        elems += S["elems"]
        for e in (elems if numeric else S["elems"]):
            tab = f" (table {ref('table', e['table'])})" if (e["table"] != 0 or (e["explicit"] and not numeric)) else ""
            off = f"(offset i32.const {e['offset']})" if (e["form"] == "offset" or numeric) else f"(i32.const {e['offset']})"
            L.append(f"  (elem{idn(e)}{tab} {off}{''.join(' ' + ref('func', x) for x in e['refs'])})")
        datas += S["datas"]
        for d in (datas if numeric else S["datas"]):
            if d["memory"] is None:
                L.append(f"  (data{idn(d)} {wat_str(d['bytes'])})")
                continue
            mem = f" (memory {ref('memory', d['memory'])})" if (d["memory"] != 0 or (d["explicit"] and not numeric)) else ""
            off = f"(offset i32.const {d['offset']})" if (d["form"] == "offset" or numeric) else f"(i32.const {d['offset']})"
            L.append(f"  (data{idn(d)}{mem} {off} {wat_str(d['bytes'])})")
        L.append(")")
        return "\n".join(L) + "\n", exports, elems, datas

    # ---- hand assembly (only for element segments on table 0: ppci writes the table index where the format has the flag)
    def assemble(self, S, exports, elems, datas):
        if any(e["table"] != 0 for e in elems):
            return None

        def code(body):
            out = b""
            for ins in body:
                op = ins[0]
                if op in ("block", "loop"):
                    out += (b"\x02" if op == "block" else b"\x03") + b"\x40" + code(ins[2]) + b"\x0b"
                elif op == "i32.const":
                    out += b"\x41" + sleb(ins[1])
                elif op == "i32.load":
                    out += b"\x28" + uleb(ins[1]) + uleb(ins[2])
                else:
                    b = {"drop": b"\x1a", "nop": b"\x01", "local.get": b"\x20", "local.set": b"\x21", "global.get": b"\x23",
                         "global.set": b"\x24", "call": b"\x10", "br": b"\x0c", "br_if": b"\x0d", "call_indirect": b"\x11"}[op]
                    out += b + b"".join(uleb(x) for x in ins[1:]) + (b"\x00" if op == "call_indirect" else b"")
            return out
        secs = [a_sect(1, a_vec(a_functype(t["params"], t["results"]) for t in S["types"]))]
        imps = [a_name(d["mod"]) + a_name(d["field"]) + b"\x00" + uleb(d["type"]) for d in S["fimports"]]
        imps += [a_name(d["import"][0]) + a_name(d["import"][1]) + b"\x01\x70" + a_limits(d["min"], d["max"]) for d in S["tables"] if d["import"]]
        imps += [a_name(d["import"][0]) + a_name(d["import"][1]) + b"\x02" + a_limits(d["min"], d["max"]) for d in S["memories"] if d["import"]]
        imps += [a_name(d["mod"]) + a_name(d["field"]) + b"\x03" + VTB[d["t"]] + bytes([int(d["mut"])]) for d in S["gimports"]]
        if imps:
            secs.append(a_sect(2, a_vec(imps)))
        secs.append(a_sect(3, a_vec(uleb(f["type"]) for f in S["funcs"])))
        tabs = [b"\x70" + a_limits(d["min"], d["max"]) for d in S["tables"] if not d["import"]]
        if tabs:
            secs.append(a_sect(4, a_vec(tabs)))
        mems = [a_limits(d["min"], d["max"]) for d in S["memories"] if not d["import"]]
        if mems:
            secs.append(a_sect(5, a_vec(mems)))
        if S["globals"]:
            secs.append(a_sect(6, a_vec(VTB[g["t"]] + bytes([int(g["mut"])]) +
                                        (a_const("i32", g["init"][1]) if g["init"][0] == "const" else b"\x23" + uleb(g["init"][1]) + b"\x0b")
                                        for g in S["globals"])))
        if exports:
            kk = {"func": 0, "table": 1, "memory": 2, "global": 3}
            secs.append(a_sect(7, a_vec(a_name(e) + bytes([kk[k]]) + uleb(i) for e, k, i in exports)))
        if S["start"] is not None:
            secs.append(a_sect(8, uleb(S["start"])))
        if elems:
            secs.append(a_sect(9, a_vec(b"\x00" + a_const("i32", e["offset"]) + a_vec(uleb(x) for x in e["refs"]) for e in elems)))

        def groups(locs):
            return [(len(locs), "i32")] if locs else []
        secs.append(a_sect(10, a_vec(a_code(groups(f["locals"]), code(f["body"])) for f in S["funcs"])))
        if datas:
            def dseg(d):
                if d["memory"] is None:
                    return b"\x01" + uleb(len(d["bytes"])) + d["bytes"]
                pre = b"\x00" if d["memory"] == 0 else b"\x02" + uleb(d["memory"])
                return pre + a_const("i32", d["offset"]) + uleb(len(d["bytes"])) + d["bytes"]
            secs.append(a_sect(11, a_vec(dseg(d) for d in datas)))
        return a_module(*secs)


WAT_FIXED = [
    # the round-3 seeded change: an explicitly named table/memory followed by an anonymous one with the inline abbreviation
    ("named-then-anon-table", """(module
  (type $sig (func (result i32)))
  (table $dispatch 4 funcref)
  (table funcref (elem $f $g))
  (func $f (type $sig) i32.const 1)
  (func $g (type $sig) i32.const 2)
)""", """(module
  (type (func (result i32)))
  (table 4 funcref)
  (table 2 2 funcref)
  (elem (table 1) (offset i32.const 0) 0 1)
  (func (type 0) i32.const 1)
  (func (type 0) i32.const 2)
)"""),
    ("named-then-anon-memory", """(module
  (memory $scratch 1)
  (memory (data "xyz"))
)""", """(module
  (memory 1)
  (memory 1 1)
  (data (memory 1) (offset i32.const 0) "xyz")
)"""),
    ("anon-then-named", """(module
  (type (func))
  (type $t (func (param i32)))
  (memory 1)
  (memory $second 2)
  (global i32 i32.const 1)
  (global $g (mut i32) i32.const 2)
  (func (type 0))
  (func $named (type $t) global.get $g global.set 1 call 0)
  (data (memory $second) (i32.const 8) "q")
  (export "a" (func $named))
  (export "b" (global 0))
)""", """(module
  (type (func))
  (type (func (param i32)))
  (memory 1)
  (memory 2)
  (global i32 i32.const 1)
  (global (mut i32) i32.const 2)
  (func (type 0))
  (func (type 1) global.get 1 global.set 1 call 0)
  (data (memory 1) (offset i32.const 8) "q")
  (export "a" (func 1))
  (export "b" (global 0))
)"""),
    ("named-import-then-anon-defs", """(module
  (type $v (func))
  (import "env" "f" (func $imp (type $v)))
  (func (import "env" "g") (type 0))
  (global $gi (import "env" "x") i32)
  (global i32 global.get $gi)
  (func (export "run") (type $v) call $imp call 1 call 2)
  (start 2)
)""", """(module
  (type (func))
  (import "env" "f" (func (type 0)))
  (import "env" "g" (func (type 0)))
  (import "env" "x" (global i32))
  (global i32 global.get 0)
  (func (type 0) call 0 call 1 call 2)
  (export "run" (func 2))
  (start 2)
)"""),
]


def wat_bytes(text):
    from ppci.wasm import Module
    try:
        m = Module(text)
    except Exception as e:  # noqa
        return None, None, "parse:" + type(e).__name__
    try:
        return m, m.to_bytes(), None
    except Exception as e:  # noqa
        return m, None, "write:" + type(e).__name__


def check_wat(ctx, lab, text, numeric_text, hand):
    """text -> bytes; = bytes of the all-numeric flat text; = hand-assembled bytes; text -> Module -> text -> Module -> same bytes"""
    ctx.count("eval_wat_text")
    ctx.nontrivial("wat:" + lab)
    m1, b1, err = wat_bytes(text)
    if err:
        ctx.fail("text:wat-source-raises:" + err, f"a WAT source with mixed named/anonymous definitions: {err}", lab, text=text[:3000])
        return None
    mn, bn, errn = wat_bytes(numeric_text)
    if errn:
        ctx.fail("text:wat-numeric-source-raises:" + errn, f"the flat all-numeric WAT source: {errn}", lab, text=numeric_text[:3000])
    elif bn != b1:
        ctx.fail("text:named-vs-numeric-bytes-differ", "a WAT source using $ids / inline abbreviations gives other bytes than the same module "
                 "written with numeric indices only", lab, text=text[:3000], numeric=numeric_text[:3000], bytes=b1.hex()[:3000], numeric_bytes=bn.hex()[:3000])
    if hand is not None and hand != b1:
        ctx.fail("text:wat-bytes-differ-from-hand-assembly", "the binary produced for a WAT source differs from the independently assembled "
                 "binary of the same module", lab, text=text[:3000], bytes=b1.hex()[:3000], expected=hand.hex()[:3000])
    st, val, s = text_roundtrip(m1)
    if st != "ok":
        ctx.fail(f"text:{st}-raises:{val}", f"text -> Module -> to_string -> Module: {st} raised {val}", lab, text=text[:3000], printed=(s or "")[:3000])
    elif val != b1:
        ctx.fail("text:reprint-reparse-bytes-differ", "Module(text).to_string() re-parses to a module with other bytes than Module(text)", lab,
                 text=text[:3000], printed=s[:3000], bytes=b1.hex()[:3000], reparsed=val.hex()[:3000])
    return b1
