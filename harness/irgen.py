"""G-IR: generator of well-formed ppci IR modules (DESIGN 2.6), built with
ppci.irutils.Builder from random *structured* skeletons.

    from harness import irgen
    g = irgen.gen_module(rng, irgen.GenConfig(ub_free=True))      # rng: random.Random
    g.module            ppci.ir.Module (passes ppci.irutils.verify_module)
    g.entries           [Entry(name, params=[ir types], ret=ir type|None, callable_from_outside)]
    g.externals         [(name, [ir types], ret type|None)]
    irgen.gen_args(rng, entry, n)  -> n argument vectors (boundary-biased ints, floats for f64)

Skeleton shapes: seq / if / if-else / while / do-while / single-block self-loop /
switch chain with fall-through (shared joins) / early return / break / continue /
empty forwarding blocks on random edges / critical edges (if without else, loop
exits).  SSA values are created by on-the-fly SSA construction over mutable
"variables": every join of differing values gets a phi, loop headers get a phi
per live variable (incl. unchanged ones -> self-referencing phis); `swap` statements
(a, b = b, a / rotations / copies) emit no instruction but make header phis read each other.

Decoration: allocas (entry block) and globals with initial bytes, typed
loads/stores at constant and computed in-bounds offsets (all integer types, ptr,
f64), CopyBlob between distinct objects, every binop/unop/cast/condition,
boundary constants, internal calls (DAG + guarded self recursion), pointer
arguments, external calls, optional indirect calls, optional `Undefined`.

`ub_free=True` guards `/ %` (divisor != 0, no MIN/-1), `<< >>` (0 <= count < bits)
and float->int casts (range-checked by control flow).  Every loop has a counter
bounded by `loop_bound`, recursion depth is bounded by 3, so every run terminates.

All randomness comes from the `random.Random` passed in.

`c_modules(march)` returns IR modules produced by the C front-end from small
fixed sources (front-end idioms: alloca+addr, ptr arithmetic by cast/mul, struct copy).
"""
import io
import struct

from ppci import ir
from ppci.irutils import Builder, verify_module

INT_TYPES = [ir.i8, ir.i16, ir.i32, ir.i64, ir.u8, ir.u16, ir.u32, ir.u64]
INT_OPS = ["+", "-", "*", "/", "%", "|", "&", "^", "<<", ">>"]
CONDS = ["==", "<", ">", ">=", "<=", "!="]
FLOAT_CONSTS = [0.5, 0.25, 2.7, -1.5, 1000.0, 0.1, -0.75, 3.0, 1.0, 0.0, 2.5, -2.5, 1.5]


class GenConfig:
    def __init__(self, **kw):
        self.int_types = list(INT_TYPES)   # types of variables / expressions
        self.param_types = None            # default: int_types (+ f64 when floats)
        self.ub_free = True
        self.floats = False                # f64 variables, arithmetic, casts
        self.rolror = False                # rol / ror binops
        self.copyblob = True
        self.calls = True                  # internal calls
        self.recursion = True
        self.ptr_params = True             # internal-only functions taking a pointer
        self.externals = True
        self.indirect_calls = False
        self.globals = True
        self.allocas = True
        self.undefined = False             # ir.Undefined feeding a loop phi, never read
        self.unops = True
        self.max_funcs = 3
        self.max_depth = 3
        self.stmts = (3, 9)                # statements per sequence
        self.total_stmts = 60              # budget per function
        self.max_params = 4
        self.loop_bound = 5
        self.p_forward = 0.12              # probability of an empty forwarding block on an edge
        self.narrow_ops = True             # allow * / % and unary ops on 8/16-bit types
        self.unaligned = True              # some accesses at odd offsets
        self.mem_types = None              # types used for load/store (default int_types + ptr-free)
        self.__dict__.update(kw)


class Entry:
    def __init__(self, name, params, ret, external_ok):
        self.name, self.params, self.ret, self.external_ok = name, params, ret, external_ok

    def __repr__(self):
        return f"Entry({self.name}, {[str(p) for p in self.params]}, {self.ret}, {self.external_ok})"


class Generated:
    def __init__(self, module, entries, externals):
        self.module, self.entries, self.externals = module, entries, externals


def type_range(t):
    if t.signed:
        return -(1 << (t.bits - 1)), (1 << (t.bits - 1)) - 1
    return 0, (1 << t.bits) - 1


def boundary_const(rng, t):
    lo, hi = type_range(t)
    k = rng.randrange(t.bits)
    pool = [0, 1, 2, 3, 7, hi, hi - 1, lo, lo + 1, 1 << k, (1 << k) - 1, (1 << k) + 1,
            rng.randint(lo, hi), rng.randint(-20, 20), rng.randint(0, 255)]
    if t.signed:
        pool += [-1, -2, -(1 << k), -(1 << k) - 1, -(1 << k) + 1]
    v = rng.choice(pool)
    if v < lo or v > hi:
        v = (v - lo) % (hi - lo + 1) + lo
    return v


def gen_args(rng, entry, n=4):
    out = []
    for _ in range(n):
        args = []
        for t in entry.params:
            if t in (ir.f64, ir.f32):
                args.append(rng.choice(FLOAT_CONSTS + [float(rng.randint(-1000, 1000)), rng.randint(-99, 99) / 4]))
            else:
                args.append(boundary_const(rng, t))
        out.append(args)
    return out


class Join:
    """A block whose predecessors are collected before it is entered; entering builds the phis."""

    def __init__(self, g, tag):
        self.g, self.tag, self.block, self.incoming = g, tag, None, []

    def target(self):
        if self.block is None:
            self.block = self.g.fresh_block(self.tag)
        return self.block

    def edge(self, pred, varmap):
        """an edge pred -> join; returns the block the branch instruction must name"""
        g = self.g
        if g.rng.random() < g.cfg.p_forward:
            f = g.fresh_block("fwd")
            f.add_instruction(ir.Jump(self.target()))
            self.incoming.append((f, dict(varmap)))
            return f
        self.incoming.append((pred, dict(varmap)))
        return self.target()

    def jump_from_current(self):
        g = self.g
        pred = g.cur
        t = self.edge(pred, g.vars)
        g.emit(ir.Jump(t))
        g.cur = None

    def enter(self):
        g = self.g
        if not self.incoming:
            g.cur = None
            return False
        seen, inc = set(), []
        for p, vm in self.incoming:
            if id(p) not in seen:
                seen.add(id(p))
                inc.append((p, vm))
        g.set_block(self.target())
        names = [n for n in inc[0][1] if all(n in vm for _, vm in inc)]
        newvars = {}
        for n in names:
            vals = [vm[n] for _, vm in inc]
            if all(v is vals[0] for v in vals):
                newvars[n] = vals[0]
            else:
                phi = ir.Phi("phi_" + n, g.vty[n])
                for (p, vm) in inc:
                    phi.set_incoming(p, vm[n])
                g.emit(phi)
                newvars[n] = phi
        g.vars = newvars
        return True


class FuncGen:
    def __init__(self, mg, func, params, ret, rec_ok):
        self.mg, self.rng, self.cfg = mg, mg.rng, mg.cfg
        self.func, self.ret = func, ret
        self.b = Builder()
        self.b.set_module(mg.module)
        self.b.set_function(func)
        self.nblk = 0
        self.vars, self.vty = {}, {}
        self.nvar = 0
        self.loops = []
        self.budget = self.cfg.total_stmts
        self.objs = []            # (ptr value, size)  memory objects that are fully initialised
        self.rec_ok = rec_ok
        self.nrec = 0
        self.params = params
        self.cur = None

    # ---- plumbing -----------------------------------------------------------
    def fresh_block(self, tag="b"):
        blk = ir.Block(f"{self.func.name}_{tag}{self.nblk}")
        self.nblk += 1
        self.func.add_block(blk)
        return blk

    def set_block(self, blk):
        self.cur = blk
        self.b.set_block(blk)

    def emit(self, ins):
        assert self.cur is not None
        return self.b.emit(ins)

    def const(self, t, v):
        return self.emit(ir.Const(v, "c", t))

    def new_var(self, t, value):
        n = f"v{self.nvar}"
        self.nvar += 1
        self.vty[n] = t
        self.vars[n] = value
        return n

    def names_of(self, t):
        return [n for n in self.vars if self.vty[n] is t and not n.startswith("_")]

    # ---- expressions ----------------------------------------------------------
    def leaf(self, t):
        rng = self.rng
        if t is ir.f64:
            c = self.names_of(t)
            if c and rng.random() < 0.6:
                return self.vars[rng.choice(c)]
            if rng.random() < 0.4:
                st = rng.choice([ir.i8, ir.i16, ir.u8, ir.u16])
                return self.emit(ir.Cast(self.expr(st, 9), "itof", t))
            return self.const(t, rng.choice(FLOAT_CONSTS))
        c = self.names_of(t)
        if c and rng.random() < 0.65:
            return self.vars[rng.choice(c)]
        return self.const(t, boundary_const(rng, t))

    def expr(self, t, d=0):
        rng, cfg = self.rng, self.cfg
        if t in INT_TYPES and t not in cfg.int_types:
            # a type that only lives in memory (e.g. 8/16 bit when arithmetic is restricted): leaf or cast
            if rng.random() < 0.4:
                return self.leaf(t)
            return self.emit(ir.Cast(self.expr(rng.choice(cfg.int_types), d + 1), "cast", t))
        if d >= 3 or rng.random() < 0.3:
            return self.leaf(t)
        if t is ir.f64:
            op = rng.choice(["+", "-", "*", "/"])
            a = self.expr(t, d + 1)
            if op == "/":
                bv = self.const(t, rng.choice([c for c in FLOAT_CONSTS if c != 0.0]))
            else:
                bv = self.expr(t, d + 1)
            return self.emit(ir.Binop(a, op, bv, "f", t))
        r = rng.random()
        if r < 0.62:
            return self.int_binop(t, d)
        if r < 0.72 and cfg.unops and (cfg.narrow_ops or t.bits >= 32):
            a = self.expr(t, d + 1)
            return self.emit(ir.Unop(rng.choice(["-", "~"]), a, "u", t))
        # cast from another integer type
        others = [x for x in cfg.int_types if x is not t]
        if not others:
            return self.int_binop(t, d)
        st = rng.choice(others)
        return self.emit(ir.Cast(self.expr(st, d + 1), "cast", t))

    def int_binop(self, t, d):
        rng, cfg = self.rng, self.cfg
        ops = list(INT_OPS) + (["rol", "ror"] if cfg.rolror else [])
        if not cfg.narrow_ops and t.bits < 32:
            ops = [o for o in ops if o not in ("*", "/", "%")]
        op = rng.choice(ops)
        a = self.expr(t, d + 1)
        bv = self.expr(t, d + 1)
        if cfg.ub_free:
            if op in ("/", "%"):
                s = rng.randrange(3)
                if s == 0:       # both odd: divisor != 0 and dividend != MIN
                    one = self.const(t, 1)
                    a = self.emit(ir.Binop(a, "|", one, "g", t))
                    bv = self.emit(ir.Binop(bv, "|", self.const(t, 1), "g", t))
                elif s == 1:     # constant divisor, not 0 and not -1
                    v = boundary_const(rng, t)
                    while v in (0, -1):
                        v = boundary_const(rng, t)
                    bv = self.const(t, v)
                else:            # small positive divisor
                    m = self.const(t, rng.choice([1, 3, 7, 15, 63]))
                    bv = self.emit(ir.Binop(bv, "&", m, "g", t))
                    bv = self.emit(ir.Binop(bv, "+", self.const(t, 1), "g", t))
            elif op in ("<<", ">>"):
                m = self.const(t, t.bits - 1)
                bv = self.emit(ir.Binop(bv, "&", m, "g", t))
        return self.emit(ir.Binop(a, op, bv, "t", t))

    def cond(self):
        rng = self.rng
        if self.cfg.floats and rng.random() < 0.12:
            t = ir.f64
        else:
            t = rng.choice(self.cfg.int_types)
        a = self.expr(t, 1)
        bv = self.expr(t, 2)
        return a, rng.choice(CONDS), bv

    # ---- memory ---------------------------------------------------------------
    def address(self, size):
        """(ptr value) of an in-bounds access of `size` bytes into an initialised object"""
        rng = self.rng
        base, osize = rng.choice(self.objs)
        n = (osize - size) // size + 1        # number of aligned slots
        if rng.random() < 0.35 and n >= 2:
            # computed index: (idx & (k-1)) * size, k = largest power of two <= n
            k = 1 << (n.bit_length() - 1)
            it = rng.choice([t for t in self.cfg.int_types if t.bits >= 16] or self.cfg.int_types)
            idx = self.expr(it, 2)
            idx = self.emit(ir.Binop(idx, "&", self.const(it, min(k - 1, type_range(it)[1])), "ix", it))
            p = self.emit(ir.Cast(idx, "ixp", ir.ptr))
            p = self.emit(ir.Binop(p, "*", self.const(ir.ptr, size), "off", ir.ptr))
            return self.emit(ir.Binop(base, "+", p, "addr", ir.ptr))
        off = rng.randrange(n) * size
        if self.cfg.unaligned and rng.random() < 0.15:
            off = rng.randrange(osize - size + 1)
        if off == 0 and rng.random() < 0.5:
            return base
        return self.emit(ir.Binop(base, "+", self.const(ir.ptr, off), "addr", ir.ptr))

    def mem_type(self):
        ts = self.cfg.mem_types or (self.cfg.int_types + ([ir.f64] if self.cfg.floats else []))
        return self.rng.choice(ts)

    # ---- statements -------------------------------------------------------------
    def stmts(self, depth):
        lo, hi = self.cfg.stmts
        for _ in range(self.rng.randint(lo, hi)):
            if self.cur is None or self.budget <= 0:
                return
            self.budget -= 1
            self.stmt(depth)

    def stmt(self, depth):
        rng, cfg = self.rng, self.cfg
        kinds = ["assign"] * 5 + ["newvar"] * 2 + ["swap"] * (5 if self.loops else 1)
        if self.objs:
            kinds += ["store"] * 3 + ["load"] * 3
            if cfg.copyblob and len(self.objs) >= 2:
                kinds += ["copyblob"]
        if depth < cfg.max_depth:
            kinds += ["if", "ifelse", "while", "dowhile", "selfloop", "switch"]
        if depth > 0:
            kinds += ["return"]
        if self.loops:
            kinds += ["break", "continue"]
        if cfg.calls and self.mg.callees:
            kinds += ["call"] * 2
        if cfg.externals and self.mg.externals:
            kinds += ["extcall"] * 2
        if cfg.recursion and self.rec_ok and not self.loops and self.nrec < 2:
            kinds += ["reccall"]
        if cfg.floats:
            kinds += ["ftoi"]
        if cfg.indirect_calls and len(self.mg.same_sig) >= 2:
            kinds += ["indirect"]
        if cfg.undefined and depth < cfg.max_depth:
            kinds += ["undefloop"]
        getattr(self, "s_" + rng.choice(kinds))(depth)

    def any_type(self):
        ts = list(self.cfg.int_types) + ([ir.f64, ir.f64] if self.cfg.floats else [])
        return self.rng.choice(ts)

    def s_assign(self, depth):
        names = [n for n in self.vars if not n.startswith("_") and self.vty[n] is not ir.ptr]
        if not names:
            return self.s_newvar(depth)
        n = self.rng.choice(names)
        self.vars[n] = self.expr(self.vty[n])

    def s_swap(self, depth):
        """a, b = b, a   /   a, b, c = b, c, a   /   a = b : no instruction is emitted, only the variable
        map changes; inside a loop this makes the header phis read each other (parallel-copy problem)"""
        rng = self.rng
        by_ty = {}
        for n in self.vars:
            if not n.startswith("_"):
                by_ty.setdefault(self.vty[n], []).append(n)
        groups = [ns for ns in by_ty.values() if len(ns) >= 2]
        if not groups:
            return self.s_newvar(depth)
        ns = rng.choice(groups)
        k = rng.choice([2, 2, 3]) if len(ns) >= 3 else 2
        pick = rng.sample(ns, k)
        vals = [self.vars[n] for n in pick]
        if rng.random() < 0.25:
            self.vars[pick[0]] = vals[1]                      # plain copy
        else:
            for n, v in zip(pick, vals[1:] + vals[:1]):       # rotation
                self.vars[n] = v

    def s_newvar(self, depth):
        t = self.any_type()
        have = [self.vty[n] for n in self.vars if not n.startswith("_") and self.vty[n] is not ir.ptr]
        if have and self.rng.random() < 0.5:
            t = self.rng.choice(have)        # same-typed variables can be swapped / copied
        self.new_var(t, self.expr(t))

    def s_store(self, depth):
        t = self.mem_type()
        v = self.expr(t, 1)
        self.emit(ir.Store(v, self.address(t.size)))

    def s_load(self, depth):
        t = self.mem_type()
        v = self.emit(ir.Load(self.address(t.size), "ld", t))
        c = self.names_of(t)
        if c and self.rng.random() < 0.5:
            self.vars[self.rng.choice(c)] = v
        else:
            self.new_var(t, v)

    def s_copyblob(self, depth):
        rng = self.rng
        (d, ds), (s, ss) = rng.sample(self.objs, 2)
        if d is s:
            return
        n = rng.randint(1, min(ds, ss))
        self.emit(ir.CopyBlob(d, s, n))

    def s_if(self, depth, with_else=False):
        rng = self.rng
        a, c, bv = self.cond()
        j = Join(self, "join")
        then_b = self.fresh_block("then")
        saved = dict(self.vars)
        if with_else:
            else_b = self.fresh_block("else")
            other = else_b
        else:
            other = j.edge(self.cur, self.vars)
        if rng.random() < 0.5:
            self.emit(ir.CJump(a, c, bv, then_b, other))
        else:
            neg = {"==": "!=", "!=": "==", "<": ">=", ">=": "<", ">": "<=", "<=": ">"}
            if a.ty is ir.f64:      # negation is not exact for NaN; keep the orientation
                self.emit(ir.CJump(a, c, bv, then_b, other))
            else:
                self.emit(ir.CJump(a, neg[c], bv, other, then_b))
        self.set_block(then_b)
        self.stmts(depth + 1)
        if self.cur is not None:
            j.jump_from_current()
        if with_else:
            self.vars = dict(saved)
            self.set_block(else_b)
            self.stmts(depth + 1)
            if self.cur is not None:
                j.jump_from_current()
        j.enter()

    def s_ifelse(self, depth):
        self.s_if(depth, True)

    def loop_header(self, tag):
        """jump into a new block that has a phi for every live variable"""
        pre = self.cur
        header = self.fresh_block(tag)
        self.emit(ir.Jump(header))
        self.set_block(header)
        phis = {}
        for n in list(self.vars):
            phi = ir.Phi("lp_" + n, self.vty[n])
            phi.set_incoming(pre, self.vars[n])
            self.emit(phi)
            phis[n] = phi
            self.vars[n] = phi
        return header, phis

    def back_edge(self, header, phis, pred, varmap):
        if self.rng.random() < self.cfg.p_forward:
            f = self.fresh_block("bfwd")
            f.add_instruction(ir.Jump(header))
            for n, phi in phis.items():
                phi.set_incoming(f, varmap[n])
            return f
        for n, phi in phis.items():
            phi.set_incoming(pred, varmap[n])
        return header

    def counter(self):
        n = f"_c{self.nvar}"
        self.nvar += 1
        self.vty[n] = ir.i32
        self.vars[n] = self.const(ir.i32, 0)
        return n

    def bump(self, cn):
        self.vars[cn] = self.emit(ir.Binop(self.vars[cn], "+", self.const(ir.i32, 1), "cnt", ir.i32))

    def s_while(self, depth):
        rng = self.rng
        cn = self.counter()
        header, phis = self.loop_header("whead")
        exit_j, latch_j = Join(self, "wexit"), Join(self, "wlatch")
        k = self.const(ir.i32, rng.randint(0, self.cfg.loop_bound))
        body = self.fresh_block("wbody")
        self.emit(ir.CJump(self.vars[cn], "<", k, body, exit_j.edge(self.cur, self.vars)))
        self.set_block(body)
        if rng.random() < 0.4:
            a, c, bv = self.cond()
            body2 = self.fresh_block("wbody")
            self.emit(ir.CJump(a, c, bv, body2, exit_j.edge(self.cur, self.vars)))
            self.set_block(body2)
        self.loops.append((exit_j, latch_j))
        self.stmts(depth + 1)
        self.loops.pop()
        if self.cur is not None:
            latch_j.jump_from_current()
        if latch_j.enter():
            self.bump(cn)
            pred = self.cur
            self.emit(ir.Jump(self.back_edge(header, phis, pred, self.vars)))
            self.cur = None
        exit_j.enter()
        self.vars.pop(cn, None)

    def s_dowhile(self, depth):
        rng = self.rng
        cn = self.counter()
        header, phis = self.loop_header("dhead")
        exit_j, latch_j = Join(self, "dexit"), Join(self, "dlatch")
        self.loops.append((exit_j, latch_j))
        self.stmts(depth + 1)
        self.loops.pop()
        if self.cur is not None:
            latch_j.jump_from_current()
        if latch_j.enter():
            self.bump(cn)
            k = self.const(ir.i32, rng.randint(0, self.cfg.loop_bound))
            if rng.random() < 0.4:
                a, c, bv = self.cond()
                nxt = self.fresh_block("dcond")
                self.emit(ir.CJump(a, c, bv, nxt, exit_j.edge(self.cur, self.vars)))
                self.set_block(nxt)
            pred = self.cur
            self.emit(ir.CJump(self.vars[cn], "<", k, self.back_edge(header, phis, pred, self.vars),
                               exit_j.edge(pred, self.vars)))
            self.cur = None
        exit_j.enter()
        self.vars.pop(cn, None)

    def s_selfloop(self, depth):
        rng = self.rng
        cn = self.counter()
        header, phis = self.loop_header("self")
        for _ in range(rng.randint(1, 4)):
            rng.choice([self.s_assign, self.s_assign, self.s_newvar] + ([self.s_store, self.s_load] if self.objs else []))(depth)
        self.bump(cn)
        k = self.const(ir.i32, rng.randint(0, self.cfg.loop_bound))
        exit_j = Join(self, "sexit")
        for n, phi in phis.items():
            phi.set_incoming(header, self.vars[n])
        self.emit(ir.CJump(self.vars[cn], "<", k, header, exit_j.edge(header, self.vars)))
        self.cur = None
        exit_j.enter()
        self.vars.pop(cn, None)

    def s_switch(self, depth):
        rng = self.rng
        t = rng.choice(self.cfg.int_types)
        x = self.expr(t, 1)
        ncase = rng.randint(2, 4)
        consts = []
        while len(consts) < ncase:
            v = rng.choice([boundary_const(rng, t), rng.randint(0, 5) if not t.signed else rng.randint(-3, 3)])
            if type_range(t)[0] <= v <= type_range(t)[1] and v not in consts:
                consts.append(v)
        end_j = Join(self, "swend")
        case_j = [Join(self, "case") for _ in consts]
        default_j = Join(self, "default")
        for i, v in enumerate(consts):
            c = self.const(t, v)
            if i + 1 < len(consts):
                nxt = self.fresh_block("test")
                self.emit(ir.CJump(x, "==", c, case_j[i].edge(self.cur, self.vars), nxt))
                self.set_block(nxt)
            else:
                pred = self.cur
                self.emit(ir.CJump(x, "==", c, case_j[i].edge(pred, self.vars), default_j.edge(pred, self.vars)))
                self.cur = None
        for i, cj in enumerate(case_j):
            if cj.enter():
                self.stmts(depth + 1)
                if self.cur is not None:
                    if i + 1 < len(case_j) and rng.random() < 0.35:
                        case_j[i + 1].jump_from_current()     # fall through
                    else:
                        end_j.jump_from_current()
        if default_j.enter():
            if rng.random() < 0.6:
                self.stmts(depth + 1)
            if self.cur is not None:
                end_j.jump_from_current()
        end_j.enter()

    def result_value(self):
        """combine the integer variables into one value of the return type"""
        t = self.ret
        if t is ir.f64:
            c = self.names_of(t)
            return self.vars[self.rng.choice(c)] if c else self.const(t, 1.5)
        acc = self.const(t, 17)
        for n in list(self.vars):
            vt = self.vty[n]
            if vt in INT_TYPES and not n.startswith("_"):
                v = self.vars[n]
                if vt is not t:
                    v = self.emit(ir.Cast(v, "rc", t))
                acc = self.emit(ir.Binop(acc, "*", self.const(t, 31), "rm", t))
                acc = self.emit(ir.Binop(acc, "+", v, "ra", t))
        return acc

    def finish(self):
        """terminate the current block with return / exit (observable result of all variables)"""
        if self.ret is not None:
            self.emit(ir.Return(self.result_value()))
        else:
            if self.mg.out_var is not None:
                save, self.ret = self.ret, ir.i64
                v = self.result_value()
                self.ret = save
                self.emit(ir.Store(v, self.mg.out_var))
            self.emit(ir.Exit())
        self.cur = None

    def s_return(self, depth):
        self.finish()

    def s_break(self, depth):
        self.loops[-1][0].jump_from_current()

    def s_continue(self, depth):
        self.loops[-1][1].jump_from_current()

    def call_args(self, ptypes, first=None):
        args = []
        for i, t in enumerate(ptypes):
            if i == 0 and first is not None:
                args.append(first)
            elif t is ir.ptr:
                c = [o for o in self.objs if o[1] >= 16]
                args.append(self.rng.choice(c)[0])
            else:
                args.append(self.expr(t, 2))
        return args

    def use_result(self, v, t):
        c = self.names_of(t)
        if c and self.rng.random() < 0.5:
            self.vars[self.rng.choice(c)] = v
        else:
            self.new_var(t, v)

    def callable_here(self, e):
        return not (ir.ptr in e.params and not [o for o in self.objs if o[1] >= 16])

    def s_call(self, depth):
        cands = [(f, e) for (f, e) in self.mg.callees if self.callable_here(e)]
        if not cands:
            return
        f, e = self.rng.choice(cands)
        args = self.call_args(e.params)
        if e.ret is None:
            self.emit(ir.ProcedureCall(f, args))
        else:
            self.use_result(self.emit(ir.FunctionCall(f, args, "call", e.ret)), e.ret)

    def s_extcall(self, depth):
        x, ptypes, rt = self.rng.choice(self.mg.externals)
        args = self.call_args(ptypes)
        if rt is None:
            self.emit(ir.ProcedureCall(x, args))
        else:
            self.use_result(self.emit(ir.FunctionCall(x, args, "xcall", rt)), rt)

    def s_reccall(self, depth):
        """if (d > 0) r = self(d - 1, …)   with d = first parameter masked to 0..3 at entry"""
        self.nrec += 1
        d = self.vars["_depth"]
        zero = self.const(ir.i32, 0)
        j = Join(self, "recjoin")
        callb = self.fresh_block("rec")
        self.emit(ir.CJump(d, ">", zero, callb, j.edge(self.cur, self.vars)))
        self.set_block(callb)
        d1 = self.emit(ir.Binop(d, "-", self.const(ir.i32, 1), "dm", ir.i32))
        args = self.call_args(self.params, first=d1)
        if self.ret is None:
            self.emit(ir.ProcedureCall(self.func, args))
        else:
            self.use_result(self.emit(ir.FunctionCall(self.func, args, "rcall", self.ret)), self.ret)
        j.jump_from_current()
        j.enter()

    def s_ftoi(self, depth):
        """guarded float -> i64 cast:  if (f < 4e18) if (f > -4e18) v = (i64) f"""
        f = self.expr(ir.f64, 1)
        n = self.new_var(ir.i64, self.const(ir.i64, self.rng.randint(-5, 5)))
        if not self.cfg.ub_free:
            self.vars[n] = self.emit(ir.Cast(f, "ftoi", ir.i64))
            return
        j = Join(self, "fjoin")
        b1, b2 = self.fresh_block("fchk"), self.fresh_block("fcast")
        self.emit(ir.CJump(f, "<", self.const(ir.f64, 4e18), b1, j.edge(self.cur, self.vars)))
        self.set_block(b1)
        self.emit(ir.CJump(f, ">", self.const(ir.f64, -4e18), b2, j.edge(self.cur, self.vars)))
        self.set_block(b2)
        v = self.emit(ir.Cast(f, "ftoi", ir.i64))
        if self.rng.random() < 0.5:
            nt = self.rng.choice(self.cfg.int_types)
            if nt is not ir.i64:
                v2 = self.emit(ir.Cast(v, "narrow", nt))
                self.new_var(nt, v2)
        self.vars[n] = v
        j.jump_from_current()
        j.enter()

    def s_indirect(self, depth):
        (f1, e1), (f2, _e2) = self.rng.sample(self.mg.same_sig, 2)
        if not self.callable_here(e1):
            return
        a, c, bv = self.cond()
        j = Join(self, "fpjoin")
        tb = self.fresh_block("fpthen")
        self.vty["_fp"] = ir.ptr
        self.vars["_fp"] = f1
        self.emit(ir.CJump(a, c, bv, tb, j.edge(self.cur, self.vars)))
        self.set_block(tb)
        self.vars["_fp"] = f2
        j.jump_from_current()
        j.enter()
        fp = self.vars.pop("_fp")
        args = self.call_args(e1.params)
        if e1.ret is None:
            self.emit(ir.ProcedureCall(fp, args))
        else:
            self.use_result(self.emit(ir.FunctionCall(fp, args, "icall", e1.ret)), e1.ret)

    def s_undefloop(self, depth):
        """t = undefined; while (…) { t = e; … }  — the header phi of t has an undefined input, t is dead after"""
        t = self.rng.choice(self.cfg.int_types)
        n = self.new_var(t, self.emit(ir.Undefined("undef", t)))
        hidden = "_u" + n
        self.vty[hidden] = t
        self.vars[hidden] = self.vars.pop(n)
        cn = self.counter()
        header, phis = self.loop_header("uhead")
        exit_j, latch_j = Join(self, "uexit"), Join(self, "ulatch")
        k = self.const(ir.i32, self.rng.randint(0, self.cfg.loop_bound))
        body = self.fresh_block("ubody")
        self.emit(ir.CJump(self.vars[cn], "<", k, body, exit_j.edge(self.cur, self.vars)))
        self.set_block(body)
        self.vars[hidden] = self.expr(t)            # assigned before any use
        self.vty[n] = t
        self.vars[n] = self.vars[hidden]
        self.loops.append((exit_j, latch_j))
        self.stmts(depth + 1)
        self.loops.pop()
        if self.cur is not None:
            self.vars[hidden] = self.vars.get(n, self.vars[hidden])
            latch_j.jump_from_current()
        if latch_j.enter():
            self.bump(cn)
            pred = self.cur
            self.emit(ir.Jump(self.back_edge(header, phis, pred, self.vars)))
            self.cur = None
        exit_j.enter()
        self.vars.pop(cn, None)
        self.vars.pop(hidden, None)
        self.vars.pop(n, None)

    # ---- whole function -----------------------------------------------------------
    def build(self):
        rng, cfg = self.rng, self.cfg
        entry = self.fresh_block("entry")
        self.func.entry = entry
        self.set_block(entry)
        for i, t in enumerate(self.params):
            p = ir.Parameter(f"p{i}", t)
            self.func.add_parameter(p)
            if t is ir.ptr:
                self.objs.append((p, 16))
            else:
                self.vty[f"p{i}"] = t
                self.vars[f"p{i}"] = p
        if self.rec_ok:
            self.vty["_depth"] = ir.i32
            self.vars["_depth"] = self.emit(ir.Binop(self.vars["p0"], "&", self.const(ir.i32, 3), "depth", ir.i32))
        if cfg.globals:
            for gv, size in self.mg.gvars:
                self.objs.append((gv, size))
        if cfg.allocas:
            for _ in range(rng.randint(0, 3)):
                size = rng.choice([8, 16, 16, 32])
                al = self.emit(ir.Alloc("slot", size, rng.choice([1, 2, 4, 8, 8, 16])))
                p = self.emit(ir.AddressOf(al, "slot_addr"))
                # initialise every byte
                srcs = [g for g, s in self.mg.gvars if s >= size] if (cfg.copyblob and cfg.globals) else []
                if srcs and rng.random() < 0.4:
                    self.emit(ir.CopyBlob(p, rng.choice(srcs), size))
                else:
                    for off in range(0, size, 8):
                        a = p if off == 0 else self.emit(ir.Binop(p, "+", self.const(ir.ptr, off), "ia", ir.ptr))
                        self.emit(ir.Store(self.const(ir.i64, boundary_const(rng, ir.i64)), a))
                self.objs.append((p, size))
        if rng.random() < 0.6:      # front-end style: entry block only allocates, then jumps
            nb = self.fresh_block("body")
            self.emit(ir.Jump(nb))
            self.set_block(nb)
        for _ in range(rng.randint(1, 3)):
            self.s_newvar(0)
        self.stmts(0)
        if self.cur is not None:
            self.finish()


class ModuleGen:
    def __init__(self, rng, cfg, name="gen"):
        self.rng, self.cfg = rng, cfg
        self.module = ir.Module(name)
        self.callees, self.externals, self.gvars, self.same_sig = [], [], [], []
        self.entries = []
        self.out_var = None

    def build(self):
        rng, cfg = self.rng, self.cfg
        ptypes = cfg.param_types or (list(cfg.int_types) + ([ir.f64] if cfg.floats else []))
        if cfg.globals:
            for i in range(rng.randint(1, 3)):
                size = rng.choice([8, 16, 32])
                if rng.random() < 0.7:
                    data = bytes(rng.randrange(256) for _ in range(size))
                    if rng.random() < 0.5:
                        k = rng.randrange(1, size)
                        value = (data[:k], data[k:])
                    else:
                        value = data
                else:
                    value = None
                v = ir.Variable(f"gv{i}", rng.choice([ir.Binding.GLOBAL, ir.Binding.LOCAL]), size,
                                rng.choice([1, 4, 8]), value=value)
                self.module.add_variable(v)
                self.gvars.append((v, size))
            self.out_var = ir.Variable("gout", ir.Binding.GLOBAL, 8, 8, value=None)
            self.module.add_variable(self.out_var)
        if cfg.externals:
            for i in range(rng.randint(1, 2)):
                pt = [rng.choice(cfg.int_types) for _ in range(rng.randint(0, 3))]
                if rng.random() < 0.7:
                    rt = rng.choice(cfg.int_types)
                    x = ir.ExternalFunction(f"xf{i}", pt, rt)
                else:
                    rt = None
                    x = ir.ExternalProcedure(f"xp{i}", pt)
                self.module.add_external(x)
                self.externals.append((x, pt, rt))
        nfun = rng.randint(1, cfg.max_funcs)
        for i in range(nfun):
            is_func = rng.random() < 0.8 or not cfg.globals
            rt = rng.choice(cfg.int_types + ([ir.f64] if cfg.floats and rng.random() < 0.3 else [])) if is_func else None
            rec_ok = cfg.recursion and rng.random() < 0.4
            params = [rng.choice(ptypes) for _ in range(rng.randint(0, cfg.max_params))]
            if rec_ok:
                params = [ir.i32] + params
            external_ok = True
            if cfg.ptr_params and i + 1 < nfun and rng.random() < 0.3 and (cfg.allocas or cfg.globals):
                params.append(ir.ptr)
                external_ok = False
            if cfg.indirect_calls and self.callees and rng.random() < 0.5 and not rec_ok:
                # same signature as an earlier function, so that the two can share a function pointer
                f0, e0 = rng.choice(self.callees)
                if ir.ptr not in e0.params:
                    params, rt, is_func = list(e0.params), e0.ret, e0.ret is not None
                    external_ok = True
            binding = rng.choice([ir.Binding.GLOBAL, ir.Binding.GLOBAL, ir.Binding.LOCAL])
            f = ir.Function(f"fn{i}", binding, rt) if is_func else ir.Procedure(f"fn{i}", binding)
            self.module.add_function(f)
            FuncGen(self, f, params, rt, rec_ok).build()
            e = Entry(f.name, params, rt, external_ok)
            self.entries.append(e)
            for (g0, e0) in self.callees:
                if e0.params == e.params and e0.ret == e.ret:
                    self.same_sig = [(g0, e0), (f, e)]
            self.callees.append((f, e))
        return Generated(self.module, self.entries, [(x.name, pt, rt) for x, pt, rt in self.externals])


def gen_module(rng, cfg=None, name="gen", verify=True):
    cfg = cfg or GenConfig()
    g = ModuleGen(rng, cfg, name).build()
    if verify:
        verify_module(g.module)
    return g


# ---- front-end produced modules ----------------------------------------------------

C_SOURCES = {
    "arith": """
int add3(int a, int b, int c) { return a + b * c - (a ^ c); }
unsigned shifts(unsigned a, unsigned b) { return (a << (b & 31)) | (a >> ((32 - b) & 31)); }
long long mix(long long a, int b, short c, unsigned char d) { return a * b + c - d; }
int divs(int a, int b) { if (b == 0 || b == -1) return 7; return a / b + a % b; }
""",
    "control": """
int collatz(int n) { int s = 0; while (n > 1 && s < 60) { if (n & 1) n = 3 * n + 1; else n = n / 2; s++; } return s; }
int sw(int x) { switch (x) { case 0: return 10; case 1: x += 2; case 2: x *= 3; break; case -5: return -1; default: x = x - 1; } return x; }
int nest(int a, int b) { int r = 0; for (int i = 0; i < (a & 7); i++) { for (int j = 0; j < (b & 3); j++) { if ((i ^ j) & 1) continue; r += i * j; if (r > 40) break; } } return r; }
""",
    "memory": """
int g[4] = {1, 2, 3, 4};
char *s = "ab";
struct P { int x; char c; short h; };
struct P gp = {5, 6, 7};
int arr(int a, unsigned char b) { int x[3]; int *p = &x[1]; p[-1] = a; x[2] = b; x[1] = g[a & 3]; return x[0] + x[1] + x[2] + s[1]; }
int st(int a) { struct P q; struct P r; q.x = a; q.c = a >> 3; q.h = a * 3; r = q; gp = r; return r.x + r.c + r.h; }
void bump(int *p, int n) { *p += n; }
int viaptr(int a) { int v = a; bump(&v, 3); bump(&g[1], a); return v + g[1]; }
""",
    "calls": """
int ext1(int);
void ext2(int, int);
int fact(int n) { if (n <= 1) return 1; return n * fact(n - 1); }
int fib(int n) { int a = 0, b = 1; while (n-- > 0) { int t = a + b; a = b; b = t; } return a; }
int useext(int a) { int r = ext1(a); ext2(r, a); return r + ext1(r & 15); }
int top(int a) { return fact(a & 7) + fib(a & 15); }
""",
}

C_ENTRIES = {
    "arith": [("add3", "iii"), ("shifts", "II"), ("mix", "qihB"), ("divs", "ii")],
    "control": [("collatz", "i"), ("sw", "i"), ("nest", "ii")],
    "memory": [("arr", "iB"), ("st", "i"), ("viaptr", "i")],
    "calls": [("fact", "i"), ("fib", "i"), ("useext", "i"), ("top", "i")],
}
_FMT = {"i": ir.i32, "I": ir.u32, "q": ir.i64, "Q": ir.u64, "h": ir.i16, "H": ir.u16, "b": ir.i8, "B": ir.u8}


def c_modules(march="x86_64"):
    """[(Generated)] from the C front-end (ppci.api.c_to_ir)"""
    from ppci import api
    out = []
    for name, src in C_SOURCES.items():
        m = api.c_to_ir(io.StringIO(src), march)
        m.name = "c_" + name
        m.debug_db = None      # codepage's loader cannot map all C debug types; symbols are looked up by name instead
        fs = {f.name: f for f in m.functions}
        entries = []
        for fname, sig in C_ENTRIES[name]:
            f = fs[fname]
            entries.append(Entry(fname, [a.ty for a in f.arguments],
                                 f.return_ty if isinstance(f, ir.Function) else None, True))
        exts = [(e.name, list(e.argument_types), getattr(e, "return_ty", None)) for e in m.externals
                if isinstance(e, ir.ExternalSubRoutine)]
        out.append(Generated(m, entries, exts))
    return out


def float_bits(x):
    return struct.unpack("<Q", struct.pack("<d", float(x)))[0]
