"""C28 Compiler front-ends fail only with diagnostics, never internal errors  (PARTIAL: a sliver).

Theorems (Props/C28.lean): totality of the modelled kernels of the C front-end — the constant-expression
pipeline (typing, ConstantExpressionEvaluator, CContext.pack) in its four users and the `#if`
parser/evaluator end with a value or a CompilerError for every tree the parser can produce.
check : (A) kernels, tied to the model: constant-expression trees INCLUDING undefined ones (overflow, /0,
            negative and oversized shift counts, constants without a type, out-of-range initialisers) in
            the four contexts are compiled by the real c_to_ir; the outcome class (ok / diagnostic) must
            be the model's and is never an internal error; CContext.pack is called directly on every
            integer type with in- and out-of-range values (never raises; bytes = model);
        (B) search only (no theorem): generated VALID C translation units (globals of every type with
            in- and out-of-range constant initialisers, arrays, structs, enums, typedefs, pointers,
            functions with locals, every statement kind and operator) are compiled by c_to_ir (x86_64);
            any exception other than CompilerError is a failing input, identified by exception type
            and the innermost ppci frame.
        (C) search only: C3 programs of harness/c37.py's generator (+ its corpus and its internal-error probes)
            through ppci.lang.c3.c3_to_ir and api.optimize at levels 0, 1, 2, s;
        (D) search only: IR modules of harness/c15_common.py's corner cases and generators (+ C front-end
            output) are printed with print_module and read back with ppci.irutils.read_module, verified and
            optimised at every level.
Signatures of internal errors: "<front-end>:<ExceptionClass>:<innermost ppci module.function>" with
front-end in c / c3 / irtext (an exception of api.optimize after a successful read/compile: c3+opt / irtext+opt)."""
import io
import json
import logging
import traceback

from . import common
from . import cexpr as X

PROP = "C28"
LEAN_PROPS = "PpciVerif/Props/C28.lean"
LEAN_PROPS_EXTRA = ["PpciVerif/Props/C28X.lean"]      # corollaries of C15 (IR text reader) and C37 (C3 lowering tables)
LEAN_TARGETS = ["PpciVerif.Props.C28", "PpciVerif.Props.C28X", "Drivers.C28"]
LEVEL = "proof"
LEVEL_TEXT = (
    "PARTIAL. THEOREMS (Lean), for modelled kernels only: (C front-end, Props/C28.lean) for EVERY constant-expression tree the "
    "parser can produce (defined or undefined in C, any size) used as a global initialiser of any integer type, a case label, an "
    "enumerator or an array size, the model of ppci's pipeline (semantic typing, ConstantExpressionEvaluator, CContext.pack) ends "
    "with a value or the diagnostic CompilerError, never with another exception; CContext.pack returns bytes for every integer and "
    "every non-float type it accepts: integer basic types, enum types, pointer types (no struct.error); `#if` on every sentence of the #if expression grammar keeps/skips the group or reports a "
    "diagnostic. (IR text and C3, Props/C28X.lean: corollaries of C15 and C37, nothing new proved) the model of the IR text reader "
    "ends in a module, not an error, on the printed text of every module of C15's text fragment; the C3 operator/comparison lowering "
    "lookups resolve for every operator and integer type of both modelled targets. Proved after the fix commits of C27/C26/C15/C37; "
    "pre-fix internal errors are kept as Lean witnesses. SEARCH ONLY (no theorem): everything else the property covers — "
    "declarations/statements/code generation of the C front-end (generated valid translation units through c_to_ir), the C3 "
    "front-end (programs of C37's generator through c3_to_ir and api.optimize at levels 0,1,2,s), the IR text front-end (printed "
    "modules of C15's generators through read_module, verify and api.optimize at every level). Known internal errors of the three "
    "front-ends are listed as open findings and reproduced on every run."
)
LEVEL_NOTE = (
    "trusted: Lean kernel; axioms propext/Classical.choice/Quot.sound; the hand models Model.CEval / Model.PPExpr (tied to the source by "
    "the C27/C26 table dumps and differential runs, and here by the outcome-class comparison on undefined trees); FromParser as the "
    "description of what the parser hands to the semantics; the classification CompilerError = diagnostic, anything else = internal "
    "error (DESIGN Appendix A). The program generator of part B bounds what the search can see."
)
TECHNIQUE = ("Lean 4 proof (structural induction: every branch of the model ends in ok or CompilerError) about hand models + "
             "differential correspondence of outcome classes with the real front-end + generated-program search for internal errors")
RULE = ("A: fixed corpus (the pre-fix internal errors, undefined behaviour of every kind) + random trees of depth <= 4/5 with "
        "a raised share of undefined operands (zero divisors, counts -1/64/2^40, values without a type) in four contexts; pack: 10 "
        "types x {type bounds +-1, 0, +-2^k, 10^30, random 1..200-bit}. B: translation units from a typed generator (8 globals, 3 "
        "functions, statements to depth 3). distinct = distinct declaration / unit. non-trivial (A) = C gives the tree no value "
        "or the value does not fit the destination; (B) = the unit has >= 2 functions and a switch or loop")
TRUSTED = [
    "hand models Model.CEval and Model.PPExpr (see C27 / C26), tied here by comparing outcome classes on defined AND undefined trees",
    "FromParser: the parser passes at most two `l` in a suffix, unary + - ~ ! * &, and any binary operator spelling",
    "CompilerError is the only diagnostic class of the C front-end",
]
ASSUMPTIONS = ["x86_64 target for c_to_ir", "generated shift counts are at most 2^40 (CPython big-int limits beyond that)"]


def regen(ctx):
    """Props/C28X.lean imports C37's table theorems: keep Gen/C3Tab.lean in step with the checked tree"""
    from . import c37
    c37.regen(ctx)


# ----------------------------------------------------------------------------------------------
# part A: kernels
def L(v, suf="n", base="d"):
    return ("L", base, suf, v)


def neg(a):
    return ("U", "neg", a)


def B(op, a, b):
    return ("B", op, a, b)


CORPUS_A = [
    ("init", "int", B("mod", L(7), L(3))), ("init", "uchar", L(300)), ("init", "uint", B("sub", L(0, "u"), L(1))),
    ("init", "int", ("U", "lnot", L(5))), ("init", "int", ("Q", L(1), L(2), L(3))), ("init", "int", B("lt", L(1), L(2))),
    ("init", "int", B("div", L(1), L(0))), ("init", "int", B("mod", L(1), L(0))), ("init", "int", B("shl", L(1), neg(L(1)))),
    ("init", "int", B("shr", L(1), neg(L(1)))), ("init", "int", B("shl", L(1), L(1 << 40, "l"))),
    ("init", "long", B("shr", neg(L(1)), L(1 << 40, "l"))), ("init", "int", L((1 << 64) + 1)),
    ("init", "schar", L(18446744073709551615, "ull")), ("init", "int", B("add", L(2147483647), L(1))),
    ("init", "int", B("div", B("sub", neg(L(2147483647)), L(1)), neg(L(1)))),
    ("init", "llong", B("mul", L(9223372036854775807, "ll"), L(9223372036854775807, "ll"))),
    ("init", "int", B("land", L(0), B("div", L(1), L(0)))), ("init", "int", ("Q", L(0), B("div", L(1), L(0)), L(2))),
    ("case", "uchar", L(300)), ("case", "int", B("div", L(1), L(0))), ("case", "char", L(4294967296, "l")),
    ("enum", "int", L(4294967296, "l")), ("enum", "int", B("shl", L(1), neg(L(2)))),
    ("arr", "int", B("sub", L(0), L(0))), ("arr", "int", neg(L(3))), ("arr", "int", B("div", L(4), L(0))),
    # enum / pointer objects: CContext.pack on EnumType (signed int format) and PointerType
    ("einit", "int", neg(L(1))), ("einit", "int", L(4294967295, "u")), ("einit", "int", L(2147483648)),
    ("einit", "int", neg(L(2147483648))), ("einit", "int", L(1 << 63, "ull")), ("einit", "int", B("div", L(1), L(0))),
    ("pinit", "int", neg(L(1))), ("pinit", "int", L(18446744073709551615, "ull")), ("pinit", "int", L(4294967296, "l")),
]


def gen_undefined(rng, depth):
    """trees with a raised share of undefined operands"""
    e = X.gen_expr(rng, depth)
    r = rng.random()
    if r < 0.25:
        e = ("B", rng.choice(["div", "mod"]), e, rng.choice([L(0), B("sub", L(3), L(3)), L(0, "u")]))
    elif r < 0.45:
        e = ("B", rng.choice(["shl", "shr"]), e, rng.choice([neg(L(1)), L(64), L(1 << 40, "l"), L(31), L(63)]))
    elif r < 0.55:
        e = ("B", rng.choice(["add", "mul", "sub"]), e, rng.choice([L(2147483647), L(9223372036854775807, "ll"), L((1 << 64) + 3)]))
    return e


def pack_values(rng, thorough):
    vals = {0, 1, -1, 10 ** 30, -10 ** 30}
    for k in (7, 8, 15, 16, 31, 32, 63, 64, 65, 127, 128):
        for d in (-1, 0, 1):
            vals.add((1 << k) + d)
            vals.add(-(1 << k) + d)
    for _ in range(300 if thorough else 40):
        v = rng.getrandbits(rng.randint(1, 200))
        vals.add(v)
        vals.add(-v)
    return sorted(vals)


def check_kernels(ctx):
    cases = list(CORPUS_A)
    for _ in range(1500 if ctx.thorough else 250):
        e = gen_undefined(ctx.rng, ctx.rng.randint(1, 5 if ctx.thorough else 4))
        r = ctx.rng.random()
        kind = ("init" if r < 0.55 else "einit" if r < 0.64 else "pinit" if r < 0.7 else
                "case" if r < 0.85 else "enum" if r < 0.93 else "arr")
        cases.append((kind, ctx.rng.choice(X.TYPES) if kind in ("init", "case") else "int", e))
    cases = list(dict.fromkeys(cases))
    reqs = []
    for kind, ty, e in cases:
        t = f" {ty}" if kind in ("init", "case") else ""
        reqs += [f"{kind}{t} {X.proto(e)}", f"s{kind}{t} {X.proto(e)}"]
    rep = ctx.driver("C28", reqs)
    if "bad-op" in rep:
        raise common.BrokenCheck("driver rejected a request")
    model = [rep[2 * i] for i in range(len(cases))]
    spec = [rep[2 * i + 1] for i in range(len(cases))]
    impl = X.run_batch([(k, t, e, m.startswith("ok")) for (k, t, e), m in zip(cases, model)])
    for (kind, ty, e), m, s, im in zip(cases, model, spec, impl):
        text = X.decl_for(kind, 0, ty, e)[0]
        ctx.count("eval_kernel_" + kind)
        cls_i = "ok" if im[0] == "ok" else ("diag" if im[0] == "diag" else im[0])
        cls_m = "ok" if m.startswith("ok") else ("diag" if m == "err CompilerError" else "internal:" + m.split()[1])
        ctx.count("outcome_" + cls_i.split(":")[0])
        if s == "ok none" or cls_i != "ok":
            ctx.nontrivial((kind, ty, X.proto(e)))
        if cls_i != cls_m:
            ctx.disagree("outcome-class", {"decl": text, "tree": X.proto(e)}, cls_i + (f" ({im[1]})" if im[0] != "ok" else ""), cls_m)
        if cls_i.startswith("internal"):
            ctx.fail(f"kernel:{kind}:{cls_i}:{X.root(e)}", f"`{text}` raised {cls_i[9:]} ({im[1]})",
                     {"decl": text, "tree": X.proto(e), "type": ty, "kind": kind}, impl=cls_i, model=m, spec=s)
    ctx.sample({"decl": X.decl_for(*cases[6][:1], 0, cases[6][1], cases[6][2])[0], "impl": impl[6][0], "model": model[6]})
    # CContext.pack directly
    from ppci.api import get_arch
    from ppci.lang.c import COptions
    from ppci.lang.c.context import CContext
    from ppci.lang.c.nodes.types import BasicType
    cctx = CContext(COptions(), get_arch("x86_64").info)
    ids = {"char": "char", "uchar": "unsigned char", "short": "short", "ushort": "unsigned short", "int": "int",
           "uint": "unsigned int", "long": "long", "ulong": "unsigned long", "llong": "long long", "ullong": "unsigned long long"}
    vals = pack_values(ctx.rng, ctx.thorough)
    preqs, pimpl = [], []
    for t, tid in ids.items():
        for v in vals:
            preqs.append(f"pack {t} {v}")
            try:
                pimpl.append("ok " + cctx.pack(BasicType(tid), v).hex())
            except Exception as ex:  # noqa
                pimpl.append("err " + type(ex).__name__)
    from ppci.lang.c.nodes import types as ctypes_
    enum_t = ctypes_.EnumType()
    enum_t.constants = []
    ptr_ts = [ctypes_.PointerType(BasicType("char")), ctypes_.PointerType(ctypes_.PointerType(BasicType("int")))]
    for v in vals:
        for rq, ty in ([(f"epack {v}", enum_t)] + [(f"ppack {v}", t_) for t_ in ptr_ts]):
            preqs.append(rq)
            try:
                pimpl.append("ok " + cctx.pack(ty, v).hex())
            except Exception as ex:  # noqa
                pimpl.append("err " + type(ex).__name__)
    prep = ctx.driver("C28", preqs)
    for rq, i, m in zip(preqs, pimpl, prep):
        ctx.count("eval_pack")
        if i != m.replace("err struct.error", "err error"):
            ctx.disagree("pack", rq, i, m)
        if i.startswith("err"):
            what = {"epack": "[enum]", "ppack": "[pointer]"}.get(rq.split()[0], "")
            ctx.fail(f"kernel:pack{what}:" + i.split()[1], f"CContext.{rq} raised {i.split()[1]}", {"request": rq}, impl=i, model=m)


# ----------------------------------------------------------------------------------------------
# part B: generated valid translation units (search only)
ITYPES = ["char", "signed char", "unsigned char", "short", "unsigned short", "int", "unsigned int", "long", "unsigned long",
          "long long", "unsigned long long"]
ARITH = ["+", "-", "*", "/", "%", "&", "|", "^", "<<", ">>"]
CMP = ["<", ">", "<=", ">=", "==", "!="]


class Gen:
    def __init__(self, rng):
        self.rng = rng
        self.n = 0
        self.lid = 0
        self.globals = []            # (name, type)
        self.arrays = []             # (name, elemtype, size)
        self.structs = []            # (tag, [(field, type)])
        self.svars = []              # (name, tag)   assignable struct objects
        self.svars_ro = []           # const struct objects (read only)
        self.ro = []                 # names of const scalar objects (read only)
        self.funcs = []              # (name, rettype, [paramtypes])
        self.enums = []              # enumerator names
        self.enum_tags = []          # (tag, [(enumerator, value)])
        self.typedefs = []           # typedef names of integer / enum types (chains)

    def fresh(self, p):
        self.n += 1
        return f"{p}{self.n}"

    def local(self, p):
        """names of function scope / block scope: the counter restarts in every function, so that parameters,
        locals, static locals and loop variables of different functions deliberately SHARE their names"""
        self.lid += 1
        return f"{p}{self.lid}"

    def const(self, ty=None):
        rng = self.rng
        r = rng.random()
        if r < 0.5:
            v = rng.randint(0, 20)
        elif r < 0.8:
            v = rng.choice(X.BOUNDS[:-3])
        else:
            v = rng.getrandbits(rng.choice([8, 16, 32, 63]))
        s = rng.choice(["", "", "", "u", "l", "ul", "ll", "ull"])
        txt = (str(v) if rng.random() < 0.7 else hex(v)) + s
        if rng.random() < 0.2:
            txt = "(-" + txt + ")"
        if rng.random() < 0.08:
            txt = X.render_chr(rng.choice([48, 65, 97, 10, 0, 127, 200]), 2)
        return txt

    def cexpr(self, depth):
        """constant expression without undefined behaviour by construction (small operands for / % << >>)"""
        rng = self.rng
        if depth <= 0 or rng.random() < 0.3:
            return self.const()
        r = rng.random()
        if r < 0.15:
            return f"({rng.choice(['-', '~', '!', '+'])}{self.cexpr(depth - 1)})"
        if r < 0.3:
            return f"(({rng.choice(ITYPES)}){self.cexpr(depth - 1)})"
        if r < 0.4:
            return f"({self.cexpr(depth - 1)} ? {self.cexpr(depth - 1)} : {self.cexpr(depth - 1)})"
        if r < 0.5 and self.enums:
            return rng.choice(self.enums)
        if r < 0.55:
            return f"sizeof({rng.choice(ITYPES)})"
        op = rng.choice(["+", "-", "*", "&", "|", "^", "<", ">", "==", "!=", "&&", "||", "/", "%", "<<", ">>"])
        if op in ("/", "%"):
            return f"({self.cexpr(depth - 1)} {op} {rng.randint(1, 9)})"
        if op in ("<<", ">>"):
            return f"((unsigned long){self.cexpr(depth - 1)} {op} {rng.randint(0, 31)})"
        if op in ("+", "-", "*"):
            return f"((unsigned){self.cexpr(depth - 1)} {op} (unsigned){self.cexpr(depth - 1)})"
        return f"({self.cexpr(depth - 1)} {op} {self.cexpr(depth - 1)})"

    def global_decls(self, count):
        rng = self.rng
        out = []
        for _ in range(count):
            r = rng.random()
            if r < 0.16:
                tag = self.fresh("en")
                names, parts, val = [], [], -1
                for _ in range(rng.randint(1, 4)):
                    n = self.fresh("E")
                    k = rng.random()
                    if k < 0.45:
                        val = rng.choice([-1, -2, -128, -32768, -2147483647 - 1, -2147483647, 2147483646, 2147483647,
                                          65536, 255, 0, rng.randint(-1000, 1000)])
                        txt = "(-2147483647 - 1)" if val == -2147483648 else f"({val})"
                        parts.append(f"{n} = {txt}")
                    elif val < 2147483647:
                        val += 1
                        parts.append(n)
                    else:
                        val = 0
                        parts.append(f"{n} = 0")
                    names.append((n, val))
                out.append(f"enum {tag} {{ {', '.join(parts)} }};")
                self.enums += [n for n, _ in names]
                self.enum_tags.append((tag, names))
                # objects of the enumerated type with static storage duration
                for _ in range(rng.randint(1, 3)):
                    q = rng.choice(["", "static ", "const ", "static const "])
                    g = self.fresh("ge")
                    init = rng.choice([n for n, _ in names] + [self.cexpr(1)])
                    out.append(f"{q}enum {tag} {g} = {init};")
                    self.globals.append((g, "int")) if "const" not in q else None
                if rng.random() < 0.5:
                    a = self.fresh("ae")
                    out.append(f"enum {tag} {a}[{len(names) + 1}] = {{ " + ", ".join(n for n, _ in names) + " };")
                if rng.random() < 0.5:
                    td = self.fresh("TE")
                    out.append(f"typedef enum {tag} {td};")
                    td2 = self.fresh("TE")
                    out.append(f"typedef {td} {td2};")
                    out.append(f"{td2} {self.fresh('gt')} = {rng.choice(names)[0]};")
            elif r < 0.25:
                tag = self.fresh("S")
                ftypes = ITYPES + self.typedefs + [f"enum {t}" for t, _ in self.enum_tags]
                fields = [(self.fresh("f"), rng.choice(ftypes)) for _ in range(rng.randint(1, 4))]
                out.append(f"struct {tag} {{ " + " ".join(f"{t} {n};" for n, t in fields) + " };")
                self.structs.append((tag, fields))
                nm = self.fresh("sv")
                init = ""
                k = rng.random()
                if k < 0.5:
                    init = " = { " + ", ".join(self.cexpr(1) for _ in fields[: rng.randint(1, len(fields))]) + " }"
                elif k < 0.8:       # designated, in any order
                    pick = rng.sample(fields, rng.randint(1, len(fields)))
                    init = " = { " + ", ".join(f".{n} = {self.cexpr(1)}" for n, _ in pick) + " }"
                q = rng.choice(['', 'static ', 'const '])
                out.append(f"{q}struct {tag} {nm}{init};")
                (self.svars_ro if q == "const " else self.svars).append((nm, tag))
            elif r < 0.42:
                ty = rng.choice(ITYPES)
                nm = self.fresh("a")
                size = rng.randint(1, 5)
                init = ""
                k = rng.random()
                if k < 0.55:
                    init = " = { " + ", ".join(self.cexpr(1) for _ in range(rng.randint(1, size))) + " }"
                elif k < 0.75:
                    idx = rng.sample(range(size), rng.randint(1, size))
                    init = " = { " + ", ".join(f"[{j}] = {self.cexpr(1)}" for j in idx) + " }"
                dim = str(size) if rng.random() < 0.6 else f"{size} + {self.cexpr(0)} * 0"
                pos = [n for _, ns in self.enum_tags for n, v in ns if 0 < v < 64]
                if pos and rng.random() < 0.2:
                    e_ = rng.choice(pos)
                    dim = f"{size} + {e_} - {e_}"
                out.append(f"{ty} {nm}[{dim}]{init};")
                self.arrays.append((nm, ty, size))
            elif r < 0.5 and self.globals:
                g, ty = rng.choice(self.globals)
                nm = self.fresh("p")
                out.append(f"{ty} *{nm} = &{g};")
            elif r < 0.55:
                nm = self.fresh("T")
                out.append(f"typedef {rng.choice(ITYPES + self.typedefs)} {nm};")
                self.typedefs.append(nm)
                if rng.random() < 0.7:
                    q = rng.choice(["", "const ", "static "])
                    out.append(f"{q}{nm} {self.fresh('gd')} = {self.cexpr(2)};")
            else:
                ty = rng.choice(ITYPES)
                nm = self.fresh("g")
                q = rng.choice(["", "", "static ", "const ", "volatile "])
                init = f" = {self.cexpr(rng.randint(0, 3))}" if rng.random() < 0.8 else ""
                out.append(f"{q}{ty} {nm}{init};")
                if q == "const ":
                    self.ro.append(nm)
                else:
                    self.globals.append((nm, ty))
        return out

    # ---- run-time expressions / statements
    def rexpr(self, depth, env):
        rng = self.rng
        if depth <= 0 or rng.random() < 0.25:
            r = rng.random()
            if r < 0.5 and env:
                return rng.choice(env)[0]
            if r < 0.6 and self.arrays:
                a, _, n = rng.choice(self.arrays)
                return f"{a}[{rng.randrange(n)}]"
            if r < 0.55 and self.ro:
                return rng.choice(self.ro)
            if r < 0.7 and (self.svars or self.svars_ro):
                sv, tag = rng.choice(self.svars + self.svars_ro)
                fields = dict(self.structs)[tag]
                return f"{sv}.{rng.choice(fields)[0]}"
            if r < 0.75 and self.enums:
                return rng.choice(self.enums)
            return self.const()
        r = rng.random()
        if r < 0.12:
            return f"({rng.choice(['-', '~', '!', '+'])}{self.rexpr(depth - 1, env)})"
        if r < 0.24:
            return f"(({rng.choice(ITYPES)}){self.rexpr(depth - 1, env)})"
        if r < 0.32:
            return f"({self.rexpr(depth - 1, env)} ? {self.rexpr(depth - 1, env)} : {self.rexpr(depth - 1, env)})"
        nonvoid = [f for f in self.funcs if f[1] != "void"]
        if r < 0.40 and nonvoid:
            f, _, ps = rng.choice(nonvoid)
            return f"{f}(" + ", ".join(self.rexpr(depth - 1, env) for _ in ps) + ")"
        if r < 0.45:
            return f"sizeof({rng.choice(ITYPES)})"
        op = rng.choice(ARITH + CMP + ["&&", "||"])
        return f"({self.rexpr(depth - 1, env)} {op} {self.rexpr(depth - 1, env)})"

    def lvalue(self, env):
        rng = self.rng
        opts = [n for n, _ in env]
        if self.arrays:
            a, _, n = rng.choice(self.arrays)
            opts.append(f"{a}[{rng.randrange(n)}]")
        if self.svars:
            sv, tag = rng.choice(self.svars)
            opts.append(f"{sv}.{rng.choice(dict(self.structs)[tag])[0]}")
        g = [n for n, _ in self.globals]
        return rng.choice(opts + g) if (opts or g) else None

    def stmt(self, depth, env, in_loop, ret):
        rng = self.rng
        r = rng.random()
        lv = self.lvalue(env)
        if depth <= 0 or r < 0.3:
            voids = [f for f in self.funcs if f[1] == "void"]
            if voids and rng.random() < 0.1:
                f, _, ps = rng.choice(voids)
                return f"{f}(" + ", ".join(self.rexpr(1, env) for _ in ps) + ");"
            if lv is None or rng.random() < 0.2:
                return f"{self.rexpr(2, env)};"
            k = rng.random()
            if k < 0.6:
                return f"{lv} {rng.choice(['=', '+=', '-=', '*=', '&=', '|=', '^=', '<<=', '>>=', '/=', '%='])} {self.rexpr(2, env)};"
            return f"{rng.choice(['++', '--'])}{lv};" if k < 0.8 else f"{lv}{rng.choice(['++', '--'])};"
        if r < 0.45:
            e = f"if ({self.rexpr(2, env)}) {self.block(depth - 1, env, in_loop, ret)}"
            if rng.random() < 0.5:
                e += f" else {self.block(depth - 1, env, in_loop, ret)}"
            return e
        if r < 0.55:
            return f"while ({self.rexpr(1, env)}) {self.block(depth - 1, env, True, ret)}"
        if r < 0.62:
            return f"do {self.block(depth - 1, env, True, ret)} while ({self.rexpr(1, env)});"
        if r < 0.72:
            i = self.local("i")
            return (f"for (int {i} = 0; {i} < {rng.randint(1, 9)}; {i}++) "
                    + self.block(depth - 1, env + [(i, "int")], True, ret))
        if r < 0.84:
            labels = rng.sample(range(-3, 12), rng.randint(1, 4))
            body = ""
            for lab in labels:
                lt = str(lab) if rng.random() < 0.6 else f"({lab} + {self.cexpr(0)} * 0)"
                body += f" case {lt}: {self.stmt(0, env, in_loop, ret)}" + (" break;" if rng.random() < 0.7 else "")
            if rng.random() < 0.15:
                # a second label with the value of an earlier one: spelled identically, or differently but equal after
                # conversion to the (promoted) type of the controlling expression - a constraint violation that has to
                # come out as a diagnostic whatever the spelling
                lab = rng.choice(labels)
                alias = rng.choice([str(lab), f"({lab} + 0)", f"{lab & 0xFFFFFFFF:#x}", f"{lab + (1 << 32)}L", f"{lab}L",
                                    f"({lab} + 4294967296)", f"{lab & 0xFFFFFFFF}u" if lab >= 0 else f"{lab & 0xFFFFFFFF:#x}"])
                body += f" case {alias}: {self.stmt(0, env, in_loop, ret)} break;"
                if rng.random() < 0.5:
                    body += " default: break; default: break;"
            if rng.random() < 0.6:
                body += f" default: {self.stmt(0, env, in_loop, ret)} break;"
            return f"switch ({self.rexpr(1, env)}) {{{body} }}"
        if r < 0.9 and in_loop:
            return rng.choice(["break;", "continue;"])
        if r < 0.96:
            return f"return {self.rexpr(2, env)};" if ret != "void" else "return;"
        return self.block(depth - 1, env, in_loop, ret)

    def block(self, depth, env, in_loop, ret):
        rng = self.rng
        env = list(env)
        parts = []
        if rng.random() < 0.2:       # block-scope struct tag and enumeration constants: the same names in every function
            parts.append("struct LT { int a; char b; } lt = { 1, 2 }; enum { LA = 5, LB }; lt.a = LB + lt.b;")
        if self.globals and rng.random() < 0.15:      # a local that shadows a global
            g, ty = rng.choice(self.globals)
            if g not in [n for n, _ in env]:
                parts.append(f"{ty} {g} = {self.rexpr(1, env)};")
                env.append((g, ty))
        for _ in range(rng.randint(0, 2)):
            ty = rng.choice(ITYPES)
            nm = self.local("v")
            init = f" = {self.rexpr(1, env)}" if rng.random() < 0.7 else ""
            parts.append(f"{ty} {nm}{init};")
            env.append((nm, ty))
        if rng.random() < 0.25:      # objects with static storage duration inside a function
            nm = self.local("sl")
            if self.enum_tags and rng.random() < 0.6:
                tag, names = rng.choice(self.enum_tags)
                parts.append(f"static enum {tag} {nm} = {rng.choice(names)[0]};")
            else:
                parts.append(f"static {rng.choice(ITYPES + self.typedefs)} {nm} = {self.cexpr(1)};")
            env.append((nm, "int"))
        for _ in range(rng.randint(1, 3)):
            parts.append(self.stmt(depth, env, in_loop, ret))
        return "{ " + " ".join(parts) + " }"

    def function(self):
        rng = self.rng
        self.lid = 0                                   # names restart: shared with the other functions of the unit
        ret = rng.choice(ITYPES + ["void"])
        params = [(self.local("x"), rng.choice(ITYPES)) for _ in range(rng.randint(0, 4))]
        name = self.fresh("fn")
        body = self.block(rng.randint(1, 3), params, False, ret)
        tail = f" return {self.rexpr(1, params)};" if ret != "void" else " return;"
        # goto / labels: function scope, the SAME label names (`again`, `done`) in every function of the unit
        pre = post = ""
        k = rng.random()
        if k < 0.6:
            post = " done:"
            pre += f" if ({self.rexpr(1, params)}) goto done;"
        if k < 0.3 or k > 0.85:
            pre = f" int gi = 0; again: gi++; if (gi < {rng.randint(2, 4)}) goto again;" + pre
        text = (f"{rng.choice(['', 'static '])}{ret} {name}(" + (", ".join(f"{t} {n}" for n, t in params) or "void") + ") {"
                + pre + " " + body + post + tail + " }")
        self.funcs.append((name, ret, params))
        return text


ITYPES_UNUSED = None


def gen_unit(rng):
    g = Gen(rng)
    parts = g.global_decls(rng.randint(3, 9))
    for _ in range(rng.randint(2, 4)):
        parts.append(g.function())
    return "\n".join(parts) + "\n", g


ENUM_UNIT = """enum status { ST_FAIL = -1, ST_OK, ST_BIG = 2147483647, ST_MIN = -2147483647 - 1 };
enum status last = ST_FAIL;
static enum status s2 = ST_MIN;
const enum status s3 = ST_BIG;
typedef int T1; typedef T1 T2; typedef enum status ES; typedef ES ES2;
T2 g1 = -5; ES2 g2 = ST_FAIL; const T2 g3 = 300;
struct S { enum status e; char c; ES2 e2; long l; } sv = { ST_FAIL, 'a', ST_MIN, -1 };
struct S sd = { .c = 1, .e = ST_FAIL, .l = 7 };
enum status arr[3] = { ST_FAIL, ST_OK };
int ai[4] = { [2] = ST_FAIL, [0] = 1 };
char sized[ST_OK + 3];
int f(int x) { static enum status loc = ST_FAIL; static T2 l2 = -7; switch (x) { case ST_FAIL: return 1; case ST_MIN: return 2; case ST_BIG: return 3; } return loc + l2; }
"""

CORPUS_B = [
    "int neg(void) { unsigned char c = 1; return -c; }\n",
    "unsigned char c = 300; signed char d = -200; short s = 70000; unsigned u = -1; long l = 9223372036854775807;\n",
    "struct S { char c; int i; long l; } s = { 300, 70000, -5 }; int a[3] = { 1, 2 }; char t[2] = { 300, -1 };\n",
    "enum E { A = 7 % 3, B = -7 / 2, C = 1 ? 2 : 3 }; int f(int x) { switch (x) { case A: return 1; case B: return 2; case C + 10: return 3; } return 0; }\n",
    "int f(int x) { int r = 0; for (int i = 0; i < 10; i++) { if (i % 3 == 0) continue; r += i << 1; } while (r > 3) r /= 2; do r--; while (r > 0); return r ? x : -x; }\n",
    "typedef unsigned long T; T g = 5; T h(T a, unsigned char b) { return a * b + (T)-1 / 3; }\n",
    "int g; int *p = &g; int f(void) { int *q = &g; *q = 3; return *p + sizeof(g) + sizeof(int); }\n",
    ENUM_UNIT,
    "int f(int x) { switch (x) { case -1: return 1; case 0xFFFFFFFF: return 2; } return 0; }\n",
    "int f(unsigned char c) { switch (c) { case 1: return 1; case 4294967297: return 2; default: return 3; } }\n",
    "int f(long x) { switch (x) { case 5: return 1; case 5L: return 2; case 2 + 3: return 3; } return 0; }\n",
    "int f(int x) { if (x) goto done; x = x + 1; done: return x; }\nint g(int x) { int r = 0; again: r++; if (r < x) goto again; if (r > 5) goto done; r = 7; done: return r; }\n",
    "int v; int f(int v1) { static int s = 1; int v = v1; struct T { int a; } t = { 3 }; enum { K = 2 }; return v + s + t.a + K; }\n"
    "long g(long v1) { static long s = -1; struct T { char c; long l; } t = { 1, 2 }; enum { K = 9 }; return v1 + s + t.l + K + v; }\n",
    # syntactically valid, violates a constraint: must be a diagnostic (open finding c:TypeError:ir.setter)
    "void f(void) {}\nvoid g(void) { long long v = f(); }\n",
]


def innermost_frame(tb_text):
    fr = [l for l in tb_text.splitlines() if l.strip().startswith("File ") and "/ppci/" in l]
    if not fr:
        return "?"
    last = fr[-1].strip()
    try:
        path = last.split('"')[1].split("/ppci/")[1].replace("/", ".")[:-3]
        func = last.rsplit(" in ", 1)[1]
        return f"{path}.{func}"
    except Exception:  # noqa
        return "?"


def compile_unit(src):
    from ppci.api import c_to_ir
    from ppci.common import CompilerError
    logging.disable(logging.CRITICAL)
    try:
        c_to_ir(io.StringIO(src), "x86_64")
        return "ok", ""
    except CompilerError as e:
        return "diag", str(e.msg)
    except RecursionError:
        return "internal:RecursionError:?", ""
    except Exception as e:  # noqa
        return f"internal:{type(e).__name__}:{innermost_frame(traceback.format_exc())}", str(e)[:160]


def shrink_unit(src, sig):
    """greedy line/declaration removal keeping the same signature"""
    lines = src.strip().split("\n")
    changed = True
    while changed and len(lines) > 1:
        changed = False
        for i in range(len(lines)):
            cand = lines[:i] + lines[i + 1:]
            if compile_unit("\n".join(cand) + "\n")[0] == sig:
                lines = cand
                changed = True
                break
    return "\n".join(lines) + "\n"


def check_programs(ctx):
    units = [(s, None) for s in CORPUS_B]
    for _ in range(400 if ctx.thorough else 80):
        units.append(gen_unit(ctx.rng))
    shrunk = 0
    for src, g in units:
        ctx.count("eval_unit")
        st, msg = compile_unit(src)
        ctx.count("unit_" + st.split(":")[0])
        if g is not None and len(g.funcs) >= 2 and ("switch" in src or "while" in src or "for (" in src):
            ctx.nontrivial(src)
        if st.startswith("internal"):
            small = src
            if shrunk < 6:
                small = shrink_unit(src, st)
                shrunk += 1
            ctx.fail("c:" + st.split(":", 1)[1], f"c_to_ir raised {st.split(':')[1]} in {st.split(':')[2]} ({msg}) on valid C: {small!r}",
                     {"source": small}, impl=st)
        elif st == "diag" and g is not None:
            ctx.count("unit_diag_generated")
            ctx.note(f"generated unit rejected with diagnostic {msg!r}") if ctx.counts["unit_diag_generated"] <= 3 else None
    ctx.extra_cov["units_rejected_by_diagnostic"] = int(ctx.counts.get("unit_diag_generated", 0))


# ----------------------------------------------------------------------------------------------
# part C: the C3 front-end (search only)
def exc_signature(fe):
    tb = traceback.format_exc()
    import sys
    e = sys.exc_info()[1]
    return f"{fe}:{type(e).__name__}:{innermost_frame(tb)}", str(e)[:160]


def compile_c3(src, march, level):
    """-> ("ok"|"diag"|signature, message)"""
    from contextlib import redirect_stdout
    from ppci import api
    from ppci.lang.c3 import c3_to_ir
    from ppci.common import CompilerError
    from ppci.build.tasks import TaskError
    logging.disable(logging.CRITICAL)
    try:
        with redirect_stdout(io.StringIO()):
            m = c3_to_ir([io.StringIO(src)], [], march)
    except (CompilerError, TaskError) as e:
        return "diag", str(getattr(e, "msg", e))[:160]
    except Exception:  # noqa
        return exc_signature("c3")
    try:
        with redirect_stdout(io.StringIO()):
            api.optimize(m, level=level)
    except (CompilerError, TaskError) as e:
        return "diag", str(getattr(e, "msg", e))[:160]
    except Exception:  # noqa
        return exc_signature("c3+opt")
    return "ok", ""


def check_c3(ctx):
    from . import c37
    cases = [("probe:" + what, src, "x86_64") for what, src in c37.INTERNAL_PROBES]
    for march, intty in (("x86_64", "i32"), ("msp430", "i16")):
        for k, (prog, _args) in enumerate(c37.corpus_programs(intty)):
            cases.append((f"corpus{k}:{march}", c37.Render(prog).c3(), march))
    n32, n16 = (90, 30) if ctx.thorough else (18, 6)
    pid = 0
    for march, intty, n in (("x86_64", "i32", n32), ("msp430", "i16", n16)):
        for _ in range(n):
            pid += 1
            cases.append((f"gen{pid}:{march}", c37.Render(c37.PGen(ctx.rng, intty, pid).program()).c3(), march))
    for label, src, march in cases:
        levels = (0, 1, 2, "s") if (ctx.thorough or not label.startswith("gen")) else (0, 2)
        if label.startswith("probe"):
            levels = (0,)
        for lv in levels:
            ctx.count("eval_c3")
            st, msg = compile_c3(src, march, lv)
            ctx.count("c3_" + st.split(":")[0])
            if st not in ("ok", "diag"):
                ctx.fail(st, f"C3 front-end ({march}, -O{lv}) raised {st.split(':')[1]} in {st.split(':')[2]} ({msg}): {src[:300]!r}",
                         {"source": src, "march": march, "level": str(lv), "label": label}, impl=st)
                break
        if label.startswith("gen"):
            ctx.nontrivial(src)


# ----------------------------------------------------------------------------------------------
# part D: the IR text front-end (search only)
def read_ir_text(text, label, optimise):
    from ppci import api
    from ppci.irutils import read_module, verify_module
    from ppci.irutils.reader import IrParseException
    from ppci.common import CompilerError, IrFormError
    logging.disable(logging.CRITICAL)
    diag = (IrParseException, IrFormError, CompilerError)
    try:
        m = read_module(io.StringIO(text))
    except diag as e:
        return "diag", str(e)[:160]
    except Exception:  # noqa
        return exc_signature("irtext")
    if not optimise:
        return "ok", ""
    try:
        verify_module(m)
    except diag as e:
        return "diag", "verify: " + str(e)[:140]
    except Exception:  # noqa
        return exc_signature("irtext+verify")
    from ppci import ir
    for f in m.functions:
        for b in f.blocks:
            for i in b.instructions:
                if isinstance(i, ir.Binop) and i.operation in ("<<", ">>") and isinstance(i.b, ir.Const) \
                        and isinstance(i.b.value, int) and not 0 <= i.b.value < 64:
                    # undefined at run time; folding it only exercises CPython's big-int limits (the constant folder
                    # builds `x << 2**40`: minutes, then MemoryError — C38's territory, see notes/C28.md)
                    return "ok", "optimiser skipped: constant shift count out of range"
    for lv in (0, 1, 2, "s"):
        try:
            m2 = read_module(io.StringIO(text))
            api.optimize(m2, level=lv)
        except (MemoryError, OverflowError):
            return "ok", "optimiser: big-int limit of CPython (not a front-end outcome)"
        except diag as e:
            return "diag", f"optimize {lv}: " + str(e)[:130]
        except Exception:  # noqa
            sig, msg = exc_signature("irtext+opt")
            return sig, f"-O{lv}: {msg}"
    return "ok", ""


def check_irtext(ctx):
    from . import c15_common as K
    from ppci.irutils import print_module
    mods = []
    for label, m, reason, _ in K.corner_modules():
        mods.append((label, m, reason is None and not label.startswith(("float-", "finding-"))))
    cover = lambda k: None  # noqa: E731
    for label, g in K.generated(ctx, 40 if ctx.thorough else 8, cover):
        mods.append((label, g.module, True))
    try:
        for label, g in K.c_modules(ctx):
            mods.append((label, g.module, True))
    except Exception as e:  # noqa - the C front-end samples are a bonus
        ctx.note("c_modules unavailable: " + type(e).__name__)
    for label, m, optimise in mods:
        ctx.count("eval_irtext")
        try:
            f = io.StringIO()
            print_module(m, file=f, verify=False)
            text = f.getvalue()
        except Exception:  # noqa - the writer is C15's business
            ctx.count("irtext_print_failed")
            continue
        st, msg = read_ir_text(text, label, optimise)
        ctx.count("irtext_" + st.split(":")[0])
        if msg.startswith("optimiser"):
            ctx.count("irtext_optimiser_bigint_skipped")
        if label.startswith("gen"):
            ctx.nontrivial(label + text[:200])
        if st not in ("ok", "diag"):
            ctx.fail(st, f"IR text front-end raised {st.split(':')[1]} in {st.split(':')[2]} ({msg}) on the printed module {label!r}: {text[:300]!r}",
                     {"label": label, "text": text[:3000]}, impl=st)


def check(ctx):
    check_kernels(ctx)
    check_programs(ctx)
    check_c3(ctx)
    check_irtext(ctx)
    ctx.extra_cov["exhaustive"] = False


def replay(ctx, rp):
    print(json.dumps(rp.get("case", {}), indent=1))
    check(ctx)
