import PpciVerif.Model.Proto
import PpciVerif.Model.C3
import PpciVerif.Spec.IRArith
import PpciVerif.Spec.C3
/-! Line-protocol driver for C37 (stateful: the current abstract program).

`<ty>` = i8 … u64, `<op>` = + - * / % << >> & | ^, `<cmp>` = == != < > <= >=

Expressions (prefix):  L <int> | V <name> | I <arr> <e> | B <ty> <op> <e> <e> | N <ty> <e> | K <ty> <e>
                       | C <f> <n> <e>^n | Q <cmp> <e> <e> | A <e> <e> | O <e> <e> | X <e>
Statements:            = <x> <e> | S <arr> <e_index> <e> | D <arr> <n> <e>^n | ? <e> <block> <block> | W <e> <block>
                       | M <e> <n> (<int> <block>)^n <block> | R <e> | r | P <f> <n> <e>^n
block:                 { <stmt>* }

Requests
  prog G <n> (<name> <v>)^n A <n> (<name> <len> <v>^len)^n F <n> (<name> <np> <param>^np <block>)^n   → ok <n functions>
  run <f> <fuel> <arg>*        Spec.C3.run          → ok ret=<v|none> <global>=<v> … <array>=<v,v,…> | ok undef <why> | ok out-of-fuel | ok stuck <why>
  binop <ty> <op> (<a> <b>)+   Spec.C3.binop        → ok <v|undef>|…        (one result per pair, joined with `|`)
  irbinop <ty> <op> (<a> <b>)+ Spec.IRArith.binop   → ok <v|undef>|…
  neg <ty> <a>+                Spec.C3.neg          → ok <v|undef>|…
  conv <ty> <v>+               Spec.C3.convert      → ok <v>|…
  cmp <cmp> (<a> <b>)+         Spec.C3.cmp          → ok <0|1>|…
  constop <ty> <op> (<a> <b>)+ Spec.C3.constOp      → ok <v|undef>|…
  mconst <op> (<a> <b>)+       Model.C3.constOp     → ok <v|err:Name>|…
  common <ty> <ty>             Spec.C3.commonType   → ok <ty>
  coerce <ty> <ty>             Spec.C3.coerce       → ok same|auto|reject
-/
open Proto Spec.C3
open Spec.IRArith (Ty)

namespace D

def tyByName (n : String) : Option Ty := Ty.all.find? (fun t => t.name == n)
def opBySymbol (s : String) : Option Op := Op.all.find? (fun o => o.symbol == s)
def cmpBySymbol (s : String) : Option Cmp := Cmp.all.find? (fun o => o.symbol == s)

mutual
partial def parseE : List String → Option (Expr × List String)
  | "L" :: v :: r => do pure (.lit (← int? v), r)
  | "V" :: x :: r => some (.var x, r)
  | "I" :: a :: r => do
      let (i, r) ← parseE r
      pure (.idx a i, r)
  | "B" :: t :: op :: r => do
      let ty ← tyByName t
      let o ← opBySymbol op
      let (a, r) ← parseE r
      let (b, r) ← parseE r
      pure (.bin ty o a b, r)
  | "N" :: t :: r => do
      let ty ← tyByName t
      let (a, r) ← parseE r
      pure (.neg ty a, r)
  | "K" :: t :: r => do
      let ty ← tyByName t
      let (a, r) ← parseE r
      pure (.cast ty a, r)
  | "C" :: f :: n :: r => do
      let k ← nat? n
      let (es, r) ← parseEs k r
      pure (.call f es, r)
  | "Q" :: c :: r => do
      let cc ← cmpBySymbol c
      let (a, r) ← parseE r
      let (b, r) ← parseE r
      pure (.cmp cc a b, r)
  | "A" :: r => do
      let (a, r) ← parseE r
      let (b, r) ← parseE r
      pure (.and a b, r)
  | "O" :: r => do
      let (a, r) ← parseE r
      let (b, r) ← parseE r
      pure (.or a b, r)
  | "X" :: r => do
      let (a, r) ← parseE r
      pure (.not a, r)
  | _ => none

partial def parseEs : Nat → List String → Option (List Expr × List String)
  | 0, r => some ([], r)
  | n + 1, r => do
      let (e, r) ← parseE r
      let (es, r) ← parseEs n r
      pure (e :: es, r)
end

mutual
partial def parseS : List String → Option (Stmt × List String)
  | "=" :: x :: r => do
      let (e, r) ← parseE r
      pure (.assign x e, r)
  | "S" :: a :: r => do
      let (i, r) ← parseE r
      let (e, r) ← parseE r
      pure (.store a i e, r)
  | "D" :: a :: n :: r => do
      let k ← nat? n
      let (es, r) ← parseEs k r
      pure (.decl a es, r)
  | "?" :: r => do
      let (c, r) ← parseE r
      let (t, r) ← parseBlock r
      let (e, r) ← parseBlock r
      pure (.ite c t e, r)
  | "W" :: r => do
      let (c, r) ← parseE r
      let (b, r) ← parseBlock r
      pure (.while c b, r)
  | "M" :: r => do
      let (e, r) ← parseE r
      match r with
      | n :: r => do
        let k ← nat? n
        let (cs, r) ← parseCases k r
        let (d, r) ← parseBlock r
        pure (.switch e cs d, r)
      | [] => none
  | "R" :: r => do
      let (e, r) ← parseE r
      pure (.ret e, r)
  | "r" :: r => some (.retv, r)
  | "P" :: f :: n :: r => do
      let k ← nat? n
      let (es, r) ← parseEs k r
      pure (.callp f es, r)
  | _ => none

partial def parseCases : Nat → List String → Option (List (Int × List Stmt) × List String)
  | 0, r => some ([], r)
  | n + 1, v :: r => do
      let z ← int? v
      let (b, r) ← parseBlock r
      let (cs, r) ← parseCases n r
      pure ((z, b) :: cs, r)
  | _, _ => none

partial def parseStmts : List String → Option (List Stmt × List String)
  | "}" :: r => some ([], r)
  | r => do
      let (s, r) ← parseS r
      let (ss, r) ← parseStmts r
      pure (s :: ss, r)

partial def parseBlock : List String → Option (List Stmt × List String)
  | "{" :: r => parseStmts r
  | _ => none
end

partial def parseScalars : Nat → List String → Option (List (String × Int) × List String)
  | 0, r => some ([], r)
  | n + 1, x :: v :: r => do
      let z ← int? v
      let (m, r) ← parseScalars n r
      pure ((x, z) :: m, r)
  | _, _ => none

partial def parseInts : Nat → List String → Option (List Int × List String)
  | 0, r => some ([], r)
  | n + 1, v :: r => do
      let z ← int? v
      let (m, r) ← parseInts n r
      pure (z :: m, r)
  | _, _ => none

partial def parseArrays : Nat → List String → Option (List (String × List Int) × List String)
  | 0, r => some ([], r)
  | n + 1, x :: len :: r => do
      let k ← nat? len
      let (vs, r) ← parseInts k r
      let (m, r) ← parseArrays n r
      pure ((x, vs) :: m, r)
  | _, _ => none

partial def parseNames : Nat → List String → Option (List String × List String)
  | 0, r => some ([], r)
  | n + 1, x :: r => do
      let (m, r) ← parseNames n r
      pure (x :: m, r)
  | _, _ => none

partial def parseFuncs : Nat → List String → Option (List Func × List String)
  | 0, r => some ([], r)
  | n + 1, name :: np :: r => do
      let k ← nat? np
      let (ps, r) ← parseNames k r
      let (b, r) ← parseBlock r
      let (fs, r) ← parseFuncs n r
      pure ({ name := name, params := ps, body := b } :: fs, r)
  | _, _ => none

def parseProg (ws : List String) : Option Prog :=
  match ws with
  | "G" :: n :: r => do
      let k ← nat? n
      let (gs, r) ← parseScalars k r
      match r with
      | "A" :: n :: r => do
          let k ← nat? n
          let (as, r) ← parseArrays k r
          match r with
          | "F" :: n :: r => do
              let k ← nat? n
              let (fs, r) ← parseFuncs k r
              if r.isEmpty then pure { globals := { sc := gs, ar := as }, funcs := fs } else none
          | _ => none
      | _ => none
  | _ => none

def showOpt : Option Int → String
  | some v => toString v
  | none => "undef"

def showMem (m : Mem) : String :=
  " ".intercalate (m.sc.map (fun (n, v) => s!"{n}={v}") ++
                   m.ar.map (fun (n, vs) => s!"{n}=" ++ ",".intercalate (vs.map toString)))

def showRun : Res (Option Int × Mem) → String
  | .ok (r, g) =>
    let gs := showMem g
    s!"ok ret={match r with | some v => toString v | none => "none"}" ++ (if gs.isEmpty then "" else " " ++ gs)
  | .undef w => "ok undef " ++ w
  | .fuel => "ok out-of-fuel"
  | .stuck w => "ok stuck " ++ w

/-- apply `f` to consecutive pairs of the integer words -/
def pairs (ws : List String) (f : Int → Int → String) : Option String :=
  let rec go : List String → List String → Option (List String)
    | [], acc => some acc.reverse
    | a :: b :: r, acc => do
        let x ← int? a
        let y ← int? b
        go r (f x y :: acc)
    | _, _ => none
  match ws with
  | [] => none
  | _ => (go ws []).map (fun rs => "ok " ++ "|".intercalate rs)

def singles (ws : List String) (f : Int → String) : Option String :=
  match ws with
  | [] => none
  | _ => (ws.mapM int?).map (fun vs => "ok " ++ "|".intercalate (vs.map f))

def step (p : Prog) (line : String) : Prog × String :=
  match words line with
  | "prog" :: rest =>
    match parseProg rest with
    | some q => (q, s!"ok {q.funcs.length}")
    | none => (p, "bad-op")
  | "run" :: f :: fuel :: args =>
    match nat? fuel, args.mapM int? with
    | some n, some vs => (p, showRun (run p n f vs))
    | _, _ => (p, "bad-op")
  | "binop" :: t :: op :: rest =>
    match tyByName t, opBySymbol op with
    | some ty, some o => (p, (pairs rest (fun a b => showOpt (binop ty o a b))).getD "bad-op")
    | _, _ => (p, "bad-op")
  | "irbinop" :: t :: op :: rest =>
    match tyByName t, Spec.IRArith.Op.all.find? (fun o => o.symbol == op) with
    | some ty, some o => (p, (pairs rest (fun a b => showOpt (Spec.IRArith.binop ty o a b))).getD "bad-op")
    | _, _ => (p, "bad-op")
  | "constop" :: t :: op :: rest =>
    match tyByName t, opBySymbol op with
    | some ty, some o => (p, (pairs rest (fun a b => showOpt (constOp ty o a b))).getD "bad-op")
    | _, _ => (p, "bad-op")
  | "mconst" :: op :: rest =>
    (p, (pairs rest (fun a b => match Model.C3.constOp op a b with
                                | .ok v => toString v
                                | .error e => "err:" ++ e.name)).getD "bad-op")
  | "neg" :: t :: rest =>
    match tyByName t with
    | some ty => (p, (singles rest (fun a => showOpt (neg ty a))).getD "bad-op")
    | none => (p, "bad-op")
  | "conv" :: t :: rest =>
    match tyByName t with
    | some ty => (p, (singles rest (fun a => toString (convert ty a))).getD "bad-op")
    | none => (p, "bad-op")
  | "cmp" :: c :: rest =>
    match cmpBySymbol c with
    | some cc => (p, (pairs rest (fun a b => if cmp cc a b then "1" else "0")).getD "bad-op")
    | none => (p, "bad-op")
  | ["common", a, b] =>
    match tyByName a, tyByName b with
    | some x, some y => (p, "ok " ++ (commonType x y).name)
    | _, _ => (p, "bad-op")
  | ["coerce", a, b] =>
    match tyByName a, tyByName b with
    | some x, some y => (p, "ok " ++ (coerce x y).name)
    | _, _ => (p, "bad-op")
  | _ => (p, "bad-op")

end D

def main : IO Unit := Proto.mainLoopS ({} : Spec.C3.Prog) D.step
