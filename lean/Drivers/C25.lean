import PpciVerif.Model.Proto
import Drivers.C25Impl
/-! Line-protocol driver for C25; the protocol is documented (and implemented) in `Drivers/C25Impl.lean`:
  D <n> <entry> <succ> <pred> <real idom>   dominator side (Spec values, checkIdom verdict, Model.LT, Model.Dom)
  P <n> <exit> <succ>                       post-dominator side -/
def main : IO Unit := Proto.mainLoop Drivers.C25Impl.step
