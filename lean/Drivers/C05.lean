import PpciVerif.Model.CodegenProto
/-! Line-protocol driver for C05 (see `Model/CodegenProto.lean`: `alloc`, `const`, `dex`, `args`, `rv*`). -/
def main : IO Unit := Proto.mainLoopS Model.CodegenProto.Mach.init Model.CodegenProto.step'
