import PpciVerif.Model.Proto
import PpciVerif.Spec.CFG
import PpciVerif.Model.LR
/-! Line-protocol driver for C32 (LR parsers).

Encodings (no blanks inside a word):
  grammar  = three words  `<terms:[2,3]> <start:nat> <prods:5:6,2;6:;7:2 | ->`
  tables   = two words    `<act: s,a,S,n;s,a,R,r;s,a,A,r | -> <goto: s,X,n;… | ->`
  tokens   = `[2,3,2]` (token types; the value of token i is i)
  tree     = preorder nat list: node `0,rule,nkids,kids…`, leaf `1,typ,val`

Requests:
  parse  G T toks        -> ok <tree> | err <Kind>       (Model.LR.parse)
  safe   G T             -> ok true|false                (Model.LR.tableSafe)
  known  G T             -> ok s:a.b.c;…                 (inferred stack knowledge, debugging)
  first  G               -> ok X:a,b;…  | err FuelExhausted   (Model.LR.firstSets, sorted)
  recog  G toks          -> ok true|false                (Spec.CFG.recognise)
  firstlegacy G / parselegacy G T toks : the same for Model.LR.Legacy (code before the fix commits)
  treeok G tree toks     -> ok true|false                (Spec.CFG.treeOk ∧ yield = toks)
  all    G T n           -> ok r0|r1|…   parse result of every string over terms of length ≤ n
  lang   G n             -> ok 0101…     recogniser verdict for the same strings
  treesok G n e0|e1|…    -> ok 10-1…     treeok for the same strings (`-` = no tree given)
Tree output: node `(rule,kid,kid)`, leaf `typ.val`. -/
open Proto Spec.CFG Model.LR

def splitNE (s : String) (sep : String) : List String :=
  if s == "-" || s.isEmpty then [] else s.splitOn sep

def parseProd (s : String) : Option Prod :=
  match s.splitOn ":" with
  | [l, r] => do
    let lhs ← l.toNat?
    let rhs ← (if r.isEmpty then some [] else (r.splitOn ",").mapM (·.toNat?))
    pure ⟨lhs, rhs⟩
  | _ => none

def parseGrammar (terms start prods : String) : Option Grammar := do
  let ts ← natList? terms
  let st ← start.toNat?
  let ps ← (splitNE prods ";").mapM parseProd
  pure ⟨ts, ps, st⟩

def parseAct (s : String) : Option (Nat × Nat × Action) :=
  match s.splitOn "," with
  | [a, b, k, n] => do
    let a ← a.toNat?
    let b ← b.toNat?
    let n ← n.toNat?
    match k with
    | "S" => some (a, b, .shift n)
    | "R" => some (a, b, .reduce n)
    | "A" => some (a, b, .accept n)
    | _ => none
  | _ => none

def parseGoto (s : String) : Option (Nat × Nat × Nat) :=
  match s.splitOn "," with
  | [a, b, n] => do
    let a ← a.toNat?
    let b ← b.toNat?
    let n ← n.toNat?
    pure (a, b, n)
  | _ => none

def parseTables (act goto : String) : Option Tables := do
  let a ← (splitNE act ";").mapM parseAct
  let g ← (splitNE goto ";").mapM parseGoto
  pure ⟨a, g⟩

def mkToks (ts : List Nat) : List Tok := (ts.zipIdx).map (fun (t, i) => ⟨t, i⟩)

mutual
  partial def showTree : Tree → String
    | .leaf t => s!"{t.typ}.{t.val}"
    | .node r kids => "(" ++ ",".intercalate (toString r :: showTrees kids) ++ ")"
  partial def showTrees : List Tree → List String
    | [] => []
    | t :: ts => showTree t :: showTrees ts
end

/-- decode a preorder tree; returns the tree and the rest -/
partial def readTree : List Nat → Option (Tree × List Nat)
  | 1 :: typ :: val :: rest => some (.leaf ⟨typ, val⟩, rest)
  | 0 :: rule :: n :: rest =>
    let rec kids (k : Nat) (xs : List Nat) (acc : List Tree) : Option (List Tree × List Nat) :=
      match k with
      | 0 => some (acc.reverse, xs)
      | k + 1 => match readTree xs with
        | some (t, xs') => kids k xs' (t :: acc)
        | none => none
    match kids n rest [] with
    | some (ks, rest') => some (.node rule ks, rest')
    | none => none
  | _ => none

def showResult : Except Err Tree → String
  | .ok t => "ok " ++ showTree t
  | .error e => "err " ++ e.name

def strings (terms : List Nat) : Nat → List (List Nat)
  | 0 => [[]]
  | k + 1 => terms.flatMap (fun t => (strings terms k).map (t :: ·))

def allStrings (terms : List Nat) (n : Nat) : List (List Nat) :=
  (List.range (n + 1)).flatMap (strings terms)

def parseFuel : Nat := 3000

def recogFuel (G : Grammar) (w : List Nat) : Nat :=
  (nontermNames G).length * (w.length + 1) * (w.length + 1) + 2

def showFirst (tab : FirstTab) : String :=
  let key (e : Nat × List Nat) := e.1
  let sorted := tab.toArray.qsort (fun a b => key a < key b) |>.toList
  ";".intercalate (sorted.map (fun e =>
    s!"{e.1}:" ++ ",".intercalate ((e.2.toArray.qsort (· < ·)).toList.map toString)))

def step (line : String) : String :=
  match words line with
  | ["parse", t, s, p, a, g, toks] =>
    (match parseGrammar t s p, parseTables a g, natList? toks with
     | some G, some T, some w => showResult (parse G T parseFuel (mkToks w))
     | _, _, _ => "bad-op")
  | ["safe", t, s, p, a, g] =>
    (match parseGrammar t s p, parseTables a g with
     | some G, some T => s!"ok {tableSafe G T}"
     | _, _ => "bad-op")
  | ["known", t, s, p, a, g] =>
    (match parseGrammar t s p, parseTables a g with
     | some G, some T => "ok " ++ ";".intercalate ((inferKnown G T).map (fun e =>
          s!"{e.1}:" ++ ".".intercalate (e.2.map toString)))
     | _, _ => "bad-op")
  | ["first", t, s, p] =>
    (match parseGrammar t s p with
     | some G => (match firstSets G (G.prods.length * (G.terms.length + 3) + 3) with
        | some tab => "ok " ++ showFirst tab
        | none => "err FuelExhausted")
     | none => "bad-op")
  | ["firstlegacy", t, s, p] =>
    (match parseGrammar t s p with
     | some G => (match Legacy.firstSets G (2 * G.prods.length * (G.terms.length + 3) + 3) with
        | some tab => "ok " ++ showFirst tab
        | none => "err FuelExhausted")
     | none => "bad-op")
  | ["parselegacy", t, s, p, a, g, toks] =>
    (match parseGrammar t s p, parseTables a g, natList? toks with
     | some G, some T, some w => showResult (Legacy.parse G T parseFuel (mkToks w))
     | _, _, _ => "bad-op")
  | ["recog", t, s, p, toks] =>
    (match parseGrammar t s p, natList? toks with
     | some G, some w => (match recognise G (recogFuel G w) w with
        | some b => s!"ok {b}"
        | none => "err FuelExhausted")
     | _, _ => "bad-op")
  | ["treeok", t, s, p, tree, toks] =>
    (match parseGrammar t s p, natList? tree, natList? toks with
     | some G, some enc, some w => (match readTree enc with
        | some (tr, []) => s!"ok {treeOk G tr G.start && tr.yield == mkToks w}"
        | _ => "bad-op")
     | _, _, _ => "bad-op")
  | ["all", t, s, p, a, g, n] =>
    (match parseGrammar t s p, parseTables a g, n.toNat? with
     | some G, some T, some n => "ok " ++ "|".intercalate ((allStrings G.terms n).map (fun w =>
          match parse G T parseFuel (mkToks w) with
          | .ok tr => showTree tr
          | .error e => e.name))
     | _, _, _ => "bad-op")
  | ["treesok", t, s, p, n, encs] =>
    (match parseGrammar t s p, n.toNat? with
     | some G, some n =>
       let ws := allStrings G.terms n
       let es := encs.splitOn "|"
       if ws.length != es.length then "bad-op" else
       "ok " ++ String.join ((ws.zip es).map (fun (w, e) =>
          if e == "-" then "-" else
          match (natList? e).bind readTree with
          | some (tr, []) => if treeOk G tr G.start && tr.yield == mkToks w then "1" else "0"
          | _ => "X"))
     | _, _ => "bad-op")
  | ["lang", t, s, p, n] =>
    (match parseGrammar t s p, n.toNat? with
     | some G, some n => "ok " ++ String.join ((allStrings G.terms n).map (fun w =>
          match recognise G (recogFuel G w) w with
          | some true => "1"
          | some false => "0"
          | none => "F"))
     | _, _ => "bad-op")
  | _ => "bad-op"

def main : IO Unit := mainLoop step
