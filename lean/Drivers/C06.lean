import PpciVerif.Model.Proto
import PpciVerif.Model.MCode
import PpciVerif.Model.RA
/-! Line-protocol driver for C06 (register-allocation validator).

Requests (one line, blank-separated words; lists are comma-separated naturals, possibly empty):

  check A=<p:q,p:q,...> C=<colour of vreg 0,1,2,...> X=<fixed (precoloured) vregs> R=<indices of removed instructions> <instr> <instr> ...
  spill A=<alias> C=<colours (meaningful for fixed names)> X=<fixed> T=<temps> F=<fresh> N=<number of pre instructions> <instr>*N <sinstr>*

  <instr>  = uses;defs;clobbers;jumps;isMove(0|1);label(- or n);sem;livein[;plan;loadscratch;storescratch]   plan = t:f,t:f,...
  <sinstr> = L<f>/<scratch csv> | S<f>/<scratch csv> | I<instr>

Replies: `ok accept` | `ok accept entry-shared` (check holds, entryOkB does not) | `ok reject <first failing instruction index | fixed | shape>` | `bad-op`.
-/
open Proto Model.MCode Model.RA

def natCsv? (s : String) : Option (List Nat) :=
  if s.isEmpty then some [] else (s.splitOn ",").mapM (fun w => w.toNat?)

def pairCsv? (s : String) : Option (List (Nat × Nat)) :=
  if s.isEmpty then some [] else
  (s.splitOn ",").mapM (fun w =>
    match w.splitOn ":" with
    | [a, b] => do
      let x ← a.toNat?
      let y ← b.toNat?
      pure (x, y)
    | _ => none)

structure PInstr where
  ins : Instr
  live : List Nat
  plan : Plan

def parseInstr (w : String) : Option PInstr :=
  match w.splitOn ";" with
  | u :: d :: c :: j :: m :: l :: s :: lv :: rest => do
    let uses ← natCsv? u
    let defs ← natCsv? d
    let clob ← natCsv? c
    let jumps ← natCsv? j
    let mv ← (if m == "1" then some true else if m == "0" then some false else none)
    let label ← (if l == "-" then some none else (l.toNat?).map some)
    let sem ← s.toNat?
    let live ← natCsv? lv
    let plan ← (match rest with
      | [] => some { ren := [], lclob := [], sclob := [] }
      | [pl, lc, sc] => do
        let r ← pairCsv? pl
        let l ← natCsv? lc
        let s ← natCsv? sc
        pure ({ ren := r, lclob := l, sclob := s } : Plan)
      | _ => none)
    pure { ins := { uses := uses, defs := defs, clobbers := clob, isMove := mv, jumps := jumps, label := label, sem := sem },
           live := live, plan := plan }
  | _ => none

def kv? (key : String) (w : String) : Option String :=
  if w.startsWith key then some (w.drop key.length).toString else none

def maxList (l : List Nat) : Nat := l.foldl max 0

def firstBad (p : Program) (A : Alloc) : Nat → List Instr → Option Nat
  | _, [] => none
  | i, ins :: rest => if instrOkB p A i ins then firstBad p A (i + 1) rest else some i

def doCheck (aw cw xw rw : String) (iws : List String) : String :=
  match kv? "A=" aw, kv? "C=" cw, kv? "X=" xw, kv? "R=" rw with
  | some a, some c, some x, some r =>
    match pairCsv? a, natCsv? c, natCsv? x, natCsv? r, iws.mapM parseInstr with
    | some pairs, some cols, some fixed, some rms, some pis =>
      let colArr := cols.toArray
      let prog : Program := pis.map (·.ins)
      let n := prog.length
      -- every register id mentioned must have a colour; every index must be in range
      let regsOk := pis.all (fun pi => (pi.ins.uses ++ pi.ins.defs ++ pi.live).all (fun v => v < colArr.size))
      let rmOk := rms.all (fun i => i < n) && fixed.all (fun v => v < colArr.size)
      if !(regsOk && rmOk) then "bad-op" else
      let np := (maxList (cols ++ pairs.map (·.1) ++ pairs.map (·.2) ++ prog.flatMap (·.clobbers))) + 1
      let adj : Array (List Nat) := pairs.foldl (fun acc pq => acc.modify pq.1 (fun l => pq.2 :: l)) (Array.replicate np [])
      let rmArr : Array Bool := rms.foldl (fun acc i => acc.set! i true) (Array.replicate n false)
      let liveArr : Array (List Nat) := (pis.map (·.live)).toArray
      let A : Alloc := {
        colour := fun v => colArr.getD v 0
        alias := fun p q => (adj.getD p []).contains q
        fixed := fixed
        removed := fun i => rmArr.getD i false
        live := fun i => liveArr.getD i [] }
      if check prog A then (if entryOkB A then "ok accept" else "ok accept entry-shared")
      else if !fixedOkB A then "ok reject fixed"
      else match firstBad prog A 0 prog with
        | some i => s!"ok reject {i}"
        | none => "ok reject ?"
    | _, _, _, _, _ => "bad-op"
  | _, _, _, _ => "bad-op"

def parseLS (w : String) : Option (Nat × List Nat) :=
  match w.splitOn "/" with
  | [f, c] => do
    let x ← f.toNat?
    let l ← natCsv? c
    pure (x, l)
  | _ => none

def parseSInstr (w : String) : Option SInstr :=
  if w.startsWith "L" then (parseLS (w.drop 1).toString).map (fun fc => SInstr.load fc.1 fc.2)
  else if w.startsWith "S" then (parseLS (w.drop 1).toString).map (fun fc => SInstr.store fc.1 fc.2)
  else if w.startsWith "I" then (parseInstr (w.drop 1).toString).map (fun pi => SInstr.ins pi.ins)
  else none

def firstBadSpill (p : Program) (C : SpillCtx) (live : Nat → List Nat) (plan : Nat → Plan) :
    Nat → List Instr → Option Nat
  | _, [] => none
  | i, ins :: rest =>
    if spillInstrOkB p C live (plan i) i ins then firstBadSpill p C live plan (i + 1) rest else some i

def firstDiff : Nat → List SInstr → List SInstr → Option Nat
  | _, [], [] => none
  | i, a :: as, b :: bs => if a = b then firstDiff (i + 1) as bs else some i
  | i, _, _ => some i

def doSpill (aw cw xw tw fw nw : String) (rest : List String) : String :=
  match kv? "A=" aw, kv? "C=" cw, kv? "X=" xw, kv? "T=" tw, kv? "F=" fw, kv? "N=" nw with
  | some a, some c, some x, some t, some f, some ns =>
    match pairCsv? a, natCsv? c, natCsv? x, natCsv? t, natCsv? f, ns.toNat? with
    | some pairs, some cols, some fixed, some temps, some fresh, some n =>
      if rest.length < n then "bad-op" else
      match (rest.take n).mapM parseInstr, (rest.drop n).mapM parseSInstr with
      | some pis, some post =>
        let pre : Program := pis.map (·.ins)
        let colArr := cols.toArray
        let np := (maxList (cols ++ pairs.map (·.1) ++ pairs.map (·.2))) + 1
        let adj : Array (List Nat) := pairs.foldl (fun acc pq => acc.modify pq.1 (fun l => pq.2 :: l)) (Array.replicate np [])
        let liveArr : Array (List Nat) := (pis.map (·.live)).toArray
        let planArr : Array Plan := (pis.map (·.plan)).toArray
        let live := fun i => liveArr.getD i []
        let plan := fun i => planArr.getD i { ren := [], lclob := [], sclob := [] }
        if !(fixed.all (fun v => v < colArr.size)) then "bad-op" else
        let M : RegModel := {
          alias := fun p q => (adj.getD p []).contains q
          colour := fun v => colArr.getD v 0
          fixed := fun v => fixed.contains v }
        let C : SpillCtx := { temps := temps, fresh := fresh, model := M }
        if checkSpillStep pre post C live plan then "ok accept"
        else match firstDiff 0 post (expandAll plan 0 pre) with
          | some i => s!"ok reject shape {i}"
          | none =>
            if !(fresh.all (fun f => !temps.contains f && !C.model.fixed f) && temps.all (fun t => !C.model.fixed t)) then "ok reject fresh"
            else match firstBadSpill pre C live plan 0 pre with
              | some i => s!"ok reject {i}"
              | none => "ok reject ?"
      | _, _ => "bad-op"
    | _, _, _, _, _, _ => "bad-op"
  | _, _, _, _, _, _ => "bad-op"

def step (line : String) : String :=
  match words line with
  | "check" :: aw :: cw :: xw :: rw :: iws => doCheck aw cw xw rw iws
  | "spill" :: aw :: cw :: xw :: tw :: fw :: nw :: rest => doSpill aw cw xw tw fw nw rest
  | _ => "bad-op"

def main : IO Unit := mainLoop step
