import PpciVerif.Model.Proto
import PpciVerif.Model.MCode
import PpciVerif.Model.RA
/-! Line-protocol driver for C06 (register-allocation validator).

Requests (one line, blank-separated words; lists are comma-separated naturals, possibly empty):

  check A=<p:q,p:q,...> C=<colour of vreg 0,1,2,...> R=<indices of removed instructions> <instr> <instr> ...
  spill T=<temps> F=<fresh> N=<number of pre instructions> <instr>*N <sinstr>*
  expand T=.. F=.. N=.. <instr>*N          -- prints the number of instructions of the recomputed rewrite

  <instr>  = uses;defs;clobbers;jumps;isMove(0|1);label(- or n);sem;livein[;plan]      plan = t:f,t:f,...
  <sinstr> = L<f> | S<f> | I<instr>

Replies: `ok accept` | `ok reject <first failing instruction index | entry | shape>` | `bad-op`.
-/
open Proto Model.MCode Model.RA

def natCsv? (s : String) : Option (List Nat) :=
  if s.isEmpty then some [] else (s.splitOn ",").mapM (fun w => w.toNat?)

def pairCsv? (s : String) : Option (List (Nat × Nat)) :=
  if s.isEmpty then some [] else
  (s.splitOn ",").mapM (fun w =>
    match w.splitOn ":" with
    | [a, b] => do
      let x ← a.toNat?
      let y ← b.toNat?
      pure (x, y)
    | _ => none)

structure PInstr where
  ins : Instr
  live : List Nat
  plan : List (Nat × Nat)

def parseInstr (w : String) : Option PInstr :=
  match w.splitOn ";" with
  | u :: d :: c :: j :: m :: l :: s :: lv :: rest => do
    let uses ← natCsv? u
    let defs ← natCsv? d
    let clob ← natCsv? c
    let jumps ← natCsv? j
    let mv ← (if m == "1" then some true else if m == "0" then some false else none)
    let label ← (if l == "-" then some none else (l.toNat?).map some)
    let sem ← s.toNat?
    let live ← natCsv? lv
    let plan ← (match rest with
      | [] => some []
      | [pl] => pairCsv? pl
      | _ => none)
    pure { ins := { uses := uses, defs := defs, clobbers := clob, isMove := mv, jumps := jumps, label := label, sem := sem },
           live := live, plan := plan }
  | _ => none

def kv? (key : String) (w : String) : Option String :=
  if w.startsWith key then some (w.drop key.length).toString else none

def maxList (l : List Nat) : Nat := l.foldl max 0

def firstBad (p : Program) (A : Alloc) : Nat → List Instr → Option Nat
  | _, [] => none
  | i, ins :: rest => if instrOkB p A i ins then firstBad p A (i + 1) rest else some i

def doCheck (aw cw rw : String) (iws : List String) : String :=
  match kv? "A=" aw, kv? "C=" cw, kv? "R=" rw with
  | some a, some c, some r =>
    match pairCsv? a, natCsv? c, natCsv? r, iws.mapM parseInstr with
    | some pairs, some cols, some rms, some pis =>
      let colArr := cols.toArray
      let prog : Program := pis.map (·.ins)
      let n := prog.length
      -- every register id mentioned must have a colour; every index must be in range
      let regsOk := pis.all (fun pi => (pi.ins.uses ++ pi.ins.defs ++ pi.live).all (fun v => v < colArr.size))
      let rmOk := rms.all (fun i => i < n)
      if !(regsOk && rmOk) then "bad-op" else
      let np := (maxList (cols ++ pairs.map (·.1) ++ pairs.map (·.2) ++ prog.flatMap (·.clobbers))) + 1
      let adj : Array (List Nat) := pairs.foldl (fun acc pq => acc.modify pq.1 (fun l => pq.2 :: l)) (Array.replicate np [])
      let rmArr : Array Bool := rms.foldl (fun acc i => acc.set! i true) (Array.replicate n false)
      let liveArr : Array (List Nat) := (pis.map (·.live)).toArray
      let A : Alloc := {
        colour := fun v => colArr.getD v 0
        alias := fun p q => (adj.getD p []).contains q
        removed := fun i => rmArr.getD i false
        live := fun i => liveArr.getD i [] }
      if check prog A then "ok accept"
      else if !entryOkB A then "ok reject entry"
      else match firstBad prog A 0 prog with
        | some i => s!"ok reject {i}"
        | none => "ok reject ?"
    | _, _, _, _ => "bad-op"
  | _, _, _ => "bad-op"

def parseSInstr (w : String) : Option SInstr :=
  if w.startsWith "L" then (w.drop 1).toString.toNat?.map SInstr.load
  else if w.startsWith "S" then (w.drop 1).toString.toNat?.map SInstr.store
  else if w.startsWith "I" then (parseInstr (w.drop 1).toString).map (fun pi => SInstr.ins pi.ins)
  else none

def firstBadSpill (p : Program) (temps fresh : List Nat) (live : Nat → List Nat) (plan : Nat → Ren) :
    Nat → List Instr → Option Nat
  | _, [] => none
  | i, ins :: rest =>
    if spillInstrOkB p temps fresh live (plan i) i ins then firstBadSpill p temps fresh live plan (i + 1) rest else some i

def firstDiff : Nat → List SInstr → List SInstr → Option Nat
  | _, [], [] => none
  | i, a :: as, b :: bs => if a = b then firstDiff (i + 1) as bs else some i
  | i, _, _ => some i

def doSpill (expandOnly : Bool) (tw fw nw : String) (rest : List String) : String :=
  match kv? "T=" tw, kv? "F=" fw, kv? "N=" nw with
  | some t, some f, some ns =>
    match natCsv? t, natCsv? f, ns.toNat? with
    | some temps, some fresh, some n =>
      if rest.length < n then "bad-op" else
      match (rest.take n).mapM parseInstr, (rest.drop n).mapM parseSInstr with
      | some pis, some post =>
        let pre : Program := pis.map (·.ins)
        let liveArr : Array (List Nat) := (pis.map (·.live)).toArray
        let planArr : Array Ren := (pis.map (·.plan)).toArray
        let live := fun i => liveArr.getD i []
        let plan := fun i => planArr.getD i []
        if expandOnly then s!"ok {(expandAll plan 0 pre).length}" else
        if checkSpillStep pre post temps fresh live plan then "ok accept"
        else match firstDiff 0 post (expandAll plan 0 pre) with
          | some i => s!"ok reject shape {i}"
          | none =>
            if !(fresh.all (fun x => !temps.contains x)) then "ok reject fresh"
            else match firstBadSpill pre temps fresh live plan 0 pre with
              | some i => s!"ok reject {i}"
              | none => "ok reject ?"
      | _, _ => "bad-op"
    | _, _, _ => "bad-op"
  | _, _, _ => "bad-op"

def step (line : String) : String :=
  match words line with
  | "check" :: aw :: cw :: rw :: iws => doCheck aw cw rw iws
  | "spill" :: tw :: fw :: nw :: rest => doSpill false tw fw nw rest
  | "expand" :: tw :: fw :: nw :: rest => doSpill true tw fw nw rest
  | _ => "bad-op"

def main : IO Unit := mainLoop step
