import PpciVerif.Model.Proto
import PpciVerif.Spec.RV32
import PpciVerif.Model.RVEnc
/-! Line-protocol driver for C08 (riscv part).

  enc <Class> <a> <b> <c> <imm>
      → ok <hex bytes> valid=<0|1> dec=<text|none> mean=<text> same=<0|1> spelled=<0|1> toks=<t,t,...>
      | err <PythonExceptionName>
      (model encoder; Spec decoder applied to the model's bytes; `same` = decoded = meaning;
       `spelled` = the printed tokens are a spelling of the meaning; `toks` = what the class prints)
  dec <hex of 4 bytes>  → ok <text> | ok none         (Spec.RV32.decode, for the llvm validation)
  decc <hex of 2 bytes> → ok <text> | ok none         (Spec.RV32.decodeC)
  spell <hex bytes> <t,t,...> → ok <0|1>               (is the token list a spelling of the decoded bytes?)
  classes → ok <Class,Class,...> -/
open Proto Spec.RV32 Model.RVEnc

def tokStr : Tok → String
  | .word s => "w:" ++ s
  | .reg n => "r:" ++ toString n
  | .imm v => "i:" ++ toString v
  | .csr n => "c:" ++ toString n

def toksStr (ts : List Tok) : String := ",".intercalate (ts.map tokStr)

def tok? (s : String) : Option Tok :=
  match s.splitOn ":" with
  | ["w", x] => some (.word x)
  | ["r", x] => x.toNat?.map .reg
  | ["i", x] => x.toInt?.map .imm
  | ["c", x] => x.toNat?.map .csr
  | _ => none

def toks? (s : String) : Option (List Tok) := (s.splitOn ",").mapM tok?

def wordLE (bs : List Nat) : Nat := bs.foldr (fun b acc => b + 256 * acc) 0

def Model.RVEnc.Meaning.text : Meaning → String
  | .base i => pretty i
  | .comp c => prettyC c

def b2s (b : Bool) : String := if b then "1" else "0"

def step (line : String) : String :=
  match words line with
  | ["enc", cn, a, b, c, imm] =>
    match Cls.ofName cn, nat? a, nat? b, nat? c, int? imm with
    | some cls, some a, some b, some c, some imm =>
      let o : Ops := { a := a, b := b, c := c, imm := imm }
      match enc cls o with
      | .error e => "err " ++ e.name
      | .ok wi =>
        let w := wi.toNat
        let d := decodeAny cls.size w
        let m := meaning cls o
        let pt := ptoks cls o
        s!"ok {toHex (bytesLE cls.size w)} valid={b2s (decide (valid cls o))} dec={(d.map Meaning.text).getD "none"} mean={m.text} same={b2s (d == some m)} spelled={b2s (decide (m.spelledBy pt))} toks={toksStr pt}"
    | _, _, _, _, _ => "bad-op"
  | ["dec", h] =>
    match fromHex h with
    | some bs => if bs.length ≠ 4 then "bad-op" else "ok " ++ ((decode (wordLE bs)).map pretty).getD "none"
    | none => "bad-op"
  | ["decc", h] =>
    match fromHex h with
    | some bs => if bs.length ≠ 2 then "bad-op" else "ok " ++ ((decodeC (wordLE bs)).map prettyC).getD "none"
    | none => "bad-op"
  | ["spell", h, ts] =>
    match fromHex h, toks? ts with
    | some bs, some ts =>
      (match decodeAny bs.length (wordLE bs) with
       | some m => if decide (m.spelledBy ts) then "ok 1" else "ok 0 " ++ m.text
       | none => "ok none")
    | _, _ => "bad-op"
  | ["classes"] => "ok " ++ ",".intercalate (Cls.all.map Cls.pyName)
  | _ => "bad-op"

def main : IO Unit := mainLoop step
