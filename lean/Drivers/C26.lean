import PpciVerif.Model.PPDriver
/-! Line-protocol driver for C26 (requests: see `Model/PPDriver.lean`). -/
def main : IO Unit := Proto.mainLoop Model.PPDriver.step
