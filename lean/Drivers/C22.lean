import PpciVerif.Model.Proto
import PpciVerif.Model.WasmRt
import PpciVerif.Spec.WasmInt
import PpciVerif.Spec.WasmRun
/-! Line-protocol driver for C22.

Whole-module requests `(run FUEL MODULE (calls …))` are answered by the reference interpreter
`Spec.Wasm` (engine and format: `PpciVerif/Spec/WasmRun.lean`, `PpciVerif/Spec/WasmParse.lean`).
The remaining requests address the integer runtime helpers of ppci/wasm/execution/runtime.py:

Model ops:  i32_rotl v c | i64_rotl v c | i32_rotr v c | i64_rotr v c
            i32_clz v | i64_clz v | i32_ctz v | i64_ctz v | i32_popcnt v | i64_popcnt v
            i32_extend8_s x | i32_extend16_s x | i64_extend8_s x | i64_extend16_s x | i64_extend32_s x
Spec ops:   spec.<same name> <same args>   (Spec.WasmInt on BitVec 32/64; arguments are reduced
            mod 2^N, rotations/extensions are read back signed, counts unsigned)
-/
open Proto Model.Bitfun Model.WasmRt Spec.WasmInt

def showE {α} (f : α → String) : Except Err α → String
  | .ok a => "ok " ++ f a
  | .error e => "err " ++ e.name

def iS (z : Int) : String := toString z
def nS (n : Nat) : String := toString n

def step (line : String) : String :=
  if line.startsWith "(" then Spec.WasmRun.step line else
  match words line with
  | [op, a, b] =>
    match int? a, int? b with
    | some v, some c =>
      if op == "i32_rotl" then showE iS (i32_rotl v c)
      else if op == "i64_rotl" then showE iS (i64_rotl v c)
      else if op == "i32_rotr" then showE iS (i32_rotr v c)
      else if op == "i64_rotr" then showE iS (i64_rotr v c)
      else if op == "spec.i32_rotl" then "ok " ++ iS (irotl (ofSigned 32 v) (ofSigned 32 c)).toInt
      else if op == "spec.i64_rotl" then "ok " ++ iS (irotl (ofSigned 64 v) (ofSigned 64 c)).toInt
      else if op == "spec.i32_rotr" then "ok " ++ iS (irotr (ofSigned 32 v) (ofSigned 32 c)).toInt
      else if op == "spec.i64_rotr" then "ok " ++ iS (irotr (ofSigned 64 v) (ofSigned 64 c)).toInt
      else "bad-op"
    | _, _ => "bad-op"
  | [op, a] =>
    match int? a with
    | some v =>
      if op == "i32_clz" then showE nS (i32_clz v)
      else if op == "i64_clz" then showE nS (i64_clz v)
      else if op == "i32_ctz" then "ok " ++ nS (i32_ctz v)
      else if op == "i64_ctz" then "ok " ++ nS (i64_ctz v)
      else if op == "i32_popcnt" then "ok " ++ nS (i32_popcnt v)
      else if op == "i64_popcnt" then "ok " ++ nS (i64_popcnt v)
      else if op == "i32_extend8_s" then showE iS (i32_extend8_s v)
      else if op == "i32_extend16_s" then showE iS (i32_extend16_s v)
      else if op == "i64_extend8_s" then showE iS (i64_extend8_s v)
      else if op == "i64_extend16_s" then showE iS (i64_extend16_s v)
      else if op == "i64_extend32_s" then showE iS (i64_extend32_s v)
      else if op == "spec.i32_clz" then "ok " ++ nS (iclz (ofSigned 32 v)).toNat
      else if op == "spec.i64_clz" then "ok " ++ nS (iclz (ofSigned 64 v)).toNat
      else if op == "spec.i32_ctz" then "ok " ++ nS (ictz (ofSigned 32 v)).toNat
      else if op == "spec.i64_ctz" then "ok " ++ nS (ictz (ofSigned 64 v)).toNat
      else if op == "spec.i32_popcnt" then "ok " ++ nS (ipopcnt (ofSigned 32 v)).toNat
      else if op == "spec.i64_popcnt" then "ok " ++ nS (ipopcnt (ofSigned 64 v)).toNat
      else if op == "spec.i32_extend8_s" then "ok " ++ iS (iextend_s 8 (ofSigned 32 v)).toInt
      else if op == "spec.i32_extend16_s" then "ok " ++ iS (iextend_s 16 (ofSigned 32 v)).toInt
      else if op == "spec.i64_extend8_s" then "ok " ++ iS (iextend_s 8 (ofSigned 64 v)).toInt
      else if op == "spec.i64_extend16_s" then "ok " ++ iS (iextend_s 16 (ofSigned 64 v)).toInt
      else if op == "spec.i64_extend32_s" then "ok " ++ iS (iextend_s 32 (ofSigned 64 v)).toInt
      else "bad-op"
    | none => "bad-op"
  | _ => "bad-op"

def main : IO Unit := mainLoop step
