import PpciVerif.Model.Proto
import PpciVerif.Model.IntSet
import PpciVerif.Spec.IntSet
/-! Line-protocol driver for C33.  A range list is a flat int list `[a1,b1,a2,b2,…]`.
  Raw lists are constructor arguments (possibly empty/overlapping/unsorted ranges); the model
  applies `mk` to them first, exactly as the harness builds `IntegerSet(*ranges)`.

  mk L | union A B | inter A B | diff A B | sym A B | eq A B | empty L | card L | iter L
  contains L VS | bisect L VS        (VS = int list of probe values; reply: list of 0/1 resp. indices)
  specmem L VS                       (Spec.memB of the raw list, no model code involved)
  canon L                            (Spec.canonB of a list as given, e.g. a real result) -/
open Proto Model.IntSet

def pairs? : List Int → Option (List (Int × Int))
  | [] => some []
  | [_] => none
  | a :: b :: t => (pairs? t).map ((a, b) :: ·)

def ranges? (s : String) : Option (List (Int × Int)) := (intList? s).bind pairs?

def flat (rs : List (Int × Int)) : List Int := rs.flatMap (fun r => [r.1, r.2])

def showR (rs : List (Int × Int)) : String := "ok " ++ showIntList (flat rs)
def showB (b : Bool) : String := if b then "ok 1" else "ok 0"
def b2i (b : Bool) : Int := if b then 1 else 0

def binop (f : List (Int × Int) → List (Int × Int) → String) (a b : String) : String :=
  match ranges? a, ranges? b with
  | some x, some y => f (mk x) (mk y)
  | _, _ => "bad-op"

def step (line : String) : String :=
  match words line with
  | ["mk", l] => match ranges? l with
      | some x => showR (mk x)
      | none => "bad-op"
  | ["union", a, b] => binop (fun x y => showR (union x y)) a b
  | ["inter", a, b] => binop (fun x y => showR (inter x y)) a b
  | ["diff", a, b] => binop (fun x y => showR (diff x y)) a b
  | ["sym", a, b] => binop (fun x y => showR (symDiff x y)) a b
  | ["eq", a, b] => binop (fun x y => showB (eq x y)) a b
  | ["empty", l] => match ranges? l with
      | some x => showB (empty (mk x))
      | none => "bad-op"
  | ["card", l] => match ranges? l with
      | some x => s!"ok {cardinality (mk x)}"
      | none => "bad-op"
  | ["iter", l] => match ranges? l with
      | some x => "ok " ++ showIntList (iter (mk x))
      | none => "bad-op"
  | ["contains", l, vs] => match ranges? l, intList? vs with
      | some x, some v => let s := mk x; "ok " ++ showIntList (v.map (fun z => b2i (contains s z)))
      | _, _ => "bad-op"
  | ["bisect", l, vs] => match ranges? l, intList? vs with
      | some x, some v => let s := mk x; "ok " ++ showIntList (v.map (fun z => (bisect s z : Int)))
      | _, _ => "bad-op"
  | ["specmem", l, vs] => match ranges? l, intList? vs with
      | some x, some v => "ok " ++ showIntList (v.map (fun z => b2i (Spec.IntSet.memB x z)))
      | _, _ => "bad-op"
  | ["canon", l] => match ranges? l with
      | some x => showB (Spec.IntSet.canonB x)
      | none => "bad-op"
  | _ => "bad-op"

def main : IO Unit := mainLoop step
