import PpciVerif.Model.C01Driver
/-! Line-protocol driver for C01 (requests: see `Model/C01Driver.lean`). -/
def main : IO Unit := Proto.mainLoop Model.C01Driver.step
