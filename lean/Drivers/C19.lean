import PpciVerif.Model.Proto
import PpciVerif.Model.SRec
import PpciVerif.Spec.SRec
/-! Line-protocol driver for C19 (Motorola S-records).

  lines : `line,line,…` (`-` = no line);  hex `-` = no bytes

  toline  <typ> <addr> <hex>   Model toLine → `ok <line>` | `err E`        (ltoline: pre-repair)
  write   <addr> <hex>         Model write_srecord → `ok <lines>` | `err E` (lwrite: pre-repair)
  read    <lines>              Spec reader → `ok <header hex|none> <start> <runs>` | `ok reject`
  rec     <line>               Spec.parseRecord → `ok <typ> <addr> <hex>` | `ok none`
-/
open Proto Model.SRec

def unhexTR (cs : List Char) : Option (List Nat) :=
  let rec go : List Char → List Nat → Option (List Nat)
    | [], acc => some acc.reverse
    | [_], _ => none
    | a :: b :: rest, acc =>
      match Proto.hexVal a, Proto.hexVal b with
      | some x, some y => go rest ((x * 16 + y) :: acc)
      | _, _ => none
  go cs []

def hexOfBytes (bs : List Nat) : String :=
  if bs.isEmpty then "-" else
  let rec go : List Nat → List Char → List Char
    | [], acc => acc.reverse
    | b :: rest, acc => go rest (Proto.hexDigit (b % 16) :: Proto.hexDigit (b / 16 % 16) :: acc)
  String.ofList (go bs [])

def parseBytes (h : String) : Option (List Nat) := if h == "-" then some [] else unhexTR h.toList

def parseLines (s : String) : List (List Char) :=
  if s == "-" then [] else (s.splitOn ",").map String.toList

def showLines (ls : List (List Char)) : String :=
  if ls.isEmpty then "-" else ",".intercalate (ls.map String.ofList)

def showEx {α} (f : α → String) : Except Err α → String
  | .ok a => "ok " ++ f a
  | .error e => "err " ++ e.name

/-- group (address, byte) cells into runs of consecutive addresses, in file order -/
def runsOf (mem : List (Nat × Nat)) : List (Nat × List Nat) :=
  let rec go : List (Nat × Nat) → Option (Nat × Nat × List Nat) → List (Nat × List Nat) → List (Nat × List Nat)
    | [], none, acc => acc.reverse
    | [], some (a, _, d), acc => ((a, d.reverse) :: acc).reverse
    | (x, b) :: rest, none, acc => go rest (some (x, x + 1, [b])) acc
    | (x, b) :: rest, some (a, nxt, d), acc =>
      if x = nxt then go rest (some (a, nxt + 1, b :: d)) acc
      else go rest (some (x, x + 1, [b])) ((a, d.reverse) :: acc)
  go mem none []

def showRuns (rs : List (Nat × List Nat)) : String :=
  if rs.isEmpty then "-" else ",".intercalate (rs.map fun r => s!"{r.1}:{hexOfBytes r.2}")

def step (line : String) : String :=
  match words line with
  | ["toline", t, a, h] => match nat? t, nat? a, parseBytes h with
      | some t, some a, some d => showEx String.ofList (toLine t a d)
      | _, _, _ => "bad-op"
  | ["ltoline", t, a, h] => match nat? t, nat? a, parseBytes h with
      | some t, some a, some d => showEx String.ofList (Legacy.toLine t a d)
      | _, _, _ => "bad-op"
  | ["write", a, h] => match nat? a, parseBytes h with
      | some a, some d => showEx showLines (writeSrecord a d)
      | _, _ => "bad-op"
  | ["lwrite", a, h] => match nat? a, parseBytes h with
      | some a, some d => showEx showLines (Legacy.writeSrecord a d)
      | _, _ => "bad-op"
  | ["read", ls] => match Spec.SRec.read (parseLines ls) with
      | some img =>
        let hd := match img.header with
          | some h => hexOfBytes h
          | none => "none"
        s!"ok {hd} {img.start} {showRuns (runsOf img.mem)}"
      | none => "ok reject"
  | ["rec", l] => match Spec.SRec.parseRecord l.toList with
      | some r => s!"ok {r.typ} {r.address} {hexOfBytes r.data}"
      | none => "ok none"
  | _ => "bad-op"

def main : IO Unit := mainLoop step
