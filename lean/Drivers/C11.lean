import PpciVerif.Model.Proto
import PpciVerif.Model.Reloc
import PpciVerif.Model.LinkReloc
import PpciVerif.Spec.RelocSem
/-! Line-protocol driver for C11.

  dorel <isa> <type> <addend> <symOffset> <symSecAddr|-> <secAddr> <offset> <hexdata>
        model of Linker._do_relocation on one section `code` (address secAddr, bytes hexdata) with a relocation
        at `offset` against a symbol of value symOffset in a section at symSecAddr (`-`: absolute symbol)
        → ok <hexdata'> | err E
  rtarget <isa> <type> <hex> <P>     SPEC: address designated by the relocated bytes at P   → ok <int> | ok none
  rrep    <isa> <type> <S> <A> <P>   SPEC: representable                                    → ok true|false
  rhilo   <hexhi> <hexlo>            SPEC: value computed by a riscv hi/lo instruction pair → ok <int>
  dorels <isa> <secAddr> <hexdata> <type:offset:addend:S;…>
        model of Linker.do_relocations on one section with SEVERAL relocations, each against its own (absolute) symbol of
        value S and with ITS OWN addend → ok <hexdata'> | err E
  disjoint <isa> <type:sect:offset;…>  the decidable hypothesis of the list-level theorem: relocation sites pairwise disjoint → ok true|false
  roff    <isa> <type> <hex>         SPEC: the pc-relative offset the field encodes (what a disassembler prints) → ok <int>
-/
open Proto Model.Reloc Model.LinkReloc

def showE {α} (f : α → String) : Except Model.Token.Err α → String
  | .ok a => "ok " ++ f a
  | .error e => "err " ++ e.name

def showB (b : Bool) : String := if b then "true" else "false"

def step (line : String) : String :=
  match words line with
  | ["dorel", isa, ty, a, so, ssa, sa, off, h] =>
    match int? a, int? so, int? sa, nat? off, fromHex h with
    | some a, some so, some sa, some off, some bs =>
      let secs0 : List Sec := [⟨"code", sa, bs⟩]
      let r : Option (List Sec × Sym) :=
        if ssa == "-" then some (secs0, ⟨0, false, so, none⟩)
        else match int? ssa with
          | some x => some (secs0 ++ [⟨"far", x, []⟩], ⟨0, false, so, some "far"⟩)
          | none => none
      match r with
      | none => "bad-op"
      | some (secs, sym) =>
        match relocSize isa ty with
        | none => "bad-op"
        | some _ =>
          match doRelocation isa secs [sym] ⟨ty, 0, "code", off, a⟩ with
          | .error e => "err " ++ e.name
          | .ok secs' => match getSec secs' "code" with
            | some s => "ok " ++ toHex s.data
            | none => "bad-op"
    | _, _, _, _, _ => "bad-op"
  | ["dorels", isa, sa, h, l] =>
    let parse (ix : Nat × String) : Option (RelocEntry × Sym) :=
      match ix.2.splitOn ":" with
      | [ty, off, a, sv] =>
        match nat? off, int? a, int? sv with
        | some o, some a, some sv => some (⟨ty, ix.1, "code", o, a⟩, ⟨ix.1, false, sv, none⟩)
        | _, _, _ => none
      | _ => none
    let items := l.splitOn ";"
    match int? sa, fromHex h, ((List.range items.length).zip items).mapM parse with
    | some sa, some bs, some rs =>
      match doRelocations isa (rs.map (·.2)) [⟨"code", sa, bs⟩] (rs.map (·.1)) with
      | .error e => "err " ++ e.name
      | .ok secs' => match getSec secs' "code" with
        | some sec => "ok " ++ toHex sec.data
        | none => "bad-op"
    | _, _, _ => "bad-op"
  | ["disjoint", isa, l] =>
    let parse (x : String) : Option RelocEntry :=
      match x.splitOn ":" with
      | [ty, sect, off] => (nat? off).map (fun o => ⟨ty, 0, sect, o, 0⟩)
      | _ => none
    match (l.splitOn ";").mapM parse with
    | some rs => if rs.all (fun r => (relocSize isa r.relocType).isSome) then "ok " ++ showB (sitesDisjoint isa rs) else "ok unknown-type"
    | none => "bad-op"
  | ["rtarget", isa, name, h, p] =>
    match fromHex h, int? p with
    | some bs, some p =>
      match Spec.RelocSem.decodeTarget isa name bs p with
      | some t => s!"ok {t}"
      | none => "ok none"
    | _, _ => "bad-op"
  | ["roff", isa, name, h] =>
    match fromHex h with
    | some bs =>
      match Spec.RelocSem.decodeTarget isa name bs 0 with
      | some t => s!"ok {t}"
      | none => "ok none"
    | none => "bad-op"
  | ["rrep", isa, name, s, a, p] =>
    match int? s, int? a, int? p with
    | some s, some a, some p =>
      match Spec.RelocSem.representable isa name s a p with
      | some b => "ok " ++ showB b
      | none => "bad-op"
    | _, _, _ => "bad-op"
  | ["rhilo", hh, hl] =>
    match fromHex hh, fromHex hl with
    | some a, some b => s!"ok {Spec.RelocSem.rvHiLo (Spec.RelocSem.wordLE a) (Spec.RelocSem.wordLE b)}"
    | _, _ => "bad-op"
  | _ => "bad-op"

def main : IO Unit := mainLoop step
