import PpciVerif.Model.WfRun
/-! Line-protocol driver for C03 (optimization passes keep IR well-formed): `load` / `wf` (the Boolean checker
    `Spec.IR.wfModule`, proved equivalent to the declarative `Spec.IRWF.WFModule`) and `pass <name>` (pass models
    `Model.Opt`); engine and protocol in `PpciVerif/Model/WfRun.lean` and `PpciVerif/Spec/IRRun.lean`. -/
def main : IO Unit := Proto.mainLoopS ({} : Spec.IRRun.St) Model.WfRun.step
