import PpciVerif.Model.Proto
import PpciVerif.Model.Leb128
import PpciVerif.Spec.Leb
/-! Line-protocol driver for C20.
  uenc <int> | senc <int> | udec <hex> | sdec <hex> | uval <hex> | sval <hex> -/
open Proto Model.Leb128

def showExcept {α} (f : α → String) : Except Err α → String
  | .ok a => "ok " ++ f a
  | .error e => "err " ++ e.name

def step (line : String) : String :=
  match words line with
  | ["uenc", n] => match int? n with
      | some z => showExcept toHex (unsignedEncode z)
      | none => "bad-op"
  | ["senc", n] => match int? n with
      | some z => "ok " ++ toHex (signedEncode z)
      | none => "bad-op"
  | ["udec", h] => match fromHex h with
      | some bs => showExcept (fun (v, rest) => s!"{v} {rest.length}") (unsignedDecode bs)
      | none => "bad-op"
  | ["sdec", h] => match fromHex h with
      | some bs => showExcept (fun (v, rest) => s!"{v} {rest.length}") (signedDecode bs)
      | none => "bad-op"
  | ["uval", h] => match fromHex h with
      | some bs => match Spec.Leb.uval bs with
          | some v => s!"ok {v}"
          | none => "ok none"
      | none => "bad-op"
  | ["sval", h] => match fromHex h with
      | some bs => match Spec.Leb.sval bs with
          | some v => s!"ok {v}"
          | none => "ok none"
      | none => "bad-op"
  | _ => "bad-op"

def main : IO Unit := mainLoop step
