import PpciVerif.Model.Proto
import PpciVerif.Model.Shape
import PpciVerif.Model.DataSeg
import PpciVerif.Model.FuncTable
import PpciVerif.Spec.IRArith
/-! Line-protocol driver for C23.

  cfg      ::= e<entry> (r | j<t> | c<y>:<n>)*            one term per block, in block order
  skeleton ::= (c<b> | r<n> | B | L | I | E | .)*          instruction stream (`E` else, `.` end)
  shape    ::= N | b<k> | S<k> shape^k | I<b> shape shape | L shape | K<lvl> | C<lvl>

  v <cfg> | <shape> | <skeleton>   → ok <acc|rej> <same|model:<tokens>|err:<Exc>> [| same|inconclusive|differ bits=… cfg=… wasm=…]
        validator verdict on the real skeleton + does Model.compile(shape) reproduce it
  s <shape>                        → ok <tokens…> | err <Exc>        (Model.compile alone)
  d <cfg> | <skeleton> | L K F R maxO → ok same | ok budget | ok differ bits=… cfg=… wasm=…   (L≤12, K≤64, F≤1500, R≤400, at most maxO oracles)
        search all 2^L decision oracles (bit k = k-th conditional jump executed) (then R pseudo-random 48-decision oracles) for one on which the traces differ
  t <cfg> | <skeleton> | <bits> K F → ok cfg=<blocks>/<done> wasm=<kind>:<blocks>
  lay <base> <amount>:<len> …      → ok <addr> … end=<addr>           (Model.DataSeg.layout)
  img <base> <amount>:<hex> … @ <addr> <n>  → ok <hex>                (initial memory image)
  ar <ty> <op> <a> <b>              → ok <v> | ok undef                (Spec.IRArith.binop; op ∈ + - * / % << >> & | ^)
  ac <to-ty> <v>                    → ok <v>                           (Spec.IRArith.cast)
  ft <ids> / <ids> / …              → ok table=[…] slots=[…]          (Model.FuncTable.compileModule; `/` separates functions)
-/
open Proto Model.Shape

def splitBar (ws : List String) : List (List String) :=
  ws.foldr (fun w acc => if w == "|" then [] :: acc else
    match acc with
    | [] => [[w]]
    | x :: r => (w :: x) :: r) [[]]

def tailNat? (s : String) : Option Nat := (String.ofList (s.toList.drop 1)).toNat?

def parseTerm (s : String) : Option Term :=
  match s.toList with
  | ['r'] => some .ret
  | 'j' :: rest => (String.ofList rest).toNat?.map .jmp
  | 'c' :: rest =>
    match (String.ofList rest).splitOn ":" with
    | [a, b] => do
      let y ← a.toNat?
      let n ← b.toNat?
      pure (.cj y n)
    | _ => none
  | _ => none

def parseCfg (ws : List String) : Option Cfg :=
  match ws with
  | e :: ts =>
    if e.toList.head? == some 'e' then do
      let en ← tailNat? e
      let terms ← ts.mapM parseTerm
      pure ⟨en, terms⟩
    else none
  | [] => none

def seqOf : List W → W
  | [] => .skip
  | [a] => a
  | a :: r => .seq a (seqOf r)

/-- parse instructions until `E`, `.` or end of input; returns items and the rest
    (starting at the stop token) -/
partial def parseItems (ws : List String) (acc : List W) : Option (List W × List String) :=
  match ws with
  | [] => some (acc.reverse, [])
  | "E" :: _ => some (acc.reverse, ws)
  | "." :: _ => some (acc.reverse, ws)
  | "B" :: r => do
    let (body, r1) ← parseItems r []
    match r1 with
    | "." :: r2 => parseItems r2 (.block (seqOf body) :: acc)
    | _ => none
  | "L" :: r => do
    let (body, r1) ← parseItems r []
    match r1 with
    | "." :: r2 => parseItems r2 (.loop (seqOf body) :: acc)
    | _ => none
  | "I" :: r => do
    let (y, r1) ← parseItems r []
    match r1 with
    | "E" :: r2 => do
      let (n, r3) ← parseItems r2 []
      match r3 with
      | "." :: r4 => parseItems r4 (.ite (seqOf y) (seqOf n) :: acc)
      | _ => none
    | _ => none
  | w :: r =>
    match w.toList with
    | 'c' :: d => do
      let b ← (String.ofList d).toNat?
      parseItems r (.code b :: acc)
    | 'r' :: d => do
      let n ← (String.ofList d).toNat?
      parseItems r (.br n :: acc)
    | _ => none

def parseW (ws : List String) : Option W :=
  match parseItems ws [] with
  | some (items, []) => some (seqOf items)
  | _ => none

mutual
partial def parseShape (ws : List String) : Option (Shape × List String) :=
  match ws with
  | [] => none
  | "N" :: r => some (.none, r)
  | "L" :: r => do
    let (b, r1) ← parseShape r
    pure (.loop b, r1)
  | w :: r =>
    match w.toList with
    | 'b' :: d => do let k ← (String.ofList d).toNat?; pure (.basic k, r)
    | 'K' :: d => do let k ← (String.ofList d).toNat?; pure (.brk k, r)
    | 'C' :: d => do let k ← (String.ofList d).toNat?; pure (.cont k, r)
    | 'S' :: d => do
      let k ← (String.ofList d).toNat?
      let (ss, r1) ← parseShapes k r []
      pure (.seq ss, r1)
    | 'I' :: d => do
      let b ← (String.ofList d).toNat?
      let (y, r1) ← parseShape r
      let (n, r2) ← parseShape r1
      pure (.ite b y n, r2)
    | _ => none
partial def parseShapes (k : Nat) (ws : List String) (acc : List Shape) : Option (List Shape × List String) :=
  match k with
  | 0 => some (acc.reverse, ws)
  | k+1 => do
    let (s, r) ← parseShape ws
    parseShapes k r (s :: acc)
end

def parseShapeAll (ws : List String) : Option Shape :=
  match parseShape ws with
  | some (s, []) => some s
  | _ => none

def parseBits (s : String) : Option (List Bool) :=
  if s == "-" then some [] else
  s.toList.mapM (fun c => if c == '0' then some false else if c == '1' then some true else none)

/-- decision oracle: the k-th conditional jump executed (0-based) takes bit k
    (this is what the instrumented IR of the harness does with its argument) -/
def oracleOf (g : Cfg) (bits : List Bool) : Oracle := fun h =>
  let k := (h.filter (fun b => match g.term b with | some (.cj _ _) => true | _ => false)).length
  bits.getD (k - 1) false

def showBlocks (h : List Nat) : String := showNatList h.reverse
def showBits (bs : List Bool) : String :=
  if bs.isEmpty then "-" else String.ofList (bs.map (fun b => if b then '1' else '0'))

def showOut : Out → String
  | .fall s => "fall:" ++ showBlocks s.hist
  | .br n s => s!"br{n}:" ++ showBlocks s.hist
  | .ret s => "ret:" ++ showBlocks s.hist
  | .out s => "out:" ++ showBlocks s.hist
  | .stuck s => "stuck:" ++ showBlocks s.hist

def showTrace (t : Trace) : String := showBlocks t.blocks ++ (if t.done then "/ret" else "/run")

/-- search helper only (never used for a verdict): `Model.Shape.exec` that also stops
    once `K` blocks have been executed, so that non-terminating runs are cheap -/
def execK (g : Cfg) (o : Oracle) (K : Nat) : Nat → W → St → Out
  | 0, _, s => .out s
  | _+1, .skip, s => .fall s
  | _+1, .code b, s =>
    if K ≤ s.hist.length then .out s else
    match g.term b with
    | none => .stuck s
    | some .ret => .ret ⟨b :: s.hist, s.conds⟩
    | some (.jmp _) => .fall ⟨b :: s.hist, s.conds⟩
    | some (.cj _ _) => .fall ⟨b :: s.hist, o (b :: s.hist) :: s.conds⟩
  | _+1, .br n, s => .br n s
  | f+1, .seq a b, s =>
    match execK g o K f a s with
    | .fall s' => execK g o K f b s'
    | r => r
  | f+1, .block a, s => unlabel (execK g o K f a s)
  | f+1, .loop a, s =>
    match execK g o K f a s with
    | .br 0 s' => execK g o K f (.loop a) s'
    | .br (n+1) s' => .br n s'
    | r => r
  | f+1, .ite y n, s =>
    match s.conds with
    | [] => .stuck s
    | c :: cs => unlabel (execK g o K f (if c then y else n) ⟨s.hist, cs⟩)

/-- 0 = the two sides agree on this oracle observing `K` blocks, 1 = they differ,
    2 = inconclusive (fuel exhausted before `K` blocks) -/
def judge (r : Out) (g : Cfg) (o : Oracle) (K : Nat) : Nat :=
  match r with
  | .ret s => if cfgTrace g o s.hist.length == ⟨s.hist, true⟩ then 0 else 1
  | .out s =>
    if s.hist.length < K then 2 else
    let t := cfgTrace g o K
    if !t.done && t.blocks == s.hist.drop (s.hist.length - K) then 0 else 1
  | _ => 1

def allBits : Nat → List (List Bool)
  | 0 => [[]]
  | n+1 => (allBits n).flatMap (fun b => [false :: b, true :: b])

/-- pseudo-random bit lists (LCG), for oracles with many decisions -/
def lcgBits (seed len : Nat) : List Bool :=
  ((List.range len).foldl (fun (acc : Nat × List Bool) _ =>
    let x := (acc.1 * 1103515245 + 12345) % 2147483648
    (x, (x / 65536 % 2 == 1) :: acc.2)) (seed * 7919 + 17, [])).2

/-- can the difference be replayed by executing both sides: the CFG run returns and
    the wasm run ends (returns or falls off the end) -/
def replayable (g : Cfg) (w : W) (o : Oracle) (K F : Nat) : Bool :=
  (cfgTrace g o K).done && (match execK g o K F w St.init with | .ret _ => true | .fall _ => true | _ => false)

/-- an oracle on which the sides differ, preferring a replayable one; second component:
    some oracle was inconclusive or the list of oracles was cut by the budget `maxO`.
    Oracles: all `2^L` decision prefixes, then `R` pseudo-random 48-decision oracles, at most
    `maxO` in total.  The runs use `execK` (= `Model.Shape.exec` stopped after `K` blocks, so a
    run costs O((K + F) * size) and never depends on how long the real run would go on). -/
def search (g : Cfg) (w : W) (L K F R maxO : Nat) : Option (List Bool) × Bool :=
  let all := allBits L ++ (List.range R).map (fun i => lcgBits i 48)
  let cut := all.length > maxO
  let r := (all.take maxO).foldl
    (fun (acc : Option (List Bool) × Option (List Bool) × Bool) bits =>
    match acc.2.1 with
    | some _ => acc
    | none =>
      let o := oracleOf g bits
      match judge (execK g o K F w St.init) g o K with
      | 0 => acc
      | 1 =>
        let first := match acc.1 with | some b => some b | none => some bits
        if replayable g w o K F then (first, some bits, acc.2.2) else (first, none, acc.2.2)
      | _ => (acc.1, none, true)) (none, none, cut)
  match r.2.1 with
  | some b => (some b, r.2.2)
  | none => (r.1, r.2.2)

def parseVar (s : String) : Option (Nat × String) :=
  match s.splitOn ":" with
  | [a, b] => do let n ← a.toNat?; pure (n, b)
  | _ => none

def step (line : String) : String :=
  match words line with
  | "v" :: rest =>
    match splitBar rest with
    | [c, sh, sk] =>
      match parseCfg c, parseShapeAll sh, parseW sk with
      | some g, some s, some w =>
        let verdict := if check g w then "acc" else "rej"
        let cmp := match compile s none with
          | .ok w' => if w'.tokens == w.tokens then "same" else "model:" ++ ",".intercalate w'.tokens
          | .error e => "err:" ++ e.name
        -- the two validators must agree whenever the model compiles the shape to the same skeleton
        let cs := if checkShape g s == check g w || cmp != "same" then "" else " checkShape-mismatch"
        -- a rejection is followed at once by a first search for a differing oracle (2^6 decision prefixes)
        let srch := if check g w then "" else
          let F := 150 + 3 * sk.length
          match search g w 6 14 (min F 1500) 0 64 with
          | (none, false) => " | same"
          | (none, true) => " | budget"
          | (some bits, _) =>
            let o := oracleOf g bits
            s!" | differ bits={showBits bits} cfg={showTrace (cfgTrace g o 14)} wasm={showOut (execK g o 14 F w St.init)}"
        s!"ok {verdict} {cmp}{cs}{srch}"
      | _, _, _ => "bad-op"
    | _ => "bad-op"
  | "s" :: rest =>
    match parseShapeAll rest with
    | some s =>
      match compile s none with
      | .ok w => "ok " ++ " ".intercalate w.tokens
      | .error e => "err " ++ e.name
    | none => "bad-op"
  | "d" :: rest =>
    match splitBar rest with
    | [c, sk, [l, k, f, r, mo]] =>
      match parseCfg c, parseW sk, l.toNat?, k.toNat?, f.toNat?, r.toNat?, mo.toNat? with
      | some g, some w, some L, some K, some F, some R, some maxO =>
        match search g w (min L 12) (min K 64) (min F 1500) (min R 400) maxO with
        | (none, false) => "ok same"
        | (none, true) => "ok budget"
        | (some bits, _) =>
          let o := oracleOf g bits
          s!"ok differ bits={showBits bits} cfg={showTrace (cfgTrace g o K)} wasm={showOut (execK g o K F w St.init)}"
      | _, _, _, _, _, _, _ => "bad-op"
    | _ => "bad-op"
  | "t" :: rest =>
    match splitBar rest with
    | [c, sk, [b, k, f]] =>
      match parseCfg c, parseW sk, parseBits b, k.toNat?, f.toNat? with
      | some g, some w, some bits, some K, some F =>
        let o := oracleOf g bits
        s!"ok cfg={showTrace (cfgTrace g o K)} wasm={showOut (execK g o (min K 256) (min F 1500) w St.init)}"
      | _, _, _, _, _ => "bad-op"
    | _ => "bad-op"
  | ["ar", t, o, a, b] =>
    match Spec.IRArith.Ty.all.find? (fun ty => ty.name == t), Spec.IRArith.Op.all.find? (fun op => op.symbol == o), a.toInt?, b.toInt? with
    | some ty, some op, some x, some y =>
      match Spec.IRArith.binop ty op x y with
      | some v => s!"ok {v}"
      | none => "ok undef"
    | _, _, _, _ => "bad-op"
  | ["ac", t, a] =>
    match Spec.IRArith.Ty.all.find? (fun ty => ty.name == t), a.toInt? with
    | some ty, some x => s!"ok {Spec.IRArith.cast ty x}"
    | _, _ => "bad-op"
  | "ft" :: rest =>
    let groups := (splitBar (rest.map (fun w => if w == "/" then "|" else w)))
    match groups.mapM (fun g => g.mapM (fun (w : String) => w.toNat?)) with
    | some uses =>
      let r := Model.FuncTable.compileModule uses
      s!"ok table={showNatList r.1} slots={showNatList r.2}"
    | none => "bad-op"
  | "lay" :: base :: vars =>
    match base.toNat?, vars.mapM parseVar with
    | some b, some vs =>
      match vs.mapM (fun (p : Nat × String) => p.2.toNat?.map (fun l => (⟨p.1, List.replicate l 0⟩ : Model.DataSeg.Var))) with
      | some vl =>
        "ok " ++ " ".intercalate ((Model.DataSeg.layout b vl).map toString) ++ s!" end={Model.DataSeg.endAddr b vl}"
      | none => "bad-op"
    | _, _ => "bad-op"
  | "img" :: base :: rest =>
    match splitBar (rest.map (fun w => if w == "@" then "|" else w)) with
    | [vars, [a, n]] =>
      match base.toNat?, vars.mapM parseVar, a.toNat?, n.toNat? with
      | some b, some vs, some addr, some cnt =>
        match vs.mapM (fun (p : Nat × String) => (fromHex p.2).map (fun d => (⟨p.1, d⟩ : Model.DataSeg.Var))) with
        | some vl =>
          let m := Model.DataSeg.image b vl
          "ok " ++ toHex ((List.range cnt).map (fun i => m (addr + i)))
        | none => "bad-op"
      | _, _, _, _ => "bad-op"
    | _ => "bad-op"
  | _ => "bad-op"

def main : IO Unit := mainLoop step
