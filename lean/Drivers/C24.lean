import PpciVerif.Model.IrPyRun
/-! Line-protocol driver for C24 (model of ppci/lang/python/ir2py.py); the operations are
    described in `PpciVerif/Model/IrPyRun.lean`. -/
def main : IO Unit := Proto.mainLoop Model.IrPyRun.step
