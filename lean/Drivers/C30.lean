import PpciVerif.Model.Proto
import PpciVerif.Model.OrderedSet
import PpciVerif.Spec.OrderedSet
/-! Line-protocol driver for C30 (OrderedSet).

  hist <op>* ? <int list>     run the history on Model.OrderedSet; reply one state per op
                              `K[..]n` / `-[..]n` (K = the op raised KeyError, list(self), len(self)),
                              then `|` and the observations with the query list Q:
                              rev[..] get[..] has[..] or[..] and[..] sub[..] xor[..]
  spec <op>*                  the same history on Spec.OrderedSet: `K[..]` / `-[..]` per op

ops: a<v> add  d<v> discard  r<v> remove  p pop  c clear  |[..] &[..] -[..] ^[..] in-place with a list,
     |s &s -s ^s in-place with the set itself,  i[..] OrderedSet(iterable) -/
open Proto

def parseOp (tok : String) : Option Model.OrderedSet.Op :=
  match tok.toList with
  | ['p'] => some .pop
  | ['c'] => some .clear
  | ['|', 's'] => some .iorSelf
  | ['&', 's'] => some .iandSelf
  | ['-', 's'] => some .isubSelf
  | ['^', 's'] => some .ixorSelf
  | 'a' :: cs => (String.ofList cs).toInt?.map .add
  | 'd' :: cs => (String.ofList cs).toInt?.map .discard
  | 'r' :: cs => (String.ofList cs).toInt?.map .remove
  | '|' :: cs => (intList? (String.ofList cs)).map .ior
  | '&' :: cs => (intList? (String.ofList cs)).map .iand
  | '-' :: cs => (intList? (String.ofList cs)).map .isub
  | '^' :: cs => (intList? (String.ofList cs)).map .ixor
  | 'i' :: cs => (intList? (String.ofList cs)).map .init
  | _ => none

def toSpecOp : Model.OrderedSet.Op → Spec.OrderedSet.Op
  | .add v => .add v | .discard v => .discard v | .remove v => .remove v | .pop => .pop | .clear => .clear
  | .ior l => .ior l | .iand l => .iand l | .isub l => .isub l | .ixor l => .ixor l
  | .iorSelf => .iorSelf | .iandSelf => .iandSelf | .isubSelf => .isubSelf | .ixorSelf => .ixorSelf
  | .init l => .init l

def showIter (s : Model.OrderedSet.OSet) : String :=
  match Model.OrderedSet.iter s with
  | .ok l => showIntList l
  | .error e => "!" ++ e.name

def histModel (ops : List Model.OrderedSet.Op) (q : List Int) : String :=
  let (s, outs) := ops.foldl (fun (acc : Model.OrderedSet.OSet × List String) op =>
    let (s', e) := Model.OrderedSet.apply acc.1 op
    (s', acc.2 ++ [(match e with | some _ => "K" | none => "-") ++ showIter s' ++ toString (Model.OrderedSet.len s')]))
    (Model.OrderedSet.empty, [])
  let n : Int := (Model.OrderedSet.toList s).length
  let gets := ((List.range ((Model.OrderedSet.toList s).length + 3)).map (fun (i : Nat) => Int.ofNat i - 1)).map (fun i =>
    match Model.OrderedSet.getItem s i with
    | some v => toString v
    | none => "N")
  let has := q.map (fun v => if Model.OrderedSet.contains s v then "t" else "f")
  " ".intercalate outs ++ " | rev" ++ showIntList (Model.OrderedSet.reversed s)
    ++ " get[" ++ ",".intercalate gets ++ "]"
    ++ " has[" ++ ",".intercalate has ++ "]"
    ++ " or" ++ showIntList (Model.OrderedSet.orList s q)
    ++ " and" ++ showIntList (Model.OrderedSet.andList s q)
    ++ " sub" ++ showIntList (Model.OrderedSet.subList s q)
    ++ " xor" ++ showIntList (Model.OrderedSet.xorList s q)
    ++ s!" n{n}"

def histSpec (ops : List Model.OrderedSet.Op) : String :=
  let (_, outs) := ops.foldl (fun (acc : List Int × List String) op =>
    let (l', e) := Spec.OrderedSet.apply acc.1 (toSpecOp op)
    (l', acc.2 ++ [(if e then "K" else "-") ++ showIntList l']))
    ([], [])
  " ".intercalate outs

def splitAtQ (ws : List String) : List String × List String :=
  (ws.takeWhile (· ≠ "?"), (ws.dropWhile (· ≠ "?")).drop 1)

def step (line : String) : String :=
  match words line with
  | "hist" :: rest =>
    let (opsW, qW) := splitAtQ rest
    match opsW.mapM parseOp, qW with
    | some ops, [q] => match intList? q with
      | some ql => "ok " ++ histModel ops ql
      | none => "bad-op"
    | _, _ => "bad-op"
  | "spec" :: rest =>
    match rest.mapM parseOp with
    | some ops => "ok " ++ histSpec ops
    | none => "bad-op"
  | _ => "bad-op"

def main : IO Unit := mainLoop step
