import PpciVerif.Model.CodegenProto
/-! Line-protocol driver for C04 (see `Model/CodegenProto.lean` for the operations: `peep`, `alloc`, …). -/
def main : IO Unit := Proto.mainLoopS Model.CodegenProto.Mach.init Model.CodegenProto.step'
