import PpciVerif.Model.Proto
import PpciVerif.Spec.RV32
import PpciVerif.Model.RVEnc
import PpciVerif.Model.RVAnnot
import PpciVerif.Gen.RVAnnot
/-! Line-protocol driver for C07.

  uncovered            → ok <Class,...|->   classes whose row of the regenerated table does not cover the
                                            footprint of their instruction at the generic operand tuple
  row <Class>          → ok <name:kind:slot:r:w,...|-> | ok none      the table row
  decl <Class> <a> <b> <c>            → ok reads=<n,..|-> writes=<n,..|->   declared sets per the table
  probe <hex bytes> <reads n,..|-> <writes n,..|-> <implicitSp 0|1>
       → ok held <text> | ok writes-undeclared x<r> <text> | ok reads-undeclared x<r> <text> | ok none
       decode the REAL bytes (Spec.RV32), execute them on probe states (Spec.RV32.step) and look for a
       concrete counterexample to the declared sets: a register outside `writes` that changes, or a
       register outside `reads` whose value changes pc / memory / CSRs / a written register. -/
open Proto Spec.RV32 Model.RVEnc Model.RVAnnot

def tied : Cls → Bool
  | .CSlli | .CSrli | .CSrai | .CAndi => true
  | _ => false
def genFor (c : Cls) : Ops := if tied c then ⟨1001, 1001, 1003, 0⟩ else ⟨1001, 1002, 1003, 0⟩

def natsStr (xs : List Nat) : String := if xs.isEmpty then "-" else ",".intercalate (xs.map toString)
def nats? (s : String) : Option (List Nat) := if s == "-" then some [] else (s.splitOn ",").mapM (·.toNat?)
def wordLE (bs : List Nat) : Nat := bs.foldr (fun b acc => b + 256 * acc) 0

def baseState : State :=
  ⟨fun r => (0x01010101 * r + 0x00345678) % W, 0x00010000, fun a => (a * 7 + 3) % 256, fun c => (c * 0x10001 + 5) % W⟩

def flipReg (s : State) (r : Nat) : State := { s with regs := fun i => if i = r then (s.regs i + 0x00100010) % W else s.regs i }

/-- the addresses a store of `i` touches in state `s` -/
def storeAddrs (s : State) : Instr → List Nat
  | .store _ _ rs1 off => (List.range 4).map (fun k => (addOff (s.get rs1) off + k) % W)
  | _ => []

def csrOf : Instr → List Nat
  | .csr _ _ _ c => [c]
  | .csri _ _ _ c => [c]
  | .mret => [mepc]
  | _ => []

def sameOn (i : Instr) (a b : State) (addrs : List Nat) : Bool :=
  a.pc == b.pc && addrs.all (fun x => a.mem x == b.mem x) && (csrOf i).all (fun c => a.csr c == b.csr c)
  && (Instr.writes i).all (fun r => a.get r == b.get r)

def probe (i : Instr) (len : Nat) (reads writes : List Nat) (impSp : Bool) : String :=
  match step baseState i len with
  | none => "held"
  | some s' =>
    match (List.range 32).find? (fun r => r != 0 && !writes.contains r && s'.get r != baseState.get r) with
    | some r => s!"writes-undeclared x{r}"
    | none =>
      let bad := (List.range 32).find? (fun r =>
        r != 0 && !reads.contains r && !(impSp && r == 2) &&
        (let s2 := flipReg baseState r
         match step s2 i len with
         | none => true
         | some t' => !sameOn i s' t' (storeAddrs baseState i ++ storeAddrs s2 i)))
      match bad with
      | some r => s!"reads-undeclared x{r}"
      | none => "held"

def step1 (line : String) : String :=
  match words line with
  | ["uncovered"] =>
    let bad := Cls.all.filter (fun c =>
      match lookupRow Gen.RVAnnot.table c with
      | some row => !covers row c (genFor c)
      | none => true)
    "ok " ++ (if bad.isEmpty then "-" else ",".intercalate (bad.map Cls.pyName))
  | ["classes"] => "ok " ++ ",".intercalate (Cls.all.map Cls.pyName)
  | ["row", cn] =>
    match Cls.ofName cn with
    | some c =>
      (match lookupRow Gen.RVAnnot.table c with
       | some row => "ok " ++ (if row.isEmpty then "-" else ",".intercalate (row.map (fun r =>
           s!"{r.1}:{r.2.1}:{r.2.2.1}:{if r.2.2.2.1 then 1 else 0}:{if r.2.2.2.2 then 1 else 0}")))
       | none => "ok none")
    | none => "bad-op"
  | ["decl", cn, a, b, c] =>
    match Cls.ofName cn, nat? a, nat? b, nat? c with
    | some cls, some a, some b, some c =>
      (match lookupRow Gen.RVAnnot.table cls with
       | some row =>
         let o : Ops := { a := a, b := b, c := c, imm := 0 }
         s!"ok reads={natsStr (declReads row o)} writes={natsStr (declWrites row o)}"
       | none => "ok none")
    | _, _, _, _ => "bad-op"
  | ["probe", h, rs, ws, sp] =>
    match fromHex h, nats? rs, nats? ws with
    | some bs, some rs, some ws =>
      (match decodeAny bs.length (wordLE bs) with
       | some m =>
         let txt := match m with | .base i => pretty i | .comp c => prettyC c
         "ok " ++ probe m.instr bs.length rs ws (sp == "1") ++ " " ++ txt
       | none => "ok none")
    | _, _, _ => "bad-op"
  | _ => "bad-op"

def main : IO Unit := mainLoop step1
