import PpciVerif.Model.IRJsonRun
/-! Line-protocol driver for C16 (IR JSON serialisation); the engine is `Model.IRJsonRun`. -/
def main : IO Unit := Proto.mainLoop Model.IRJsonRun.step
