import PpciVerif.Model.Proto
import PpciVerif.Model.Py2Ir
import PpciVerif.Model.Py2IrSem
import PpciVerif.Spec.Py
import PpciVerif.Spec.IRParse
/-! Line-protocol driver for C36.

  gen (fn (params (NAME ANNOT)*) ANNOT|none STMT)   -> ok <blocks> | err <PythonExceptionName>
  arith <AstOp> a b     what the emitted i64 code for `a <op> b` computes (Spec.IRArith): ok v | ok undefined | err …
  pybinop <AstOp> a b   CPython's result (Spec.Py): ok int v | ok quot a b | ok ZeroDivisionError
  pycmp <AstCmp> a b    Spec.Py comparison: ok 0|1
  ircmp <AstCmp> a b    the CJump condition chosen by the model, evaluated by Spec.IR: ok 0|1 | err KeyError

  STMT := (pass) | (ret) | (ret E) | (assign X E) | (tuple (X*) (E*)) | (aug X OP E) | (expr E)
        | (if C S S) | (while C S) | (for X (E) S) | (for X (E E) S) | (break) | (continue) | (seq S S)
  E := (num INT) | (fnum BITS) | (name X) | (bin OP E E) | (other)
  C := (cmp OP E E) | (and C C) | (or C C) | (other)
-/
open Proto Model.Py2Ir
open Spec.IRParse (Sexp parseSexp)

namespace C36

partial def pExpr : Sexp → Option PExpr
  | .list [.atom "num", .atom v] => v.toInt?.map .num
  | .list [.atom "fnum", .atom v] => v.toNat?.map .fnum
  | .list [.atom "name", .atom x] => some (.name x)
  | .list [.atom "bin", .atom op, a, b] => do pure (.binop op (← pExpr a) (← pExpr b))
  | .list [.atom "other"] => some .other
  | _ => none

partial def pCond : Sexp → Option PCond
  | .list [.atom "cmp", .atom op, a, b] => do pure (.cmp op (← pExpr a) (← pExpr b))
  | .list [.atom "and", a, b] => do pure (.and (← pCond a) (← pCond b))
  | .list [.atom "or", a, b] => do pure (.or (← pCond a) (← pCond b))
  | .list [.atom "other"] => some .other
  | _ => none

def pName : Sexp → Option String
  | .atom x => some x
  | _ => none

partial def pStmt : Sexp → Option PStmt
  | .list [.atom "pass"] => some .pass
  | .list [.atom "ret"] => some (.ret none)
  | .list [.atom "ret", e] => do pure (.ret (some (← pExpr e)))
  | .list [.atom "assign", .atom x, e] => do pure (.assign x (← pExpr e))
  | .list [.atom "tuple", .list xs, .list es] => do pure (.tupleAssign (← xs.mapM pName) (← es.mapM pExpr))
  | .list [.atom "aug", .atom x, .atom op, e] => do pure (.aug x op (← pExpr e))
  | .list [.atom "expr", e] => do pure (.expr (← pExpr e))
  | .list [.atom "if", c, a, b] => do pure (.ifs (← pCond c) (← pStmt a) (← pStmt b))
  | .list [.atom "while", c, a] => do pure (.whiles (← pCond c) (← pStmt a))
  | .list [.atom "for", .atom x, .list [hi], a] => do pure (.fors x none (← pExpr hi) (← pStmt a))
  | .list [.atom "for", .atom x, .list [lo, hi], a] => do pure (.fors x (some (← pExpr lo)) (← pExpr hi) (← pStmt a))
  | .list [.atom "break"] => some .brk
  | .list [.atom "continue"] => some .cont
  | .list [.atom "seq", a, b] => do pure (.seq (← pStmt a) (← pStmt b))
  | _ => none

/-- `get_ty(annotation)`: `none` = procedure; unknown names are a CompilerError -/
def pAnnot (s : String) : Except Err (Option Ty) :=
  if s = "none" then .ok none
  else match lookup s typeMapping with
    | some t => .ok (some t)
    | none => .error .compilerError

def pParams : List Sexp → Option (List (String × String))
  | [] => some []
  | .list [.atom x, .atom t] :: r => do pure ((x, t) :: (← pParams r))
  | _ => none

def genLine (s : String) : String :=
  match parseSexp s with
  | some (.list [.atom "fn", .list (.atom "params" :: ps), .atom ret, body]) =>
    match pParams ps, pStmt body with
    | some params, some b =>
      -- gen_function: the return annotation is resolved first, then each parameter
      match pAnnot ret with
      | .error e => "err " ++ e.name
      | .ok rt =>
        let ptys := params.mapM (fun (x, t) => match pAnnot t with
          | .ok (some ty) => Except.ok (x, ty)
          | .ok none => Except.error Err.compilerError     -- not reachable from the harness
          | .error e => Except.error e)
        match ptys with
        | .error e => "err " ++ e.name
        | .ok pt =>
          match genFunction pt rt b with
          | .ok bs => "ok " ++ showFunc bs
          | .error e => "err " ++ e.name
    | _, _ => "bad-op"
  | _ => "bad-op"

def pyOp? (s : String) : Option Spec.Py.BinOp := Spec.Py.BinOp.all.find? (fun o => o.astName = s)
def pyCmp? (s : String) : Option Spec.Py.CmpOp := Spec.Py.CmpOp.all.find? (fun o => o.astName = s)

def step (line : String) : String :=
  match words line with
  | "gen" :: _ => genLine ((line.trimAscii.toString.drop 3).toString)
  | ["arith", op, a, b] =>
    match int? a, int? b with
    | some x, some y =>
      match runArith op x y with
      | .ok (some v) => s!"ok {v}"
      | .ok none => "ok undefined"
      | .error e => "err " ++ e.name
    | _, _ => "bad-op"
  | ["pybinop", op, a, b] =>
    match pyOp? op, int? a, int? b with
    | some o, some x, some y =>
      match Spec.Py.binop o x y with
      | .int v => s!"ok int {v}"
      | .quot p q => s!"ok quot {p} {q}"
      | .zeroDivisionError => "ok ZeroDivisionError"
    | _, _, _ => "bad-op"
  | ["pycmp", op, a, b] =>
    match pyCmp? op, int? a, int? b with
    | some o, some x, some y => if o.holds x y then "ok 1" else "ok 0"
    | _, _, _ => "bad-op"
  | ["ircmp", op, a, b] =>
    match int? a, int? b with
    | some x, some y =>
      match lookup op cmpMap with
      | none => "err KeyError"
      | some sym =>
        match Spec.IR.Cond.all.find? (fun c => c.symbol = sym) with
        | none => "err ValueError"
        | some c =>
          match Spec.IR.evalCond c (.int x) (.int y) with
          | .ok true => "ok 1"
          | .ok false => "ok 0"
          | .error _ => "err UB"
    | _, _ => "bad-op"
  | _ => "bad-op"

end C36

def main : IO Unit := mainLoop C36.step
