import PpciVerif.Model.IRTextRun
/-! Line-protocol driver for C15 (IR text format); the engine is `Model.IRTextRun`. -/
def main : IO Unit := Proto.mainLoopS ({} : Model.IRTextRun.St) Model.IRTextRun.step
