import PpciVerif.Model.Proto
import PpciVerif.Model.Token
import PpciVerif.Model.Encode
import PpciVerif.Model.Reloc
import PpciVerif.Spec.Field
import PpciVerif.Spec.RelocSem
import PpciVerif.Gen.Tokens
import PpciVerif.Gen.Instrs
/-! Line-protocol driver for C10 (also used by C11 for the relocation oracle).

  tset   <isa> <token> <field> <bit_value> <value>   model of setattr(token, field, value)        → ok <bit_value'> | err E
  tget   <isa> <token> <field> <bit_value>           model of getattr(token, field)                → ok <raw>
  tdec   <isa> <token> <field> <raw>                 SPEC: raw bits read under the declaration     → ok <int>
  tfits  <isa> <token> <field> <value>               SPEC: value representable in the field        → ok true|false
  tpack  <isa> <token> <bit_value>                   → ok <hex>          tunpack <isa> <token> <hex> → ok <bit_value>
  rapply <isa> <reloc> <addend> <S> <hex> <P>        model of Relocation.apply                     → ok <hex> | err E
  canshrink <S> <P>                                  model of CBImm11/CBlImm11Relocation.can_shrink               → ok true|false | err E
  rtarget <isa> <reloc> <hex> <P>                    SPEC: address designated by the relocated bytes → ok <int>|none
  rrep   <isa> <reloc> <S> <A> <P>                   SPEC: representable                           → ok true|false
  rhilo  <hexhi> <hexlo>                             SPEC: value of a riscv hi/lo instruction pair → ok <int>
  ruval/riimm <hex>                                  SPEC: U-type value / sign-extended I immediate
  enc    <isa> <flat>                                model of Instruction.encode (declarative)     → ok <hex> | err E
  encget <isa> <flat> <field>                        raw field of the token sequence after encode  → ok <raw>
  isaok  <isa>                                       the decidable table condition                 → ok true|false <failing…>
  never  <isa>                                       covered classes that can never encode
  counts <isa>                                       → ok <covered> <total>
  wf     <isa>                                       every token class well formed                 → ok true|false
  flat = Cls:k=v,k=v;Cls:…  (non-leaves in order; `Cls:` for no values)
-/
open Proto Model.Tables Model.Token Model.Encode

def showE {α} (f : α → String) : Except Err α → String
  | .ok a => "ok " ++ f a
  | .error e => "err " ++ e.name

def tokensOf (isa : String) : Option (List TokenDesc) := (Gen.Tokens.all.find? (·.1 == isa)).map (·.2)
def instrsOf (isa : String) : Option (List InstrDesc) := (Gen.Instrs.all.find? (·.1 == isa)).map (·.2)

def fieldOf (isa tok fld : String) : Option (TokenDesc × FieldDesc) := do
  let tt ← tokensOf isa
  let t ← findToken tt tok
  let f ← findField t fld
  pure (t, f)

def parseKV (s : String) : Option (String × Int) :=
  match s.splitOn "=" with
  | [k, v] => (int? v).map (fun x => (k, x))
  | _ => none

def parseNode (is : List InstrDesc) (s : String) : Option (InstrDesc × Vals) :=
  match s.splitOn ":" with
  | [c, kv] => do
    let cd ← findInstr is c
    let vals ← if kv.isEmpty then some [] else (kv.splitOn ",").mapM parseKV
    pure (cd, vals)
  | _ => none

def parseFlat (is : List InstrDesc) (s : String) : Option (List (InstrDesc × Vals)) :=
  (s.splitOn ";").mapM (parseNode is)

def showB (b : Bool) : String := if b then "true" else "false"

def step (line : String) : String :=
  match words line with
  | ["tset", isa, tok, fld, bv, v] =>
    match fieldOf isa tok fld, nat? bv, int? v with
    | some (t, f), some b, some x => showE toString (setField t.size f b x)
    | _, _, _ => "bad-op"
  | ["tget", isa, tok, fld, bv] =>
    match fieldOf isa tok fld, nat? bv with
    | some (_, f), some b => showE toString (getField f b)
    | _, _ => "bad-op"
  | ["tdec", isa, tok, fld, raw] =>
    match fieldOf isa tok fld, int? raw with
    | some (_, f), some r => s!"ok {Spec.Field.decode f.signed (width f) r}"
    | _, _ => "bad-op"
  | ["tfits", isa, tok, fld, v] =>
    match fieldOf isa tok fld, int? v with
    | some (_, f), some x => "ok " ++ showB (decide (Spec.Field.fits f.signed (width f) x))
    | _, _ => "bad-op"
  | ["tpack", isa, tok, bv] =>
    match (tokensOf isa).bind (findToken · tok), nat? bv with
    | some t, some b => "ok " ++ toHex (pack t.size t.bigEndian b)
    | _, _ => "bad-op"
  | ["tunpack", isa, tok, h] =>
    match (tokensOf isa).bind (findToken · tok), fromHex h with
    | some t, some bs => showE toString (unpack t.size t.bigEndian bs)
    | _, _ => "bad-op"
  | ["rapply", isa, name, a, s, h, p] =>
    match int? a, int? s, fromHex h, int? p with
    | some a, some s, some bs, some p =>
      match Model.Reloc.apply isa name a s bs p with
      | some r => showE toHex r
      | none => "bad-op"
    | _, _, _, _ => "bad-op"
  | ["canshrink", s, p] =>
    match int? s, int? p with
    | some s, some p => showE showB (Model.Reloc.Rvc.canShrink s p)
    | _, _ => "bad-op"
  | ["rtarget", isa, name, h, p] =>
    match fromHex h, int? p with
    | some bs, some p =>
      match Spec.RelocSem.decodeTarget isa name bs p with
      | some t => s!"ok {t}"
      | none => "ok none"
    | _, _ => "bad-op"
  | ["rrep", isa, name, s, a, p] =>
    match int? s, int? a, int? p with
    | some s, some a, some p =>
      match Spec.RelocSem.representable isa name s a p with
      | some b => "ok " ++ showB b
      | none => "bad-op"
    | _, _, _ => "bad-op"
  | ["rhilo", hh, hl] =>
    match fromHex hh, fromHex hl with
    | some a, some b => s!"ok {Spec.RelocSem.rvHiLo (Spec.RelocSem.wordLE a) (Spec.RelocSem.wordLE b)}"
    | _, _ => "bad-op"
  | ["ruval", h] =>
    match fromHex h with
    | some a => s!"ok {Spec.RelocSem.rvUValue (Spec.RelocSem.wordLE a)}"
    | none => "bad-op"
  | ["riimm", h] =>
    match fromHex h with
    | some a => s!"ok {Spec.RelocSem.rvIImm (Spec.RelocSem.wordLE a)}"
    | none => "bad-op"
  | ["enc", isa, flat] =>
    match tokensOf isa, instrsOf isa with
    | some tt, some is =>
      match parseFlat is flat with
      | some fl => showE toHex (encode tt fl)
      | none => "bad-op"
    | _, _ => "bad-op"
  | ["encget", isa, flat, fld] =>
    match tokensOf isa, instrsOf isa with
    | some tt, some is =>
      match parseFlat is flat with
      | some fl =>
        match encodeTokens tt fl with
        | .error e => "err " ++ e.name
        | .ok ts => showE toString (seqGet ts fld)
      | none => "bad-op"
    | _, _ => "bad-op"
  | ["isaok", isa] =>
    match tokensOf isa, instrsOf isa with
    | some tt, some is => "ok " ++ showB (isaOK tt is) ++ " " ++ ",".intercalate (failing tt is)
    | _, _ => "bad-op"
  | ["never", isa] =>
    match tokensOf isa, instrsOf isa with
    | some tt, some is => "ok " ++ ",".intercalate (neverEncodes tt is)
    | _, _ => "bad-op"
  | ["counts", isa] =>
    match instrsOf isa with
    | some is => s!"ok {(is.filter covered).length} {is.length}"
    | none => "bad-op"
  | ["wf", isa] =>
    match tokensOf isa with
    | some tt => "ok " ++ showB (tt.all wfToken)
    | none => "bad-op"
  | _ => "bad-op"

def main : IO Unit := mainLoop step
