import PpciVerif.Model.Proto
import PpciVerif.Model.RelaxProto
/-! Line-protocol driver for C13 (linker relaxation).  The protocol (requests `relax`, `finish`, `plain`,
`insn`, `target`, `hilo`, `spec`, `remove`, `table`, `run`) is documented and implemented in
`PpciVerif/Model/RelaxProto.lean` (imports Model/Spec/Gen only). -/
def main : IO Unit := Proto.mainLoop Model.RelaxProto.step
