import PpciVerif.Model.Proto
import PpciVerif.Model.Dom
import PpciVerif.Model.LT
import PpciVerif.Spec.Graph
/-! Implementation of the line-protocol driver for C25 (kept in a separate, pre-compiled module so that
`lean --run Drivers/C25.lean` has nothing to elaborate).

Graph syntax: `n` = number of nodes, adjacency as one word `s:<row0>;<row1>;…`
(`<row>` = comma separated node numbers, may be empty), successor rows in the
iteration order of the real Python sets.  Node sets are bit masks.

  D <n> <entry> <succ> <pred> <idom>   dominator side.  `<idom>` = the REAL idom map (`[-1,0,0]`, -1 = none)
      reply: ok wf=<0|1> chk=<0|1> idom=[..] dom=[..] df=[..] reach=[..]     (Spec, by definition; chk = Spec.checkIdom on the real map)
             m.lt=<[..]|err:..> m.dfnum=.. m.parent=.. m.semi=..              (Model.LT)
             m.intv=<[d0,f0,d1,f1,..]|none> m.df=<[..]|none> m.reach=<[..]|none>   (Model.Dom on the REAL idom map)
      dom[d]  = mask of the v that d dominates;  df[x] = mask of DF(x);  reach[u] = mask of nodes reachable by ≥ 1 edge
  P <n> <exit> <succ>                  post-dominator side
      reply: ok wf=.. rx=<mask of nodes that reach the exit> pdom=[..] ipdom=[..] m.pdom=<[..]|none> m.ipdom=[..] l.pdom=<[..]|none>
      pdom[v] = mask of the post-dominators of v (Spec); ipdom: -1 none, -2 missing key, -3 assertion
-/
open Proto Spec.Graph
namespace Drivers.C25Impl

def rows? (w : String) : Option (List (List Nat)) :=
  match w.toList with
  | 's' :: ':' :: rest =>
    ((String.ofList rest).splitOn ";").mapM fun r =>
      if r.isEmpty then some [] else (r.splitOn ",").mapM (·.toNat?)
  | _ => none

def optList? (w : String) : Option (List (Option Nat)) := do
  let xs ← intList? w
  pure (xs.map fun x => if x < 0 then none else some x.toNat)

def showOpt (xs : List (Option Nat)) : String :=
  showIntList (xs.map fun | some x => (x : Int) | none => -1)

def showOptMasks : Option (List Nat) → String
  | some xs => showNatList xs
  | none => "none"

def maskOfPred (n : Nat) (p : Nat → Bool) : Nat :=
  (List.range n).foldl (fun a v => if p v then a ||| (1 <<< v) else a) 0

def stepD (n e : Nat) (succ pred : List (List Nat)) (ridom : List (Option Nat)) : String :=
  let g : Digraph := ⟨n, succ⟩
  let wf := decide g.WF
  let tab := domTable g e
  let r := reachSet g none e
  let chk := checkIdom g e ridom
  let idomS := (List.range n).map (idomT g e tab r)
  let domS := (List.range n).map fun d => maskOfPred n (domT tab r d)
  let ptab := predTable g
  let dfS := (List.range n).map fun x => maskOfPred n (dfT ptab tab r x)
  let reachS := (List.range n).map (reachPlusSet g)
  let lt := Model.LT.compute n succ pred e
  let ltS := match lt with
    | .ok o => s!"m.lt={showOpt o.idom} m.dfnum={showOpt o.dfnum} m.parent={showOpt o.parent} m.semi={showOpt o.semi}"
    | .error err => s!"m.lt=err:{err} m.dfnum=- m.parent=- m.semi=-"
  let ch := Model.Dom.childrenOf n ridom
  let intv := match Model.Dom.numberTree n ch e with
    | some iv => showIntList (iv.flatMap fun (o : Option (Nat × Nat)) => match o with | some (a, b) => [(a : Int), (b : Int)] | none => [-1, -1])
    | none => "none"
  let df := match Model.Dom.dominanceFrontier n succ ridom e with
    | some d => showIntList (d.map fun (o : Option Nat) => match o with | some m => (m : Int) | none => -1)
    | none => "none"
  let reach := showOptMasks (Model.Dom.reach n succ)
  s!"ok wf={if wf then 1 else 0} chk={if chk then 1 else 0} idom={showOpt idomS} dom={showNatList domS} df={showNatList dfS} reach={showNatList reachS} {ltS} m.intv={intv} m.df={df} m.reach={reach}"

def showIpdom (xs : List Model.Dom.Ipdom) : String :=
  showIntList (xs.map fun | .none_ => -1 | .node x => (x : Int) | .missing => -2 | .assertion => -3)

def stepP (n x : Nat) (succ : List (List Nat)) : String :=
  let g : Digraph := ⟨n, succ⟩
  let wf := decide g.WF
  let gr := g.rev
  let tab := domTable gr x
  let r := reachSet gr none x
  let pdomS := (List.range n).map fun v => maskOfPred n (fun d => domT tab r d v)
  let ipdomS := (List.range n).map (idomT gr x tab r)
  let mp := Model.Dom.postDominators n succ x
  let mi := match mp with
    | some pd => showIpdom (Model.Dom.immediatePostDominators n pd)
    | none => "none"
  let lp := Model.Dom.postDominatorsLegacy n succ x
  s!"ok wf={if wf then 1 else 0} rx={r} pdom={showNatList pdomS} ipdom={showOpt ipdomS} m.pdom={showOptMasks mp} m.ipdom={mi} l.pdom={showOptMasks lp}"

def step (line : String) : String :=
  match words line with
  | ["D", n, e, s, p, i] =>
    match nat? n, nat? e, rows? s, rows? p, optList? i with
    | some n, some e, some s, some p, some i => stepD n e s p i
    | _, _, _, _, _ => "bad-op"
  | ["P", n, x, s] =>
    match nat? n, nat? x, rows? s with
    | some n, some x, some s => stepP n x s
    | _, _, _ => "bad-op"
  | _ => "bad-op"

end Drivers.C25Impl
