import PpciVerif.Model.OptRun
/-! Line-protocol driver for C02 (optimizer preserves IR behaviour): reference IR semantics `Spec.IR`
    (load / wf / run …) and the pass models `Model.Opt` (`pass <name>`); engine in `PpciVerif/Model/OptRun.lean`. -/
def main : IO Unit := Proto.mainLoopS ({} : Model.OptRun.St) Model.OptRun.step
