import PpciVerif.Model.Proto
import PpciVerif.Model.Burg
import PpciVerif.Gen.Burg_x86_64
import PpciVerif.Gen.Burg_arm
import PpciVerif.Gen.Burg_thumb
import PpciVerif.Gen.Burg_riscv
import PpciVerif.Gen.Burg_rvc
/-! Line-protocol driver for C29.

  cover <target> <node>*     label a tree with Model.Burg on the regenerated tables of <target>
                             node = NAME/<number of kids>/<accepted conditional rule numbers, comma separated, or ->
                             in preorder.   reply: ok ws=<0|1> wsr=<0|1> cov=<0|1>
                             (well-sorted in the full alphabet / in the certified alphabet / has goal stm)
  failing <target>           heads of the full alphabet without an unconditional flat witness rule
                             (certificate-free recomputation)                reply: ok A,B,C | ok -
  tables <target>            reply: ok rules=<n> sig=<n> sigR=<n> excluded=<n>
-/
open Proto Model.Burg

structure Tables where
  termNames : List String
  rules : List Rule
  sig : List Sym
  sigR : List Sym
  guar : List (Nat × List Nat)
  excluded : List Nat
  stmSort : Nat
  stmNt : Nat

def tablesOf : String → Option Tables
  | "x86_64" => some ⟨Gen.Burg_x86_64.termNames, Gen.Burg_x86_64.rules, Gen.Burg_x86_64.sig, Gen.Burg_x86_64.sigR,
      Gen.Burg_x86_64.guar, Gen.Burg_x86_64.excluded, Gen.Burg_x86_64.stmSort, Gen.Burg_x86_64.stmNt⟩
  | "arm" => some ⟨Gen.Burg_arm.termNames, Gen.Burg_arm.rules, Gen.Burg_arm.sig, Gen.Burg_arm.sigR,
      Gen.Burg_arm.guar, Gen.Burg_arm.excluded, Gen.Burg_arm.stmSort, Gen.Burg_arm.stmNt⟩
  | "thumb" => some ⟨Gen.Burg_thumb.termNames, Gen.Burg_thumb.rules, Gen.Burg_thumb.sig, Gen.Burg_thumb.sigR,
      Gen.Burg_thumb.guar, Gen.Burg_thumb.excluded, Gen.Burg_thumb.stmSort, Gen.Burg_thumb.stmNt⟩
  | "riscv" => some ⟨Gen.Burg_riscv.termNames, Gen.Burg_riscv.rules, Gen.Burg_riscv.sig, Gen.Burg_riscv.sigR,
      Gen.Burg_riscv.guar, Gen.Burg_riscv.excluded, Gen.Burg_riscv.stmSort, Gen.Burg_riscv.stmNt⟩
  | "rvc" => some ⟨Gen.Burg_rvc.termNames, Gen.Burg_rvc.rules, Gen.Burg_rvc.sig, Gen.Burg_rvc.sigR,
      Gen.Burg_rvc.guar, Gen.Burg_rvc.excluded, Gen.Burg_rvc.stmSort, Gen.Burg_rvc.stmNt⟩
  | _ => none

/-- terminal id of a name; a name the tables do not know gets an id no rule and no symbol uses -/
def termId (names : List String) (n : String) : Nat :=
  match names.idxOf? n with
  | some i => i
  | none => names.length + 1000

def accOf (s : String) : Option (List Nat) :=
  if s == "-" then some [] else (s.splitOn ",").mapM (·.toNat?)

mutual
partial def parseTree (names : List String) : List String → Option (Tree × List String)
  | [] => none
  | tok :: rest =>
    match tok.splitOn "/" with
    | [nm, k, acc] => do
        let k ← k.toNat?
        let acc ← accOf acc
        let (kids, rest') ← parseKids names k rest
        pure (.node (termId names nm) acc kids, rest')
    | _ => none
partial def parseKids (names : List String) : Nat → List String → Option (List Tree × List String)
  | 0, toks => some ([], toks)
  | k + 1, toks => do
      let (t, rest) ← parseTree names toks
      let (ts, rest') ← parseKids names k rest
      pure (t :: ts, rest')
end

def b2s (b : Bool) : String := if b then "1" else "0"

def step (line : String) : String :=
  match words line with
  | "cover" :: tgt :: toks =>
    match tablesOf tgt with
    | none => "bad-op"
    | some T =>
      match parseTree T.termNames toks with
      | some (t, []) =>
        s!"ok ws={b2s (wellSorted T.sig t T.stmSort)} wsr={b2s (wellSorted T.sigR t T.stmSort)} cov={b2s (covers T.rules t T.stmNt)}"
      | _ => "bad-op"
  | ["failing", tgt] =>
    match tablesOf tgt with
    | none => "bad-op"
    | some T =>
      let fs := (failing T.rules T.sig T.guar).map (fun i => T.termNames.getD i "?")
      "ok " ++ (if fs.isEmpty then "-" else ",".intercalate fs)
  | ["tables", tgt] =>
    match tablesOf tgt with
    | none => "bad-op"
    | some T => s!"ok rules={T.rules.length} sig={T.sig.length} sigR={T.sigR.length} excluded={T.excluded.length}"
  | _ => "bad-op"

def main : IO Unit := mainLoop step
