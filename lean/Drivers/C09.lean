import PpciVerif.Model.Proto
import PpciVerif.Model.AsmLex
import PpciVerif.Model.AsmSyn
import PpciVerif.Model.AsmParse
import PpciVerif.Gen.AsmAll
/-! Line-protocol driver for C09.  Strings travel as lowercase hex of their UTF-8 bytes (`-` = empty).

  lex <texthex>                          → ok <tok> <tok> …        | err CompilerError
        tok = N<value> | R<texthex> | I<texthex> | G<charhex> | S<texthex>
  typs <key> <texthex>                   → ok <typhex> <typhex> …  | err CompilerError     (typ as the parser sees it)
  render <key> <classhex> <choices> <val> <val> …
        choices = [i,j,…] constructor options depth first; val = r<namehex> | i<int> | l<texthex>
                                         → ok <texthex> <wellSpaced 0|1> <fits 0|1> | <tok> <tok> …
                                         | err NoSuchClass | err BadChoice | err BadValue
  parse <key> <typhex>,<typhex>,…        → ok <n> <tree>;<tree>;…   tree = (prodIndex kid kid …), leaf = t
  spaced <key>                           → ok <0|1> bad=<classhex,…> unsupported=<classhex,…>
  ranked <key>                           → ok <0|1> <fuel used by parse>
-/
open Proto Model.AsmLex Model.AsmSyn Model.AsmParse

def bytesOfString (s : String) : List Nat := s.toUTF8.toList.map (·.toNat)
def hexOfString (s : String) : String := toHex (bytesOfString s)
def hexOfChars (cs : List Char) : String := hexOfString (String.ofList cs)
def stringOfHex? (h : String) : Option String := do
  let bs ← fromHex h
  String.fromUTF8? (ByteArray.mk (bs.map (fun b => UInt8.ofNat b)).toArray)

def showTok : Tok → String
  | .num v => s!"N{v}"
  | .real t => "R" ++ hexOfChars t
  | .id t => "I" ++ hexOfChars t
  | .glyph c => "G" ++ hexOfChars [c]
  | .str t => "S" ++ hexOfChars t

def findCfg (key : String) : Option Config := Gen.AsmAll.all.find? (·.key == key)

def parseFuel (cfg : Config) : Nat :=
  if cfg.ranks.isEmpty then 12 else rankOf cfg.ranks "instruction" + 1

def parseVal (cfg : Config) (leaf : Leaf) (w : String) : Option Val :=
  match w.toList with
  | 'r' :: rest => do
    let name ← stringOfHex? (String.ofList rest)
    match leaf with
    | .reg c => do
      let rc ← cfg.regClasses[c]?
      let r ← rc.regs.find? (·.name == name)
      pure (.reg r)
    | _ => none
  | 'i' :: rest => (String.ofList rest).toInt?.map .int
  | 'l' :: rest => (stringOfHex? (String.ofList rest)).map fun s => .label s.toList
  | _ => none

/-- pair the operand leaves with the value words, in order -/
def parseVals (cfg : Config) : List Leaf → List String → Option (List Val)
  | [], [] => some []
  | [], _ :: _ => none
  | l :: ls, ws =>
    match l with
    | .reg _ | .int | .label =>
      match ws with
      | [] => none
      | w :: ws' => do
        let v ← parseVal cfg l w
        let rest ← parseVals cfg ls ws'
        pure (v :: rest)
    | _ => parseVals cfg ls ws

/-- executable version of `Fits` (kinds match, registers from the class, labels are identifiers) -/
def fitsB (cfg : Config) : List Leaf → List Val → Bool
  | [], vs => vs.isEmpty
  | .word _ :: ls, vs => fitsB cfg ls vs
  | .ws _ :: ls, vs => fitsB cfg ls vs
  | .glyph _ :: ls, vs => fitsB cfg ls vs
  | .reg c :: ls, .reg r :: vs =>
      (match cfg.regClasses[c]? with
       | some rc => rc.regs.contains r
       | none => false) && fitsB cfg ls vs
  | .int :: ls, .int _ :: vs => fitsB cfg ls vs
  | .label :: ls, .label s :: vs => isIdent s && fitsB cfg ls vs
  | _, _ => false

def step (line : String) : String :=
  match words line with
  | ["lex", h] =>
    match stringOfHex? h with
    | none => "bad-op"
    | some s =>
      match lex s.toList with
      | some ts => "ok " ++ " ".intercalate (ts.map showTok)
      | none => "err CompilerError"
  | ["typs", key, h] =>
    match findCfg key, stringOfHex? h with
    | some cfg, some s =>
      match lex s.toList with
      | some ts => "ok " ++ " ".intercalate (ts.map fun t => hexOfString (typOf cfg.keywords t))
      | none => "err CompilerError"
    | _, _ => "bad-op"
  | "render" :: key :: ch :: chs :: vals =>
    match findCfg key, stringOfHex? ch, natList? chs with
    | some cfg, some cls, some choices =>
      match lookupName cfg.syntaxes cls with
      | none => "err NoSuchClass"
      | some d =>
        match expandChoice cfg.syntaxes expandFuel d.elems choices with
        | some (ls, []) =>
          match parseVals cfg ls vals with
          | none => "err BadValue"
          | some vs =>
            "ok " ++ hexOfChars (render ls vs) ++ " " ++ (if wellSpaced cfg ls then "1" else "0") ++ " "
              ++ (if fitsB cfg ls vs then "1" else "0") ++ " | "
              ++ " ".intercalate ((tokens ls vs).map showTok)
        | _ => "err BadChoice"
    | _, _, _ => "bad-op"
  | ["parse", key, tys] =>
    match findCfg key with
    | none => "bad-op"
    | some cfg =>
      match (tys.splitOn ",").mapM stringOfHex? with
      | none => "bad-op"
      | some typs =>
        let trees := parses cfg.grammar (parseFuel cfg) "instruction" typs
        s!"ok {trees.length} " ++ ";".intercalate (trees.map Tree.show)
  | ["spaced", key] =>
    match findCfg key with
    | none => "bad-op"
    | some cfg =>
      "ok " ++ (if configWellSpaced cfg then "1" else "0")
        ++ " bad=" ++ ",".intercalate ((badClasses cfg).map hexOfString)
        ++ " unsupported=" ++ ",".intercalate ((unsupportedClasses cfg).map hexOfString)
  | ["ranked", key] =>
    match findCfg key with
    | none => "bad-op"
    | some cfg =>
      s!"ok {if rankedB cfg.grammar cfg.ranks && !cfg.ranks.isEmpty then 1 else 0} {parseFuel cfg}"
  | _ => "bad-op"

def main : IO Unit := mainLoop step
