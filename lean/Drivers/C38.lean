import PpciVerif.Model.Proto
import PpciVerif.Model.ConstFold
import PpciVerif.Spec.IRArith
import PpciVerif.Spec.ConstExpr
/-! Line-protocol driver for C38.

Expression trees in prefix form (`<ty>` = i8 … u64):
  c <ty> <int>            Const
  k <ty> <e>              Cast to <ty>
  b <ty> <op> <e> <e>     Binop
  o <ty> <id>             any other value (parameter …)      (model only)

Requests
  pass <e>                           Model.ConstFold.passTree  → ok <e'> (the function after the pass, read from its result) | err <Exc>
  instr <e>                          Model.ConstFold.onInstr   → ok skip | ok keep | ok replace <ty> <v> | ok rechain <ty> <v> | err <Exc>
  spec <e>                           Spec.ConstExpr.eval       → ok <v> | ok undef
  inrange <ty> <v>                   Spec.IRArith.InRange      → ok true | ok false
  specchain <ty> <op1> <op2> <y> <c1> <c2> <c3>   → ok <(y op1 c1) op2 c2> <y op2 c3>   (Spec values, `undef` possible)
  row <lo> <hi> <request with @>     the request for @ = lo..hi, replies joined with `;`
-/
open Proto

namespace M
open Model.ConstFold

partial def parse : List String → Option (Expr × List String)
  | "c" :: t :: v :: rest => do
      let ty ← typByName t
      let z ← int? v
      pure (.const ty z, rest)
  | "o" :: t :: v :: rest => do
      let ty ← typByName t
      let n ← nat? v
      pure (.other ty n, rest)
  | "k" :: t :: rest => do
      let ty ← typByName t
      let (e, rest') ← parse rest
      pure (.cast ty e, rest')
  | "b" :: t :: op :: rest => do
      let ty ← typByName t
      let (a, r1) ← parse rest
      let (b, r2) ← parse r1
      pure (.binop ty op a b, r2)
  | _ => none

def render : Expr → String
  | .const ty v => s!"c {ty.name} {v}"
  | .other ty n => s!"o {ty.name} {n}"
  | .cast ty e => s!"k {ty.name} {render e}"
  | .binop ty op a b => s!"b {ty.name} {op} {render a} {render b}"

def showAction : Except Err Action → String
  | .ok .skip => "ok skip"
  | .ok .keep => "ok keep"
  | .ok (.replace ty v) => s!"ok replace {ty.name} {v}"
  | .ok (.rechain _ ty v) => s!"ok rechain {ty.name} {v}"
  | .error e => "err " ++ e.name
end M

namespace S
open Spec.IRArith Spec.ConstExpr

def tyByName (n : String) : Option Ty := Ty.all.find? (fun t => t.name == n)
def opBySymbol (s : String) : Option Op := Op.all.find? (fun o => o.symbol == s)

partial def parse : List String → Option (SExpr × List String)
  | "c" :: t :: v :: rest => do
      let ty ← tyByName t
      let z ← int? v
      pure (.const ty z, rest)
  | "k" :: t :: rest => do
      let ty ← tyByName t
      let (e, rest') ← parse rest
      pure (.cast ty e, rest')
  | "b" :: t :: op :: rest => do
      let ty ← tyByName t
      let o ← opBySymbol op
      let (a, r1) ← parse rest
      let (b, r2) ← parse r1
      pure (.binop ty o a b, r2)
  | _ => none

def showOpt : Option Int → String
  | some v => toString v
  | none => "undef"
end S

def step1 (ws : List String) : String :=
  match ws with
  | "pass" :: rest =>
    match M.parse rest with
    | some (e, []) =>
      match Model.ConstFold.passTree e with
      | .ok e' => "ok " ++ M.render e'
      | .error x => "err " ++ x.name
    | _ => "bad-op"
  | "instr" :: rest =>
    match M.parse rest with
    | some (e, []) => M.showAction (Model.ConstFold.onInstr e)
    | _ => "bad-op"
  | "spec" :: rest =>
    match S.parse rest with
    | some (e, []) => "ok " ++ S.showOpt e.eval
    | _ => "bad-op"
  | ["inrange", t, v] =>
    match S.tyByName t, int? v with
    | some ty, some z => if Spec.IRArith.InRange ty z then "ok true" else "ok false"
    | _, _ => "bad-op"
  | ["specchain", t, op1, op2, y, c1, c2, c3] =>
    match S.tyByName t, S.opBySymbol op1, S.opBySymbol op2, int? y, int? c1, int? c2, int? c3 with
    | some ty, some o1, some o2, some y, some c1, some c2, some c3 =>
      let lhs := (Spec.IRArith.binop ty o1 y c1).bind (fun t => Spec.IRArith.binop ty o2 t c2)
      let rhs := Spec.IRArith.binop ty o2 y c3
      s!"ok {S.showOpt lhs} {S.showOpt rhs}"
    | _, _, _, _, _, _, _ => "bad-op"
  | _ => "bad-op"

def step (line : String) : String :=
  match words line with
  | "row" :: lo :: hi :: rest =>
    match int? lo, int? hi with
    | some lo, some hi =>
      let n := (hi - lo + 1).toNat
      ";".intercalate ((List.range n).map (fun (i : Nat) =>
        let v := toString (lo + Int.ofNat i)
        step1 (rest.map (fun w => if w == "@" then v else w))))
    | _, _ => "bad-op"
  | ws => step1 ws

def main : IO Unit := mainLoop step
