import PpciVerif.Model.Proto
import PpciVerif.Model.X64CC
import PpciVerif.Spec.SysV
/-! Line-protocol driver for C40.

  types: b B s S i I l L p f d  (i8 u8 i16 u16 i32 u32 i64 u64 ptr f32 f64); signature = word of
  type letters, `-` for the empty signature.
  ppci locations  `r64:7 r32:7 r16:0 r8:0 xd:0 xs:0 st:<off>:<size>`; psABI locations `gpr:7 xmm:0 mem:16`.
  instructions `push:5 pop:5 sub:32 add:32 mov:<d>:<s> ld:<d>:<base>:<off>`, lists joined by `,`, `-` = empty.

  locs <sig>                              → ok <model locs> <model locs read as psABI> <Spec locs>
  rv <t>                                  → ok <model reg> <read as psABI> <Spec loc>
  frame <used regs|-> <stacksize>         → ok <model prologue> <model epilogue>
  execframe <used|-> <stacksize> <rsp0> <prologue> <epilogue>
        runs the GIVEN lists on the stack machine around an adversarial body → ok held | ok viol:<what>
  call <sig> <rvtype|-> <d|i>             → ok <pre> <call:ids | callr:98:ids> <post> <stack_size> | err NotImplementedError
        (d = direct call to a label, i = indirect call through a register; ids = sorted clobber ids joined by `.`, `none` if empty)
  execcall <sig> <rvtype|-> <pre> <ids> <post>  → ok held | ok viol:<what>   (psABI view at the call instruction;
        the callee destroys everything the psABI allows; the call instruction's clobber ids must cover that)
  enter <sig>                             → ok <list> | err NotImplementedError
  execenter <sig> <list>                  → ok held | ok viol:<what>   (each argument read from its psABI location)
-/
open Proto Model.X64CC
open Spec.SysV (Ty GPR)

def tyOfChar : Char → Option Ty
  | 'b' => some .i8 | 'B' => some .u8 | 's' => some .i16 | 'S' => some .u16
  | 'i' => some .i32 | 'I' => some .u32 | 'l' => some .i64 | 'L' => some .u64
  | 'p' => some .ptr | 'f' => some .f32 | 'd' => some .f64 | _ => none

def sig? (s : String) : Option (List Ty) :=
  if s == "-" then some [] else s.toList.mapM tyOfChar

def ty? (s : String) : Option Ty :=
  match s.toList with
  | [c] => tyOfChar c
  | _ => none

def showReg : Reg → String
  | .r64 n => s!"r64:{n}" | .r32 n => s!"r32:{n}" | .r16 n => s!"r16:{n}" | .r8 n => s!"r8:{n}"
  | .xmmD n => s!"xd:{n}" | .xmmS n => s!"xs:{n}"

def reg? (s : String) : Option Reg :=
  match s.splitOn ":" with
  | [k, n] => do
    let n ← n.toNat?
    match k with
    | "r64" => some (.r64 n) | "r32" => some (.r32 n) | "r16" => some (.r16 n) | "r8" => some (.r8 n)
    | "xd" => some (.xmmD n) | "xs" => some (.xmmS n) | _ => none
  | _ => none

def showLoc : Loc → String
  | .reg r => showReg r
  | .stack o s => s!"st:{o}:{s}"

def showSpecLoc : Spec.SysV.Loc → String
  | .gpr r => s!"gpr:{r.num}"
  | .xmm n => s!"xmm:{n}"
  | .mem o => s!"mem:{o}"

def showOptSpecLoc : Option Spec.SysV.Loc → String
  | some l => showSpecLoc l
  | none => "none"

def joinOr (xs : List String) : String := if xs.isEmpty then "-" else ",".intercalate xs

def showInstr : Instr → String
  | .push r => s!"push:{r}" | .pop r => s!"pop:{r}" | .sub n => s!"sub:{n}" | .add n => s!"add:{n}"
  | .mov d s => s!"mov:{d}:{s}" | .load d b o => s!"ld:{d}:{b}:{o}"

def showInstrs (is : List Instr) : String := joinOr (is.map showInstr)

def instr? (s : String) : Option Instr :=
  match s.splitOn ":" with
  | ["push", r] => r.toNat?.map .push
  | ["pop", r] => r.toNat?.map .pop
  | ["sub", n] => n.toNat?.map .sub
  | ["add", n] => n.toNat?.map .add
  | ["mov", d, r] => do pure (.mov (← d.toNat?) (← r.toNat?))
  | ["ld", d, b, o] => do pure (.load (← d.toNat?) (← b.toNat?) (← o.toInt?))
  | _ => none

def list? {α} (f : String → Option α) (s : String) : Option (List α) :=
  if s == "-" then some [] else (s.splitOn ",").mapM f

def optTy? (s : String) : Option (Option Ty) :=
  if s == "-" then some none else (ty? s).map some

/-! ### adversarial executions of given instruction lists -/

def init (rsp : Int) : MState := ⟨fun k => if k = 4 then rsp else 1000 + (k : Int), fun a => 5000000 + a⟩

def clobberRegs (s : MState) (rs : List Nat) : MState :=
  ⟨fun k => if rs.contains k then 777000 + (k : Int) else s.reg k, s.mem⟩

def clobberMem (s : MState) (lo hi : Int) : MState :=
  ⟨s.reg, fun a => if lo ≤ a ∧ a < hi then 888000 + a else s.mem a⟩

def callerSavedIds : List Nat := Spec.SysV.callerSaved.map GPR.num ++ Spec.SysV.callerSavedXmm.map (16 + ·)

def insertSorted (x : Nat) : List Nat → List Nat
  | [] => [x]
  | y :: ys => if x ≤ y then x :: y :: ys else y :: insertSorted x ys
def sortNat (l : List Nat) : List Nat := l.foldr insertSorted []

def showIds (l : List Nat) : String :=
  if l.isEmpty then "none" else ".".intercalate ((sortNat l).map toString)

def ids? (s : String) : Option (List Nat) :=
  if s == "none" then some [] else (s.splitOn ".").mapM (·.toNat?)

def firstSome : List (Option String) → Option String
  | [] => none
  | some s :: _ => some s
  | none :: r => firstSome r

def execFrame (used : List Reg) (stacksize : Nat) (rsp0 : Int) (pro epi : List Instr) : String :=
  let s0 := init rsp0
  let s1 := run pro s0
  -- body: may write every register in used_regs, every caller-saved register, its locals
  -- [rbp - stacksize, rbp) and anything below its stack pointer; keeps rsp (and rbp)
  let b1 := clobberRegs s1 ((used.map Reg.parent).filter (fun r => r ≠ 4 ∧ r ≠ 5) ++ callerSavedIds)
  let b2 := clobberMem b1 (s1.reg 5 - stacksize) (s1.reg 5)
  let s2 := clobberMem b2 (s1.reg 4 - 512) (s1.reg 4)
  let s3 := run epi s2
  let v := firstSome ([
    if s1.reg 4 % 16 ≠ 0 then some s!"misaligned-at-body:{(rsp0 - s1.reg 4)}" else none,
    if s1.reg 5 ≠ rsp0 - 8 then some "frame-pointer" else none,
    if s3.reg 4 ≠ rsp0 then some s!"rsp-not-restored:{s3.reg 4 - rsp0}" else none,
    if s3.mem rsp0 ≠ s0.mem rsp0 then some "return-address-overwritten" else none] ++
    Spec.SysV.calleeSaved.map (fun r =>
      if s3.reg r.num ≠ s0.reg r.num then some s!"reg-not-restored:{r.num}" else none))
  match v with
  | some w => "ok viol:" ++ w
  | none => "ok held"

def valueAt (s : MState) (callRsp : Int) : Spec.SysV.Loc → Int
  | .gpr r => s.reg r.num
  | .xmm n => s.reg (16 + n)
  -- the callee's rbp after `call; push rbp; mov rbp, rsp` is callRsp - 16
  | .mem off => s.mem (callRsp - 16 + off)

def execCall (sig : List Ty) (rv : Option Ty) (pre : List Instr) (clobbers : List Nat) (post : List Instr) : String :=
  let rsp0 : Int := 80000
  let s0i := init rsp0
  let s0 : MState := ⟨fun k => if 100 ≤ k ∧ k < 100 + sig.length then 7000 + (k : Int) else s0i.reg k, s0i.mem⟩
  let s1 := run pre s0
  let argv := (List.range sig.length).map (fun i =>
    if valueAt s1 (s1.reg 4) (Spec.SysV.argLoc sig i) ≠ 7100 + (i : Int) then some s!"arg-not-at-abi-location:{i}" else none)
  -- the call: callee returns with the result in the psABI return location, caller-saved destroyed
  let c1 := clobberRegs s1 callerSavedIds
  let c2 := clobberMem c1 (s1.reg 4 - 512) (s1.reg 4)
  let s2 : MState := match rv with
    | some t => ⟨fun k => if (match Spec.SysV.retLoc t with | .gpr r => k == r.num | .xmm n => k == 16 + n | .mem _ => false)
                          then 4242 else c2.reg k, c2.mem⟩
    | none => c2
  let s3 := run post s2
  let missing := callerSavedIds.filter (fun r => !clobbers.contains r)
  let v := firstSome ([
    if s1.reg 4 % 16 ≠ 0 then some s!"misaligned-at-call:{rsp0 - s1.reg 4}" else none] ++ argv ++ [
    if !missing.isEmpty then some s!"call-missing-clobbers:{showIds missing}" else none,
    if s3.reg 4 ≠ rsp0 then some s!"rsp-not-restored:{s3.reg 4 - rsp0}" else none,
    if rv.isSome ∧ s3.reg rvVreg ≠ 4242 then some "result-not-read-from-abi-location" else none])
  match v with
  | some w => "ok viol:" ++ w
  | none => "ok held"

def execEnter (sig : List Ty) (is : List Instr) : String :=
  -- state right after `push rbp; mov rbp, rsp`
  let s0 := init 90000
  let s0 : MState := ⟨fun k => if k = 5 then 90000 else s0.reg k, s0.mem⟩
  let s1 := run is s0
  let v := firstSome ((List.range sig.length).map (fun i =>
    if s1.reg (vreg i) ≠ valueAt s0 (90000 + 16) (Spec.SysV.argLoc sig i) then some s!"arg-not-read-from-abi-location:{i}" else none))
  match v with
  | some w => "ok viol:" ++ w
  | none => "ok held"

def step' (line : String) : String :=
  match words line with
  | ["locs", s] => match sig? s with
      | some sig =>
        let m := determineArgLocations sig
        s!"ok {joinOr (m.map showLoc)} {joinOr (m.map (fun l => showOptSpecLoc l.toSpec))} {joinOr ((Spec.SysV.argLocs sig).map showSpecLoc)}"
      | none => "bad-op"
  | ["rv", t] => match ty? t with
      | some t => let r := determineRvLocation t
        s!"ok {showReg r} {showOptSpecLoc r.toSpec} {showSpecLoc (Spec.SysV.retLoc t)}"
      | none => "bad-op"
  | ["frame", u, n] => match list? reg? u, n.toNat? with
      | some used, some n => s!"ok {showInstrs (genPrologue used n)} {showInstrs (genEpilogue used n)}"
      | _, _ => "bad-op"
  | ["execframe", u, n, r, p, e] => match list? reg? u, n.toNat?, r.toInt?, list? instr? p, list? instr? e with
      | some used, some n, some r, some p, some e => execFrame used n r p e
      | _, _, _, _, _ => "bad-op"
  | ["call", s, t, k] => match sig? s, optTy? t, (if k == "d" then some false else if k == "i" then some true else none) with
      | some sig, some rv, some ind => match genCall sig rv ind with
        | .ok c =>
          let ci := if c.indirect then s!"callr:{fpVreg}:{showIds c.clobbers}" else s!"call:{showIds c.clobbers}"
          s!"ok {showInstrs c.pre} {ci} {showInstrs c.post} {c.stackSize}"
        | .error e => "err " ++ e.name
      | _, _, _ => "bad-op"
  | ["execcall", s, t, p, cl, q] => match sig? s, optTy? t, list? instr? p, ids? cl, list? instr? q with
      | some sig, some rv, some p, some cl, some q => execCall sig rv p cl q
      | _, _, _, _, _ => "bad-op"
  | ["enter", s] => match sig? s with
      | some sig => match genFunctionEnter sig with
        | .ok is => "ok " ++ showInstrs is
        | .error e => "err " ++ e.name
      | none => "bad-op"
  | ["execenter", s, p] => match sig? s, list? instr? p with
      | some sig, some p => execEnter sig p
      | _, _ => "bad-op"
  | _ => "bad-op"

def main : IO Unit := mainLoop step'
