import PpciVerif.Model.Proto
import PpciVerif.Model.LinkerProto
/-! Line-protocol driver for C12 (linker).  The protocol (requests `link`, `spec`, `image`) is
documented and implemented in `PpciVerif/Model/LinkerProto.lean` (imports Model/Spec only). -/
def main : IO Unit := Proto.mainLoop Model.LinkerProto.step
