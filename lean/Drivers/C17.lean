import PpciVerif.Model.Proto
import PpciVerif.Spec.Elf
import PpciVerif.Model.ElfW
import PpciVerif.Gen.ElfHeaders
/-! Line-protocol driver for C17.

  read <filehex>
      -> ok H <cls> <en> <etype> <machine> <entry> <flags> <shstrndx>
            { P <type> <flags> <offset> <vaddr> <paddr> <filesz> <memsz> <align> <datahex> }
            { S <namehex> <type> <flags> <addr> <offset> <size> <link> <info> <addralign> <entsize> <datahex> }
            { T <index> <firstNonLocal> <n> { Y <namehex> <value> <size> <bind> <type> <other> <shndx> } }
            { A <index> <target> <symtab> <n> { E <offset> <sym> <type> <addend> } }
       | err <reason of Spec.Elf.Err>
  write <quirks:2 bits> <arch> <rel|exec> <entry id|~> <item>*
      items  S <namehex> <addr> <align> <datahex>
             Y <id> <namehex> <g|l> <value|~> <sectionhex|~> <f|o|n> <size>
             R <rtype|~|!> <symid> <sectionhex> <offset> <addend>
             I <namehex> <addr> <k> <sectionhex>*k      (sections must have been given before)
      -> ok <filehex> | err <PythonExceptionName>
      (the header layouts are the ones dumped from the live ppci classes: Gen.ElfHeaders)
-/
open Proto Spec.Elf Model.ElfW

/-! `Proto.fromHex` costs ~50 µs per byte in the interpreter; files here are 10-20 kB, so the driver scans the
    UTF-8 bytes of the hex text directly (same language: lower/upper-case hex pairs, `-` = empty). -/
def hv (c : UInt8) : Nat :=
  if 48 ≤ c && c ≤ 57 then (c - 48).toNat else if 97 ≤ c && c ≤ 102 then (c - 87).toNat
  else if 65 ≤ c && c ≤ 70 then (c - 55).toNat else 255

def fastHexLoop (b : ByteArray) : Nat → List Nat → Option (List Nat)
  | 0, acc => some acc
  | 1, _ => none
  | n + 2, acc =>
    let x := hv (b.get! n)
    let y := hv (b.get! (n + 1))
    if x = 255 ∨ y = 255 then none else fastHexLoop b n ((x * 16 + y) :: acc)

def fastHex (s : String) : Option (List Nat) :=
  if s == "-" then some [] else
  let b := s.toUTF8
  fastHexLoop b b.size []

def clsStr : Cls → String | .c32 => "32" | .c64 => "64"
def enStr : End → String | .le => "le" | .be => "be"

def showSeg (s : Segment) : List String :=
  ["P", toString s.type, toString s.flags, toString s.offset, toString s.vaddr, toString s.paddr,
   toString s.filesz, toString s.memsz, toString s.align, toHex s.data]

def showSec (s : Section) : List String :=
  ["S", toHex s.name, toString s.type, toString s.flags, toString s.addr, toString s.offset,
   toString s.size, toString s.link, toString s.info, toString s.addralign, toString s.entsize, toHex s.data]

def showSym (s : Symbol) : List String :=
  ["Y", toHex s.name, toString s.value, toString s.size, toString s.bind, toString s.type,
   toString s.other, toString s.shndx]

def showSymTab (t : SymTab) : List String :=
  ["T", toString t.index, toString t.firstNonLocal, toString t.syms.length] ++ (t.syms.map showSym).flatten

def showRela (r : Rela) : List String :=
  ["E", toString r.offset, toString r.sym, toString r.type, toString r.addend]

def showRelaTab (t : RelaTab) : List String :=
  ["A", toString t.index, toString t.target, toString t.symtab, toString t.entries.length]
    ++ (t.entries.map showRela).flatten

def showFile (f : File) : String :=
  " ".intercalate (
    ["ok", "H", clsStr f.cls, enStr f.en, toString f.etype, toString f.machine, toString f.entry,
     toString f.flags, toString f.shstrndx]
    ++ (f.segments.map showSeg).flatten ++ (f.sections.map showSec).flatten
    ++ (f.symtabs.map showSymTab).flatten ++ (f.relatabs.map showRelaTab).flatten)

def arch? : String → Option Arch
  | "arm" => some .arm
  | "microblaze" => some .microblaze
  | "x86_64" => some .x86_64
  | "xtensa" => some .xtensa
  | "riscv" => some .riscv
  | _ => none

def optNat? (s : String) : Option (Option Nat) :=
  if s == "~" then some none else (nat? s).map some

def optName? (s : String) : Option (Option (List Nat)) :=
  if s == "~" then some none else (fastHex s).map some

def takeNames : Nat → List String → Option (List (List Nat) × List String)
  | 0, ws => some ([], ws)
  | n + 1, w :: ws => do
      let nm ← fastHex w
      let (r, rest) ← takeNames n ws
      pure (nm :: r, rest)
  | _ + 1, [] => none

/-- parse the item list into an object (fuel = number of words) -/
def parseItems : Nat → List String → Obj → Option Obj
  | _, [], o => some o
  | 0, _ :: _, _ => none
  | fuel + 1, "S" :: nm :: addr :: al :: dat :: rest, o => do
      let nm ← fastHex nm
      let addr ← nat? addr
      let al ← nat? al
      let dat ← fastHex dat
      parseItems fuel rest { o with sections := o.sections ++ [{ name := nm, address := addr, data := dat, alignment := al }] }
  | fuel + 1, "Y" :: id :: nm :: b :: v :: sec :: ty :: sz :: rest, o => do
      let id ← nat? id
      let nm ← fastHex nm
      let g ← (if b == "g" then some true else if b == "l" then some false else none)
      let v ← optNat? v
      let sec ← optName? sec
      let ty ← (if ty == "f" then some SymTyp.func else if ty == "o" then some SymTyp.object
                else if ty == "n" then some SymTyp.other else none)
      let sz ← nat? sz
      parseItems fuel rest { o with symbols := o.symbols ++ [{ id := id, name := nm, isGlobal := g, value := v, sect := sec, typ := ty, size := sz }] }
  | fuel + 1, "R" :: rt :: sid :: sec :: off :: add :: rest, o => do
      let rt ← (if rt == "~" then some RType.notImplemented else if rt == "!" then some RType.keyError
                else (nat? rt).map RType.ok)
      let sid ← nat? sid
      let sec ← fastHex sec
      let off ← nat? off
      let add ← int? add
      parseItems fuel rest { o with relocs := o.relocs ++ [{ rtype := rt, symbolId := sid, sect := sec, offset := off, addend := add }] }
  | fuel + 1, "I" :: nm :: addr :: k :: rest, o => do
      let nm ← fastHex nm
      let addr ← nat? addr
      let k ← nat? k
      let (names, rest) ← takeNames k rest
      let secs ← names.mapM (fun n => findSec o.sections n)
      parseItems fuel rest { o with images := o.images ++ [{ name := nm, address := addr, sections := secs }] }
  | _, _, _ => none

def quirks? : String → Option Quirks
  | "00" => some {}
  | "10" => some { noVaddrPadding := true }
  | "01" => some { absKeyError := true }
  | "11" => some { noVaddrPadding := true, absKeyError := true }
  | _ => none

def step (line : String) : String :=
  match words line with
  | ["read", h] =>
    match fastHex h with
    | none => "bad-op"
    | some bs =>
      match Spec.Elf.read bs with
      | .ok f => showFile f
      | .error e => "err " ++ e.name
  | "write" :: q :: a :: t :: en :: items =>
    match quirks? q, arch? a, (if t == "rel" then some EType.rel else if t == "exec" then some EType.exec else none),
          optNat? en with
    | some q, some a, some t, some en =>
      match parseItems (items.length + 1) items { arch := a, sections := [], symbols := [], relocs := [], images := [], entry := en } with
      | none => "bad-op"
      | some o =>
        match exportObject q (Gen.ElfHeaders.layouts a.cls a.en) o t with
        | .ok bs => "ok " ++ toHex bs
        | .error e => "err " ++ e.name
    | _, _, _, _ => "bad-op"
  | _ => "bad-op"

def main : IO Unit := mainLoop step
