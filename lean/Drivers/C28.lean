import PpciVerif.Model.CDriver
/-! Line-protocol driver for C28 (same requests as C27: see `Model/CDriver.lean`). -/
def main : IO Unit := Proto.mainLoop Model.CDriver.step
