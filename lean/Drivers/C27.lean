import PpciVerif.Model.CDriver
/-! Line-protocol driver for C27 (requests: see `Model/CDriver.lean`). -/
def main : IO Unit := Proto.mainLoop Model.CDriver.step
