import PpciVerif.Model.Proto
import PpciVerif.Model.Bitfun
import PpciVerif.Spec.Bits
import PpciVerif.Spec.ArmImm
/-! Line-protocol driver for C39.

Model ops (hand model of ppci/utils/bitfun.py; `bits/size/m` must be ≥ 0, else `bad-op`):
  rotate_right v n | rotate_left v n | rotl v c bits | rotr v c bits | reverse_bits v bits
  to_signed v bits | to_unsigned v bits | correct v bits (0|1) | clz v bits | ctz v bits
  popcnt v bits | sign_extend v bits | be_bytes v size | value_to_bits v bits
  bits_to_bytes <01-string|-> | encode_imm32 v | align v m | wrap_negative v bits | inrange v bits
Spec ops (Spec.Bits / Spec.ArmImm, the oracle of the property evaluation):
  spec.rotl n x c | spec.rotr n x c | spec.reverse n x | spec.wrapU n x | spec.wrapS n x
  spec.clz n x | spec.ctz n x | spec.popcount n x | spec.fitsU n x | spec.fitsS n x
  spec.be_bytes k x | spec.arm_representable v | spec.arm_decode e
-/
open Proto Model.Bitfun

def showE {α} (f : α → String) : Except Err α → String
  | .ok a => "ok " ++ f a
  | .error e => "err " ++ e.name

def showBool (b : Bool) : String := if b then "True" else "False"
def showBits (bs : List Bool) : String :=
  if bs.isEmpty then "-" else String.ofList (bs.map (fun b => if b then '1' else '0'))

def bits? (s : String) : Option (List Bool) :=
  if s == "-" then some [] else
  s.toList.mapM (fun c => if c == '1' then some true else if c == '0' then some false else none)

def iS (z : Int) : String := toString z
def nS (n : Nat) : String := toString n

def step (line : String) : String :=
  match words line with
  | [op, a] =>
    if op == "bits_to_bytes" then
      match bits? a with
      | some bs => "ok " ++ toHex (bitsToBytes bs)
      | none => "bad-op"
    else match int? a with
    | none => "bad-op"
    | some v =>
      if op == "encode_imm32" then showE iS (encodeImm32 v)
      else if op == "spec.arm_representable" then "ok " ++ showBool (Spec.ArmImm.representableB v)
      else if op == "spec.arm_decode" then "ok " ++ nS (Spec.ArmImm.decode v)
      else "bad-op"
  | [op, a, b] =>
    -- two-argument ops: model ops are `v bits`, spec ops are `n x`
    if op == "rotate_right" || op == "rotate_left" then
      match int? a, int? b with
      | some v, some n => showE iS (if op == "rotate_right" then rotateRight v n else rotateLeft v n)
      | _, _ => "bad-op"
    else if op.startsWith "spec." then
      match nat? a, int? b with
      | some n, some x =>
        if op == "spec.reverse" then "ok " ++ nS (Spec.Bits.reverse n x)
        else if op == "spec.wrapU" then "ok " ++ iS (Spec.Bits.wrapU n x)
        else if op == "spec.wrapS" then "ok " ++ iS (Spec.Bits.wrapS n x)
        else if op == "spec.clz" then "ok " ++ nS (Spec.Bits.clz n x)
        else if op == "spec.ctz" then "ok " ++ nS (Spec.Bits.ctz n x)
        else if op == "spec.popcount" then "ok " ++ nS (Spec.Bits.popcount n x)
        else if op == "spec.fitsU" then "ok " ++ showBool (decide (Spec.Bits.fitsU n x))
        else if op == "spec.fitsS" then "ok " ++ showBool (decide (Spec.Bits.fitsS n x))
        else if op == "spec.be_bytes" then "ok " ++ toHex (Spec.Bits.toBytesBE n x)
        else "bad-op"
      | _, _ => "bad-op"
    else
      match int? a, nat? b with
      | some v, some bits =>
        if op == "reverse_bits" then "ok " ++ iS (reverseBits v bits)
        else if op == "to_signed" then "ok " ++ iS (toSigned v bits)
        else if op == "to_unsigned" then "ok " ++ iS (toUnsigned v bits)
        else if op == "clz" then showE nS (clz v bits)
        else if op == "ctz" then "ok " ++ nS (ctz v bits)
        else if op == "popcnt" then "ok " ++ nS (popcnt v bits)
        else if op == "sign_extend" then showE iS (signExtend v bits)
        else if op == "be_bytes" then "ok " ++ toHex (valueToBytesBigEndian v bits)
        else if op == "value_to_bits" then "ok " ++ showBits (valueToBits v bits)
        else if op == "align" then showE iS (align v bits)
        else if op == "wrap_negative" then showE iS (wrapNegative v bits)
        else if op == "inrange" then showE showBool (inrange v bits)
        else "bad-op"
      | _, _ => "bad-op"
  | [op, a, b, c] =>
    if op == "rotl" || op == "rotr" then
      match int? a, int? b, nat? c with
      | some v, some cnt, some bits => showE iS (if op == "rotl" then rotl v cnt bits else rotr v cnt bits)
      | _, _, _ => "bad-op"
    else if op == "correct" then
      match int? a, nat? b, nat? c with
      | some v, some bits, some s => if s ≤ 1 then "ok " ++ iS (correct v bits (s == 1)) else "bad-op"
      | _, _, _ => "bad-op"
    else if op == "spec.rotl" || op == "spec.rotr" then
      match nat? a, int? b, int? c with
      | some n, some x, some cnt =>
        "ok " ++ nS (if op == "spec.rotl" then Spec.Bits.rotl n x cnt else Spec.Bits.rotr n x cnt)
      | _, _, _ => "bad-op"
    else "bad-op"
  | _ => "bad-op"

def main : IO Unit := mainLoop step
