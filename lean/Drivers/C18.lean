import PpciVerif.Model.Proto
import PpciVerif.Model.Hex
import PpciVerif.Spec.IHex
/-! Line-protocol driver for C18 (Intel HEX).

  regions : `addr:hex,addr:hex,…` (`-` = no region; hex `-` = no data)
  lines   : `line,line,…`         (`-` = no line)

  build  <regions>          model add_region sequence from an empty file → `ok <regions>` | `err E`
  lbuild <regions>          same with the pre-repair `check`
  merge  <regions>          Spec.IHex.mergeSpec
  save   <start> <regions>  Model save of HexFile(regions as given, start) → `ok <lines>` | `err E`
  lsave  <start> <regions>  pre-repair save
  load   <lines>            Model load → `ok <start> <regions>` | `err E`
  read   <lines>            Spec reader → `ok <start|none> <runs>` | `ok reject`
  rec    <line>             Spec.parseRecord → `ok <typ> <offset> <hex>` | `ok none`
  toline <addr> <typ> <hex> Model toLine;   fromline <line>  Model fromLine
-/
open Proto Model.Hex

/-- tail-recursive hex decoding (inputs can be several 100 kB) -/
def unhexTR (cs : List Char) : Option (List Nat) :=
  let rec go : List Char → List Nat → Option (List Nat)
    | [], acc => some acc.reverse
    | [_], _ => none
    | a :: b :: rest, acc =>
      match Model.Hex.hexVal a, Model.Hex.hexVal b with
      | some x, some y => go rest ((x * 16 + y) :: acc)
      | _, _ => none
  go cs []

def hexOfBytes (bs : List Nat) : String :=
  if bs.isEmpty then "-" else
  let rec go : List Nat → List Char → List Char
    | [], acc => acc.reverse
    | b :: rest, acc => go rest (Model.Hex.hexDigit (b % 16) :: Model.Hex.hexDigit (b / 16 % 16) :: acc)
  String.ofList (go bs [])

def parseRegion (s : String) : Option Region :=
  match s.splitOn ":" with
  | [a, h] => do
    let addr ← a.toNat?
    let d ← if h == "-" then some [] else unhexTR h.toList
    pure (addr, d)
  | _ => none

def parseRegions (s : String) : Option (List Region) :=
  if s == "-" then some [] else (s.splitOn ",").mapM parseRegion

def parseLines (s : String) : List (List Char) :=
  if s == "-" then [] else (s.splitOn ",").map String.toList

def showRegion (r : Region) : String := s!"{r.1}:{hexOfBytes r.2}"

def showRegions (rs : List Region) : String :=
  if rs.isEmpty then "-" else ",".intercalate (rs.map showRegion)

def showLines (ls : List (List Char)) : String :=
  if ls.isEmpty then "-" else ",".intercalate (ls.map String.ofList)

def showEx {α} (f : α → String) : Except Err α → String
  | .ok a => "ok " ++ f a
  | .error e => "err " ++ e.name

/-- group (address, byte) cells into runs of consecutive addresses, in file order -/
def runsOf (mem : List (Nat × Nat)) : List Region :=
  let rec go : List (Nat × Nat) → Option (Nat × Nat × List Nat) → List Region → List Region
    | [], none, acc => acc.reverse
    | [], some (a, _, d), acc => ((a, d.reverse) :: acc).reverse
    | (x, b) :: rest, none, acc => go rest (some (x, x + 1, [b])) acc
    | (x, b) :: rest, some (a, nxt, d), acc =>
      if x = nxt then go rest (some (a, nxt + 1, b :: d)) acc
      else go rest (some (x, x + 1, [b])) ((a, d.reverse) :: acc)
  go mem none []

def step (line : String) : String :=
  match words line with
  | ["build", rs] => match parseRegions rs with
      | some l => showEx showRegions (build [] l)
      | none => "bad-op"
  | ["lbuild", rs] => match parseRegions rs with
      | some l => showEx showRegions (Legacy.build [] l)
      | none => "bad-op"
  | ["merge", rs] => match parseRegions rs with
      | some l => "ok " ++ showRegions (Spec.IHex.mergeSpec l)
      | none => "bad-op"
  | ["save", st, rs] => match nat? st, parseRegions rs with
      | some s, some l => showEx showLines (save ⟨l, s⟩)
      | _, _ => "bad-op"
  | ["lsave", st, rs] => match nat? st, parseRegions rs with
      | some s, some l => showEx showLines (Legacy.save ⟨l, s⟩)
      | _, _ => "bad-op"
  | ["load", ls] => showEx (fun h => s!"{h.start} {showRegions h.regions}") (load (parseLines ls))
  | ["read", ls] => match Spec.IHex.read (parseLines ls) with
      | some img =>
        let st := match img.start with
          | some s => toString s
          | none => "none"
        s!"ok {st} {showRegions (runsOf img.mem)}"
      | none => "ok reject"
  | ["rec", l] => match Spec.IHex.parseRecord l.toList with
      | some r => s!"ok {r.typ} {r.offset} {hexOfBytes r.data}"
      | none => "ok none"
  | ["toline", a, t, h] => match nat? a, nat? t, fromHex h with
      | some a, some t, some d => showEx String.ofList (toLine ⟨a, t, d⟩)
      | _, _, _ => "bad-op"
  | ["fromline", l] => showEx (fun hl => s!"{hl.address} {hl.typ} {hexOfBytes hl.data}") (fromLine l.toList)
  | _ => "bad-op"

def main : IO Unit := mainLoop step
