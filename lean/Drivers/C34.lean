import PpciVerif.Model.Proto
import PpciVerif.Model.Tasks
import PpciVerif.Model.TasksLegacy
/-! Line-protocol driver for C34.

  graph  ::= `-` (no targets) | entry (`|` entry)*      entry ::= name `:` [dep (`,` dep)*]
             names are naturals (rank of the target name in sorted order); dependencies
             in the order the code iterates them (sorted)
  run <graph> <req-list>            Model.Tasks.run            → ok [order] | err TaskError:loop | err TaskError:notfound
  check <graph> <t>                 Model.Tasks.checkTarget    → ok | err …
  all <graph> <n>   (n ≤ 9)         `run` for every non-empty request subset of 0..n-1 (ascending list; subsets in
                                    order of their bit mask 1..2^n-1) and `check` for every t < n, in one reply:
                                    ok r1;r2;…|c0;c1;…   r = executed ranks as digits | L (loop) | N (not found), c = o | L | N
  hist <graph> <ops>                Model.Tasks.history: ops separated by `;`:  r<a>.<b>… run [a,b,…] | c<t> check_target |
                                    t<t>[.<d>…] add_target t (deps d…) | d<t>.<d> add_dependency;  reply  ok o1;o2;…
                                    with o = run/check token as for `all` | u (returned None) | D (Duplicate target)
  legacy-check <graph> <t>          Model.TasksLegacy.checkTarget (code before the fix; fuel 200)
  legacy-order <graph> <req> <iter> Model.TasksLegacy.order    (iter = set iteration order)
-/
open Proto

def parseEntry (s : String) : Option (Nat × List Nat) :=
  match s.splitOn ":" with
  | [k, ds] => do
      let k ← nat? k
      let ds ← if ds.isEmpty then some [] else (ds.splitOn ",").mapM nat?
      pure (k, ds)
  | _ => none

def parseGraph (s : String) : Option Model.Tasks.Graph :=
  if s == "-" then some [] else (s.splitOn "|").mapM parseEntry

def showRes (r : Except Model.Tasks.Err (List Nat)) : String :=
  match r with
  | .ok l => "ok " ++ showNatList l
  | .error e => "err " ++ e.name

def showLegacy {α} (f : α → String) (r : Except Model.TasksLegacy.Err' α) : String :=
  match r with
  | .ok a => "ok" ++ f a
  | .error e => "err " ++ e.name

def tok (r : Except Model.Tasks.Err (List Nat)) : String :=
  match r with
  | .ok l => String.join (l.map toString)
  | .error .loop => "L"
  | .error .notFound => "N"

def subsetOf (n m : Nat) : List Nat := (List.range n).filter (fun i => m.testBit i)

def allOf (g : Model.Tasks.Graph) (n : Nat) : String :=
  let runs := (List.range (2 ^ n - 1)).map (fun i => tok (Model.Tasks.run g (subsetOf n (i + 1))))
  let checks := (List.range n).map (fun t =>
    match Model.Tasks.checkTarget g t with
    | .ok _ => "o"
    | .error .loop => "L"
    | .error .notFound => "N")
  "ok " ++ ";".intercalate runs ++ "|" ++ ";".intercalate checks

def parseOp (s : String) : Option Model.Tasks.Op :=
  match s.toList with
  | c :: rest =>
    let body := String.ofList rest
    let nums : Option (List Nat) := if body.isEmpty then some [] else (body.splitOn ".").mapM nat?
    match c, nums with
    | 'r', some l => some (.run l)
    | 'c', some [t] => some (.checkTarget t)
    | 't', some (t :: ds) => some (.addTarget t ds)
    | 'd', some [t, d] => some (.addDependency t d)
    | _, _ => none
  | [] => none

def showOut : Model.Tasks.Out → String
  | .done => "u"
  | .duplicate => "D"
  | .ran r => tok r
  | .checked (.ok _) => "o"
  | .checked (.error .loop) => "L"
  | .checked (.error .notFound) => "N"

def step (line : String) : String :=
  match words line with
  | ["run", g, req] =>
    match parseGraph g, natList? req with
    | some g, some req => showRes (Model.Tasks.run g req)
    | _, _ => "bad-op"
  | ["check", g, t] =>
    match parseGraph g, nat? t with
    | some g, some t =>
      match Model.Tasks.checkTarget g t with
      | .ok _ => "ok"
      | .error e => "err " ++ e.name
    | _, _ => "bad-op"
  | ["all", g, n] =>
    match parseGraph g, nat? n with
    | some g, some n => if n > 9 then "bad-op" else allOf g n
    | _, _ => "bad-op"
  | ["hist", g, ops] =>
    match parseGraph g, (ops.splitOn ";").mapM parseOp with
    | some g, some ops => "ok " ++ ";".intercalate ((Model.Tasks.history g ops).map showOut)
    | _, _ => "bad-op"
  | ["legacy-check", g, t] =>
    match parseGraph g, nat? t with
    | some g, some t => showLegacy (fun _ => "") (Model.TasksLegacy.checkTarget 200 g t)
    | _, _ => "bad-op"
  | ["legacy-order", g, req, iter] =>
    match parseGraph g, natList? req, natList? iter with
    | some g, some req, some iter =>
      showLegacy (fun l => " " ++ showNatList l) (Model.TasksLegacy.order 200 g req iter)
    | _, _, _ => "bad-op"
  | _ => "bad-op"

def main : IO Unit := mainLoop step
