import PpciVerif.Model.Proto
import PpciVerif.Model.WasmBin
import PpciVerif.Gen.WasmOpcodes
import PpciVerif.Model.WatIds
/-! Line-protocol driver for C21 (wasm binary reader/writer model).

  read <hex>        -> ok <module>          Model reader (Python-mirroring) on the bytes
  canon <hex>       -> ok true|false        strict reader accepts (= canonically encoded)
  write <module>    -> ok <hex>             Model writer
  valid <module>    -> ok true|false        hypothesis of the round-trip theorem
  normalize <module>-> ok <module>
  sane              -> ok true|false        Tables.Sane of the generated tables (evaluated, not proved)
  ids <tok>*        -> ok <tok>,… | err AssertionError   Model.WatIds.parse; tok = _ (anonymous) | u<k> ($name) | a<n> ($n)

  <module> is one S-expression without line breaks:
    (module D*)   D = (type (T*) (T*)) | (import HEX HEX (func N)|(table T N MAX)|(memory N MAX)|(global T B))
                    | (func N (T*) (I*)) | (table T N MAX) | (memory N MAX) | (global T B (I*))
                    | (export HEX KIND N) | (start N) | (elem none|(N (I*)) (N*)) | (data none|(N (I*)) HEX)
                    | (datacount N) | (custom HEX HEX)
    I = (mnemonic A*); A by operand kind: type name | N | space:N | Z | xHEX | (label:N*) | (T*)
    MAX = N | none; B = 0|1; KIND = func|table|memory|global; HEX as in Proto (`-` = empty). -/
open Proto Model.WasmBin

def T : Tables := Gen.WasmOpcodes.tables

inductive SX
  | atom (s : String)
  | list (l : List SX)
  deriving Inhabited

/-! ### S-expression reader / printer -/

def tokenize (s : String) : List String :=
  let rec go (cs : List Char) (cur : List Char) (acc : List String) : List String :=
    let flush := fun (acc : List String) => if cur.isEmpty then acc else String.ofList cur.reverse :: acc
    match cs with
    | [] => (flush acc).reverse
    | c :: r =>
      if c = '(' ∨ c = ')' then go r [] (String.singleton c :: flush acc)
      else if c = ' ' ∨ c = '\n' ∨ c = '\t' ∨ c = '\r' then go r [] (flush acc)
      else go r (c :: cur) acc
  go s.toList [] []

partial def parseSX : List String → Option (SX × List String)
  | [] => none
  | "(" :: r =>
    let rec items (ts : List String) (acc : List SX) : Option (SX × List String) :=
      match ts with
      | [] => none
      | ")" :: r' => some (.list acc.reverse, r')
      | _ => match parseSX ts with
        | some (x, r') => items r' (x :: acc)
        | none => none
    items r []
  | ")" :: _ => none
  | a :: r => some (.atom a, r)

partial def showSX : SX → String
  | .atom s => s
  | .list l => "(" ++ " ".intercalate (l.map showSX) ++ ")"

/-! ### names -/

def typeName (t : Nat) : String := (Gen.WasmOpcodes.typeNames[t]?).getD s!"?type{t}"
def typeId? (s : String) : Option Nat :=
  let i := Gen.WasmOpcodes.typeNames.idxOf s
  if i < Gen.WasmOpcodes.typeNames.length then some i else none
def opName (id : Nat) : String := (Gen.WasmOpcodes.names[id]?).getD s!"?op{id}"
def opId? (s : String) : Option Nat :=
  let i := Gen.WasmOpcodes.names.idxOf s
  if i < Gen.WasmOpcodes.names.length then some i else none

def spaceOf : ImmKind → String
  | .typeidx => "type" | .tableidx => "table" | .localidx => "local" | .funcidx => "func"
  | .labelidx => "label" | .globalidx => "global" | _ => "?"

def kindNames : List String := ["func", "table", "memory", "global"]

/-! ### structure -> S-expression -/

def sxNat (n : Nat) : SX := .atom (toString n)
def sxHex (bs : Bytes) : SX := .atom (toHex bs)
def sxTypes (l : List Nat) : SX := .list (l.map fun t => .atom (typeName t))

def sxArg (k : ImmKind) : Arg → SX
  | .ty t => .atom (typeName t)
  | .u8 n => sxNat n
  | .u32 n => sxNat n
  | .idx n => .atom (spaceOf k ++ ":" ++ toString n)
  | .int z => .atom (toString z)
  | .raw bs => .atom ("x" ++ toHex bs)
  | .labels l => .list (l.map fun n => .atom ("label:" ++ toString n))
  | .types l => sxTypes l

def sxInstr (i : Instr) : SX :=
  let kinds := (T.operandsOf i.op).getD []
  let rec args : List ImmKind → List Arg → List SX
    | k :: ks, a :: as => sxArg k a :: args ks as
    | [], a :: as => sxArg .u32 a :: args [] as
    | _, [] => []
  .list (.atom (opName i.op) :: args kinds i.args)

def sxInstrs (is : List Instr) : SX := .list (is.map sxInstr)
def sxMax : Option Nat → SX | none => .atom "none" | some n => sxNat n
def sxBool (b : Bool) : SX := .atom (if b then "1" else "0")

def sxMode : Option (Nat × List Instr) → SX
  | none => .atom "none"
  | some (n, off) => .list [sxNat n, sxInstrs off]

def sxDef : Def → SX
  | .type t => .list [.atom "type", sxTypes t.params, sxTypes t.results]
  | .imp i =>
    let d := match i.desc with
      | .func ti => SX.list [.atom "func", sxNat ti]
      | .table k l => .list [.atom "table", .atom (typeName k), sxNat l.min, sxMax l.max]
      | .memory l => .list [.atom "memory", sxNat l.min, sxMax l.max]
      | .global t m => .list [.atom "global", .atom (typeName t), sxBool m]
    .list [.atom "import", sxHex i.modname, sxHex i.name, d]
  | .func f => .list [.atom "func", sxNat f.typeIdx, sxTypes f.locals, sxInstrs f.body]
  | .table t => .list [.atom "table", .atom (typeName t.kind), sxNat t.lim.min, sxMax t.lim.max]
  | .memory l => .list [.atom "memory", sxNat l.min, sxMax l.max]
  | .global g => .list [.atom "global", .atom (typeName g.ty), sxBool g.mutable, sxInstrs g.init]
  | .export e => .list [.atom "export", sxHex e.name, .atom ((kindNames[e.kind]?).getD (toString e.kind)), sxNat e.idx]
  | .start n => .list [.atom "start", sxNat n]
  | .elem e => .list [.atom "elem", sxMode e.mode, .list (e.refs.map sxNat)]
  | .data d => .list [.atom "data", sxMode d.mode, sxHex d.bytes]
  | .datacount n => .list [.atom "datacount", sxNat n]
  | .custom c => .list [.atom "custom", sxHex c.name, sxHex c.data]

def sxModule (m : List Def) : SX := .list (.atom "module" :: m.map sxDef)

/-! ### S-expression -> structure -/

def pNat : SX → Option Nat | .atom s => s.toNat? | _ => none
def pInt : SX → Option Int | .atom s => s.toInt? | _ => none
def pHex : SX → Option Bytes | .atom s => fromHex s | _ => none
def pType : SX → Option Nat | .atom s => typeId? s | _ => none
def pTypes : SX → Option (List Nat) | .list l => l.mapM pType | _ => none
def pMax : SX → Option (Option Nat)
  | .atom "none" => some none
  | x => (pNat x).map some
def pBool : SX → Option Bool | .atom "0" => some false | .atom "1" => some true | _ => none

def pIdx (s : String) : Option Nat :=
  match s.splitOn ":" with
  | [_, n] => n.toNat?
  | _ => none

def pArg (k : ImmKind) (x : SX) : Option Arg :=
  match k, x with
  | .type, x => (pType x).map .ty
  | .u8, x => (pNat x).map .u8
  | .u32, x => (pNat x).map .u32
  | .i32, x | .i64, x => (pInt x).map .int
  | .f32, .atom s | .f64, .atom s | .u8x16, .atom s =>
    if s.startsWith "x" then (fromHex (s.drop 1).toString).map .raw else none
  | .brTable, .list l => (l.mapM fun (y : SX) => match y with | .atom s => pIdx s | _ => none).map .labels
  | .resultTypes, x => (pTypes x).map .types
  | .heaptype, x => (pNat x).map .u32
  | _, .atom s => (pIdx s).map .idx
  | _, _ => none

def pInstr : SX → Option Instr
  | .list (.atom m :: args) => do
    let id ← opId? m
    let kinds ← T.operandsOf id
    if kinds.length ≠ args.length then none
    let as ← (kinds.zip args).mapM fun (k, a) => pArg k a
    pure ⟨id, as⟩
  | _ => none

def pInstrs : SX → Option (List Instr) | .list l => l.mapM pInstr | _ => none

def pMode : SX → Option (Option (Nat × List Instr))
  | .atom "none" => some none
  | .list [n, off] => do
    let n ← pNat n
    let off ← pInstrs off
    pure (some (n, off))
  | _ => none

def pDef : SX → Option Def
  | .list [.atom "type", ps, rs] => do pure (.type ⟨← pTypes ps, ← pTypes rs⟩)
  | .list [.atom "import", mn, nm, d] => do
    let desc ← match d with
      | .list [.atom "func", n] => (pNat n).map ImportDesc.func
      | .list [.atom "table", k, mn, mx] => do pure (ImportDesc.table (← pType k) ⟨← pNat mn, ← pMax mx⟩)
      | .list [.atom "memory", mn, mx] => do pure (ImportDesc.memory ⟨← pNat mn, ← pMax mx⟩)
      | .list [.atom "global", t, b] => do pure (ImportDesc.global (← pType t) (← pBool b))
      | _ => none
    pure (.imp ⟨← pHex mn, ← pHex nm, desc⟩)
  | .list [.atom "func", ti, ls, body] => do pure (.func ⟨← pNat ti, ← pTypes ls, ← pInstrs body⟩)
  | .list [.atom "table", k, mn, mx] => do pure (.table ⟨← pType k, ⟨← pNat mn, ← pMax mx⟩⟩)
  | .list [.atom "memory", mn, mx] => do pure (.memory ⟨← pNat mn, ← pMax mx⟩)
  | .list [.atom "global", t, b, init] => do pure (.global ⟨← pType t, ← pBool b, ← pInstrs init⟩)
  | .list [.atom "export", nm, .atom k, n] => do
    let ki := kindNames.idxOf k
    let ki ← if ki < 4 then some ki else k.toNat?
    pure (.export ⟨← pHex nm, ki, ← pNat n⟩)
  | .list [.atom "start", n] => (pNat n).map .start
  | .list [.atom "elem", mode, .list refs] => do pure (.elem ⟨← pMode mode, ← refs.mapM pNat⟩)
  | .list [.atom "data", mode, bs] => do pure (.data ⟨← pMode mode, ← pHex bs⟩)
  | .list [.atom "datacount", n] => (pNat n).map .datacount
  | .list [.atom "custom", nm, bs] => do pure (.custom ⟨← pHex nm, ← pHex bs⟩)
  | _ => none

def pModule (s : String) : Option (List Def) :=
  match parseSX (tokenize s) with
  | some (.list (.atom "module" :: ds), []) => ds.mapM pDef
  | _ => none

/-! ### protocol -/

def restOf (line : String) (op : String) : String := (line.trimAscii.toString.drop (op.length + 1)).toString

def idTok? (s : String) : Option (Option Model.WatIds.Id) :=
  if s == "_" then some none
  else if s.startsWith "u" then ((s.drop 1).toString.toNat?).map (fun k => some (.user k))
  else if s.startsWith "a" then ((s.drop 1).toString.toNat?).map (fun n => some (.num n))
  else none

def showId : Model.WatIds.Id → String
  | .user k => s!"u{k}"
  | .num n => s!"a{n}"

def step (line : String) : String :=
  match words line with
  | "ids" :: toks => match toks.mapM idTok? with
    | some names => match Model.WatIds.parse names with
      | some ids => "ok " ++ ",".intercalate (ids.map showId)
      | none => "err AssertionError"
    | none => "bad-op"
  | ["read", h] => match fromHex h with
    | some bs => match readModule T false bs with
      | .ok m => "ok " ++ showSX (sxModule m)
      | .error e => "err " ++ e.name
    | none => "bad-op"
  | ["canon", h] => match fromHex h with
    | some bs => s!"ok {Canon T bs}"
    | none => "bad-op"
  | ["sane"] => s!"ok {T.Sane}"
  | "write" :: _ => match pModule (restOf line "write") with
    | some m => match writeModule T m with
      | .ok bs => "ok " ++ toHex bs
      | .error e => "err " ++ e.name
    | none => "bad-op"
  | "valid" :: _ => match pModule (restOf line "valid") with
    | some m => s!"ok {Valid T m}"
    | none => "bad-op"
  | "normalize" :: _ => match pModule (restOf line "normalize") with
    | some m => "ok " ++ showSX (sxModule (normalize m))
    | none => "bad-op"
  | _ => "bad-op"

def main : IO Unit := mainLoop step
