import PpciVerif.Model.Proto
import PpciVerif.Model.Rsp
import PpciVerif.Spec.Rsp
/-! Line-protocol driver for C35 (GDB RSP).  Byte strings are hex (`-` = empty), 7-bit only.

  pack <hex>                       rsp_pack
  unpack <hex>                     rsp_unpack          (err ValueError | IndexError)
  int16 <a> <b>                    int(chr(a)+chr(b), 16)
  dec <hex>                        decoder(): yields per byte  `.` | a<hex> | p<hex>   (comma separated)
  run <act> <act> …                a handler scenario from a fresh RspHandler:
        i:<hex>                      transport delivers these bytes (one chunk)
        s:<retries>:<data>:<r1>;<r2>;…   sendpkt(data, retries); r_k = reply injected by the k-th packet transmission (`_` = no replies)
     reply: ok sent=<hex,…> deliv=<hex,…> ackq=<n|none> err=<Name|none>
  legacy-dec / legacy-unpack       the same for the model of the pinned snapshot
  spec escape|unescape <hex> ; spec cksum <hex> <c1> <c2> ; spec sender <retries> <acks hex>
  spec items <item> …              item = a<hexbyte> | n<hexbyte> | f<bodyhex>/<c1c2 hex>
     reply: ok wf=<bool> bytes=<hex> deliv=<hex,…> replies=<hex,…>
-/
open Proto Model.Rsp

def bytes7? (s : String) : Option (List Nat) := do
  let bs ← fromHex s
  if bs.all (· < 128) then some bs else none

def showLL (xs : List (List Nat)) : String :=
  if xs.isEmpty then "_" else ",".intercalate (xs.map toHex)

def showMsg : Option Msg → String
  | none => "."
  | some (.ack c) => "a" ++ toHex [c]
  | some (.pkt p) => "p" ++ toHex p

def showUnpack : Except Err (List Nat) → String
  | .ok d => "ok " ++ toHex d
  | .error e => "err " ++ e.name

/-- per-byte yields of a decoder step function -/
def yields (f : DState → Nat → DState × Option Msg) : DState → List Nat → List (Option Msg)
  | _, [] => []
  | s, b :: bs => let (s1, m) := f s b; m :: yields f s1 bs

def showState (h : HState) : String :=
  s!"ok sent={showLL h.sent} deliv={showLL h.delivered} ackq=" ++
    (match h.ackq with | some a => toString a | none => "none") ++ " err=" ++
    (match h.err with | some e => e.name | none => "none")

def act? (h : HState) (a : String) : Option HState :=
  match a.splitOn ":" with
  | ["i", hx] => do
      let bs ← bytes7? hx
      some (feed h bs)
  | ["s", r, d, rs] => do
      let retries ← int? r
      let data ← bytes7? d
      let script ← if rs == "_" then some [] else (rs.splitOn ";").mapM bytes7?
      some (sendpkt h data retries script)
  | _ => none

def item? (s : String) : Option Spec.Rsp.Item :=
  match s.toList with
  | 'a' :: rest => match bytes7? (String.ofList rest) with
      | some [c] => some (.ack c)
      | _ => none
  | 'n' :: rest => match bytes7? (String.ofList rest) with
      | some [c] => some (.noise c)
      | _ => none
  | 'f' :: rest => match (String.ofList rest).splitOn "/" with
      | [b, cc] => match bytes7? b, bytes7? cc with
          | some d, some [c1, c2] => some (.frame d c1 c2)
          | _, _ => none
      | _ => none
  | _ => none

def step (line : String) : String :=
  match words line with
  | ["pack", h] => match bytes7? h with
      | some d => "ok " ++ toHex (pack d)
      | none => "bad-op"
  | ["unpack", h] => match bytes7? h with
      | some d => showUnpack (unpack d)
      | none => "bad-op"
  | ["legacy-unpack", h] => match bytes7? h with
      | some d => showUnpack (Legacy.unpack d)
      | none => "bad-op"
  | ["int16", a, b] => match nat? a, nat? b with
      | some a, some b =>
          if a < 128 ∧ b < 128 then
            match pyInt16 a b with
            | some v => s!"ok {v}"
            | none => "err ValueError"
          else "bad-op"
      | _, _ => "bad-op"
  | ["dec", h] => match bytes7? h with
      | some d => "ok " ++ ",".intercalate ((yields dstep .idle d).map showMsg)
      | none => "bad-op"
  | ["legacy-dec", h] => match bytes7? h with
      | some d => "ok " ++ ",".intercalate ((yields Legacy.dstep .idle d).map showMsg)
      | none => "bad-op"
  | "run" :: acts =>
      match acts.foldlM act? ({} : HState) with
      | some h => showState h
      | none => "bad-op"
  | ["spec", "escape", h] => match bytes7? h with
      | some d => "ok " ++ toHex (Spec.Rsp.escape d)
      | none => "bad-op"
  | ["spec", "unescape", h] => match bytes7? h with
      | some d => "ok " ++ toHex (Spec.Rsp.unescape d)
      | none => "bad-op"
  | ["spec", "cksum", h, a, b] => match bytes7? h, nat? a, nat? b with
      | some d, some a, some b => s!"ok {Spec.Rsp.checksumOk d a b}"
      | _, _, _ => "bad-op"
  | ["spec", "sender", r, h] => match nat? r, bytes7? h with
      | some r, some acks =>
          let o := match Spec.Rsp.outcome r acks with
            | .acked => "acked" | .retryFail => "retryFail" | .timeout => "timeout"
          s!"ok {Spec.Rsp.transmissions r acks} {o}"
      | _, _ => "bad-op"
  | "spec" :: "items" :: its =>
      match its.mapM item? with
      | some items =>
          s!"ok wf={items.all Spec.Rsp.Item.wf} bytes={toHex (Spec.Rsp.render items)} " ++
          s!"deliv={showLL (items.filterMap Spec.Rsp.Item.payload?)} replies={showLL (items.filterMap Spec.Rsp.Item.reply?)}"
      | none => "bad-op"
  | _ => "bad-op"

def main : IO Unit := mainLoop step
