import PpciVerif.Model.RegexProto
/-! Line-protocol driver for C31.

Encodings (no blanks inside a value)
  Re   E | S[a:b,c:d] | K(r) | C(l,r) | O(l,r) | A(l,r)
  Syn  c<int> | d | s[a:b,…] | k(e) | p(e) | q(e) | t(l,r) | a(l,r)
  text [97,98]      strings: all strings over <alphabet> of length ≤ n, by length then lexicographic

Requests
  parse <text>                      ok <Re> | err <Exc>
  pretty <Syn>                      ok <text>
  meaning <Syn>                     ok <Re>
  nullable <Re>                     ok True|False
  deriv <Re> <c>                    ok <Re>
  classes <Re>                      ok [..];[..]
  compile <fuel> <Re>               ok <tables> <accepts> <error> | err <Exc>
  acceptsmany <fuel> <Re> <n> <alphabet>    ok <bits>   (1 accept, 0 reject, R exception while running)
  scanmany <fuel> <Re> <n> <alphabet>       ok <result> <result> …    result = tok;tok;…!<end>, tok = a.b.c (code points)
  auto <fuel> <Re> <n> <alphabet>           ok <compile reply> | <acceptsmany reply> | <scanmany reply>   (one compile)
  scanvec <fuel> <Re>;<Re>;… <text>         ok name:tok;…!<end>
  specmany <Syn> <n> <alphabet>     ok <bits>   Spec.Lang.matchB on the standard meaning of the tree
  smart O|A|C <Re> <Re>             ok <Re>     logical_or / logical_and / concatenate
  langmany <Re> <n> <alphabet>      ok <bits>   Spec.Lang.matchB on the denotation of a Regex object
-/

def main : IO Unit := Proto.mainLoop Model.RegexProto.step
