import PpciVerif.Model.Proto
import PpciVerif.Model.ObjSerProto
/-! Line-protocol driver for C14.

A request is `<op> <tree>` where a tree is a blank-separated token sequence
  n | t | f | i<int> | r<raw ascii> | s<cp.cp.cp> | [ tree* ] | { (key tree)* }
(the same encoding `harness/c14.py` uses; keys are plain ASCII identifiers).

  hex <i..>        builtin hex()                 → ok <str>
  mknum <tree>     make_num                      → ok <int> | err K
  b2a <str hex>    bin2asc                       → ok <tree>
  a2b <tree>       asc2bin                       → ok <str hex> | err K
  ser <obj>        ObjectFile.serialize          → ok <json>          (obj = the harness' field walk)
  deser <json>     objectfile.deserialize        → ok <obj> | err K
  wf <obj>         Spec.ObjSer.wfB               → ok t|f
  loadable <obj>   Model.ObjSer.loadable of the debug info (t if none)
  arsave <[obj]>   Archive.save (tree)           → ok <json>
  arload <json>    Archive.load                  → ok <[obj]> | err K
-/

def main : IO Unit := Proto.mainLoop Model.ObjSerProto.step
