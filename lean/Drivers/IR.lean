import PpciVerif.Spec.IRRun
/-! Line-protocol driver for the reference IR semantics `Spec.IR`; the engine and the
    description of the operations (load / config / wf / run / roundtrip / show) are in
    `PpciVerif/Spec/IRRun.lean`, the exchange format in `PpciVerif/Spec/IRParse.lean`. -/
def main : IO Unit := Proto.mainLoopS ({} : Spec.IRRun.St) Spec.IRRun.step'
