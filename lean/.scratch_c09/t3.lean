import PpciVerif.Gen.AsmAll
open Model.AsmSyn
theorem a1 : configWellSpaced Gen.Asm_x86_64.config = true := by decide +kernel
theorem a2 : configWellSpaced Gen.Asm_stm8.config = true := by decide +kernel
theorem a3 : configWellSpaced Gen.Asm_msp430.config = true := by decide +kernel
