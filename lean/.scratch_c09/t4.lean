open List in
#check @List.mem_zipIdx_iff_getElem?
#check @List.mem_zipIdx
#check @List.mem_zipIdx'
example (l : List Nat) (i x : Nat) (h : l[i]? = some x) : (x, i) ∈ l.zipIdx := by
  exact List.mem_zipIdx_iff_getElem?.mpr h
