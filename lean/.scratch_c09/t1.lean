example : "abc".toList = ['a','b','c'] := by decide +kernel
example : ("abc".toList.map Char.toNat) = [97,98,99] := by decide +kernel
example : String.ofList ['a','b'] = "ab" := by decide +kernel
example : ("ab" ++ "c") = "abc" := by decide +kernel
def isDig (c : Char) : Bool := 48 ≤ c.toNat && c.toNat ≤ 57
example : ("12a".toList.takeWhile isDig) = ['1','2'] := by decide +kernel
example : "MoV".toLower = "mov" := by decide +kernel
#eval "abc".toList
