import PpciVerif.Gen.Asm_stm8
open Model.AsmSyn Model.AsmLex
set_option profiler true
set_option profiler.threshold 200
def wordsOf (c : Config) : List String := c.syntaxes.flatMap fun s => s.elems.filterMap fun e => match e with | .word w => some w | _ => none
theorem t_a : (Gen.Asm_stm8.config.syntaxes.map (fun s => s.elems.length)).sum > 5 := by decide +kernel
theorem t_b : ((wordsOf Gen.Asm_stm8.config).map (fun w => w.toList.length)).sum > 5 := by decide +kernel
theorem t_c : ((wordsOf Gen.Asm_stm8.config).all (fun w => isIdent w.toList)) = true := by decide +kernel
theorem t_d : ((Gen.Asm_stm8.config.syntaxes.map fun s => (expand Gen.Asm_stm8.config.syntaxes expandFuel s.elems).length).sum) > 5 := by decide +kernel
theorem t_e : configWellSpaced Gen.Asm_stm8.config = true := by decide +kernel
