import PpciVerif.Gen.Asm_x86_64
import PpciVerif.Model.AsmParse
open Model.AsmSyn Model.AsmLex Model.AsmParse
set_option profiler true
set_option profiler.threshold 100
abbrev C := Gen.Asm_x86_64.config
theorem t_d : ((C.syntaxes.map fun s => (expand C.syntaxes expandFuel s.elems).length).sum) > 5 := by decide +kernel
theorem t_d2 : ((C.syntaxes.map fun s => ((expand C.syntaxes expandFuel s.elems).map (·.length)).sum).sum) > 5 := by decide +kernel
theorem t_e : (C.syntaxes.all fun s => (expand C.syntaxes expandFuel s.elems).all fun ls => chainOK ls) = true := by decide +kernel
theorem t_f : (C.syntaxes.all fun s => (expand C.syntaxes expandFuel s.elems).all fun ls => ls.all (leafOKFast C)) = true := by decide +kernel
theorem t_g : regsOK C = true := by decide +kernel
theorem t_h : rankedB C.grammar C.ranks = true := by decide +kernel
theorem t_i : configWellSpaced C = true := by decide +kernel
