import PpciVerif.Gen.AsmAll
open Model.AsmSyn
#eval Gen.AsmAll.all.map fun c => (c.key, configWellSpaced c, badClasses c, unsupportedClasses c)
#eval (Gen.AsmAll.all.map fun c => (c.syntaxes.filter (·.isInstr)).map (fun s => (expand c.syntaxes expandFuel s.elems).length) |>.foldl (·+·) 0)
