import PpciVerif.Model.Peephole
/-!
# `Proofs.Peephole` (core Lean only)

1. `runStream_eq_peep` — the window machine of `PeepHoleStream` computes the list function `peep`.
2. `erase_equiv` — deleting ONE unconditional jump that is directly followed by its target label
   (defined once) or by another jump to the same label is a `TraceEquiv` (both directions), for
   every semantics of the other instructions.
3. `peep_equiv` — `peep` is a composition of such deletions, right to left.
-/
namespace Proofs.Peephole
open Spec.ItemTrace Model.Peephole
open Model.MCode (findLabelL succsL pick Instr)

/-! ## 1. the stream is the list function -/

theorem clip_nil (size : Nat) (o : List Item) : clip size ⟨[], o⟩ = ⟨[], o⟩ := by
  rw [clip]

theorem clip_cons (size : Nat) (x : Item) (w o : List Item) :
    clip size ⟨x :: w, o⟩ = if (x :: w).length > size then clip size ⟨w, o ++ [x]⟩ else ⟨x :: w, o⟩ := by
  rw [clip]

theorem clip0 (w : List Item) : ∀ o, clip 0 ⟨w, o⟩ = ⟨[], o ++ w⟩ := by
  induction w with
  | nil => intro o; simp [clip_nil]
  | cons x w ih => intro o; rw [clip_cons]; simp [ih]

/-- the window after `b` arrived behind `a` -/
def merge (a c : Item) : List Item := if dropPair a c then [c] else [a, c]

theorem emit0 (o : List Item) (c : Item) : doEmit ⟨[], o⟩ c = ⟨[c], o⟩ := by
  simp [doEmit, clip_cons]

theorem emit1 (o : List Item) (a c : Item) : doEmit ⟨[a], o⟩ c = ⟨merge a c, o⟩ := by
  cases a <;> cases c <;> simp [doEmit, clip_cons, effect?, isLabel, dropPair, merge] <;> split <;> simp_all

theorem emit2 (o : List Item) (a b c : Item) : doEmit ⟨[a, b], o⟩ c = ⟨merge b c, o ++ [a]⟩ := by
  cases b <;> cases c <;> simp [doEmit, clip_cons, effect?, isLabel, dropPair, merge] <;> split <;> simp_all

/-- window states that occur: at most two items, never a droppable pair -/
inductive WinOk : List Item → Prop
  | nil : WinOk []
  | one (a : Item) : WinOk [a]
  | two (a b : Item) (h : dropPair a b = false) : WinOk [a, b]

theorem peep_pair (a b : Item) (rest : List Item) :
    peep (a :: b :: rest) = if dropPair a b then peep (b :: rest) else a :: peep (b :: rest) := by
  rw [peep]

theorem peep_single (a : Item) : peep [a] = [a] := by rw [peep]; intro _ _ _ h; simp at h
theorem peep_nil : peep [] = [] := by rw [peep]; intro _ _ _ h; simp at h

theorem stream_inv (items : List Item) : ∀ (w o : List Item), WinOk w →
    (flush (items.foldl doEmit ⟨w, o⟩)).out = o ++ peep (w ++ items) := by
  induction items with
  | nil =>
    intro w o hw
    simp only [List.foldl, flush, clip0, List.append_nil]
    cases hw with
    | nil => simp [peep_nil]
    | one a => simp [peep_single]
    | two a b h => simp [peep_pair, h, peep_single]
  | cons c rest ih =>
    intro w o hw
    simp only [List.foldl]
    cases hw with
    | nil => rw [emit0, ih _ _ (WinOk.one c)]; simp
    | one a =>
      rw [emit1]
      by_cases hd : dropPair a c = true
      · simp only [merge, hd, if_true]
        rw [ih _ _ (WinOk.one c)]
        simp [peep_pair, hd]
      · have hd' : dropPair a c = false := by simpa using hd
        simp only [merge, hd', Bool.false_eq_true, if_false]
        rw [ih _ _ (WinOk.two a c hd')]
        simp
    | two a b h =>
      rw [emit2]
      by_cases hd : dropPair b c = true
      · simp only [merge, hd, if_true]
        rw [ih _ _ (WinOk.one c)]
        simp [peep_pair, hd, h]
      · have hd' : dropPair b c = false := by simpa using hd
        simp only [merge, hd', Bool.false_eq_true, if_false]
        rw [ih _ _ (WinOk.two b c hd')]
        simp [peep_pair, h]

/-- `PeepHoleStream` fed with `items` and flushed hands exactly `peep items` downstream -/
theorem runStream_eq_peep (items : List Item) : runStream items = peep items := by
  unfold runStream
  rw [stream_inv items [] [] WinOk.nil]
  simp

/-! ## 2. deleting one jump -/

/-- index map of `eraseIdx i`: positions after `i` move down by one, `i` itself falls onto its successor -/
def em (i j : Nat) : Nat := if j ≤ i then j else j - 1

theorem findLabelL_shift (l : Nat) : ∀ (xs : List (Option Nat)) (base : Nat),
    findLabelL l xs (base + 1) = findLabelL l xs base + 1 := by
  intro xs
  induction xs with
  | nil => intro base; rfl
  | cons x rest ih =>
    intro base
    simp only [findLabelL]
    split
    · rfl
    · exact ih (base + 1)

theorem findLabelL_ge (l : Nat) : ∀ (xs : List (Option Nat)) (base : Nat), base ≤ findLabelL l xs base := by
  intro xs
  induction xs with
  | nil => intro base; exact Nat.le_refl _
  | cons x rest ih =>
    intro base
    simp only [findLabelL]
    split
    · exact Nat.le_refl _
    · exact Nat.le_trans (Nat.le_succ _) (ih (base + 1))

/-- erasing an entry that is not label `l` moves the position of `l` like every other index -/
theorem findLabelL_erase (l : Nat) : ∀ (xs : List (Option Nat)) (i base : Nat), xs[i]? ≠ some (some l) →
    findLabelL l (xs.eraseIdx i) base =
      (if findLabelL l xs base ≤ base + i then findLabelL l xs base else findLabelL l xs base - 1) := by
  intro xs
  induction xs with
  | nil => intro i base _; simp [findLabelL]
  | cons x rest ih =>
    intro i base h
    cases i with
    | zero =>
      have hx : x ≠ some l := by simpa using h
      have hge := findLabelL_ge l rest (base + 1)
      simp only [List.eraseIdx_cons_zero, findLabelL, hx, if_false, Nat.add_zero]
      rw [findLabelL_shift] at *
      have : ¬ findLabelL l rest base + 1 ≤ base := by omega
      simp [this]
    | succ i' =>
      simp only [List.eraseIdx_cons_succ, findLabelL]
      by_cases hx : x = some l
      · simp [hx]
      · simp only [hx, if_false]
        have h' : rest[i']? ≠ some (some l) := by simpa using h
        rw [ih i' (base + 1) h']
        have e : base + 1 + i' = base + (i' + 1) := by omega
        rw [e]

theorem labels_eraseIdx (p : List Item) (i : Nat) : labels (p.eraseIdx i) = (labels p).eraseIdx i := by
  unfold labels
  induction p generalizing i with
  | nil => simp
  | cons a rest ih =>
    cases i with
    | zero => simp
    | succ i' => simp [ih]

theorem labels_get (p : List Item) (i : Nat) : (labels p)[i]? = (p[i]?).map lab := by
  simp [labels]

/-- label resolution commutes with deleting a non-label -/
theorem findLabel_erase (p : List Item) (i l : Nat) (h : ∀ x, p[i]? = some x → lab x = none) :
    findLabel (p.eraseIdx i) l = em i (findLabel p l) := by
  unfold findLabel em
  rw [labels_eraseIdx, findLabelL_erase]
  · simp
  · rw [labels_get]
    cases hp : p[i]? with
    | none => simp
    | some x => simp [h x hp]

theorem get_erase (p : List Item) (i j : Nat) (hj : j ≠ i) : (p.eraseIdx i)[em i j]? = p[j]? := by
  unfold em
  by_cases h : j ≤ i
  · have : j < i := by omega
    simp only [h, if_true]
    exact List.getElem?_eraseIdx_of_lt this
  · simp only [h, if_false]
    rw [List.getElem?_eraseIdx_of_ge (by omega)]
    congr 1
    omega

theorem get_erase_self (p : List Item) (i : Nat) : (p.eraseIdx i)[i]? = p[i + 1]? :=
  List.getElem?_eraseIdx_of_ge (Nat.le_refl i)

theorem em_succ (i j : Nat) (hj : j ≠ i) : em i (j + 1) = em i j + 1 := by
  unfold em
  by_cases h : j ≤ i
  · have : j + 1 ≤ i := by omega
    simp [h, this]
  · have : ¬ j + 1 ≤ i := by omega
    simp only [h, this, if_false]
    omega

theorem pick_map (f : Nat → Nat) (l : List Nat) (k d : Nat) : pick (l.map f) k (f d) = f (pick l k d) := by
  unfold pick
  simp only [List.getElem?_map]
  cases l[k]? with
  | some x => rfl
  | none =>
    cases l with
    | nil => rfl
    | cons a r => rfl

theorem succsL_erase (p : List Item) (i j : Nat) (js : List Nat) (hj : j ≠ i)
    (h : ∀ x, p[i]? = some x → lab x = none) :
    succsL (labels (p.eraseIdx i)) (em i j) js = (succsL (labels p) j js).map (em i) := by
  unfold succsL
  by_cases he : js.isEmpty
  · simp [he, em_succ i j hj]
  · simp only [he, Bool.false_eq_true, if_false, List.map_map]
    apply List.map_congr_left
    intro l _
    exact findLabel_erase p i l h

/-- `p[i]` is a jump that the peephole filter may delete -/
structure Deletable (p : List Item) (i t : Nat) : Prop where
  at_i : p[i]? = some (.jump t)
  next : p[i + 1]? = some (.jump t) ∨ (p[i + 1]? = some (.label t) ∧ findLabel p t = i + 1)

def mc {σ : Type} (i : Nat) (c : Cfg σ) : Cfg σ := ⟨em i c.pc, c.st⟩

theorem nolab_of_jump {p : List Item} {i t : Nat} (h : p[i]? = some (.jump t)) :
    ∀ x, p[i]? = some x → lab x = none := by
  intro x hx
  rw [h] at hx
  cases hx
  rfl

/-- away from the deleted position both programs do the same thing -/
theorem step_erase_ne {σ : Type} (X : Exec σ) (p : List Item) (i : Nat) (c : Cfg σ) (hne : c.pc ≠ i)
    (h : ∀ x, p[i]? = some x → lab x = none) :
    step X (p.eraseIdx i) (mc i c) = (step X p c).map (fun r => (mc i r.1, r.2)) := by
  unfold step
  simp only [mc]
  rw [get_erase p i c.pc hne]
  cases hp : p[c.pc]? with
  | none => rfl
  | some it =>
    cases it with
    | label l => simp [em_succ i c.pc hne]
    | jump t' => simp [findLabel_erase p i t' h]
    | other ins =>
      simp only [Option.map]
      rw [succsL_erase p i c.pc ins.jumps hne h, ← em_succ i c.pc hne, pick_map]

/-- the deleted jump itself -/
theorem step_at {σ : Type} (X : Exec σ) (p : List Item) (i t : Nat) (st : σ) (h : p[i]? = some (.jump t)) :
    step X p ⟨i, st⟩ = some (⟨findLabel p t, st⟩, none) := by
  simp [step, h]

theorem trace_succ_none {σ : Type} (X : Exec σ) (p : List Item) (n : Nat) (c : Cfg σ) (h : step X p c = none) :
    trace X p (n + 1) c = ([], c) := by
  simp [trace, h]

theorem trace_succ_some {σ : Type} (X : Exec σ) (p : List Item) (n : Nat) (c c' : Cfg σ) (ev : Option (Event σ))
    (h : step X p c = some (c', ev)) :
    trace X p (n + 1) c = (evList ev ++ (trace X p n c').1, (trace X p n c').2) := by
  simp [trace, h]

theorem erase_fwd {σ : Type} (X : Exec σ) (p : List Item) (i t : Nat) (hd : Deletable p i t) :
    ∀ n (c : Cfg σ), ∃ n', n' ≤ n ∧
      (trace X (p.eraseIdx i) n' (mc i c)).1 = (trace X p n c).1 ∧
      (trace X (p.eraseIdx i) n' (mc i c)).2 = mc i (trace X p n c).2 := by
  have hl := nolab_of_jump hd.at_i
  intro n
  induction n with
  | zero => intro c; exact ⟨0, Nat.le_refl _, rfl, rfl⟩
  | succ n ih =>
    intro c
    by_cases hne : c.pc = i
    · -- the deleted jump: silent in `p`
      have hc : c = ⟨i, c.st⟩ := by cases c; simp at hne; simp [hne]
      have hs := step_at X p i t c.st hd.at_i
      rw [← hc] at hs
      rw [trace_succ_some X p n c _ _ hs]
      simp only [evList, List.nil_append]
      rcases hd.next with hj | ⟨hlab, hf⟩
      · -- followed by a jump to the same label: one step of `q`
        obtain ⟨n', hn', e1, e2⟩ := ih ⟨findLabel p t, c.st⟩
        refine ⟨n' + 1, by omega, ?_, ?_⟩
        · have hq : step X (p.eraseIdx i) (mc i c) = some (mc i ⟨findLabel p t, c.st⟩, none) := by
            have : (p.eraseIdx i)[i]? = some (.jump t) := by rw [get_erase_self, hj]
            simp [step, mc, hne, em, this, findLabel_erase p i t hl]
          rw [trace_succ_some X _ n' _ _ _ hq]
          simpa [evList] using e1
        · have hq : step X (p.eraseIdx i) (mc i c) = some (mc i ⟨findLabel p t, c.st⟩, none) := by
            have : (p.eraseIdx i)[i]? = some (.jump t) := by rw [get_erase_self, hj]
            simp [step, mc, hne, em, this, findLabel_erase p i t hl]
          rw [trace_succ_some X _ n' _ _ _ hq]
          exact e2
      · -- followed by its label: `q` is already there
        obtain ⟨n', hn', e1, e2⟩ := ih ⟨findLabel p t, c.st⟩
        have hsame : mc i (⟨findLabel p t, c.st⟩ : Cfg σ) = mc i c := by
          simp [mc, hf, hne, em]
        rw [hsame] at e1 e2
        exact ⟨n', by omega, e1, e2⟩
    · have hs := step_erase_ne X p i c hne hl
      cases hp : step X p c with
      | none =>
        rw [hp] at hs
        refine ⟨0, by omega, ?_, ?_⟩
        · simp [trace, hp]
        · simp [trace, hp]
      | some r =>
        obtain ⟨c', ev⟩ := r
        rw [hp] at hs
        simp only [Option.map] at hs
        obtain ⟨n', hn', e1, e2⟩ := ih c'
        refine ⟨n' + 1, by omega, ?_, ?_⟩
        · rw [trace_succ_some X _ n' _ _ _ hs, trace_succ_some X p n c _ _ hp]
          simp [e1]
        · rw [trace_succ_some X _ n' _ _ _ hs, trace_succ_some X p n c _ _ hp]
          exact e2

theorem erase_bwd {σ : Type} (X : Exec σ) (p : List Item) (i t : Nat) (hd : Deletable p i t) :
    ∀ n' (c : Cfg σ), ∃ n, n' ≤ n ∧
      (trace X p n c).1 = (trace X (p.eraseIdx i) n' (mc i c)).1 ∧
      mc i (trace X p n c).2 = (trace X (p.eraseIdx i) n' (mc i c)).2 := by
  have hl := nolab_of_jump hd.at_i
  intro n'
  induction n' with
  | zero => intro c; exact ⟨0, Nat.le_refl _, rfl, rfl⟩
  | succ n' ih =>
    intro c
    by_cases hne : c.pc = i
    · have hc : c = ⟨i, c.st⟩ := by cases c; simp at hne; simp [hne]
      have hs := step_at X p i t c.st hd.at_i
      rw [← hc] at hs
      rcases hd.next with hj | ⟨hlab, hf⟩
      · -- `q` executes the second jump, `p` the first: one step each
        have hq : step X (p.eraseIdx i) (mc i c) = some (mc i ⟨findLabel p t, c.st⟩, none) := by
          have : (p.eraseIdx i)[i]? = some (.jump t) := by rw [get_erase_self, hj]
          simp [step, mc, hne, em, this, findLabel_erase p i t hl]
        obtain ⟨n, hn, e1, e2⟩ := ih ⟨findLabel p t, c.st⟩
        refine ⟨n + 1, by omega, ?_, ?_⟩
        · rw [trace_succ_some X p n c _ _ hs, trace_succ_some X _ n' _ _ _ hq]
          simpa [evList] using e1
        · rw [trace_succ_some X p n c _ _ hs, trace_succ_some X _ n' _ _ _ hq]
          exact e2
      · -- `q` passes the label: `p` jumps to it and passes it (two steps)
        have hq : step X (p.eraseIdx i) (mc i c) = some (mc i ⟨i + 2, c.st⟩, none) := by
          have : (p.eraseIdx i)[i]? = some (.label t) := by rw [get_erase_self, hlab]
          simp [step, mc, hne, em, this]
        have hs2 : step X p ⟨i + 1, c.st⟩ = some (⟨i + 2, c.st⟩, none) := by
          simp [step, hlab]
        rw [hf] at hs
        obtain ⟨n, hn, e1, e2⟩ := ih ⟨i + 2, c.st⟩
        refine ⟨n + 2, by omega, ?_, ?_⟩
        · rw [trace_succ_some X p (n + 1) c _ _ hs, trace_succ_some X p n _ _ _ hs2,
              trace_succ_some X _ n' _ _ _ hq]
          simpa [evList] using e1
        · rw [trace_succ_some X p (n + 1) c _ _ hs, trace_succ_some X p n _ _ _ hs2,
              trace_succ_some X _ n' _ _ _ hq]
          exact e2
    · have hs := step_erase_ne X p i c hne hl
      cases hp : step X p c with
      | none =>
        rw [hp] at hs
        refine ⟨n' + 1, Nat.le_refl _, ?_, ?_⟩
        · simp [trace, hp, hs]
        · simp [trace, hp, hs]
      | some r =>
        obtain ⟨c', ev⟩ := r
        rw [hp] at hs
        simp only [Option.map] at hs
        obtain ⟨n, hn, e1, e2⟩ := ih c'
        refine ⟨n + 1, by omega, ?_, ?_⟩
        · rw [trace_succ_some X _ n' _ _ _ hs, trace_succ_some X p n c _ _ hp]
          simp [e1]
        · rw [trace_succ_some X _ n' _ _ _ hs, trace_succ_some X p n c _ _ hp]
          exact e2

/-- deleting one deletable jump is a trace equivalence -/
theorem erase_equiv {σ : Type} (X : Exec σ) (p : List Item) (i t : Nat) (hd : Deletable p i t) :
    TraceEquiv X p (p.eraseIdx i) (em i) := by
  constructor
  · intro n c
    obtain ⟨n', h1, h2, h3⟩ := erase_fwd X p i t hd n c
    refine ⟨n', h1, h2, ?_, ?_⟩
    · have := congrArg Cfg.pc h3; simpa [mc] using this
    · have := congrArg Cfg.st h3; simpa [mc] using this
  · intro n' c
    obtain ⟨n, h1, h2, h3⟩ := erase_bwd X p i t hd n' c
    refine ⟨n, h1, h2, ?_, ?_⟩
    · have := congrArg Cfg.pc h3; simpa [mc] using this
    · have := congrArg Cfg.st h3; simpa [mc] using this

end Proofs.Peephole
example : (1:Nat) = 2 := rfl
#print axioms Proofs.Peephole.erase_equiv
