import PpciVerif.Model.RVLi
open Spec.RV32 Model.RVLi

theorem lo12_cast (v : Int) : ((lo12 v : Nat) : Int) = v % 4096 := by
  unfold lo12
  exact Int.toNat_of_nonneg (Int.emod_nonneg _ (by decide))

theorem hi20_cast (v : Int) : ((hi20 v : Nat) : Int) = (v / 4096) % 1048576 := by
  unfold hi20
  exact Int.toNat_of_nonneg (Int.emod_nonneg _ (by decide))

theorem sext12_lo (v : Int) : sext 12 (lo12 v) = if v % 4096 < 2048 then v % 4096 else v % 4096 - 4096 := by
  unfold sext
  have h := lo12_cast v
  have : (lo12 v < 2 ^ (12 - 1)) ↔ (v % 4096 < 2048) := by
    constructor <;> intro h' <;> omega
  by_cases hc : v % 4096 < 2048
  · simp [hc, this.mpr hc, h]
  · have : ¬ lo12 v < 2 ^ (12 - 1) := fun h' => hc (this.mp h')
    simp [hc, this, h]

theorem li_split (v : Int) :
    ((hi20 (adjust v) : Int) * 4096 + sext 12 (lo12 (adjust v))) % 4294967296 = v % 4294967296 := by
  rw [hi20_cast, sext12_lo]
  unfold adjust bit11
  by_cases hb : (v / 2048) % 2 = 0
  · simp [hb]; split <;> omega
  · simp [hb]; split <;> omega
