import PpciVerif.Model.Peephole
open Spec.ItemTrace Model.Peephole

theorem clip_nil (size : Nat) (o : List Item) : clip size ⟨[], o⟩ = ⟨[], o⟩ := by
  rw [clip]

theorem clip_cons (size : Nat) (x : Item) (w o : List Item) :
    clip size ⟨x :: w, o⟩ = if (x :: w).length > size then clip size ⟨w, o ++ [x]⟩ else ⟨x :: w, o⟩ := by
  rw [clip]

theorem clip0 (w : List Item) : ∀ o, clip 0 ⟨w, o⟩ = ⟨[], o ++ w⟩ := by
  induction w with
  | nil => intro o; simp [clip_nil]
  | cons x w ih => intro o; rw [clip_cons]; simp [ih]

def merge (a c : Item) : List Item := if dropPair a c then [c] else [a, c]

theorem emit0 (o : List Item) (c : Item) : doEmit ⟨[], o⟩ c = ⟨[c], o⟩ := by
  simp [doEmit, clip_cons, clip_nil]

theorem emit1 (o : List Item) (a c : Item) : doEmit ⟨[a], o⟩ c = ⟨merge a c, o⟩ := by
  cases a <;> cases c <;> simp [doEmit, clip_cons, clip_nil, effect?, isLabel, dropPair, merge] <;> split <;> simp_all

theorem emit2 (o : List Item) (a b c : Item) : doEmit ⟨[a, b], o⟩ c = ⟨merge b c, o ++ [a]⟩ := by
  cases b <;> cases c <;> simp [doEmit, clip_cons, clip_nil, effect?, isLabel, dropPair, merge] <;> split <;> simp_all
