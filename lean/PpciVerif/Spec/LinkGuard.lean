import PpciVerif.Spec.RelocSem
/-
The conditions under which C11 claims that a relocated field designates its symbol EXACTLY, per relocation
type: the reference is representable in the architecture's field (this is where ppci's own range check is too
wide — open findings), plus the standing assumptions (thumb sites halfword aligned; `BL` carries J1 = J2 = 1 as
emitted; the OR-ing types find their field clear; addresses are non-negative).  Types without a theorem: `False`.
-/
namespace Spec.LinkGuard
open Spec.Bits Spec.RelocSem

/-- `A` addend, `S` symbol value, `P` site address, `data` the site bytes before relocation -/
def resolvable (isa ty : String) (A S P : Int) (data : List Nat) : Prop :=
  match isa, ty with
  | "riscv", "b_imm12" => fitsS 13 (S - P)
  | "riscv", "b_imm20" => fitsS 21 (S - P)
  | "riscv", "cb_imm11" => fitsS 21 (S - P)
  | "riscv", "cbl_imm11" => fitsS 21 (S - P)
  | "riscv", "bc_imm11" => fitsS 12 (S - P)
  | "riscv", "bc_imm8" => fitsS 9 (S - P)
  | "arm", "imm24" => fitsS 26 (S - P - 8)
  | "arm", "ldr_imm12" => bits (wordLE data) 8 4 = 0 ∧ bits (wordLE data) 23 1 = 0     -- imm12[11:8] and U clear as emitted
  | "thumb", "wrap_new11" => P % 2 = 0
  | "thumb", "rel8" => P % 2 = 0
  | "thumb", "lit8" => P % 2 = 0
  | "thumb", "bl_imm11" => P % 2 = 0 ∧ bits (wordLE data) 29 1 = 1 ∧ bits (wordLE data) 27 1 = 1 ∧ fitsS 23 (S - P - 4)
  | "x86_64", "rel32" => fitsS 32 (S + A - P)
  | "x86_64", "jmp8" => fitsS 8 (S - P - 1)
  | "x86_64", "abs32" => 0 ≤ S
  | "x86_64", "abs64" => 0 ≤ S
  | _, _ => False

/-- what the field must designate: the symbol's address, plus the addend for the one type whose formula has one -/
def target (isa ty : String) (A S : Int) : Int :=
  if isa = "x86_64" ∧ ty = "rel32" then S + A else S

end Spec.LinkGuard
