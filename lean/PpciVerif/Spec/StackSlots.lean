/-!
# `Spec.StackSlots` — what a stack-slot allocator and an argument-location assignment owe
their clients (import-free; independent of ppci)

A slot is the byte interval `[offset, offset + size)` relative to the frame pointer.
-/
namespace Spec.StackSlots

/-- the byte intervals `[o₁, o₁+n₁)` and `[o₂, o₂+n₂)` have no byte in common -/
def Disjoint (o₁ n₁ o₂ n₂ : Int) : Prop := o₁ + n₁ ≤ o₂ ∨ o₂ + n₂ ≤ o₁

instance (o₁ n₁ o₂ n₂ : Int) : Decidable (Disjoint o₁ n₁ o₂ n₂) := by
  unfold Disjoint; exact inferInstance

/-- `offset` is a multiple of `alignment` -/
def Aligned (offset alignment : Int) : Prop := alignment ∣ offset

/-- for positive intervals, `Disjoint` says exactly that no byte address lies in both -/
theorem disjoint_iff_no_common_byte (o₁ n₁ o₂ n₂ : Int) (h₁ : 0 < n₁) (h₂ : 0 < n₂) :
    Disjoint o₁ n₁ o₂ n₂ ↔ ¬ ∃ x : Int, (o₁ ≤ x ∧ x < o₁ + n₁) ∧ (o₂ ≤ x ∧ x < o₂ + n₂) := by
  unfold Disjoint
  constructor
  · rintro (h | h) ⟨x, ⟨a, b⟩, c, d⟩ <;> omega
  · intro h
    by_cases hc : o₁ + n₁ ≤ o₂
    · exact Or.inl hc
    · by_cases hd : o₂ + n₂ ≤ o₁
      · exact Or.inr hd
      · exfalso
        apply h
        by_cases hle : o₁ ≤ o₂
        · exact ⟨o₂, ⟨hle, by omega⟩, by omega, by omega⟩
        · exact ⟨o₁, ⟨by omega, by omega⟩, by omega, by omega⟩

/-- where one argument of a call lives: an integer register, a float register, or the bytes
    `[off, off+size)` of the outgoing-argument area -/
inductive Loc where
  | reg (n : Nat)
  | freg (n : Nat)
  | stack (off size : Int)
  deriving DecidableEq, Repr, Inhabited

/-- two arguments do not share storage -/
def Loc.Distinct : Loc → Loc → Prop
  | .reg a, .reg b => a ≠ b
  | .freg a, .freg b => a ≠ b
  | .stack o₁ n₁, .stack o₂ n₂ => Disjoint o₁ n₁ o₂ n₂
  | _, _ => True

instance (a b : Loc) : Decidable (Loc.Distinct a b) := by
  cases a <;> cases b <;> unfold Loc.Distinct <;> exact inferInstance

end Spec.StackSlots
