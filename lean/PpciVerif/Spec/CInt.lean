/-
`Spec.CInt` — C integer constant expressions on an LP64 target (x86-64 System V,
as gcc implements it).  Import-free; nothing here is derived from ppci's code.

Written from ISO C11: 6.2.5 (types), 6.3.1.1 (conversion rank, integer
promotions), 6.3.1.3 (conversion of a value to an integer type), 6.3.1.8 (usual
arithmetic conversions), 6.4.4.1 (type of an integer constant), 6.4.4.4
(character constants have type `int`), 6.5.3–6.5.15 (operators) and 6.6
(constant expressions).

* Values are mathematical integers (`Int`); a typed value always lies in the
  range of its type (`Proofs.CInt.eval_inRange`).
* **Undefined behaviour is explicit**: `eval` returns `none` for signed
  overflow of `+ - * / %` and unary `-`, division/remainder by zero,
  `MIN / -1` and `MIN % -1`, a shift count that is negative or not smaller than
  the width of the promoted left operand, `<<` of a negative value or one whose
  result is not representable.  Operands that C does not evaluate
  (`0 && x`, `1 || x`, the branch of `?:` not chosen) may be undefined without
  making the whole expression undefined, but they still take part in typing.
* **Implementation-defined behaviour follows gcc**: plain `char` is signed;
  conversion to a signed type that cannot represent the value reduces modulo
  `2^N` (6.3.1.3p3); `>>` of a negative value is an arithmetic shift; bitwise
  operators act on the two's-complement representation; a character constant
  `'\377'` has the value of a `char` converted to `int` (= -1).
* `_Bool` is not included (ppci has no `_Bool`); `sizeof` is not included.

Validated against gcc 12 (static initialisers of a generated program) by
`harness/c27.py` in the thorough tier.
-/
namespace Spec.CInt

/-! ### types -/

inductive Ty
  | char | schar | uchar | short | ushort | int | uint | long | ulong | llong | ullong
  deriving DecidableEq, Repr, Inhabited

namespace Ty

def all : List Ty := [char, schar, uchar, short, ushort, int, uint, long, ulong, llong, ullong]

/-- width in bits (LP64) -/
def bits : Ty → Nat
  | char | schar | uchar => 8
  | short | ushort => 16
  | int | uint => 32
  | long | ulong | llong | ullong => 64

def signed : Ty → Bool
  | char | schar | short | int | long | llong => true
  | uchar | ushort | uint | ulong | ullong => false

/-- integer conversion rank (6.3.1.1p1) -/
def rank : Ty → Nat
  | char | schar | uchar => 1
  | short | ushort => 2
  | int | uint => 3
  | long | ulong => 4
  | llong | ullong => 5

def minV (τ : Ty) : Int := if τ.signed then -(2 ^ (τ.bits - 1)) else 0
def maxV (τ : Ty) : Int := if τ.signed then 2 ^ (τ.bits - 1) - 1 else 2 ^ τ.bits - 1

/-- the unsigned type corresponding to a type -/
def toUnsigned : Ty → Ty
  | char | schar | uchar => uchar
  | short | ushort => ushort
  | int | uint => uint
  | long | ulong => ulong
  | llong | ullong => ullong

def name : Ty → String
  | char => "char" | schar => "signed char" | uchar => "unsigned char"
  | short => "short" | ushort => "unsigned short" | int => "int" | uint => "unsigned int"
  | long => "long" | ulong => "unsigned long" | llong => "long long" | ullong => "unsigned long long"

end Ty

/-- `v` is representable in `τ` -/
def inRange (τ : Ty) (v : Int) : Bool := decide (τ.minV ≤ v) && decide (v ≤ τ.maxV)

/-- 6.3.1.3: conversion of the mathematical value `v` to `τ`.  Representable ⇒ unchanged;
    unsigned ⇒ reduced modulo `2^N`; signed and not representable ⇒ implementation-defined,
    gcc: reduced modulo `2^N` into the signed range. -/
def convert (τ : Ty) (v : Int) : Int :=
  if inRange τ v then v
  else if τ.signed then
    let r := v % 2 ^ τ.bits
    if r < 2 ^ (τ.bits - 1) then r else r - 2 ^ τ.bits
  else v % 2 ^ τ.bits

/-- 6.3.1.1p2 integer promotions: a type of rank below `int` becomes `int` if `int` can
    represent all its values, else `unsigned int` -/
def promote (τ : Ty) : Ty :=
  if τ.rank < Ty.int.rank then
    (if inRange .int τ.minV && inRange .int τ.maxV then .int else .uint)
  else τ

/-- 6.3.1.8 usual arithmetic conversions (integer part): the common type of two operands -/
def uac (a b : Ty) : Ty :=
  let a := promote a
  let b := promote b
  if a = b then a
  else if a.signed = b.signed then (if a.rank ≥ b.rank then a else b)
  else
    let u := if a.signed then b else a     -- the unsigned one
    let s := if a.signed then a else b     -- the signed one
    if u.rank ≥ s.rank then u
    else if inRange s u.maxV then s
    else s.toUnsigned

/-- the object representation: `N/8` bytes, little-endian, two's complement -/
def bytesLE (τ : Ty) (v : Int) : List Nat :=
  (List.range (τ.bits / 8)).map fun i => ((v % 2 ^ τ.bits) / 256 ^ i % 256).toNat

/-! ### expressions -/

/-- how an integer constant is written: decimal, or octal/hexadecimal -/
inductive Base | dec | hexoct
  deriving DecidableEq, Repr

inductive Suffix | none | u | l | ul | ll | ull
  deriving DecidableEq, Repr

inductive UnOp | neg | bnot | lnot | plus
  deriving DecidableEq, Repr

inductive BinOp
  | add | sub | mul | div | mod | shl | shr | band | bor | bxor
  | lt | gt | le | ge | eq | ne | land | lor
  deriving DecidableEq, Repr

inductive Expr
  | lit (base : Base) (suf : Suffix) (v : Nat)     -- integer constant
  | chr (v : Nat)                                  -- character constant with one `char` of value `v`
  | un (op : UnOp) (a : Expr)
  | bin (op : BinOp) (a b : Expr)
  | cond (c a b : Expr)
  | cast (τ : Ty) (a : Expr)
  deriving Repr

/-- 6.4.4.1p5: the candidate types of an integer constant, in order -/
def litCandidates : Base → Suffix → List Ty
  | .dec, .none => [.int, .long, .llong]
  | .hexoct, .none => [.int, .uint, .long, .ulong, .llong, .ullong]
  | _, .u => [.uint, .ulong, .ullong]
  | .dec, .l => [.long, .llong]
  | .hexoct, .l => [.long, .ulong, .llong, .ullong]
  | _, .ul => [.ulong, .ullong]
  | .dec, .ll => [.llong]
  | .hexoct, .ll => [.llong, .ullong]
  | _, .ull => [.ullong]

/-- the first candidate type that can represent the value (`none`: the constant has no type) -/
def litType (b : Base) (s : Suffix) (v : Nat) : Option Ty :=
  (litCandidates b s).find? fun τ => inRange τ v

def BinOp.isArith : BinOp → Bool
  | .add | .sub | .mul | .div | .mod | .band | .bor | .bxor => true
  | _ => false

def BinOp.isShift : BinOp → Bool
  | .shl | .shr => true
  | _ => false

/-- the type of an expression (6.5); `none` only when a constant has no type -/
def typeOf : Expr → Option Ty
  | .lit b s v => litType b s v
  | .chr v => if v < 256 then some .int else none
  | .un .lnot a => (typeOf a).map fun _ => .int
  | .un _ a => (typeOf a).map promote
  | .bin op a b =>
    match typeOf a, typeOf b with
    | some ta, some tb =>
      if op.isArith then some (uac ta tb)
      else if op.isShift then some (promote ta)
      else some .int
    | _, _ => none
  | .cond c a b =>
    match typeOf c, typeOf a, typeOf b with
    | some _, some ta, some tb => some (uac ta tb)
    | _, _, _ => none
  | .cast τ a => (typeOf a).map fun _ => τ

/-! ### values -/

/-- the bit pattern of `v` in `τ` as a natural number -/
def toU (τ : Ty) (v : Int) : Nat := (v % 2 ^ τ.bits).toNat

/-- the value in `τ` of a bit pattern -/
def ofU (τ : Ty) (n : Nat) : Int := convert τ (n : Int)

/-- result of an arithmetic operator whose mathematical result is `r`:
    signed and not representable ⇒ undefined (6.5p5); unsigned ⇒ modulo `2^N` (6.2.5p9) -/
def arith (τ : Ty) (r : Int) : Option Int :=
  if τ.signed then (if inRange τ r then some r else none) else some (r % 2 ^ τ.bits)

def ofBool (b : Bool) : Int := if b then 1 else 0

/-- a binary operator whose operands have already been converted to the common type `τ` -/
def evalArith (op : BinOp) (τ : Ty) (x y : Int) : Option Int :=
  match op with
  | .add => arith τ (x + y)
  | .sub => arith τ (x - y)
  | .mul => arith τ (x * y)
  | .div => if y = 0 then none else arith τ (Int.tdiv x y)
  | .mod => if y = 0 then none
            else if inRange τ (Int.tdiv x y) then some (Int.tmod x y) else none   -- 6.5.5p6
  | .band => some (ofU τ (toU τ x &&& toU τ y))
  | .bor => some (ofU τ (toU τ x ||| toU τ y))
  | .bxor => some (ofU τ (toU τ x ^^^ toU τ y))
  | _ => none

/-- shifts: `x` has the promoted type `τ` of the left operand, `c` is the value of the right operand -/
def evalShift (op : BinOp) (τ : Ty) (x c : Int) : Option Int :=
  if c < 0 ∨ c ≥ τ.bits then none
  else match op with
  | .shl =>
    if τ.signed then
      (if x < 0 then none else if inRange τ (x * 2 ^ c.toNat) then some (x * 2 ^ c.toNat) else none)
    else some (x * 2 ^ c.toNat % 2 ^ τ.bits)
  | .shr => some (x / 2 ^ c.toNat)        -- floor: logical for x ≥ 0, arithmetic for x < 0 (gcc)
  | _ => none

def evalCmp (op : BinOp) (x y : Int) : Option Int :=
  match op with
  | .lt => some (ofBool (decide (x < y)))
  | .gt => some (ofBool (decide (x > y)))
  | .le => some (ofBool (decide (x ≤ y)))
  | .ge => some (ofBool (decide (x ≥ y)))
  | .eq => some (ofBool (decide (x = y)))
  | .ne => some (ofBool (decide (x ≠ y)))
  | _ => none

def evalUn (op : UnOp) (τ : Ty) (x : Int) : Option Int :=   -- τ = promoted operand type, x converted
  match op with
  | .plus => some x
  | .neg => arith τ (-x)
  | .bnot => some (ofU τ (2 ^ τ.bits - 1 - toU τ x))
  | .lnot => some (ofBool (decide (x = 0)))

/-- value of a constant expression (`none`: untyped constant or undefined behaviour) -/
def eval : Expr → Option Int
  | .lit b s v => (litType b s v).map fun _ => (v : Int)
  | .chr v => if v < 256 then some (convert .char v) else none
  | .un op a =>
    match typeOf a, eval a with
    | some ta, some x =>
      if op = .lnot then evalUn op ta x else evalUn op (promote ta) (convert (promote ta) x)
    | _, _ => none
  | .bin op a b =>
    match typeOf a, typeOf b with
    | some ta, some tb =>
      match op with
      | .land =>
        match eval a with
        | some x => if x = 0 then some 0 else (eval b).map fun y => ofBool (decide (y ≠ 0))
        | none => none
      | .lor =>
        match eval a with
        | some x => if x ≠ 0 then some 1 else (eval b).map fun y => ofBool (decide (y ≠ 0))
        | none => none
      | _ =>
        match eval a, eval b with
        | some x, some y =>
          if op.isArith then evalArith op (uac ta tb) (convert (uac ta tb) x) (convert (uac ta tb) y)
          else if op.isShift then evalShift op (promote ta) (convert (promote ta) x) y
          else evalCmp op (convert (uac ta tb) x) (convert (uac ta tb) y)
        | _, _ => none
    | _, _ => none
  | .cond c a b =>
    match typeOf c, typeOf a, typeOf b with
    | some _, some ta, some tb =>
      match eval c with
      | some x =>
        if x ≠ 0 then (eval a).map (convert (uac ta tb)) else (eval b).map (convert (uac ta tb))
      | none => none
    | _, _, _ => none
  | .cast τ a => (eval a).map (convert τ)

/-! ### the places where C requires an integer constant expression -/

/-- initialiser of an object of integer type `τ` with static storage duration:
    the value converted to `τ` (6.7.9p11), as its byte image -/
def initBytes (τ : Ty) (e : Expr) : Option (List Nat) :=
  (eval e).map fun v => bytesLE τ (convert τ v)

/-- initialiser of an object of an enumerated type: the enumerated type is compatible with `int` here
    (6.7.2.2p4 leaves the choice to the implementation; ppci: `int`; gcc picks `unsigned int` when no
    enumerator is negative, which has the same image for every value both can represent) -/
def initBytesEnum (e : Expr) : Option (List Nat) :=
  (eval e).map fun v => bytesLE .int (convert .int v)

/-- `T *p = (T *)e;`: integer to pointer conversion is implementation-defined (6.3.2.3p5); gcc: the value is
    converted to the width of a pointer (sign-extended when the source type is signed), i.e. `convert` to the
    64-bit unsigned type of the mathematical value -/
def initBytesPtr (e : Expr) : Option (List Nat) :=
  (eval e).map fun v => bytesLE .ulong (convert .ulong v)

/-- `case e:` in a `switch` whose controlling expression has type `ctl`:
    converted to the promoted type of the controlling expression (6.8.4.2p5) -/
def caseLabel (ctl : Ty) (e : Expr) : Option Int :=
  (eval e).map (convert (promote ctl))

/-- enumerator value: shall be representable as an `int` (6.7.2.2p2) -/
def enumerator (e : Expr) : Option Int :=
  match eval e with
  | some v => if inRange .int v then some v else none
  | none => none

/-- 6.7.2.2p3: the enumerators of ONE enumerator list in order.  An enumerator with `= e` has the value of `e`;
    one without has the value of the previous enumerator plus 1, the first one 0.  Every value shall be
    representable as an `int` (p2; also the implicit successor of `INT_MAX` is a constraint violation). -/
def enumValuesFrom (next : Int) : List (Option Expr) → Option (List Int)
  | [] => some []
  | item :: rest =>
    match (match item with | some e => eval e | none => some next) with
    | some v => if inRange .int v then (enumValuesFrom (v + 1) rest).map (v :: ·) else none
    | none => none

def enumValues (l : List (Option Expr)) : Option (List Int) := enumValuesFrom 0 l

/-- array bound: shall be greater than zero (6.7.6.2p1).  Implementation limit (5.2.4.1; gcc: "size of
    array exceeds maximum object size"): no object is larger than `PTRDIFF_MAX = LONG_MAX` bytes, so a
    bound above it has no meaning here either. -/
def arrayBound (e : Expr) : Option Int :=
  match eval e with
  | some v => if v > 0 ∧ v ≤ Ty.long.maxV then some v else none
  | none => none

end Spec.CInt
