import PpciVerif.Model.MCode
/-!
# `Spec.ItemTrace` — label-resolved trace semantics of an instruction stream

What an output stream of the code generator carries, abstracted as in S5 (`Model.MCode`):

* `label l`   — a label pseudo-instruction (labels are stream items of their own);
* `jump t`    — an unconditional jump to label `t` that does nothing else;
* `other ins` — any other item; `ins : Model.MCode.Instr` supplies its (conditional) jump targets.

Semantics: the program counter is an index into the list.  A label falls through, a jump
continues at the FIRST item carrying its target label (`Model.MCode.findLabelL`: the position
after the end when the label does not exist = the stream is left).  What an `other` item does
is **arbitrary**: `X.run ins st` returns the new machine state (registers, memory, flags, …:
any type `σ`) and a number selecting the successor among the item's jump targets, exactly as
in `Model.MCode.nextPc` (no targets = fall through).  The observable behaviour of a run is the
sequence of `other` items executed together with the state each one leaves (`trace`).
-/
namespace Spec.ItemTrace
open Model.MCode

inductive Item where
  | label (l : Nat)
  | jump (t : Nat)
  | other (ins : Instr)
  deriving Repr, DecidableEq, Inhabited

/-- the label column of a stream -/
def lab : Item → Option Nat
  | .label l => some l
  | _ => none

def labels (p : List Item) : List (Option Nat) := p.map lab

/-- index of the first item carrying label `l`, `p.length` if there is none -/
def findLabel (p : List Item) (l : Nat) : Nat := findLabelL l (labels p) 0

/-- uninterpreted semantics of the `other` items over an arbitrary machine state `σ` -/
structure Exec (σ : Type) where
  run : Instr → σ → σ × Nat

structure Cfg (σ : Type) where
  pc : Nat
  st : σ

/-- an executed `other` item and the state it left -/
abbrev Event (σ : Type) := Instr × σ

/-- one step; `none` when the program counter is outside the stream -/
def step {σ : Type} (X : Exec σ) (p : List Item) (c : Cfg σ) : Option (Cfg σ × Option (Event σ)) :=
  match p[c.pc]? with
  | none => none
  | some (.label _) => some ({ c with pc := c.pc + 1 }, none)
  | some (.jump t) => some ({ c with pc := findLabel p t }, none)
  | some (.other ins) =>
    let r := X.run ins c.st
    some ({ pc := pick (succsL (labels p) c.pc ins.jumps) r.2 (c.pc + 1), st := r.1 }, some (ins, r.1))

def evList {σ : Type} : Option (Event σ) → List (Event σ)
  | none => []
  | some e => [e]

/-- the events of the first `n` steps and the configuration reached -/
def trace {σ : Type} (X : Exec σ) (p : List Item) : Nat → Cfg σ → List (Event σ) × Cfg σ
  | 0, c => ([], c)
  | n + 1, c =>
    match step X p c with
    | none => ([], c)
    | some (c', ev) =>
      let r := trace X p n c'
      (evList ev ++ r.1, r.2)

/-- label names are pairwise distinct (what every assembler demands) -/
def LabelsDistinct (p : List Item) : Prop := (p.filterMap lab).Nodup

instance (p : List Item) : Decidable (LabelsDistinct p) := by
  unfold LabelsDistinct; exact inferInstance

/-- `q` simulates `p` under the index map `m` (program counters of `p` ↦ program counters of `q`):
    every finite run of `p` is matched by a run of `q` that is not longer, executes the same
    `other` items with the same states, and ends at the corresponding place;
    conversely every finite run of `q` is matched by a run of `p` that is not shorter. -/
def TraceEquiv {σ : Type} (X : Exec σ) (p q : List Item) (m : Nat → Nat) : Prop :=
  (∀ n (c : Cfg σ), ∃ n', n' ≤ n ∧
      (trace X q n' ⟨m c.pc, c.st⟩).1 = (trace X p n c).1 ∧
      (trace X q n' ⟨m c.pc, c.st⟩).2.pc = m (trace X p n c).2.pc ∧
      (trace X q n' ⟨m c.pc, c.st⟩).2.st = (trace X p n c).2.st) ∧
  (∀ n' (c : Cfg σ), ∃ n, n' ≤ n ∧
      (trace X p n c).1 = (trace X q n' ⟨m c.pc, c.st⟩).1 ∧
      m (trace X p n c).2.pc = (trace X q n' ⟨m c.pc, c.st⟩).2.pc ∧
      (trace X p n c).2.st = (trace X q n' ⟨m c.pc, c.st⟩).2.st)

end Spec.ItemTrace
