/-
`Spec.Elf` — an ELF reader written from the System V gABI (chapters 4 "Object
files" and 5 "Program loading"), import-free, total.

Nothing here is derived from ppci's code.  The reader is the specification side
of property C17: it parses a byte string (a `List Nat`, every element a byte)
into

* the identification (`EI_CLASS`, `EI_DATA`, `EI_VERSION`) and the ELF header,
* the program header table (segments, with the file bytes they cover),
* the section header table (sections, with names from `e_shstrndx` and the file
  bytes they cover),
* every `SHT_SYMTAB` section as a symbol table (names from the linked string
  table, binding / type split of `st_info`),
* every `SHT_RELA` section as a list of relocation entries (`r_info` split as
  the gABI prescribes for the file's class),

for ELFCLASS32/ELFCLASS64 and ELFDATA2LSB/ELFDATA2MSB, and it REJECTS (with a
named reason) what the gABI does not allow: tables outside the file, wrong
entry sizes, a name index outside its string table, a local symbol after
`sh_info` / a non-local one before it, a symbol or relocation that refers to a
section / symbol that does not exist, a `PT_LOAD` segment whose `p_vaddr` is not
congruent to `p_offset` modulo `p_align`, ...

The record layouts (`ehdr`, `phdr`, `shdr`, `sym`, `rela`, `dyn`: field order
and C types from the gABI figures) are data, so that `Props/C17.lean` can
compare them (`decide`) with the `_fields` dumped from ppci's `headers.py`.
-/
namespace Spec.Elf

/-! ### vocabulary -/

/-- `EI_CLASS` -/
inductive Cls | c32 | c64
  deriving DecidableEq, Repr, Inhabited

/-- `EI_DATA` -/
inductive End | le | be
  deriving DecidableEq, Repr, Inhabited

/-- C types of the gABI, named by the `struct` format character of the same
    size and signedness: `B` unsigned char, `H` Elf_Half, `I` Elf_Word /
    Elf32_Addr / Elf32_Off, `Q` Elf64_Xword / Elf64_Addr / Elf64_Off,
    `i` Elf_Sword, `q` Elf64_Sxword. -/
inductive Fmt | B | H | I | Q | i | q
  deriving DecidableEq, Repr, Inhabited

def Fmt.size : Fmt → Nat
  | .B => 1 | .H => 2 | .I => 4 | .i => 4 | .Q => 8 | .q => 8

def Fmt.signed : Fmt → Bool
  | .i => true | .q => true | _ => false

/-- every field name of the gABI structures used here -/
inductive FName
  | e_type | e_machine | e_version | e_entry | e_phoff | e_shoff | e_flags | e_ehsize
  | e_phentsize | e_phnum | e_shentsize | e_shnum | e_shstrndx
  | sh_name | sh_type | sh_flags | sh_addr | sh_offset | sh_size | sh_link | sh_info
  | sh_addralign | sh_entsize
  | p_type | p_flags | p_offset | p_vaddr | p_paddr | p_filesz | p_memsz | p_align
  | st_name | st_info | st_other | st_shndx | st_value | st_size
  | r_offset | r_info | r_addend
  | d_tag | d_val
  deriving DecidableEq, Repr, Inhabited

structure Field where
  name : FName
  fmt : Fmt
  deriving DecidableEq, Repr

/-! ### gABI record layouts (after the 16 `e_ident` bytes for the ELF header) -/

/-- address / offset / size type of the class -/
def wordFmt : Cls → Fmt
  | .c32 => .I
  | .c64 => .Q

def swordFmt : Cls → Fmt
  | .c32 => .i
  | .c64 => .q

/-- `ElfN_Ehdr` without `e_ident` (gABI figure 4-3) -/
def ehdr (c : Cls) : List Field :=
  [⟨.e_type, .H⟩, ⟨.e_machine, .H⟩, ⟨.e_version, .I⟩, ⟨.e_entry, wordFmt c⟩, ⟨.e_phoff, wordFmt c⟩,
   ⟨.e_shoff, wordFmt c⟩, ⟨.e_flags, .I⟩, ⟨.e_ehsize, .H⟩, ⟨.e_phentsize, .H⟩, ⟨.e_phnum, .H⟩,
   ⟨.e_shentsize, .H⟩, ⟨.e_shnum, .H⟩, ⟨.e_shstrndx, .H⟩]

/-- `ElfN_Shdr` (figure 4-8) -/
def shdr (c : Cls) : List Field :=
  [⟨.sh_name, .I⟩, ⟨.sh_type, .I⟩, ⟨.sh_flags, wordFmt c⟩, ⟨.sh_addr, wordFmt c⟩, ⟨.sh_offset, wordFmt c⟩,
   ⟨.sh_size, wordFmt c⟩, ⟨.sh_link, .I⟩, ⟨.sh_info, .I⟩, ⟨.sh_addralign, wordFmt c⟩, ⟨.sh_entsize, wordFmt c⟩]

/-- `ElfN_Phdr` (figure 5-1); the 64-bit structure moves `p_flags` forward -/
def phdr : Cls → List Field
  | .c32 => [⟨.p_type, .I⟩, ⟨.p_offset, .I⟩, ⟨.p_vaddr, .I⟩, ⟨.p_paddr, .I⟩, ⟨.p_filesz, .I⟩,
             ⟨.p_memsz, .I⟩, ⟨.p_flags, .I⟩, ⟨.p_align, .I⟩]
  | .c64 => [⟨.p_type, .I⟩, ⟨.p_flags, .I⟩, ⟨.p_offset, .Q⟩, ⟨.p_vaddr, .Q⟩, ⟨.p_paddr, .Q⟩,
             ⟨.p_filesz, .Q⟩, ⟨.p_memsz, .Q⟩, ⟨.p_align, .Q⟩]

/-- `ElfN_Sym` (figure 4-15) -/
def sym : Cls → List Field
  | .c32 => [⟨.st_name, .I⟩, ⟨.st_value, .I⟩, ⟨.st_size, .I⟩, ⟨.st_info, .B⟩, ⟨.st_other, .B⟩, ⟨.st_shndx, .H⟩]
  | .c64 => [⟨.st_name, .I⟩, ⟨.st_info, .B⟩, ⟨.st_other, .B⟩, ⟨.st_shndx, .H⟩, ⟨.st_value, .Q⟩, ⟨.st_size, .Q⟩]

/-- `ElfN_Rela` (figure 4-19) -/
def rela (c : Cls) : List Field :=
  [⟨.r_offset, wordFmt c⟩, ⟨.r_info, wordFmt c⟩, ⟨.r_addend, swordFmt c⟩]

/-- `ElfN_Dyn` (figure 5-9) -/
def dyn (c : Cls) : List Field :=
  [⟨.d_tag, swordFmt c⟩, ⟨.d_val, wordFmt c⟩]

def recSize : List Field → Nat
  | [] => 0
  | f :: fs => f.fmt.size + recSize fs

/-! ### numbers -/

/-- value of a byte string, least significant byte first -/
def leVal : List Nat → Nat
  | [] => 0
  | b :: bs => b + 256 * leVal bs

/-- unsigned value of a field in the file's byte order -/
def uval (e : End) (bs : List Nat) : Nat :=
  match e with
  | .le => leVal bs
  | .be => leVal bs.reverse

/-- two's complement reading of an unsigned `bits`-bit number -/
def toSigned (bits u : Nat) : Int :=
  if u < 2 ^ (bits - 1) then (u : Int) else (u : Int) - 2 ^ bits

def isPow2 (n : Nat) : Bool := n != 0 && n &&& (n - 1) == 0

/-! ### records -/

/-- field values in layout order (raw unsigned values) -/
abbrev Rec := List (FName × Nat)

def Rec.get : Rec → FName → Nat
  | [], _ => 0
  | (k, v) :: t, n => if k = n then v else Rec.get t n

/-- read one record from the front of `bs` -/
def readRec (e : End) : List Field → List Nat → Option Rec
  | [], _ => some []
  | f :: fs, bs =>
    if bs.length < f.fmt.size then none else
    match readRec e fs (bs.drop f.fmt.size) with
    | some r => some ((f.name, uval e (bs.take f.fmt.size)) :: r)
    | none => none

/-- `n` records of `entsize` bytes each, starting at file offset `off` -/
def readTable (bs : List Nat) (e : End) (fs : List Field) (entsize : Nat) : Nat → Nat → Option (List Rec)
  | _, 0 => some []
  | off, n + 1 =>
    match readRec e fs (bs.drop off), readTable bs e fs entsize (off + entsize) n with
    | some r, some rs => some (r :: rs)
    | _, _ => none

/-- `len` bytes of the file at `off`; `none` if they are not all there -/
def slice (bs : List Nat) (off len : Nat) : Option (List Nat) :=
  if off + len ≤ bs.length then some ((bs.drop off).take len) else none

/-- the bytes before the first NUL; `none` if there is no NUL -/
def cstr : List Nat → Option (List Nat)
  | [] => none
  | b :: bs => if b = 0 then some [] else
    match cstr bs with
    | some s => some (b :: s)
    | none => none

/-- string-table lookup (gABI "String table"): the NUL-terminated string at index `off` -/
def strAt (tab : List Nat) (off : Nat) : Option (List Nat) := cstr (tab.drop off)

/-! ### the view an ELF reader has of a file -/

structure Segment where
  type : Nat
  flags : Nat
  offset : Nat
  vaddr : Nat
  paddr : Nat
  filesz : Nat
  memsz : Nat
  align : Nat
  data : List Nat          -- the `p_filesz` file bytes at `p_offset`
  deriving DecidableEq, Repr

structure Section where
  name : List Nat
  type : Nat
  flags : Nat
  addr : Nat
  offset : Nat
  size : Nat
  link : Nat
  info : Nat
  addralign : Nat
  entsize : Nat
  data : List Nat          -- the `sh_size` file bytes at `sh_offset` (empty for SHT_NOBITS / SHT_NULL)
  deriving DecidableEq, Repr

structure Symbol where
  name : List Nat
  value : Nat
  size : Nat
  bind : Nat               -- ELF_ST_BIND(st_info)
  type : Nat               -- ELF_ST_TYPE(st_info)
  other : Nat
  shndx : Nat
  deriving DecidableEq, Repr

structure Rela where
  offset : Nat
  sym : Nat                -- ELF32_R_SYM / ELF64_R_SYM
  type : Nat               -- ELF32_R_TYPE / ELF64_R_TYPE
  addend : Int
  deriving DecidableEq, Repr

structure SymTab where
  index : Nat              -- section header index of the table
  firstNonLocal : Nat      -- sh_info
  syms : List Symbol       -- including the reserved entry 0
  deriving DecidableEq, Repr

structure RelaTab where
  index : Nat              -- section header index of the table
  target : Nat             -- sh_info: the section the relocations apply to
  symtab : Nat             -- sh_link
  entries : List Rela
  deriving DecidableEq, Repr

structure File where
  cls : Cls
  en : End
  etype : Nat
  machine : Nat
  entry : Nat
  flags : Nat
  shstrndx : Nat
  segments : List Segment
  sections : List Section
  symtabs : List SymTab
  relatabs : List RelaTab
  deriving DecidableEq, Repr

inductive Err
  | truncated | badMagic | badClass | badData | badVersion | badEhsize
  | badPhentsize | phdrsOutsideFile | badShentsize | shdrsOutsideFile
  | section0NotNull | badShstrndx | shstrtabNotStrtab | sectionOutsideFile | badSectionName
  | badAddralign | misalignedSection
  | symEntsize | symSize | symLink | symName | sym0NotNull | symInfo | localAfterInfo
  | nonLocalBeforeInfo | symShndx
  | relaEntsize | relaSize | relaLink | relaInfo | relaSym
  | segmentOutsideFile | fileszGtMemsz | badPalign | vaddrOffsetNotCongruent
  deriving DecidableEq, Repr

def Err.name : Err → String
  | .truncated => "truncated" | .badMagic => "badMagic" | .badClass => "badClass"
  | .badData => "badData" | .badVersion => "badVersion" | .badEhsize => "badEhsize"
  | .badPhentsize => "badPhentsize" | .phdrsOutsideFile => "phdrsOutsideFile"
  | .badShentsize => "badShentsize" | .shdrsOutsideFile => "shdrsOutsideFile"
  | .section0NotNull => "section0NotNull" | .badShstrndx => "badShstrndx"
  | .shstrtabNotStrtab => "shstrtabNotStrtab" | .sectionOutsideFile => "sectionOutsideFile"
  | .badSectionName => "badSectionName" | .badAddralign => "badAddralign"
  | .misalignedSection => "misalignedSection"
  | .symEntsize => "symEntsize" | .symSize => "symSize" | .symLink => "symLink"
  | .symName => "symName" | .sym0NotNull => "sym0NotNull" | .symInfo => "symInfo"
  | .localAfterInfo => "localAfterInfo" | .nonLocalBeforeInfo => "nonLocalBeforeInfo"
  | .symShndx => "symShndx"
  | .relaEntsize => "relaEntsize" | .relaSize => "relaSize" | .relaLink => "relaLink"
  | .relaInfo => "relaInfo" | .relaSym => "relaSym"
  | .segmentOutsideFile => "segmentOutsideFile" | .fileszGtMemsz => "fileszGtMemsz"
  | .badPalign => "badPalign" | .vaddrOffsetNotCongruent => "vaddrOffsetNotCongruent"

/-! ### constants of the gABI used by the reader -/

def SHT_NULL : Nat := 0
def SHT_SYMTAB : Nat := 2
def SHT_STRTAB : Nat := 3
def SHT_RELA : Nat := 4
def SHT_NOBITS : Nat := 8
def SHN_LORESERVE : Nat := 0xff00
def SHN_ABS : Nat := 0xfff1
def PT_LOAD : Nat := 1
def STB_LOCAL : Nat := 0

/-! ### identification and header -/

/-- `e_ident`: magic, class, data encoding, version -/
def readIdent (bs : List Nat) : Except Err (Cls × End) :=
  if bs.length < 16 then .error .truncated else
  if bs.take 4 ≠ [0x7f, 0x45, 0x4c, 0x46] then .error .badMagic else
  match bs.getD 4 0, bs.getD 5 0 with
  | 1, 1 => if bs.getD 6 0 = 1 then .ok (.c32, .le) else .error .badVersion
  | 1, 2 => if bs.getD 6 0 = 1 then .ok (.c32, .be) else .error .badVersion
  | 2, 1 => if bs.getD 6 0 = 1 then .ok (.c64, .le) else .error .badVersion
  | 2, 2 => if bs.getD 6 0 = 1 then .ok (.c64, .be) else .error .badVersion
  | 1, _ => .error .badData
  | 2, _ => .error .badData
  | _, _ => .error .badClass

/-- the ELF header record after `e_ident`, with the checks of its own fields -/
def readEhdr (bs : List Nat) (c : Cls) (e : End) : Except Err Rec :=
  match readRec e (ehdr c) (bs.drop 16) with
  | none => .error .truncated
  | some h =>
    if h.get .e_version ≠ 1 then .error .badVersion else
    if h.get .e_ehsize ≠ 16 + recSize (ehdr c) then .error .badEhsize else
    .ok h

/-! ### program headers -/

def mkSegment (bs : List Nat) (p : Rec) : Except Err Segment :=
  match slice bs (p.get .p_offset) (p.get .p_filesz) with
  | none => .error .segmentOutsideFile
  | some d =>
    let al := p.get .p_align
    if p.get .p_type = PT_LOAD ∧ p.get .p_memsz < p.get .p_filesz then .error .fileszGtMemsz else
    if p.get .p_type = PT_LOAD ∧ 1 < al ∧ ¬ isPow2 al then .error .badPalign else
    if p.get .p_type = PT_LOAD ∧ 1 < al ∧ p.get .p_vaddr % al ≠ p.get .p_offset % al then
      .error .vaddrOffsetNotCongruent else
    .ok { type := p.get .p_type, flags := p.get .p_flags, offset := p.get .p_offset,
          vaddr := p.get .p_vaddr, paddr := p.get .p_paddr, filesz := p.get .p_filesz,
          memsz := p.get .p_memsz, align := al, data := d }

def mapE {α β ε} (f : α → Except ε β) : List α → Except ε (List β)
  | [] => .ok []
  | a :: as =>
    match f a with
    | .error e => .error e
    | .ok b =>
      match mapE f as with
      | .error e => .error e
      | .ok bs => .ok (b :: bs)

def readSegments (bs : List Nat) (c : Cls) (e : End) (h : Rec) : Except Err (List Segment) :=
  let n := h.get .e_phnum
  if n = 0 then .ok [] else
  if h.get .e_phentsize ≠ recSize (phdr c) then .error .badPhentsize else
  if bs.length < h.get .e_phoff + n * recSize (phdr c) then .error .phdrsOutsideFile else
  match readTable bs e (phdr c) (recSize (phdr c)) (h.get .e_phoff) n with
  | none => .error .phdrsOutsideFile
  | some ps => mapE (mkSegment bs) ps

/-! ### section headers -/

/-- a section before its name is known -/
def mkSection (bs : List Nat) (s : Rec) : Except Err Section :=
  let ty := s.get .sh_type
  let al := s.get .sh_addralign
  let dataE : Except Err (List Nat) :=
    if ty = SHT_NULL ∨ ty = SHT_NOBITS then .ok [] else
    match slice bs (s.get .sh_offset) (s.get .sh_size) with
    | none => .error .sectionOutsideFile
    | some d => .ok d
  match dataE with
  | .error e => .error e
  | .ok d =>
    if 1 < al ∧ ¬ isPow2 al then .error .badAddralign else
    if 1 < al ∧ s.get .sh_addr % al ≠ 0 then .error .misalignedSection else
    .ok { name := [], type := ty, flags := s.get .sh_flags, addr := s.get .sh_addr,
          offset := s.get .sh_offset, size := s.get .sh_size, link := s.get .sh_link,
          info := s.get .sh_info, addralign := al, entsize := s.get .sh_entsize, data := d }

def nameSection (tab : List Nat) (nameIdx : Nat) (s : Section) : Except Err Section :=
  match strAt tab nameIdx with
  | none => .error .badSectionName
  | some n => .ok { s with name := n }

/-- `mapE` of `nameSection` over sections paired with their `sh_name` -/
def nameSections (tab : List Nat) : List Nat → List Section → Except Err (List Section)
  | i :: is, s :: ss =>
    match nameSection tab i s with
    | .error e => .error e
    | .ok s' =>
      match nameSections tab is ss with
      | .error e => .error e
      | .ok r => .ok (s' :: r)
  | _, _ => .ok []

def readSections (bs : List Nat) (c : Cls) (e : End) (h : Rec) : Except Err (List Section) :=
  let n := h.get .e_shnum
  if n = 0 then .ok [] else
  if h.get .e_shentsize ≠ recSize (shdr c) then .error .badShentsize else
  if bs.length < h.get .e_shoff + n * recSize (shdr c) then .error .shdrsOutsideFile else
  match readTable bs e (shdr c) (recSize (shdr c)) (h.get .e_shoff) n with
  | none => .error .shdrsOutsideFile
  | some hs =>
    match mapE (mkSection bs) hs with
    | .error er => .error er
    | .ok secs =>
      if (secs.head?.map (·.type)) ≠ some SHT_NULL then .error .section0NotNull else
      let ndx := h.get .e_shstrndx
      if ndx = 0 then .ok secs else
      match secs[ndx]? with
      | none => .error .badShstrndx
      | some st =>
        if st.type ≠ SHT_STRTAB then .error .shstrtabNotStrtab else
        nameSections st.data (hs.map (·.get .sh_name)) secs

/-! ### symbol tables -/

def mkSymbol (strtab : List Nat) (nsec : Nat) (r : Rec) : Except Err Symbol :=
  match strAt strtab (r.get .st_name) with
  | none => .error .symName
  | some n =>
    let ndx := r.get .st_shndx
    if nsec ≤ ndx ∧ ndx < SHN_LORESERVE then .error .symShndx else
    .ok { name := n, value := r.get .st_value, size := r.get .st_size,
          bind := r.get .st_info / 16, type := r.get .st_info % 16,
          other := r.get .st_other, shndx := ndx }

def isNullSymbol (s : Symbol) : Bool :=
  s.name.isEmpty && s.value == 0 && s.size == 0 && s.bind == 0 && s.type == 0 && s.other == 0 && s.shndx == 0

/-- gABI: "sh_info: one greater than the symbol table index of the last local
    symbol (binding STB_LOCAL)"; all locals precede the others. -/
def checkInfo (info : Nat) (syms : List Symbol) : Except Err Unit :=
  if syms.length < info then .error .symInfo else
  if (syms.take info).any (fun s => s.bind != STB_LOCAL) then .error .nonLocalBeforeInfo else
  if (syms.drop info).any (fun s => s.bind == STB_LOCAL) then .error .localAfterInfo else
  .ok ()

def readSymTab (c : Cls) (e : End) (secs : List Section) (idx : Nat) (s : Section) : Except Err SymTab :=
  let esz := recSize (sym c)
  if s.entsize ≠ esz then .error .symEntsize else
  if s.size % esz ≠ 0 ∨ s.data.length ≠ s.size then .error .symSize else
  match secs[s.link]? with
  | none => .error .symLink
  | some st =>
    if st.type ≠ SHT_STRTAB then .error .symLink else
    match readTable s.data e (sym c) esz 0 (s.size / esz) with
    | none => .error .symSize
    | some rs =>
      match mapE (mkSymbol st.data secs.length) rs with
      | .error er => .error er
      | .ok syms =>
        if (syms.head?.map isNullSymbol) ≠ some true then .error .sym0NotNull else
        match checkInfo s.info syms with
        | .error er => .error er
        | .ok _ => .ok { index := idx, firstNonLocal := s.info, syms := syms }

/-- all `SHT_SYMTAB` sections, `idx` = index of the head of `rest` -/
def readSymTabs (c : Cls) (e : End) (secs : List Section) : Nat → List Section → Except Err (List SymTab)
  | _, [] => .ok []
  | idx, s :: rest =>
    if s.type = SHT_SYMTAB then
      match readSymTab c e secs idx s with
      | .error er => .error er
      | .ok t =>
        match readSymTabs c e secs (idx + 1) rest with
        | .error er => .error er
        | .ok ts => .ok (t :: ts)
    else readSymTabs c e secs (idx + 1) rest

/-! ### relocation tables with addends -/

def mkRela (c : Cls) (nsyms : Nat) (r : Rec) : Except Err Rela :=
  let info := r.get .r_info
  let (s, t, bits) := match c with
    | .c32 => (info / 256, info % 256, 32)
    | .c64 => (info / 4294967296, info % 4294967296, 64)
  if nsyms ≤ s then .error .relaSym else
  .ok { offset := r.get .r_offset, sym := s, type := t, addend := toSigned bits (r.get .r_addend) }

def readRelaTab (c : Cls) (e : End) (secs : List Section) (idx : Nat) (s : Section) : Except Err RelaTab :=
  let esz := recSize (rela c)
  if s.entsize ≠ esz then .error .relaEntsize else
  if s.size % esz ≠ 0 ∨ s.data.length ≠ s.size then .error .relaSize else
  match secs[s.link]? with
  | none => .error .relaLink
  | some st =>
    if st.type ≠ SHT_SYMTAB ∨ st.entsize = 0 then .error .relaLink else
    if s.info = 0 ∨ secs.length ≤ s.info then .error .relaInfo else
    match readTable s.data e (rela c) esz 0 (s.size / esz) with
    | none => .error .relaSize
    | some rs =>
      match mapE (mkRela c (st.size / st.entsize)) rs with
      | .error er => .error er
      | .ok es => .ok { index := idx, target := s.info, symtab := s.link, entries := es }

def readRelaTabs (c : Cls) (e : End) (secs : List Section) : Nat → List Section → Except Err (List RelaTab)
  | _, [] => .ok []
  | idx, s :: rest =>
    if s.type = SHT_RELA then
      match readRelaTab c e secs idx s with
      | .error er => .error er
      | .ok t =>
        match readRelaTabs c e secs (idx + 1) rest with
        | .error er => .error er
        | .ok ts => .ok (t :: ts)
    else readRelaTabs c e secs (idx + 1) rest

/-! ### the reader -/

def read (bs : List Nat) : Except Err File :=
  match readIdent bs with
  | .error er => .error er
  | .ok (c, e) =>
    match readEhdr bs c e with
    | .error er => .error er
    | .ok h =>
      match readSegments bs c e h with
      | .error er => .error er
      | .ok segs =>
        match readSections bs c e h with
        | .error er => .error er
        | .ok secs =>
          match readSymTabs c e secs 0 secs with
          | .error er => .error er
          | .ok sts =>
            match readRelaTabs c e secs 0 secs with
            | .error er => .error er
            | .ok rts =>
              .ok { cls := c, en := e, etype := h.get .e_type, machine := h.get .e_machine,
                    entry := h.get .e_entry, flags := h.get .e_flags, shstrndx := h.get .e_shstrndx,
                    segments := segs, sections := secs, symtabs := sts, relatabs := rts }

/-! ### what a program loader sees (gABI chapter 5) -/

/-- byte `a` of the process image: the first `PT_LOAD` segment whose file part covers `a` -/
def loadedByte : List Segment → Nat → Option Nat
  | [], _ => none
  | s :: rest, a =>
    if s.type = PT_LOAD ∧ s.vaddr ≤ a ∧ a < s.vaddr + s.filesz then s.data[a - s.vaddr]?
    else loadedByte rest a

/-- what a loader that maps whole pages of the file sees at address `a`
    (`mmap` of the page containing `p_offset` at the page containing `p_vaddr`):
    the file byte at `pageStart(p_offset) + (a - pageStart(p_vaddr))`. -/
def pageMappedByte (file : List Nat) (page : Nat) (s : Segment) (a : Nat) : Option Nat :=
  file[(s.offset / page * page) + (a - s.vaddr / page * page)]?

end Spec.Elf
