import PpciVerif.Model.Proto
import PpciVerif.Spec.IR
import PpciVerif.Spec.IRParse
/-! Line-protocol engine (used by Drivers/IR.lean; kept in the library so that the driver file itself
elaborates instantly) for the reference IR semantics `Spec.IR` (stateful).

  load <sexpr>                 parse a module (format: Spec/IRParse.lean, notes/IR.md) and make it current
                               -> ok <number of functions>
  config ptr <2|4|8>           pointer width in bytes for later runs (default 8) -> ok
  wf                           -> ok 1 | ok 0 <func>:<check>,<check>;<func>:…   (module-level: *:globals-distinct)
  run <func> <fuel> <arg>*     arguments: decimal integers, floats as f:<binary64 bits, decimal>
                               -> ok ret=<v> globals=<name>=<hex>,… trace=<name>(<v>,…)=<v>;… steps=<n>
                                | ok UB <why> | ok undef-read <why> | ok unsupported <why> | ok out-of-fuel
                               <v> = integer | f:<bits> | undef | none ;  undefined bytes print as uu
  env <func> <fuel> <arg>*     like run, followed by  func=<f> block=<b> env=<name>=<v>,…  : the local environment of
                               the activation that was executing when the run ended (debugging aid)
  roundtrip                    -> ok 1 iff parse (show current) = current
  show                         -> ok <sexpr of the current module>

External calls take their result from the fixed oracle  13 + Σ_i (i+2)·arg_i  (integer
arguments; float arguments contribute their truncation), wrapped to the result type. -/
namespace Spec.IRRun
open Proto Spec.IR Spec.IRParse

structure St where
  mod : Option Module := none
  cfg : Config := {}

def oracle : Oracle := fun _ _ args =>
  .int (13 + (enumFrom 0 args).foldl (fun acc (v, i) =>
    acc + ((i : Int) + 2) * (match v with
      | .int x => x
      | .flt f => (truncFloat f).getD 0
      | .undef => 0)) 0)

def showVal : Val → String
  | .int v => toString v
  | .flt f => s!"f:{f.toBits.toNat}"
  | .undef => "undef"

def showOptVal : Option Val → String
  | some v => showVal v
  | none => "none"

def showBytes (bs : List (Option Nat)) : String :=
  if bs.isEmpty then "-" else
  String.join (bs.map fun
    | some b => String.ofList [hexDigit ((b / 16) % 16), hexDigit (b % 16)]
    | none => "uu")

def showEvent (e : Event) : String :=
  s!"{e.name}({",".intercalate (e.args.map showVal)})={showOptVal e.result}"

def dash (s : String) : String := if s.isEmpty then "-" else s

def clean (s : String) : String := s.map (fun c => if c = ' ' then '_' else c)

def showOutcome : Outcome → String
  | .ok r g t =>
    s!"ok ret={showOptVal r} globals={dash (",".intercalate (g.map (fun p => p.1 ++ "=" ++ showBytes p.2)))} trace={dash (";".intercalate (t.map showEvent))}"
  | .err (.ub w) => s!"ok UB {clean w}"
  | .err (.undefRead w) => s!"ok undef-read {clean w}"
  | .err (.unsupported w) => s!"ok unsupported {clean w}"
  | .outOfFuel => "ok out-of-fuel"

/-- `Spec.IR.run` with a step counter (same function otherwise) -/
def runCount (ctx : Ctx) : Nat → Nat → State → Outcome × Nat
  | 0, k, _ => (.outOfFuel, k)
  | n + 1, k, s =>
    match step ctx s with
    | .next s' => runCount ctx n (k + 1) s'
    | .done o => (o, k + 1)

/-- like `runCount`, also returning the last state before the outcome (debugging aid: `env` op) -/
def runLast (ctx : Ctx) : Nat → State → Outcome × State
  | 0, s => (.outOfFuel, s)
  | n + 1, s =>
    match step ctx s with
    | .next s' => runLast ctx n s'
    | .done o => (o, s)

def parseArg (w : String) : Option Val :=
  match w.toList with
  | 'f' :: ':' :: r => (String.ofList r).toNat?.map (fun b => .flt (Float.ofBits b.toUInt64))
  | _ => w.toInt?.map .int

def wfReply (m : Module) : String :=
  let fs := m.funcs.filterMap (fun f =>
    match wfFailures m f with
    | [] => none
    | l => some (f.name ++ ":" ++ ",".intercalate l))
  let fs := if allDistinct m.globalNames then fs else "*:globals-distinct" :: fs
  if fs.isEmpty then "ok 1" else "ok 0 " ++ ";".intercalate fs

def step' (st : St) (line : String) : St × String :=
  let line := line.trimAscii.toString
  if line.startsWith "load " then
    match parseModule (line.drop 5).toString with
    | some m => ({ st with mod := some m }, s!"ok {m.funcs.length}")
    | none => (st, "bad-op")
  else
  match words line, st.mod with
  | ["config", "ptr", n], _ =>
    match n.toNat? with
    | some k => if k = 2 ∨ k = 4 ∨ k = 8 then ({ st with cfg := { st.cfg with ptrSize := k } }, "ok") else (st, "bad-op")
    | none => (st, "bad-op")
  | ["wf"], some m => (st, wfReply m)
  | ["roundtrip"], some m => (st, if parseModule (showModule m) = some m then "ok 1" else "ok 0")
  | ["show"], some m => (st, "ok " ++ showModule m)
  | "env" :: f :: fuel :: args, some m =>
    match fuel.toNat?, args.mapM parseArg with
    | some n, some vs =>
      let ctx := mkCtx st.cfg m oracle
      match initState ctx f vs with
      | .ok s0 =>
        let (o, s) := runLast ctx n s0
        (st, showOutcome o ++ s!" func={s.top.fn.name} block={s.top.cur} env=" ++
             dash (",".intercalate (s.top.env.map (fun p => p.1 ++ "=" ++ showVal p.2))))
      | .error e => (st, showOutcome (.err e))
    | _, _ => (st, "bad-op")
  | "run" :: f :: fuel :: args, some m =>
    match fuel.toNat?, args.mapM parseArg with
    | some n, some vs =>
      let ctx := mkCtx st.cfg m oracle
      match initState ctx f vs with
      | .ok s0 =>
        let (o, k) := runCount ctx n 0 s0
        (st, showOutcome o ++ (match o with | .ok .. => s!" steps={k}" | _ => ""))
      | .error e => (st, showOutcome (.err e))
    | _, _ => (st, "bad-op")
  | _, _ => (st, "bad-op")

end Spec.IRRun
