/-
`Spec.PPInt` — the controlling expression of `#if` / `#elif` (C11 6.10.1), import-free.
Nothing here is derived from ppci's code.

* **Values** (6.10.1p4): after macro replacement and `defined`, every remaining identifier
  is `0`; the expression is an integer constant expression in which all signed integer types
  act as `intmax_t` and all unsigned ones as `uintmax_t` (64 bits here, as gcc on x86-64).
  A value is a pair (mathematical value, is-unsigned).  A constant is unsigned when it has a
  `u` suffix, or when it is octal/hexadecimal and does not fit `intmax_t` (6.4.4.1); a decimal
  constant without `u` above `INTMAX_MAX` has no type (`none`; gcc warns and makes it unsigned).
* `+ - * / % & | ^` and the comparisons apply the usual arithmetic conversions: if either
  operand is unsigned the other is converted to `uintmax_t` (modulo 2^64) and the operation is
  unsigned; `/ %` truncate toward zero; comparisons, `!`, `&&`, `||` yield a signed 0/1;
  shifts and unary `- ~` have the type of the (left) operand; `?:` has the common type of its
  second and third operand (also of the one that is not evaluated).
* **Undefined** (`none`): signed overflow, division by zero (gcc: "division by zero in #if"),
  shift count outside `0..63`, `<<` of a negative value or with an unrepresentable result.
  `&&`, `||`, `?:` do not evaluate the operand they skip.
* Implementation-defined, as gcc: `>>` of a negative value is arithmetic.

* **Grammar** (6.5.3–6.5.15 restricted to `#if`): `Deriv k t` says that the parse tree `t`
  (with explicit parenthesis nodes) is derived by the nonterminal of precedence level `k`
  (1 conditional, 2 `||`, 3 `&&`, 4 `|`, 5 `^`, 6 `&`, 7 equality, 8 relational, 9 shift,
  10 additive, 11 multiplicative, 12 unary/primary); `yield t` is its terminal string.
  Every sentence of the `#if` expression language is the yield of exactly such a tree.

Validated against `gcc -E -P` by harness/c26.py in the thorough tier.
-/
namespace Spec.PPInt

inductive UnOp | neg | bnot | lnot | plus
  deriving DecidableEq, Repr

inductive BinOp
  | mul | div | mod | add | sub | shl | shr | lt | gt | le | ge | eq | ne | band | bxor | bor | land | lor
  deriving DecidableEq, Repr

/-- abstract syntax of a controlling expression -/
inductive Tree
  | num (v : Nat) (unsignedSuffix : Bool) (decimal : Bool)
  | un (op : UnOp) (a : Tree)
  | bin (op : BinOp) (a b : Tree)
  | cond (c a b : Tree)
  deriving DecidableEq, Repr

/-! ### values -/

structure Val where
  v : Int
  u : Bool          -- `uintmax_t`?
  deriving DecidableEq, Repr

def intMax : Int := 2 ^ 63 - 1
def intMin : Int := -(2 ^ 63)
def two64 : Int := 2 ^ 64

def signedOk (x : Int) : Bool := decide (intMin ≤ x) && decide (x ≤ intMax)

/-- the value converted to `uintmax_t` -/
def toU (x : Int) : Int := x % two64

/-- result of an arithmetic operator with mathematical result `r` in the common type -/
def arith (u : Bool) (r : Int) : Option Val :=
  if u then some ⟨r % two64, true⟩ else if signedOk r then some ⟨r, false⟩ else none

def ofBool (b : Bool) : Val := ⟨if b then 1 else 0, false⟩

/-- bit pattern (64 bits) of a value -/
def bits (x : Int) : Nat := (x % two64).toNat

/-- a 64-bit pattern read back in the signed or unsigned type -/
def ofBits (u : Bool) (n : Nat) : Val :=
  if u then ⟨(n : Int) % two64, true⟩
  else ⟨if (n : Int) % two64 < 2 ^ 63 then (n : Int) % two64 else (n : Int) % two64 - two64, false⟩

def evalNum (v : Nat) (sufU decimal : Bool) : Option Val :=
  if sufU then (if (v : Int) < two64 then some ⟨v, true⟩ else none)
  else if (v : Int) ≤ intMax then some ⟨v, false⟩
  else if decimal then none
  else if (v : Int) < two64 then some ⟨v, true⟩ else none

def evalBin (op : BinOp) (a b : Val) : Option Val :=
  let u := a.u || b.u
  let x := if u then toU a.v else a.v
  let y := if u then toU b.v else b.v
  match op with
  | .add => arith u (x + y)
  | .sub => arith u (x - y)
  | .mul => arith u (x * y)
  | .div => if y = 0 then none else arith u (Int.tdiv x y)
  | .mod => if y = 0 then none else if u || signedOk (Int.tdiv x y) then arith u (Int.tmod x y) else none
  | .band => some (ofBits u (bits x &&& bits y))
  | .bor => some (ofBits u (bits x ||| bits y))
  | .bxor => some (ofBits u (bits x ^^^ bits y))
  | .lt => some (ofBool (decide (x < y)))
  | .gt => some (ofBool (decide (x > y)))
  | .le => some (ofBool (decide (x ≤ y)))
  | .ge => some (ofBool (decide (x ≥ y)))
  | .eq => some (ofBool (decide (x = y)))
  | .ne => some (ofBool (decide (x ≠ y)))
  | .shl =>
    if b.v < 0 ∨ b.v ≥ 64 then none
    else if a.u then some ⟨a.v * 2 ^ b.v.toNat % two64, true⟩
    else if a.v < 0 then none
    else if signedOk (a.v * 2 ^ b.v.toNat) then some ⟨a.v * 2 ^ b.v.toNat, false⟩ else none
  | .shr =>
    if b.v < 0 ∨ b.v ≥ 64 then none
    else some ⟨a.v / 2 ^ b.v.toNat, a.u⟩
  | .land | .lor => none          -- handled by `eval` (short circuit)

def evalUn (op : UnOp) (a : Val) : Option Val :=
  match op with
  | .plus => some a
  | .neg => arith a.u (-a.v)
  | .bnot => some (ofBits a.u (2 ^ 64 - 1 - bits a.v))
  | .lnot => some (ofBool (decide (a.v = 0)))

/-- is the expression's type unsigned?  (needed for the arm of `?:` that is not evaluated);
    `none` when a constant has no type -/
def isUnsigned : Tree → Option Bool
  | .num v s d => (evalNum v s d).map (·.u)
  | .un .lnot a => (isUnsigned a).map fun _ => false
  | .un _ a => isUnsigned a
  | .bin op a b =>
    match isUnsigned a, isUnsigned b with
    | some ua, some ub =>
      match op with
      | .lt | .gt | .le | .ge | .eq | .ne | .land | .lor => some false
      | .shl | .shr => some ua
      | _ => some (ua || ub)
    | _, _ => none
  | .cond c a b =>
    match isUnsigned c, isUnsigned a, isUnsigned b with
    | some _, some ua, some ub => some (ua || ub)
    | _, _, _ => none

def eval : Tree → Option Val
  | .num v s d => evalNum v s d
  | .un op a => match eval a with
    | some x => evalUn op x
    | none => none
  | .bin .land a b =>
    match isUnsigned b, eval a with
    | some _, some x => if x.v = 0 then some (ofBool false) else (eval b).map fun y => ofBool (decide (y.v ≠ 0))
    | _, _ => none
  | .bin .lor a b =>
    match isUnsigned b, eval a with
    | some _, some x => if x.v ≠ 0 then some (ofBool true) else (eval b).map fun y => ofBool (decide (y.v ≠ 0))
    | _, _ => none
  | .bin op a b =>
    match eval a, eval b with
    | some x, some y => evalBin op x y
    | _, _ => none
  | .cond c a b =>
    match isUnsigned a, isUnsigned b, eval c with
    | some ua, some ub, some x =>
      let u := ua || ub
      let conv := fun (r : Val) => if u then (⟨toU r.v, true⟩ : Val) else r
      if x.v ≠ 0 then (eval a).map conv else (eval b).map conv
    | _, _, _ => none

/-- the group controlled by `#if e` is kept iff the value is non-zero -/
def taken (e : Tree) : Option Bool := (eval e).map fun x => decide (x.v ≠ 0)

/-! ### concrete syntax -/

/-- punctuators of the expression language; `+` and `-` are the same token in prefix and infix position -/
inductive Sym
  | star | slash | percent | plus | minus | shl | shr | lt | gt | le | ge | eqeq | ne
  | amp | caret | bar | andand | oror | tilde | bang | lp | rp | quest | colon
  deriving DecidableEq, Repr

inductive Tok
  | num (v : Nat) (unsignedSuffix : Bool) (decimal : Bool)
  | sym (s : Sym)
  deriving DecidableEq, Repr

def UnOp.sym : UnOp → Sym
  | .neg => .minus | .bnot => .tilde | .lnot => .bang | .plus => .plus

def BinOp.sym : BinOp → Sym
  | .mul => .star | .div => .slash | .mod => .percent | .add => .plus | .sub => .minus
  | .shl => .shl | .shr => .shr | .lt => .lt | .gt => .gt | .le => .le | .ge => .ge
  | .eq => .eqeq | .ne => .ne | .band => .amp | .bxor => .caret | .bor => .bar
  | .land => .andand | .lor => .oror

/-- parse trees keep the parentheses of the source -/
inductive PTree
  | num (v : Nat) (unsignedSuffix : Bool) (decimal : Bool)
  | paren (a : PTree)
  | un (op : UnOp) (a : PTree)
  | bin (op : BinOp) (a b : PTree)
  | cond (c a b : PTree)
  deriving Repr

/-- precedence level of a binary operator (higher binds tighter) -/
def BinOp.level : BinOp → Nat
  | .lor => 2 | .land => 3 | .bor => 4 | .bxor => 5 | .band => 6
  | .eq | .ne => 7 | .lt | .gt | .le | .ge => 8 | .shl | .shr => 9
  | .add | .sub => 10 | .mul | .div | .mod => 11

/-- `Deriv k t`: `t` is a derivation tree of the nonterminal of level `k`
    (C11 6.5.3 unary-expression … 6.5.15 conditional-expression; all binary operators associate to
    the left, `?:` to the right, the middle operand of `?:` and a parenthesised operand are full
    expressions) -/
inductive Deriv : Nat → PTree → Prop
  | num (v s d) : Deriv 12 (.num v s d)
  | paren {t} : Deriv 1 t → Deriv 12 (.paren t)
  | un (op) {t} : Deriv 12 t → Deriv 12 (.un op t)
  | bin (op : BinOp) {a b} : Deriv op.level a → Deriv (op.level + 1) b → Deriv op.level (.bin op a b)
  | cond {c a b} : Deriv 2 c → Deriv 1 a → Deriv 1 b → Deriv 1 (.cond c a b)
  | up {k t} : Deriv (k + 1) t → Deriv k t          -- E_k ::= E_{k+1}

/-- the terminal string of a derivation tree -/
def yield : PTree → List Tok
  | .num v s d => [.num v s d]
  | .paren a => [.sym .lp] ++ yield a ++ [.sym .rp]
  | .un op a => .sym op.sym :: yield a
  | .bin op a b => yield a ++ [.sym op.sym] ++ yield b
  | .cond c a b => yield c ++ [.sym .quest] ++ yield a ++ [.sym .colon] ++ yield b

/-- the abstract syntax tree of a derivation tree (parentheses dropped, unary `+` kept) -/
def erase : PTree → Tree
  | .num v s d => .num v s d
  | .paren a => erase a
  | .un op a => .un op (erase a)
  | .bin op a b => .bin op (erase a) (erase b)
  | .cond c a b => .cond (erase c) (erase a) (erase b)

end Spec.PPInt
