import PpciVerif.Spec.WasmInt
/-!
# Spec.Wasm — executable reference semantics for a subset of WebAssembly

Written from the WebAssembly core specification (1.0, plus the 2.0 sign-extension,
saturating-truncation and multi-value block types), **not** from ppci.  Core Lean only.

* Value types `i32 i64 f32 f64`.  Integers are `BitVec 32/64`; floats are kept as their
  IEEE-754 **bit patterns** (`BitVec 32/64`), so that everything the specification defines
  on the representation (comparison incl. NaN and signed zeros, `abs neg copysign min max`,
  `reinterpret`, loads/stores, locals, globals) is plain decidable bit arithmetic.
  Only rounding arithmetic (`add sub mul div sqrt ceil floor trunc nearest`, conversions)
  goes through Lean's `Float`/`Float32` (hardware IEEE binary64/binary32, round-to-nearest
  ties-to-even): floats are *executed*, never reasoned about.
* Numeric instructions (spec §4.3): all integer unary/binary/test/compare operators with
  the trapping rules (`div/rem` by zero, `div_s` of `INT_MIN` by `-1`; `rem_s` gives 0
  there), shifts/rotations with the count taken modulo the width, conversions
  (`wrap extend trunc (trapping: NaN, ±inf, out of range) trunc_sat convert demote promote
  reinterpret extendN_s`), float operators.  `rotl rotr clz ctz popcnt extendN_s` are
  `Spec.WasmInt`.
* Parametric (`drop select`), variable (`local.get/set/tee global.get/set`), control
  (`block loop if br br_if br_table return call call_indirect unreachable nop`), memory
  (`load/store` of all widths, little endian, bounds traps; `memory.size/grow`), one table,
  active element and data segments, start function.
* Execution (spec §4.4) is the specification's reduction semantics, organised as an abstract
  machine: operand stack, label stack (the spec's `label_n{instr*}` administrative
  instruction), frame stack (`frame_n{F}`).  `step` performs one reduction; `run fuel`
  iterates it: the outcome is `values | trap | outOfFuel`, each with the final store
  (globals, memory, table).  `step` is a function, so execution is deterministic
  (NaN payloads are canonical; the harness compares any NaN = any NaN).

Not in the subset: imports, multiple memories/tables, `table.*`, `memory.fill/copy/init`,
reference types, SIMD, the validation algorithm (a module that is not valid gets `stuck`).
-/
namespace Spec.Wasm
open Spec.WasmInt

inductive ValType | i32 | i64 | f32 | f64
  deriving DecidableEq, Repr, Inhabited

/-- a wasm value; floats as IEEE bit patterns -/
inductive Value
  | i32 (v : BitVec 32)
  | i64 (v : BitVec 64)
  | f32 (bits : BitVec 32)
  | f64 (bits : BitVec 64)
  deriving DecidableEq, Repr, Inhabited

def Value.type : Value → ValType
  | .i32 _ => .i32 | .i64 _ => .i64 | .f32 _ => .f32 | .f64 _ => .f64

def Value.zero : ValType → Value
  | .i32 => .i32 0 | .i64 => .i64 0 | .f32 => .f32 0 | .f64 => .f64 0

/-- raw bits (what the exchange format carries) -/
def Value.bits : Value → Nat
  | .i32 v => v.toNat | .i64 v => v.toNat | .f32 v => v.toNat | .f64 v => v.toNat

def Value.ofBits : ValType → Nat → Value
  | .i32, n => .i32 (BitVec.ofNat 32 n) | .i64, n => .i64 (BitVec.ofNat 64 n)
  | .f32, n => .f32 (BitVec.ofNat 32 n) | .f64, n => .f64 (BitVec.ofNat 64 n)

/-! ## Integer operators (spec §4.3.2), generic in the width -/

def b2i (b : Bool) : BitVec 32 := if b then 1#32 else 0#32

def intMin (n : Nat) : BitVec n := BitVec.ofNat n (2 ^ (n - 1))

def iadd {n} (a b : BitVec n) : BitVec n := a + b
def isub {n} (a b : BitVec n) : BitVec n := a - b
def imul {n} (a b : BitVec n) : BitVec n := a * b
/-- `idiv_u`: undefined (trap) for divisor 0, else truncating unsigned quotient -/
def idiv_u {n} (a b : BitVec n) : Option (BitVec n) := if b = 0 then none else some (a / b)
/-- `idiv_s`: trap for divisor 0 and for the unrepresentable `INT_MIN / -1` -/
def idiv_s {n} (a b : BitVec n) : Option (BitVec n) :=
  if b = 0 then none else if a = intMin n ∧ b = BitVec.allOnes n then none else some (a.sdiv b)
def irem_u {n} (a b : BitVec n) : Option (BitVec n) := if b = 0 then none else some (a % b)
/-- `irem_s`: trap only for divisor 0; sign of the dividend; `INT_MIN rem -1 = 0` -/
def irem_s {n} (a b : BitVec n) : Option (BitVec n) := if b = 0 then none else some (a.srem b)
def iand {n} (a b : BitVec n) : BitVec n := a &&& b
def ior {n} (a b : BitVec n) : BitVec n := a ||| b
def ixor {n} (a b : BitVec n) : BitVec n := a ^^^ b
/-- shifts take the count modulo the width -/
def ishl {n} (a b : BitVec n) : BitVec n := a <<< (b.toNat % n)
def ishr_u {n} (a b : BitVec n) : BitVec n := a >>> (b.toNat % n)
def ishr_s {n} (a b : BitVec n) : BitVec n := a.sshiftRight (b.toNat % n)

def ieqz {n} (a : BitVec n) : BitVec 32 := b2i (a == 0)
def ieq {n} (a b : BitVec n) : BitVec 32 := b2i (a == b)
def ine {n} (a b : BitVec n) : BitVec 32 := b2i (a != b)
def ilt_u {n} (a b : BitVec n) : BitVec 32 := b2i (a.ult b)
def ilt_s {n} (a b : BitVec n) : BitVec 32 := b2i (a.slt b)
def igt_u {n} (a b : BitVec n) : BitVec 32 := b2i (b.ult a)
def igt_s {n} (a b : BitVec n) : BitVec 32 := b2i (b.slt a)
def ile_u {n} (a b : BitVec n) : BitVec 32 := b2i (a.ule b)
def ile_s {n} (a b : BitVec n) : BitVec 32 := b2i (a.sle b)
def ige_u {n} (a b : BitVec n) : BitVec 32 := b2i (b.ule a)
def ige_s {n} (a b : BitVec n) : BitVec 32 := b2i (b.sle a)

inductive IUnOp | clz | ctz | popcnt | extend8_s | extend16_s | extend32_s
  deriving DecidableEq, Repr, Inhabited
inductive IBinOp | add | sub | mul | div_s | div_u | rem_s | rem_u | and | or | xor
  | shl | shr_s | shr_u | rotl | rotr
  deriving DecidableEq, Repr, Inhabited
inductive IRelOp | eq | ne | lt_s | lt_u | gt_s | gt_u | le_s | le_u | ge_s | ge_u
  deriving DecidableEq, Repr, Inhabited

def iunop {n} : IUnOp → BitVec n → BitVec n
  | .clz, a => iclz a | .ctz, a => ictz a | .popcnt, a => ipopcnt a
  | .extend8_s, a => iextend_s 8 a | .extend16_s, a => iextend_s 16 a | .extend32_s, a => iextend_s 32 a

/-- `none` = trap -/
def ibinop {n} : IBinOp → BitVec n → BitVec n → Option (BitVec n)
  | .add, a, b => some (iadd a b) | .sub, a, b => some (isub a b) | .mul, a, b => some (imul a b)
  | .div_s, a, b => idiv_s a b | .div_u, a, b => idiv_u a b
  | .rem_s, a, b => irem_s a b | .rem_u, a, b => irem_u a b
  | .and, a, b => some (iand a b) | .or, a, b => some (ior a b) | .xor, a, b => some (ixor a b)
  | .shl, a, b => some (ishl a b) | .shr_s, a, b => some (ishr_s a b) | .shr_u, a, b => some (ishr_u a b)
  | .rotl, a, b => some (irotl a b) | .rotr, a, b => some (irotr a b)

def irelop {n} : IRelOp → BitVec n → BitVec n → BitVec 32
  | .eq, a, b => ieq a b | .ne, a, b => ine a b
  | .lt_s, a, b => ilt_s a b | .lt_u, a, b => ilt_u a b | .gt_s, a, b => igt_s a b | .gt_u, a, b => igt_u a b
  | .le_s, a, b => ile_s a b | .le_u, a, b => ile_u a b | .ge_s, a, b => ige_s a b | .ge_u, a, b => ige_u a b

/-! ## Floating point on the representation (spec §4.3.3)

`n` = total width, `mb` = number of significand bits (23 / 52).  A pattern is a NaN iff its
magnitude exceeds that of infinity. -/

def fmag {n} (x : BitVec n) : Nat := x.toNat % 2 ^ (n - 1)
def finfMag (n mb : Nat) : Nat := 2 ^ (n - 1) - 2 ^ mb
def fIsNaN {n} (mb : Nat) (x : BitVec n) : Bool := decide (fmag x > finfMag n mb)
def fIsInf {n} (mb : Nat) (x : BitVec n) : Bool := decide (fmag x = finfMag n mb)
/-- the canonical (positive, quiet, zero payload) NaN -/
def fCanonNaN (n mb : Nat) : BitVec n := BitVec.ofNat n (finfMag n mb + 2 ^ (mb - 1))
/-- order key of a non-NaN pattern: sign-magnitude read as an integer (so `-0 = +0`) -/
def fkey {n} (x : BitVec n) : Int := if x.msb then -(fmag x : Int) else (fmag x : Int)

def feq {n} (mb : Nat) (a b : BitVec n) : BitVec 32 := b2i (!fIsNaN mb a && !fIsNaN mb b && decide (fkey a = fkey b))
/-- `fne` is 1 as soon as an operand is NaN -/
def fne {n} (mb : Nat) (a b : BitVec n) : BitVec 32 := b2i (fIsNaN mb a || fIsNaN mb b || decide (fkey a ≠ fkey b))
/-- ordered comparisons are 0 as soon as an operand is NaN -/
def flt {n} (mb : Nat) (a b : BitVec n) : BitVec 32 := b2i (!fIsNaN mb a && !fIsNaN mb b && decide (fkey a < fkey b))
def fgt {n} (mb : Nat) (a b : BitVec n) : BitVec 32 := b2i (!fIsNaN mb a && !fIsNaN mb b && decide (fkey b < fkey a))
def fle {n} (mb : Nat) (a b : BitVec n) : BitVec 32 := b2i (!fIsNaN mb a && !fIsNaN mb b && decide (fkey a ≤ fkey b))
def fge {n} (mb : Nat) (a b : BitVec n) : BitVec 32 := b2i (!fIsNaN mb a && !fIsNaN mb b && decide (fkey b ≤ fkey a))

def fabs {n} (a : BitVec n) : BitVec n := BitVec.ofNat n (fmag a)
def fneg {n} (a : BitVec n) : BitVec n := a ^^^ intMin n
def fcopysign {n} (a b : BitVec n) : BitVec n := BitVec.ofNat n (fmag a) ||| (b &&& intMin n)
/-- `fmin`: NaN if an operand is NaN; `min(-0,+0) = -0` -/
def fmin {n} (mb : Nat) (a b : BitVec n) : BitVec n :=
  if fIsNaN mb a || fIsNaN mb b then fCanonNaN n mb
  else if fkey a < fkey b then a else if fkey b < fkey a then b
  else if a.msb then a else b
def fmax {n} (mb : Nat) (a b : BitVec n) : BitVec n :=
  if fIsNaN mb a || fIsNaN mb b then fCanonNaN n mb
  else if fkey a < fkey b then b else if fkey b < fkey a then a
  else if a.msb then b else a

/-! ### rounding arithmetic: executed with Lean `Float` / `Float32` -/

def toF64 (b : BitVec 64) : Float := Float.ofBits (UInt64.ofNat b.toNat)
def ofF64 (f : Float) : BitVec 64 :=
  if f.isNaN then fCanonNaN 64 52 else BitVec.ofNat 64 f.toBits.toNat
def toF32 (b : BitVec 32) : Float32 := Float32.ofBits (UInt32.ofNat b.toNat)
def ofF32 (f : Float32) : BitVec 32 :=
  if f.isNaN then fCanonNaN 32 23 else BitVec.ofNat 32 f.toBits.toNat

/-- round to nearest integer, ties to even, sign preserved (computed in binary64; exact for
    binary32 inputs as well) -/
def nearestF (x : Float) : Float :=
  if x.isNaN || x.isInf then x
  else if x.abs ≥ 4503599627370496.0 then x          -- 2^52: already integral
  else
    let r := x.floor
    let d := x - r
    let y := if d < 0.5 then r else if d > 0.5 then r + 1.0
             else if (r / 2.0).floor * 2.0 == r then r else r + 1.0
    -- keep the sign of x (results in (-1,0] are -0)
    if x.toBits ≥ 0x8000000000000000 then -(y.abs) else y.abs

def truncF (x : Float) : Float :=
  if x.toBits ≥ 0x8000000000000000 then x.ceil else x.floor

inductive FUnOp | abs | neg | sqrt | ceil | floor | trunc | nearest
  deriving DecidableEq, Repr, Inhabited
inductive FBinOp | add | sub | mul | div | min | max | copysign
  deriving DecidableEq, Repr, Inhabited
inductive FRelOp | eq | ne | lt | gt | le | ge
  deriving DecidableEq, Repr, Inhabited

def funop64 : FUnOp → BitVec 64 → BitVec 64
  | .abs, a => fabs a | .neg, a => fneg a
  | .sqrt, a => ofF64 (toF64 a).sqrt | .ceil, a => ofF64 (toF64 a).ceil | .floor, a => ofF64 (toF64 a).floor
  | .trunc, a => ofF64 (truncF (toF64 a)) | .nearest, a => ofF64 (nearestF (toF64 a))

def funop32 : FUnOp → BitVec 32 → BitVec 32
  | .abs, a => fabs a | .neg, a => fneg a
  | .sqrt, a => ofF32 (toF32 a).sqrt | .ceil, a => ofF32 (toF32 a).ceil | .floor, a => ofF32 (toF32 a).floor
  | .trunc, a => ofF32 (truncF (toF32 a).toFloat).toFloat32
  | .nearest, a => ofF32 (nearestF (toF32 a).toFloat).toFloat32

def fbinop64 : FBinOp → BitVec 64 → BitVec 64 → BitVec 64
  | .add, a, b => ofF64 (toF64 a + toF64 b) | .sub, a, b => ofF64 (toF64 a - toF64 b)
  | .mul, a, b => ofF64 (toF64 a * toF64 b) | .div, a, b => ofF64 (toF64 a / toF64 b)
  | .min, a, b => fmin 52 a b | .max, a, b => fmax 52 a b | .copysign, a, b => fcopysign a b

def fbinop32 : FBinOp → BitVec 32 → BitVec 32 → BitVec 32
  | .add, a, b => ofF32 (toF32 a + toF32 b) | .sub, a, b => ofF32 (toF32 a - toF32 b)
  | .mul, a, b => ofF32 (toF32 a * toF32 b) | .div, a, b => ofF32 (toF32 a / toF32 b)
  | .min, a, b => fmin 23 a b | .max, a, b => fmax 23 a b | .copysign, a, b => fcopysign a b

def frelop {n} (mb : Nat) : FRelOp → BitVec n → BitVec n → BitVec 32
  | .eq, a, b => feq mb a b | .ne, a, b => fne mb a b | .lt, a, b => flt mb a b
  | .gt, a, b => fgt mb a b | .le, a, b => fle mb a b | .ge, a, b => fge mb a b

/-! ### conversions (spec §4.3.4) -/

/-- `trunc_{u,s}`: `none` (trap) for NaN, infinities and values whose truncation is not
    representable; the argument is a binary64 (binary32 inputs are promoted exactly) -/
def truncToInt (signed : Bool) (bits : Nat) (x : Float) : Option Int :=
  if x.isNaN || x.isInf then none else
  let t := truncF x
  match signed, bits with
  | true, 32 => if t ≥ -2147483648.0 && t ≤ 2147483647.0 then some t.toInt64.toInt else none
  | false, 32 => if t ≥ 0.0 && t ≤ 4294967295.0 then some t.toUInt64.toNat else none
  | true, _ => if t ≥ -9223372036854775808.0 && t < 9223372036854775808.0 then some t.toInt64.toInt else none
  | false, _ => if t ≥ 0.0 && t < 18446744073709551616.0 then some t.toUInt64.toNat else none

/-- `trunc_sat_{u,s}`: NaN ↦ 0, out of range saturates -/
def truncSatToInt (signed : Bool) (bits : Nat) (x : Float) : Int :=
  if x.isNaN then 0 else
  match truncToInt signed bits x with
  | some v => v
  | none =>
    if x < 0.0 then (if signed then -(2 ^ (bits - 1) : Int) else 0)
    else (if signed then (2 ^ (bits - 1) : Int) - 1 else (2 ^ bits : Int) - 1)

/-- integer → binary64, round to nearest even (exact below 2^53) -/
def convertF64 (signed : Bool) {n} (a : BitVec n) : BitVec 64 :=
  if signed then ofF64 (Int64.ofInt a.toInt).toFloat else ofF64 (UInt64.ofNat a.toNat).toFloat
def convertF32 (signed : Bool) {n} (a : BitVec n) : BitVec 32 :=
  if signed then ofF32 (Int64.ofInt a.toInt).toFloat32 else ofF32 (UInt64.ofNat a.toNat).toFloat32

inductive W | w32 | w64 deriving DecidableEq, Repr, Inhabited
def W.bits : W → Nat | .w32 => 32 | .w64 => 64

inductive CvtOp
  | wrap                                   -- i32.wrap_i64
  | extend (signed : Bool)                 -- i64.extend_i32_{s,u}
  | trunc (dst src : W) (signed : Bool)    -- iDST.trunc_fSRC_{s,u}
  | truncSat (dst src : W) (signed : Bool)
  | convert (dst src : W) (signed : Bool)  -- fDST.convert_iSRC_{s,u}
  | demote | promote
  | reinterpretFI (w : W)                  -- iN.reinterpret_fN
  | reinterpretIF (w : W)                  -- fN.reinterpret_iN
  deriving DecidableEq, Repr, Inhabited

def mkInt (w : W) (v : Int) : Value :=
  match w with | .w32 => .i32 (BitVec.ofInt 32 v) | .w64 => .i64 (BitVec.ofInt 64 v)

inductive Res (α : Type) | ok (a : α) | trap (why : String) | stuck (why : String)
  deriving Repr

def srcFloat : W → Value → Option Float
  | .w32, .f32 b => some (toF32 b).toFloat
  | .w64, .f64 b => some (toF64 b)
  | _, _ => none

def cvtop : CvtOp → Value → Res Value
  | .wrap, .i64 v => .ok (.i32 (v.setWidth 32))
  | .extend true, .i32 v => .ok (.i64 (v.signExtend 64))
  | .extend false, .i32 v => .ok (.i64 (v.setWidth 64))
  | .trunc d s sg, v =>
    match srcFloat s v with
    | none => .stuck "trunc: operand type"
    | some x =>
      match truncToInt sg d.bits x with
      | some r => .ok (mkInt d r)
      | none => .trap (if x.isNaN then "invalid conversion to integer" else "integer overflow")
  | .truncSat d s sg, v =>
    match srcFloat s v with
    | none => .stuck "trunc_sat: operand type"
    | some x => .ok (mkInt d (truncSatToInt sg d.bits x))
  | .convert .w32 .w32 sg, .i32 v => .ok (.f32 (convertF32 sg v))
  | .convert .w32 .w64 sg, .i64 v => .ok (.f32 (convertF32 sg v))
  | .convert .w64 .w32 sg, .i32 v => .ok (.f64 (convertF64 sg v))
  | .convert .w64 .w64 sg, .i64 v => .ok (.f64 (convertF64 sg v))
  | .demote, .f64 b => .ok (.f32 (ofF32 (toF64 b).toFloat32))
  | .promote, .f32 b => .ok (.f64 (ofF64 (toF32 b).toFloat))
  | .reinterpretFI .w32, .f32 b => .ok (.i32 b)
  | .reinterpretFI .w64, .f64 b => .ok (.i64 b)
  | .reinterpretIF .w32, .i32 b => .ok (.f32 b)
  | .reinterpretIF .w64, .i64 b => .ok (.f64 b)
  | _, _ => .stuck "conversion: operand type"

/-! ## Syntax -/

inductive Instr
  | unreachable | nop | drop | select | ret
  | const (v : Value)
  | iun (w : W) (op : IUnOp) | ibin (w : W) (op : IBinOp) | ieqz (w : W) | irel (w : W) (op : IRelOp)
  | fun_ (w : W) (op : FUnOp) | fbin (w : W) (op : FBinOp) | frel (w : W) (op : FRelOp)
  | cvt (op : CvtOp)
  | localGet (i : Nat) | localSet (i : Nat) | localTee (i : Nat)
  | globalGet (i : Nat) | globalSet (i : Nat)
  /-- `t.load` (`pack = none`) or `t.loadN_sx` (`pack = some (N, signed)`), static offset -/
  | load (t : ValType) (pack : Option (Nat × Bool)) (offset : Nat)
  /-- `t.store` or `t.storeN` -/
  | store (t : ValType) (pack : Option Nat) (offset : Nat)
  | memorySize | memoryGrow
  /-- block type given by its arities: `np` parameters, `nr` results -/
  | block (np nr : Nat) (body : List Instr)
  | loop (np nr : Nat) (body : List Instr)
  | ite (np nr : Nat) (thn els : List Instr)
  | br (l : Nat) | brIf (l : Nat) | brTable (ls : List Nat) (dflt : Nat)
  | call (f : Nat) | callIndirect (type : Nat)
  deriving Inhabited

structure FuncType where
  params : List ValType
  results : List ValType
  deriving DecidableEq, Repr, Inhabited

structure Func where
  type : Nat
  locals : List ValType
  body : List Instr
  deriving Inhabited

structure GlobalDecl where
  type : ValType
  mutable : Bool
  init : Value
  deriving Inhabited

structure Limits where
  min : Nat
  max : Option Nat
  deriving Repr, Inhabited

structure Module where
  types : Array FuncType := #[]
  funcs : Array Func := #[]
  table : Option Limits := none
  mem : Option Limits := none
  globals : Array GlobalDecl := #[]
  /-- active element segments: (offset, function indices) -/
  elems : List (Nat × List Nat) := []
  /-- active data segments: (offset, bytes) -/
  datas : List (Nat × List Nat) := []
  start : Option Nat := none
  deriving Inhabited

def pageSize : Nat := 65536

/-! ## Store and machine configuration -/

structure Store where
  globals : Array Value := #[]
  mem : ByteArray := ByteArray.empty
  memMax : Nat := 65536          -- in pages
  table : Array (Option Nat) := #[]
  /-- a NaN pattern was made observable (store / reinterpret as integer bits, or its sign copied by `copysign`): the
      specification leaves sign and payload of computed NaNs open, so integer results and
      memory contents that depend on them are not comparable bit for bit -/
  nanBits : Bool := false
  /-- instrumentation only (never read by `step`): bit mask of *hazards* met so far, used by the harness to tell
      which executions touch a region where ppci has an open known finding.
      1 = a float comparison saw a NaN operand; 2 = an f32 operation whose binary64 evaluation is not a binary32
      number (a host that computes f32 in double precision without rounding differs); 4 = float division by ±0 -/
  hazards : Nat := 0
  deriving Inhabited

/-- the spec's `label_n{cont}`: a branch carries `arity` values, then continues with
    `cont` (for a loop: the loop itself, then what follows it) -/
structure Lbl where
  arity : Nat
  cont : List Instr
  /-- code after the block's `end` (taken when the block is left normally) -/
  rest : List Instr
  /-- height of the operand stack below the block -/
  height : Nat
  deriving Inhabited

/-- a suspended caller (`frame_n{F} … end`) -/
structure Frame where
  locals : Array Value
  stack : List Value
  code : List Instr
  labels : List Lbl
  arity : Nat
  deriving Inhabited

structure Config where
  store : Store
  locals : Array Value
  /-- operand stack, top first -/
  stack : List Value
  code : List Instr
  labels : List Lbl
  /-- result arity of the running function -/
  arity : Nat
  frames : List Frame
  deriving Inhabited

inductive StepResult
  | next (c : Config)
  | done (vals : List Value) (s : Store)     -- results, first result first
  | trap (why : String) (s : Store)
  | stuck (why : String)                     -- only for modules that are not valid

/-! ### memory (little endian) -/

def loadBytes (mem : ByteArray) (ea n : Nat) : Option Nat :=
  if ea + n ≤ mem.size then
    some ((List.range n).foldr (fun i acc => acc * 256 + (mem.get! (ea + i)).toNat) 0)
  else none

def storeBytes (mem : ByteArray) (ea n v : Nat) : Option ByteArray :=
  if ea + n ≤ mem.size then
    some ((List.range n).foldl (fun m i => m.set! (ea + i) (UInt8.ofNat (v / 256 ^ i % 256))) mem)
  else none

def ValType.bytes : ValType → Nat
  | .i32 => 4 | .i64 => 8 | .f32 => 4 | .f64 => 8

/-- value of type `t` from the `N`-bit little-endian quantity `raw` (`pack`: narrow loads) -/
def loadValue (t : ValType) (pack : Option (Nat × Bool)) (raw : Nat) : Value :=
  match pack with
  | none => Value.ofBits t raw
  | some (nb, signed) =>
    let v : Int := if signed && decide (raw ≥ 2 ^ (nb - 1)) then (raw : Int) - (2 ^ nb : Int) else raw
    match t with
    | .i32 => .i32 (BitVec.ofInt 32 v)
    | .i64 => .i64 (BitVec.ofInt 64 v)
    | _ => Value.ofBits t raw

def isNaNValue : Value → Bool
  | .f32 b => fIsNaN 23 b | .f64 b => fIsNaN 52 b | _ => false

/-! ### hazard instrumentation (does not influence execution) -/

def Store.haz (s : Store) (bit : Nat) (b : Bool) : Store :=
  if b && s.hazards / bit % 2 == 0 then { s with hazards := s.hazards + bit } else s

def promoteBits (b : BitVec 32) : BitVec 64 := ofF64 (toF32 b).toFloat

/-- the binary64 evaluation of an f32 operation is not the binary32 result -/
def f32InexactBin (op : FBinOp) (a b : BitVec 32) : Bool :=
  match op with
  | .add | .sub | .mul | .div => promoteBits (fbinop32 op a b) != fbinop64 op (promoteBits a) (promoteBits b)
  | _ => false

def f32InexactUn (op : FUnOp) (a : BitVec 32) : Bool :=
  match op with
  | .sqrt => promoteBits (funop32 op a) != funop64 op (promoteBits a)
  | _ => false

def f32InexactCvt (op : CvtOp) (v r : Value) : Bool :=
  match op, v, r with
  | .demote, .f64 a, .f32 b => !fIsNaN 52 a && promoteBits b != a
  | .convert .w32 _ sg, .i32 a, .f32 b => promoteBits b != convertF64 sg a
  | .convert .w32 _ sg, .i64 a, .f32 b => promoteBits b != convertF64 sg a
  | _, _, _ => false

/-! ### one reduction step -/

def popFrame (results : List Value) (s : Store) : List Frame → StepResult
  | [] => .done results.reverse s
  | f :: fs => .next { store := s, locals := f.locals, stack := results ++ f.stack, code := f.code,
                       labels := f.labels, arity := f.arity, frames := fs }

/-- branch to label `l` (counted from the innermost); `l = labels.length` is the function body -/
def branch (c : Config) (l : Nat) : StepResult :=
  if l < c.labels.length then
    match c.labels[l]? with
    | none => .stuck "br: label"
    | some L =>
      if c.stack.length < L.arity then .stuck "br: operand stack underflow" else
      .next { c with stack := c.stack.take L.arity ++ c.stack.drop (c.stack.length - L.height),
                     labels := c.labels.drop (l + 1), code := L.cont }
  else if l = c.labels.length then
    if c.stack.length < c.arity then .stuck "br: operand stack underflow"
    else popFrame (c.stack.take c.arity) c.store c.frames
  else .stuck "br: label out of range"

def enterBlock (c : Config) (np arity : Nat) (cont rest body : List Instr) : StepResult :=
  if c.stack.length < np then .stuck "block: operand stack underflow" else
  .next { c with code := body,
                 labels := { arity := arity, cont := cont, rest := rest, height := c.stack.length - np } :: c.labels }

def maxCallDepth : Nat := 2000

def invokeFunc (m : Module) (c : Config) (fi : Nat) (rest : List Instr) : StepResult :=
  match m.funcs[fi]? with
  | none => .stuck "call: function index"
  | some f =>
    match m.types[f.type]? with
    | none => .stuck "call: type index"
    | some ft =>
      let np := ft.params.length
      if c.stack.length < np then .stuck "call: operand stack underflow"
      else if c.frames.length ≥ maxCallDepth then .trap "call stack exhausted" c.store
      else
        let args := (c.stack.take np).reverse
        .next { store := c.store, locals := (args ++ f.locals.map Value.zero).toArray, stack := [],
                code := f.body, labels := [], arity := ft.results.length,
                frames := { locals := c.locals, stack := c.stack.drop np, code := rest, labels := c.labels,
                            arity := c.arity } :: c.frames }

def effAddr (base : BitVec 32) (offset : Nat) : Nat := base.toNat + offset

def step (m : Module) (c : Config) : StepResult :=
  match c.code with
  | [] =>
    match c.labels with
    | L :: ls => .next { c with labels := ls, code := L.rest }          -- `end` of a block
    | [] =>                                                             -- `end` of the function
      if c.stack.length < c.arity then .stuck "end: operand stack underflow"
      else popFrame (c.stack.take c.arity) c.store c.frames
  | i :: rest =>
    let c := { c with code := rest }
    match i, c.stack with
    | .unreachable, _ => .trap "unreachable" c.store
    | .nop, _ => .next c
    | .drop, _ :: st => .next { c with stack := st }
    | .select, .i32 cnd :: v2 :: v1 :: st =>
      if v1.type = v2.type then .next { c with stack := (if cnd = 0 then v2 else v1) :: st }
      else .stuck "select: operand types"
    | .ret, st =>
      if st.length < c.arity then .stuck "return: operand stack underflow"
      else popFrame (st.take c.arity) c.store c.frames
    | .const v, st => .next { c with stack := v :: st }
    | .iun .w32 op, .i32 a :: st => .next { c with stack := .i32 (iunop op a) :: st }
    | .iun .w64 op, .i64 a :: st => .next { c with stack := .i64 (iunop op a) :: st }
    | .ibin .w32 op, .i32 b :: .i32 a :: st =>
      match ibinop op a b with
      | some r => .next { c with stack := .i32 r :: st }
      | none => .trap (if b = 0 then "integer divide by zero" else "integer overflow in division") c.store
    | .ibin .w64 op, .i64 b :: .i64 a :: st =>
      match ibinop op a b with
      | some r => .next { c with stack := .i64 r :: st }
      | none => .trap (if b = 0 then "integer divide by zero" else "integer overflow in division") c.store
    | .ieqz .w32, .i32 a :: st => .next { c with stack := .i32 (ieqz a) :: st }
    | .ieqz .w64, .i64 a :: st => .next { c with stack := .i32 (ieqz a) :: st }
    | .irel .w32 op, .i32 b :: .i32 a :: st => .next { c with stack := .i32 (irelop op a b) :: st }
    | .irel .w64 op, .i64 b :: .i64 a :: st => .next { c with stack := .i32 (irelop op a b) :: st }
    | .fun_ .w32 op, .f32 a :: st =>
      .next { c with stack := .f32 (funop32 op a) :: st, store := c.store.haz 2 (f32InexactUn op a) }
    | .fun_ .w64 op, .f64 a :: st => .next { c with stack := .f64 (funop64 op a) :: st }
    | .fbin .w32 op, .f32 b :: .f32 a :: st =>
      .next { c with stack := .f32 (fbinop32 op a b) :: st,
                     store := (({ c.store with nanBits := c.store.nanBits || (op == FBinOp.copysign && fIsNaN 23 b) }).haz 2
                                (f32InexactBin op a b)).haz 4 (op == FBinOp.div && fmag b == 0) }
    | .fbin .w64 op, .f64 b :: .f64 a :: st =>
      .next { c with stack := .f64 (fbinop64 op a b) :: st,
                     store := ({ c.store with nanBits := c.store.nanBits || (op == FBinOp.copysign && fIsNaN 52 b) }).haz 4
                                (op == FBinOp.div && fmag b == 0) }
    | .frel .w32 op, .f32 b :: .f32 a :: st =>
      .next { c with stack := .i32 (frelop 23 op a b) :: st, store := c.store.haz 1 (fIsNaN 23 a || fIsNaN 23 b) }
    | .frel .w64 op, .f64 b :: .f64 a :: st =>
      .next { c with stack := .i32 (frelop 52 op a b) :: st, store := c.store.haz 1 (fIsNaN 52 a || fIsNaN 52 b) }
    | .cvt op, v :: st =>
      match cvtop op v with
      | .ok r =>
        let nb := match op with | .reinterpretFI _ => isNaNValue v | _ => false
        .next { c with stack := r :: st,
                       store := ({ c.store with nanBits := c.store.nanBits || nb }).haz 2 (f32InexactCvt op v r) }
      | .trap why => .trap why c.store
      | .stuck why => .stuck why
    | .localGet i, st =>
      match c.locals[i]? with
      | some v => .next { c with stack := v :: st }
      | none => .stuck "local.get: index"
    | .localSet i, v :: st =>
      if i < c.locals.size then .next { c with stack := st, locals := c.locals.set! i v }
      else .stuck "local.set: index"
    | .localTee i, v :: st =>
      if i < c.locals.size then .next { c with stack := v :: st, locals := c.locals.set! i v }
      else .stuck "local.tee: index"
    | .globalGet i, st =>
      match c.store.globals[i]? with
      | some v => .next { c with stack := v :: st }
      | none => .stuck "global.get: index"
    | .globalSet i, v :: st =>
      if i < c.store.globals.size then
        .next { c with stack := st, store := { c.store with globals := c.store.globals.set! i v } }
      else .stuck "global.set: index"
    | .load t pack offset, .i32 base :: st =>
      let n := match pack with | some (nb, _) => nb / 8 | none => t.bytes
      match loadBytes c.store.mem (effAddr base offset) n with
      | some raw => .next { c with stack := loadValue t pack raw :: st }
      | none => .trap "out of bounds memory access" c.store
    | .store t pack offset, v :: .i32 base :: st =>
      if v.type ≠ t then .stuck "store: operand type" else
      let n := match pack with | some nb => nb / 8 | none => t.bytes
      match storeBytes c.store.mem (effAddr base offset) n (v.bits % 2 ^ (8 * n)) with
      | some mem' => .next { c with stack := st, store := { c.store with mem := mem', nanBits := c.store.nanBits || isNaNValue v } }
      | none => .trap "out of bounds memory access" c.store
    | .memorySize, st => .next { c with stack := .i32 (BitVec.ofNat 32 (c.store.mem.size / pageSize)) :: st }
    | .memoryGrow, .i32 d :: st =>
      let old := c.store.mem.size / pageSize
      if old + d.toNat ≤ c.store.memMax ∧ old + d.toNat ≤ 65536 then
        .next { c with stack := .i32 (BitVec.ofNat 32 old) :: st,
                       store := { c.store with mem := c.store.mem ++ ByteArray.mk (Array.replicate (d.toNat * pageSize) 0) } }
      else .next { c with stack := .i32 (BitVec.allOnes 32) :: st }
    | .block np nr body, _ => enterBlock c np nr rest rest body
    | .loop np nr body, _ => enterBlock c np np (.loop np nr body :: rest) rest body
    | .ite np nr thn els, .i32 cnd :: st =>
      enterBlock { c with stack := st } np nr rest rest (if cnd = 0 then els else thn)
    | .br l, _ => branch c l
    | .brIf l, .i32 cnd :: st => if cnd = 0 then .next { c with stack := st } else branch { c with stack := st } l
    | .brTable ls d, .i32 i :: st => branch { c with stack := st } (ls.getD i.toNat d)
    | .call f, _ => invokeFunc m c f rest
    | .callIndirect ty, .i32 i :: st =>
      match c.store.table[i.toNat]? with
      | none => .trap "undefined element" c.store
      | some none => .trap "uninitialized element" c.store
      | some (some fi) =>
        match m.funcs[fi]?, m.types[ty]? with
        | some f, some expect =>
          if m.types[f.type]? = some expect then invokeFunc m { c with stack := st } fi rest
          else .trap "indirect call type mismatch" c.store
        | _, _ => .stuck "call_indirect: index"
    | _, _ => .stuck "operand stack: missing or ill-typed operand"

/-! ## Big-step: iterate with fuel -/

inductive Outcome
  | values (vs : List Value) (s : Store)
  | trap (why : String) (s : Store)
  | outOfFuel
  | stuck (why : String)

def run (m : Module) : Nat → Config → Outcome
  | 0, _ => .outOfFuel
  | fuel + 1, c =>
    match step m c with
    | .next c' => run m fuel c'
    | .done vs s => .values vs s
    | .trap w s => .trap w s
    | .stuck w => .stuck w

/-- invoke function `fi` of the instance `(m, s)` on `args` -/
def invoke (m : Module) (s : Store) (fi : Nat) (args : List Value) (fuel : Nat) : Outcome :=
  match m.funcs[fi]? with
  | none => .stuck "invoke: function index"
  | some f =>
    match m.types[f.type]? with
    | none => .stuck "invoke: type index"
    | some ft =>
      if args.map Value.type ≠ ft.params then .stuck "invoke: argument types" else
      run m fuel { store := s, locals := (args ++ f.locals.map Value.zero).toArray, stack := [], code := f.body,
                   labels := [], arity := ft.results.length, frames := [] }

/-! ## Instantiation (spec §4.5.4): globals, memory, table, active segments, start -/

def initTable (t : Array (Option Nat)) : List (Nat × List Nat) → Option (Array (Option Nat))
  | [] => some t
  | (off, fs) :: r =>
    if off + fs.length ≤ t.size then
      initTable ((List.range fs.length).foldl (fun t i => t.set! (off + i) fs[i]?) t) r
    else none

def initMem (mem : ByteArray) : List (Nat × List Nat) → Option ByteArray
  | [] => some mem
  | (off, bs) :: r =>
    if off + bs.length ≤ mem.size then
      initMem ((List.range bs.length).foldl (fun m i => m.set! (off + i) (UInt8.ofNat (bs.getD i 0))) mem) r
    else none

inductive InstResult
  | ok (s : Store)
  | trap (why : String)
  | outOfFuel
  | stuck (why : String)

def instantiate (m : Module) (fuel : Nat) : InstResult :=
  let globals := m.globals.map (·.init)
  let mem := match m.mem with
    | some l => ByteArray.mk (Array.replicate (l.min * pageSize) 0)
    | none => ByteArray.empty
  let memMax := match m.mem with | some ⟨_, some mx⟩ => mx | _ => 65536
  let table : Array (Option Nat) := match m.table with | some l => Array.replicate l.min none | none => #[]
  match initTable table m.elems with
  | none => .trap "out of bounds table access"
  | some table =>
    match initMem mem m.datas with
    | none => .trap "out of bounds memory access"
    | some mem =>
      let s : Store := { globals := globals, mem := mem, memMax := memMax, table := table }
      match m.start with
      | none => .ok s
      | some fi =>
        match invoke m s fi [] fuel with
        | .values _ s' => .ok s'
        | .trap w _ => .trap w
        | .outOfFuel => .outOfFuel
        | .stuck w => .stuck w

end Spec.Wasm
