/-
Specification side of C18 (import-free, independent of ppci's code).

1. A reader for Intel HEX object files written from Intel's "Hexadecimal Object
   File Format Specification" (rev. A, 1988):
     record  =  ':' LL AAAA TT DD*LL CC      (two hex digits per byte)
     LL   = number of data bytes, AAAA = load offset (big endian), TT = type,
     CC   = checksum: the sum of ALL bytes of the record (LL … CC) is 0 mod 256.
     TT=00 data: byte i goes to  (LBA + offset + i) mod 2^32  (32-bit linear
           addressing, §6) or  SBA + (offset + i) mod 2^16  (segmented, §5);
     TT=01 end of file (LL=0), must be the last record;
     TT=02 extended segment address (LL=2): SBA = data*16;
     TT=03 start segment address (LL=4): CS:IP, kept out of the image;
     TT=04 extended linear address (LL=2): LBA = data * 2^16;
     TT=05 start linear address (LL=4): EIP.
   Records other than data carry load offset 0000.  The reader is strict: every
   line must be a record, a file without an end-of-file record is rejected.
2. The memory image of a set of regions (`cells`) and the canonical merged form
   of a region set (`mergeSpec`, characterised in Props/C18 as THE unique
   gap-separated list with the same image).
-/
namespace Spec.IHex

/-- (address, bytes) -/
abbrev Region := Nat × List Nat

/-! ### memory images -/

def cellsOf (a : Nat) : List Nat → List (Nat × Nat)
  | [] => []
  | b :: bs => (a, b) :: cellsOf (a + 1) bs

/-- all (address, byte) pairs of the regions, in list order -/
def cells : List Region → List (Nat × Nat)
  | [] => []
  | r :: rs => cellsOf r.1 r.2 ++ cells rs

/-- two regions do not share an address -/
def Disjoint (a b : Region) : Prop := a.1 + a.2.length ≤ b.1 ∨ b.1 + b.2.length ≤ a.1

/-- the region sets the property quantifies over: non-empty, pairwise
    non-overlapping, bytes, below 4 GiB -/
def ValidSet (rs : List Region) : Prop :=
  (∀ r ∈ rs, r.2 ≠ [] ∧ r.1 + r.2.length ≤ 4294967296 ∧ ∀ b ∈ r.2, b < 256) ∧ rs.Pairwise Disjoint

/-- normal form: ascending, non-empty, a gap of at least one address between neighbours -/
def NF : List Region → Prop
  | [] => True
  | [r] => r.2 ≠ []
  | r1 :: r2 :: rest => r1.2 ≠ [] ∧ r1.1 + r1.2.length < r2.1 ∧ NF (r2 :: rest)

def insertByAddr (r : Region) : List Region → List Region
  | [] => [r]
  | x :: xs => if x.1 < r.1 then x :: insertByAddr r xs else r :: x :: xs

def sortByAddr (rs : List Region) : List Region := rs.foldl (fun acc r => insertByAddr r acc) []

/-- join neighbours that touch, right to left -/
def glue : List Region → List Region
  | [] => []
  | r :: rest =>
    match glue rest with
    | [] => [r]
    | n :: more => if r.1 + r.2.length = n.1 then (r.1, r.2 ++ n.2) :: more else r :: n :: more

/-- the merged form of a set of regions -/
def mergeSpec (rs : List Region) : List Region := glue (sortByAddr rs)

/-! ### the reader -/

def hexVal (c : Char) : Option Nat :=
  if '0' ≤ c ∧ c ≤ '9' then some (c.toNat - '0'.toNat)
  else if 'A' ≤ c ∧ c ≤ 'F' then some (c.toNat - 'A'.toNat + 10)
  else if 'a' ≤ c ∧ c ≤ 'f' then some (c.toNat - 'a'.toNat + 10)
  else none

def hexBytes : List Char → Option (List Nat)
  | [] => some []
  | [_] => none
  | hi :: lo :: rest =>
    match hexVal hi, hexVal lo, hexBytes rest with
    | some h, some l, some bs => some ((h * 16 + l) :: bs)
    | _, _, _ => none

structure Record where
  offset : Nat
  typ : Nat
  data : List Nat
  deriving Repr, DecidableEq

/-- record grammar, byte count and checksum -/
def parseRecord : List Char → Option Record
  | ':' :: cs =>
    match hexBytes cs with
    | some (ll :: ah :: al :: tt :: rest) =>
      if rest.length = ll + 1 ∧ (ll + ah + al + tt + rest.sum) % 256 = 0
      then some ⟨ah * 256 + al, tt, rest.dropLast⟩ else none
    | _ => none
  | _ => none

def parseAll : List (List Char) → Option (List Record)
  | [] => some []
  | l :: ls =>
    match parseRecord l, parseAll ls with
    | some r, some rs => some (r :: rs)
    | _, _ => none

def beVal : List Nat → Nat
  | [] => 0
  | b :: bs => b * 256 ^ bs.length + beVal bs

def linCells (a : Nat) : List Nat → List (Nat × Nat)
  | [] => []
  | b :: bs => (a % 4294967296, b) :: linCells (a + 1) bs

def segCells (base off : Nat) : List Nat → List (Nat × Nat)
  | [] => []
  | b :: bs => (base + off % 65536, b) :: segCells base (off + 1) bs

structure Image where
  /-- (address, byte) in file order -/
  mem : List (Nat × Nat)
  /-- start linear address (EIP) if the file has one -/
  start : Option Nat
  deriving Repr, DecidableEq

/-- interpret the records; `base` is LBA (linear) or SBA (`seg`) -/
def run (base : Nat) (seg : Bool) : List Record → Option Image
  | [] => none
  | r :: rs =>
    match r.typ with
    | 0 =>
      match run base seg rs with
      | some img =>
        some { img with mem := (if seg then segCells base r.offset r.data
                                else linCells (base + r.offset) r.data) ++ img.mem }
      | none => none
    | 1 => if r.data.length = 0 ∧ r.offset = 0 ∧ rs.length = 0 then some ⟨[], none⟩ else none
    | 2 => if r.data.length = 2 ∧ r.offset = 0 then run (beVal r.data * 16) true rs else none
    | 3 => if r.data.length = 4 ∧ r.offset = 0 then run base seg rs else none
    | 4 => if r.data.length = 2 ∧ r.offset = 0 then run (beVal r.data * 65536) false rs else none
    | 5 =>
      if r.data.length = 4 ∧ r.offset = 0 then
        match run base seg rs with
        | some img => some { img with start := match img.start with
                                                | some s => some s
                                                | none => some (beVal r.data) }
        | none => none
      else none
    | _ => none

/-- read a whole file (list of lines) -/
def read (lines : List (List Char)) : Option Image :=
  match parseAll lines with
  | some recs => run 0 false recs
  | none => none

end Spec.IHex
