import PpciVerif.Spec.Bits
/-
ARM "modified immediate" (data-processing immediate) of the A32 instruction set,
written from the ARM Architecture Reference Manual (A5.2.4): a 12-bit field
`rot:imm8` denotes the 32-bit value `ROR(ZeroExtend(imm8), 2*rot)`.
Core Lean only.
-/
namespace Spec.ArmImm
open Spec.Bits

/-- value denoted by the 12-bit field `e = rot*256 + imm8` -/
def decode (e : Int) : Nat := rotr 32 (e % 256) (2 * (e / 256))

/-- `v` is representable as a rotated 8-bit immediate -/
def Representable (v : Int) : Prop :=
  ∃ rot : Nat, rot < 16 ∧ ∃ imm8 : Nat, imm8 < 256 ∧ (rotr 32 imm8 (2 * rot) : Int) = v

/-- executable test: `v` is a 32-bit value and some even left rotation of it fits in 8 bits -/
def representableB (v : Int) : Bool :=
  decide (0 ≤ v) && decide (v < 2 ^ 32) && (List.range 16).any (fun r => decide (rotl 32 v (2 * r) < 256))

end Spec.ArmImm
