/-
`Spec.CExpr` — C integer expressions **with variables** on an LP64 target
(x86-64 System V, as gcc implements it).  Nothing here is derived from ppci.

This is `Spec.CInt` (written from ISO C11 6.3.1, 6.4.4.1, 6.5, validated against
gcc 12 by `harness/c27.py`) extended by two leaves:

* `var τ i`  — an rvalue use of an object of integer type `τ` holding the value `ρ i`
               (6.3.2.1p2: lvalue conversion, the value has the type of the object);
* `szof n`   — `sizeof (T)` for a type of size `n`: an integer constant of type `size_t`
               = `unsigned long` with value `n` (6.5.3.4p2,p5; LP64 psABI).

Every operator-level definition (`promote`, `uac`, `convert`, `evalArith`, `evalShift`,
`evalCmp`, `evalUn`, `litType`) is the one of `Spec.CInt`; `closed_agrees`
(Proofs/CExpr.lean) shows that on expressions without the new leaves `typeOf`/`eval`
are literally `Spec.CInt.typeOf`/`Spec.CInt.eval`.

Undefined behaviour is `none` (signed overflow, division by zero, `MIN / -1`, bad shift
counts, `<<` of a negative value, ...).  A variable whose value is not a value of its
type has no meaning either (`none`): environments are not constrained from outside.
Operands that C does not evaluate (`0 && x`, `1 || x`, the branch of `?:` not chosen)
may be undefined without making the whole expression undefined.
-/
import PpciVerif.Spec.CInt

namespace Spec.CExpr
open Spec.CInt

/-- `size_t` on LP64 -/
def sizeT : Ty := .ulong

inductive Expr
  | var (τ : Ty) (i : Nat)                          -- rvalue use of variable number `i` of type `τ`
  | lit (base : Base) (suf : Suffix) (v : Nat)     -- integer constant
  | chr (v : Nat)                                  -- character constant
  | szof (n : Nat)                                 -- `sizeof (T)` where `T` has size `n`
  | un (op : UnOp) (a : Expr)
  | bin (op : BinOp) (a b : Expr)
  | cond (c a b : Expr)
  | cast (τ : Ty) (a : Expr)
  deriving Repr

/-- values of the variables -/
abbrev Env := Nat → Int

/-- the type of an expression (6.5); `none` only when a constant has no type -/
def typeOf : Expr → Option Ty
  | .var τ _ => some τ
  | .lit b s v => litType b s v
  | .chr v => if v < 256 then some .int else none
  | .szof n => if inRange sizeT n then some sizeT else none
  | .un .lnot a => (typeOf a).map fun _ => .int
  | .un _ a => (typeOf a).map promote
  | .bin op a b =>
    match typeOf a, typeOf b with
    | some ta, some tb =>
      if op.isArith then some (uac ta tb)
      else if op.isShift then some (promote ta)
      else some .int
    | _, _ => none
  | .cond c a b =>
    match typeOf c, typeOf a, typeOf b with
    | some _, some ta, some tb => some (uac ta tb)
    | _, _, _ => none
  | .cast τ a => (typeOf a).map fun _ => τ

/-- value of an expression (`none`: untyped constant, ill-typed environment or undefined behaviour) -/
def eval (ρ : Env) : Expr → Option Int
  | .var τ i => if inRange τ (ρ i) then some (ρ i) else none
  | .lit b s v => (litType b s v).map fun _ => (v : Int)
  | .chr v => if v < 256 then some (convert .char v) else none
  | .szof n => if inRange sizeT n then some (n : Int) else none
  | .un op a =>
    match typeOf a, eval ρ a with
    | some ta, some x =>
      if op = .lnot then evalUn op ta x else evalUn op (promote ta) (convert (promote ta) x)
    | _, _ => none
  | .bin op a b =>
    match typeOf a, typeOf b with
    | some ta, some tb =>
      match op with
      | .land =>
        match eval ρ a with
        | some x => if x = 0 then some 0 else (eval ρ b).map fun y => ofBool (decide (y ≠ 0))
        | none => none
      | .lor =>
        match eval ρ a with
        | some x => if x ≠ 0 then some 1 else (eval ρ b).map fun y => ofBool (decide (y ≠ 0))
        | none => none
      | _ =>
        match eval ρ a, eval ρ b with
        | some x, some y =>
          if op.isArith then evalArith op (uac ta tb) (convert (uac ta tb) x) (convert (uac ta tb) y)
          else if op.isShift then evalShift op (promote ta) (convert (promote ta) x) y
          else evalCmp op (convert (uac ta tb) x) (convert (uac ta tb) y)
        | _, _ => none
    | _, _ => none
  | .cond c a b =>
    match typeOf c, typeOf a, typeOf b with
    | some _, some ta, some tb =>
      match eval ρ c with
      | some x =>
        if x ≠ 0 then (eval ρ a).map (convert (uac ta tb)) else (eval ρ b).map (convert (uac ta tb))
      | none => none
    | _, _, _ => none
  | .cast τ a => (eval ρ a).map (convert τ)

/-- embedding of the closed constant expressions of `Spec.CInt` -/
def ofConst : Spec.CInt.Expr → Expr
  | .lit b s v => .lit b s v
  | .chr v => .chr v
  | .un op a => .un op (ofConst a)
  | .bin op a b => .bin op (ofConst a) (ofConst b)
  | .cond c a b => .cond (ofConst c) (ofConst a) (ofConst b)
  | .cast τ a => .cast τ (ofConst a)

end Spec.CExpr
