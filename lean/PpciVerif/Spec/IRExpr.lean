/-
`Spec.IRExpr` — the value of an *expression-shaped* piece of ppci IR, given by the
instruction semantics of `Spec.IR` (`evalConst/evalBinop/evalUnop/evalCast/evalCond`).

The C front-end lowers an expression to straight-line instructions plus three control
skeletons (`CCodeGenerator.gen_condition`, `gen_condition_to_integer`, `gen_ternop`):

    cjump a ⋈ b ? yes : no                 (`cjump`, `cnot` = the two targets swapped)
    a-condition ; middle: b-condition      (`cor` / `cand`: short-circuit chains of cjumps)
    yes: 1  no: 0  end: phi(yes:1, no:0)   (`toInt`)
    yes: a  no: b  end: phi(yes:a, no:b)   (`select`)

`IExpr` is that shape as a tree; `ieval` composes the `Spec.IR` instruction semantics along
it: both operands of a binop / cjump are executed (an undefined one makes the whole
undefined), of `cor`/`cand`/`select` only the instructions on the taken path.  Conditions
evaluate to `true` (the `yes` target is taken) or `false`.

What is *abstracted*: block names, the jump instructions and the phi bookkeeping.  The
relation between a tree and the block-structured function the real code generator emits
is not proved; `harness/c01.py` re-establishes it per program (the real function is
symbolically executed into the same decision tree, and executed by `Spec.IR` itself).
-/
import PpciVerif.Spec.IR

namespace Spec.IRExpr
open Spec.IR

abbrev ITy := Spec.IRArith.Ty

mutual
  /-- value code -/
  inductive IExpr
    | load (ty : ITy) (i : Nat)                             -- `load` of the slot of variable `i`
    | const (ty : ITy) (v : Int)                            -- `ir.Const`
    | binop (ty : ITy) (op : BinOp) (a b : IExpr)           -- `ir.Binop`
    | unop (ty : ITy) (op : UnOp) (a : IExpr)               -- `ir.Unop`
    | cast (ty : ITy) (a : IExpr)                           -- `ir.Cast`
    | toInt (c : ICond) (ty : ITy)                          -- phi of the constants 1 / 0
    | select (c : ICond) (ty : ITy) (a b : IExpr)           -- phi of the two branch values
  /-- condition code: control reaches `yes` or `no` -/
  inductive ICond
    | cjump (a : IExpr) (c : Cond) (b : IExpr)              -- `ir.CJump(a, c, b, yes, no)`
    | cnot (c : ICond)                                      -- `yes`/`no` swapped
    | cor (a b : ICond)                                     -- condition `a`, else condition `b`
    | cand (a b : ICond)                                    -- condition `a`, then condition `b`
end

def cfg : Config := {}

/-- an integer result of an instruction -/
def valOf : Except Err Val → Option Int
  | .ok (.int v) => some v
  | _ => none

def boolOf : Except Err Bool → Option Bool
  | .ok b => some b
  | .error _ => none

/-- values of the variables (what a `load` of the variable's slot yields) -/
abbrev Env := Nat → Int

mutual
  def ieval (ρ : Env) : IExpr → Option Int
    | .load ty i => if Spec.IRArith.InRange ty (ρ i) then some (ρ i) else none
    | .const ty v => valOf (evalConst cfg (.int ty) (.int v))
    | .binop ty op a b =>
      match ieval ρ a, ieval ρ b with
      | some x, some y => valOf (evalBinop cfg (.int ty) op (.int x) (.int y))
      | _, _ => none
    | .unop ty op a =>
      match ieval ρ a with
      | some x => valOf (evalUnop cfg (.int ty) op (.int x))
      | none => none
    | .cast ty a =>
      match ieval ρ a with
      | some x => valOf (evalCast cfg (.int ty) (.int x))
      | none => none
    | .toInt c ty =>
      match ceval ρ c with
      | some t => valOf (evalConst cfg (.int ty) (.int (if t then 1 else 0)))
      | none => none
    | .select c _ a b =>
      match ceval ρ c with
      | some t => if t then ieval ρ a else ieval ρ b
      | none => none
  /-- `some true`: control reaches `yes`; `some false`: `no` -/
  def ceval (ρ : Env) : ICond → Option Bool
    | .cjump a c b =>
      match ieval ρ a, ieval ρ b with
      | some x, some y => boolOf (evalCond c (.int x) (.int y))
      | _, _ => none
    | .cnot c => (ceval ρ c).map (!·)
    | .cor a b =>
      match ceval ρ a with
      | some t => if t then some true else ceval ρ b
      | none => none
    | .cand a b =>
      match ceval ρ a with
      | some t => if t then ceval ρ b else some false
      | none => none
end

end Spec.IRExpr
