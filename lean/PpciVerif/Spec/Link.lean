import PpciVerif.Model.Linker
/-!
Specification side of C12 (core Lean only; uses the *data types* of
`Model.Linker`, none of its algorithms except the arithmetic `alignUp` and the
naming function `dollarName`).

* which global symbols a link request defines / references, hence what
  "multiply defined" and "undefined" mean (`DupGlobal`, `UndefGlobal`);
* what a memory *needs*: an abstract run of a layout over (alignment, size)
  pairs only – no bytes, no symbols, no addresses stored anywhere – giving
  the address of every placed section and the extent of every memory
  (`placeLayout`), hence what "overfull" means (`Overfull`);
* which requests are well-formed (`WF`): the side conditions under which the
  three conditions above are the *only* reasons for a link to fail.
-/
namespace Spec.Link
open Model.Linker

/-! ### global symbols of a request -/

def objDefs (o : Obj) : List String :=
  (o.symbols.filter (fun s => s.isGlobal && s.value.isSome)).map (·.name)

def objGlobals (o : Obj) : List String :=
  (o.symbols.filter (fun s => s.isGlobal)).map (·.name)

def inputSymDef : MemInput → Option String
  | .symDef s => some s
  | _ => none

def memDefs (m : Memory) : List String := m.inputs.filterMap inputSymDef

def memories (inp : LinkInput) : List Memory :=
  match inp.layout with
  | some l => if inp.partialLink then [] else l.memories
  | none => []

/-- names given a definition, in link order: extra symbols, defined global
    symbols of the objects, DEFINESYMBOLs of the layout -/
def definedNames (inp : LinkInput) : List String :=
  inp.extras.map (·.1) ++ inp.objs.flatMap objDefs ++ (memories inp).flatMap memDefs

/-- global names mentioned at all: the entry symbol and every global symbol of the objects -/
def referencedNames (inp : LinkInput) : List String :=
  (entryName inp).toList ++ inp.objs.flatMap objGlobals

def DupGlobal (inp : LinkInput) : Prop := ¬ (definedNames inp).Nodup

def UndefGlobal (inp : LinkInput) : Prop :=
  inp.partialLink = false ∧ ∃ n, n ∈ referencedNames inp ∧ n ∉ definedNames inp

instance (inp : LinkInput) : Decidable (DupGlobal inp) := by unfold DupGlobal; exact inferInstance
instance (inp : LinkInput) : Decidable (UndefGlobal inp) := by unfold UndefGlobal; exact inferInstance

/-! ### sizes and alignments of merged sections -/

/-- name ↦ (alignment, size); first entry of a name counts -/
abbrev Env := List (String × Nat × Nat)

def envGet (env : Env) (n : String) : Option (Nat × Nat) :=
  match env.find? (fun p => p.1 == n) with
  | some p => some p.2
  | none => none

def envSet (env : Env) (n : String) (v : Nat × Nat) : Env :=
  if (envGet env n).isSome then env.map (fun p => if p.1 == n then (n, v) else p)
  else env ++ [(n, v)]

/-- one more piece (alignment `a`, size `sz`) for output section `n`:
    output alignment = max (default 4), piece placed at the next multiple of `a` -/
def envAddPiece (env : Env) (n : String) (a sz : Nat) : Env :=
  let (oa, osz) := (envGet env n).getD (4, 0)
  envSet env n (max oa a, alignUp osz a + sz)

def envOfPieces : Env → List Section → Env
  | env, [] => env
  | env, p :: rest => envOfPieces (envAddPiece env p.name p.alignment p.data.length) rest

def pieces (inp : LinkInput) : List Section := inp.objs.flatMap (·.sections)

/-! ### abstract placement -/

structure PState where
  env : Env
  cur : Nat
  last : Nat                          -- end of the last placed section (memory start if none)
  placed : List (String × Nat)        -- (section, address) in placement order
  deriving Repr, DecidableEq

/-- `none` = the layout is ill-formed at this input (ALIGN(0), name clash of a
    `_$x_` section, SECTIONDATA of a section that does not exist) -/
def placeInput (st : PState) : MemInput → Option PState
  | .sect n =>
    let (a, sz) := (envGet st.env n).getD (4, 0)
    if a = 0 then none
    else
      let addr := alignUp st.cur a
      some { env := if (envGet st.env n).isSome then st.env else st.env ++ [(n, 4, 0)],
             cur := addr + sz, last := addr + sz, placed := st.placed ++ [(n, addr)] }
  | .sectData n =>
    let nn := dollarName n
    if (envGet st.env nn).isSome then none
    else
      match envGet (st.env ++ [(nn, 1, 0)]) n with
      | none => none
      | some (_, sz) =>
        some { env := st.env ++ [(nn, 1, sz)], cur := st.cur + sz, last := st.cur + sz,
               placed := st.placed ++ [(nn, st.cur)] }
  | .symDef s =>
    let nn := dollarName s
    if (envGet st.env nn).isSome then none
    else some { st with env := st.env ++ [(nn, 1, 0)], last := st.cur, placed := st.placed ++ [(nn, st.cur)] }
  | .align a =>
    if a = 0 then none else some { st with cur := alignUp st.cur a }

def placeInputs : PState → List MemInput → Option PState
  | st, [] => some st
  | st, i :: rest =>
    match placeInput st i with
    | none => none
    | some st1 => placeInputs st1 rest

/-- result for one memory: its placements and the number of bytes it needs -/
structure MemPlan where
  placed : List (String × Nat)
  need : Nat
  deriving Repr, DecidableEq

def placeMemory (env : Env) (m : Memory) : Option (Env × MemPlan) :=
  match placeInputs { env := env, cur := m.location, last := m.location, placed := [] } m.inputs with
  | none => none
  | some st => some (st.env, { placed := st.placed, need := st.last - m.location })

def placeLayout : Env → List Memory → Option (List MemPlan)
  | _, [] => some []
  | env, m :: rest =>
    match placeMemory env m with
    | none => none
    | some (env1, p) =>
      match placeLayout env1 rest with
      | none => none
      | some ps => some (p :: ps)

def plans (inp : LinkInput) : Option (List MemPlan) :=
  placeLayout (envOfPieces [] (pieces inp)) (memories inp)

/-- some memory needs more bytes than it has -/
def Overfull (inp : LinkInput) : Prop :=
  ∃ ps, plans inp = some ps ∧ ∃ p ∈ (memories inp).zip ps, p.2.need > p.1.size

/-- Boolean form of `Overfull` (what the driver evaluates) -/
def overfullB (inp : LinkInput) : Bool :=
  match plans inp with
  | none => false
  | some ps => ((memories inp).zip ps).any (fun p => decide (p.2.need > p.1.size))

theorem overfullB_iff (inp : LinkInput) : overfullB inp = true ↔ Overfull inp := by
  unfold overfullB Overfull
  cases plans inp with
  | none => simp
  | some ps => simp

instance (inp : LinkInput) : Decidable (Overfull inp) := decidable_of_iff _ (overfullB_iff inp)

/-! ### well-formed requests -/

def inputPlaced : MemInput → List String
  | .sect n => [n]
  | .sectData n => [dollarName n]
  | .symDef s => [dollarName s]
  | .align _ => []

/-- all section names a layout places, in order -/
def placedNames (ms : List Memory) : List String := ms.flatMap (fun m => m.inputs.flatMap inputPlaced)

def objWF (o : Obj) : Bool :=
  o.sections.all (fun s => s.alignment != 0)
  && o.symbols.all (fun s => s.value.isNone ||
        match s.sect with
        | some n => o.sections.any (fun t => t.name == n)
        | none => false)
  && o.relocs.all (fun r => o.sections.any (fun t => t.name == r.sect) && o.symbols.any (fun s => s.id == r.symbolId))
  && (match o.entry with
      | some e => o.symbols.any (fun s => s.id == e)
      | none => true)

def entryCount (inp : LinkInput) : Nat :=
  (entryName inp).toList.length + (inp.objs.filter (fun o => o.entry.isSome)).length

/-- Side conditions of the failure characterisation.  Everything here is about
    the *shape* of the request (dangling references inside an object, zero
    alignments, two entry points, a layout in a partial link, an ill-formed
    layout); none of it is about undefined/duplicate globals or memory sizes. -/
def WF (inp : LinkInput) : Bool :=
  !inp.objs.isEmpty
  && inp.objs.all objWF
  && decide (entryCount inp ≤ 1)
  && (match entryName inp with
      | some e => !(inp.extras.map (·.1)).contains e
      | none => true)
  && !(inp.partialLink && inp.layout.isSome)
  && (plans inp).isSome
  && decide ((placedNames (memories inp)).Nodup)

end Spec.Link
