/-
`Spec.Relax` — what "removing bytes from a section" means, independent of ppci's code.
Import-free.

A *hole* `(offset, size)` is the byte range `[offset, offset + size)` of a section that is deleted.
For a list of holes of one section

* `removedBefore hs o` = Σ { size h | h ∈ hs, h.offset < o }   (NO assumption on the order of `hs`)
* `phi hs o = o − removedBefore hs o`  — the re-indexing of section offsets the property speaks of
  (`φ o = o − Σ{size h | h.offset < o}`).  On `Nat`: truncated subtraction; under `HolesFrom` and for
  `o` not strictly inside a hole the subtraction is exact (`Proofs.Relax.removedBefore_le`).
* `inHole hs o`  — `o` is one of the deleted bytes
* `strictlyInside hs o` — `o` lies strictly inside a hole (`h.offset < o < h.offset + h.size`); such an
  offset has no sensible image (it denotes the middle of the deleted range)
* `removeBytes hs data` — `data` without the bytes whose index is in a hole (order kept)
* `HolesFrom L hs` — the holes are listed in ascending order, do not overlap and start at or after `L`
* `Phi` — the address map of a whole object: section address + offset ↦ new section address + φ(offset)

`alignedB`, `fits12` are the vocabulary of the statements about alignment and C.J / C.JAL range.
-/
namespace Spec.Relax

abbrev Hole := Nat × Nat

def Hole.offset (h : Hole) : Nat := h.1
def Hole.size (h : Hole) : Nat := h.2

/-- Σ { size h | h.offset < o } -/
def removedBefore : List Hole → Nat → Nat
  | [], _ => 0
  | h :: rest, o => (if h.1 < o then h.2 else 0) + removedBefore rest o

/-- `φ o = o − Σ{size h | h.offset < o}` -/
def phi (hs : List Hole) (o : Nat) : Nat := o - removedBefore hs o

/-- total number of deleted bytes -/
def totalSize : List Hole → Nat
  | [] => 0
  | h :: rest => h.2 + totalSize rest

def inHole (hs : List Hole) (o : Nat) : Bool := hs.any (fun h => decide (h.1 ≤ o ∧ o < h.1 + h.2))

def strictlyInside (hs : List Hole) (o : Nat) : Bool := hs.any (fun h => decide (h.1 < o ∧ o < h.1 + h.2))

/-- `data[i:]` (indices counted from `i`) without the bytes whose index lies in a hole -/
def removeFrom {α : Type} (hs : List Hole) : Nat → List α → List α
  | _, [] => []
  | i, b :: rest => if inHole hs i then removeFrom hs (i + 1) rest else b :: removeFrom hs (i + 1) rest

def removeBytes {α : Type} (hs : List Hole) (data : List α) : List α := removeFrom hs 0 data

/-- ascending, pairwise disjoint, all at or after `L` -/
def HolesFrom : Nat → List Hole → Prop
  | _, [] => True
  | L, h :: rest => L ≤ h.1 ∧ HolesFrom (h.1 + h.2) rest

instance : (L : Nat) → (hs : List Hole) → Decidable (HolesFrom L hs)
  | _, [] => isTrue trivial
  | L, h :: rest =>
    match (inferInstance : Decidable (L ≤ h.1)), instDecidableHolesFrom (h.1 + h.2) rest with
    | isTrue a, isTrue b => isTrue ⟨a, b⟩
    | isFalse a, _ => isFalse (fun x => a x.1)
    | _, isFalse b => isFalse (fun x => b x.2)

/-- every hole lies inside a section of `len` bytes -/
def holesWithin (hs : List Hole) (len : Nat) : Prop := ∀ h ∈ hs, h.1 + h.2 ≤ len

/-- signed 12-bit byte offset: what C.J / C.JAL can reach -/
def fits12 (d : Int) : Prop := -2048 ≤ d ∧ d ≤ 2047

instance (d : Int) : Decidable (fits12 d) := by unfold fits12; exact inferInstance

end Spec.Relax
