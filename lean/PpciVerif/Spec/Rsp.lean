/-
Specification side of C35, written from the GDB Remote Serial Protocol text
("Overview" of the gdb manual, appendix E) and the property statement — not
from the ppci source.  Import-free.

  packet     `$` packet-data `#` checksum
  checksum   two hex digits: the sum of all characters of packet-data modulo 256
  escaping   `#`, `$`, `}` (and `*` on the way to the stub) are sent as `}` followed
             by the character xor 0x20; the receiver undoes it
  ack        every packet is answered by `+` (good checksum) or `-` (bad checksum,
             asks for retransmission)
-/
namespace Spec.Rsp

/-! ### escaping and checksum -/

def special (c : Nat) : Bool := c == 125 || c == 42 || c == 35 || c == 36

def escChar (c : Nat) : List Nat := if special c then [125, c ^^^ 32] else [c]

/-- the packet-data that carries payload `p` -/
def escape (p : List Nat) : List Nat := p.flatMap escChar

/-- the payload carried by packet-data `d` (`}` x ↦ x xor 0x20) -/
def unescape : List Nat → List Nat
  | [] => []
  | [c] => if c = 125 then [] else [c]
  | c :: d :: rest => if c = 125 then (d ^^^ 32) :: unescape rest else c :: unescape (d :: rest)

def checksum (d : List Nat) : Nat := d.sum % 256

/-- strict hex digit -/
def hexDigit? (c : Nat) : Option Nat :=
  if 48 ≤ c ∧ c ≤ 57 then some (c - 48)
  else if 65 ≤ c ∧ c ≤ 70 then some (c - 55)
  else if 97 ≤ c ∧ c ≤ 102 then some (c - 87)
  else none

/-- the checksum field `c1 c2` is good for packet-data `d`:
    two hex digits whose value is the modulo-256 sum of `d` -/
def checksumOk (d : List Nat) (c1 c2 : Nat) : Bool :=
  match hexDigit? c1, hexDigit? c2 with
  | some x, some y => 16 * x + y == checksum d
  | _, _ => false

/-! ### a byte stream as a sequence of items -/

/-- what can arrive between / around packets -/
inductive Item
  | ack (c : Nat)                            -- `+` or `-`
  | noise (b : Nat)                          -- any byte that is not `$`, `+`, `-`
  | frame (d : List Nat) (c1 c2 : Nat)       -- `$` d `#` c1 c2, no `#` inside d
  deriving DecidableEq, Repr

def Item.wf : Item → Bool
  | .ack c => c == 43 || c == 45
  | .noise b => b != 36 && b != 43 && b != 45
  | .frame d _ _ => !d.contains 35

def Item.isAck : Item → Bool
  | .ack _ => true
  | _ => false

def Item.render : Item → List Nat
  | .ack c => [c]
  | .noise b => [b]
  | .frame d c1 c2 => 36 :: (d ++ [35, c1, c2])

def render (items : List Item) : List Nat := items.flatMap Item.render

/-- the payload a receiver must hand over for this item (good frames only) -/
def Item.payload? : Item → Option (List Nat)
  | .frame d c1 c2 => if checksumOk d c1 c2 then some (unescape d) else none
  | _ => none

/-- the acknowledgement a receiver must write for this item -/
def Item.reply? : Item → Option (List Nat)
  | .frame d c1 c2 => if checksumOk d c1 c2 then some [43] else some [45]
  | _ => none

/-! ### the sender -/

inductive Outcome
  | acked          -- a `+` arrived within the budget
  | retryFail      -- the budget of retransmissions is used up
  | timeout        -- the peer stopped answering
  deriving DecidableEq, Repr

/-- number of negative acknowledgements before the first `+` -/
def nacksBeforePlus (acks : List Nat) : Nat := (acks.takeWhile (· ≠ 43)).length

/-- transmissions of one packet against the acknowledgement sequence `acks`
    with a budget of `retries` retransmissions -/
def transmissions (retries : Nat) (acks : List Nat) : Nat :=
  1 + min (nacksBeforePlus acks) retries

/-- how the send ends. The budget is exhausted when `retries` retransmissions were
    made (each of them is still answered by the peer before the sender gives up). -/
def outcome (retries : Nat) (acks : List Nat) : Outcome :=
  let n := nacksBeforePlus acks
  if n < retries then (if n < acks.length then .acked else .timeout)
  else (if retries < acks.length then .retryFail else .timeout)

end Spec.Rsp
