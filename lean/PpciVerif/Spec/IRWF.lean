import PpciVerif.Spec.IR
/-!
# Spec.IRWF — the DECLARATIVE definition of a well-formed IR function (C03)

Written from the statement of property C03, not from any checker:

> In a well-formed module every block ends in exactly one terminator, every block is reachable,
> every use is dominated by its definition, every phi has exactly one incoming value per predecessor
> and operand types agree.

Everything here is a `Prop`.  Reachability and dominance are defined by **paths** of the block-level
control-flow graph (`PathIn`, `Reachable`, `Dom`), a definition site is a position
(`DefSite`: parameter, or instruction number `k` of a block), typing is a relation (`HasTy`, `InstrTyped`).
`Proofs.IRWF.wfFunc_iff` proves that the executable Boolean checker `Spec.IR.wfFunc` (which every
real pass output is fed through) accepts exactly the functions that satisfy `WF`.

Imports only `Spec.IR` (core Lean).
-/
namespace Spec.IRWF
open Spec.IR

/-! ## control-flow graph, paths, reachability, dominance -/

/-- walks of a graph given by a successor function: `PathIn succ u l v` is a walk `u → … → v`,
    `l` lists the vertices visited after `u` (so the vertices of the walk are `u :: l`). -/
inductive PathIn (succ : String → List String) : String → List String → String → Prop
  | nil (u : String) : PathIn succ u [] u
  | cons {u w v : String} {l : List String} : w ∈ succ u → PathIn succ w l v → PathIn succ u (w :: l) v

/-- walks of the block-level CFG of `f`: an edge `u → w` exists when the terminator of the block
    named `u` lists `w` as a target (`Func.succOf`). -/
abbrev Path (f : Func) : String → List String → String → Prop := PathIn f.succOf

/-- block `v` can be reached from the entry block -/
def Reachable (f : Func) (v : String) : Prop := ∃ l, Path f f.entry l v

/-- `d` dominates `v`: every walk from the entry to `v` passes through `d` -/
def Dom (f : Func) (d v : String) : Prop := ∀ l, Path f f.entry l v → d ∈ f.entry :: l

/-- `p` is a predecessor of the block named `n`: some block named `p` lists `n` as a successor -/
def IsPred (f : Func) (p n : String) : Prop := ∃ b ∈ f.blocks, b.name = p ∧ n ∈ b.succs

/-! ## definitions of values, typing -/

/-- local value `x` of type `ty` is defined at `site`: as a parameter (`none`), or by instruction
    number `k` of the block `b` (`some (b.name, k)`). -/
inductive DefSite (f : Func) (x : String) (ty : Ty) : Option (String × Nat) → Prop
  | param : (x, ty) ∈ f.params → DefSite f x ty none
  | instr {b : Block} {k : Nat} {i : Instr} :
      b ∈ f.blocks → b.instrs[k]? = some i → i.dst? = some (x, ty) → DefSite f x ty (some (b.name, k))

/-- a global name is declared by the module (variable, function/procedure, or external) -/
def Declared (m : Module) (g : String) : Prop :=
  (∃ v ∈ m.vars, v.name = g) ∨ (∃ h ∈ m.funcs, h.name = g) ∨ (∃ e ∈ m.externs, e.name = g)

/-- static type of an operand: the type of its definition; every global is a `ptr` -/
def HasTy (m : Module) (f : Func) : Operand → Ty → Prop
  | .loc x, t => ∃ s, DefSite f x t s
  | .glob g, t => t = .ptr ∧ Declared m g

/-- argument list matches a parameter type list -/
def ArgsTyped (m : Module) (f : Func) : List Operand → List Ty → Prop
  | [], [] => True
  | a :: as, t :: ts => HasTy m f a t ∧ ArgsTyped m f as ts
  | _, _ => False

/-- a call: the callee is a pointer, every argument has a type; a direct call matches the
    signature (`Module.sigOf`) of the called function / procedure / external -/
def CallTyped (m : Module) (f : Func) (callee : Operand) (args : List Operand) (res : Option Ty) : Prop :=
  HasTy m f callee .ptr ∧ (∀ a ∈ args, ∃ t, HasTy m f a t) ∧
  match callee with
  | .glob g => ∃ ps r, m.sigOf g = some (ps, r) ∧ r = res ∧ ArgsTyped m f args ps
  | .loc _ => True

/-- "operand types agree": the typing rule of every instruction kind -/
def InstrTyped (m : Module) (f : Func) : Instr → Prop
  | .const _ ty c => (match ty, c with
      | .int _, .int _ | .ptr, .int _ | .f32, _ | .f64, _ => True
      | _, _ => False)
  | .undefined _ ty => ty.isBlob = false
  | .literal .. => True
  | .alloc _ size _ => size > 0
  | .addrof _ src => ∃ s a, HasTy m f src (.blob s a)
  | .binop _ ty _ a b => ty.isBlob = false ∧ HasTy m f a ty ∧ HasTy m f b ty
  | .unop _ ty _ a => ty.isBlob = false ∧ HasTy m f a ty
  | .cast _ ty a => ty.isBlob = false ∧ ∃ t, HasTy m f a t ∧ t.isBlob = false
  | .load _ ty addr _ => ty.isBlob = false ∧ HasTy m f addr .ptr
  | .store ty v addr _ => ty.isBlob = false ∧ HasTy m f v ty ∧ HasTy m f addr .ptr
  | .copyblob d s _ => HasTy m f d .ptr ∧ HasTy m f s .ptr
  | .phi _ ty ins => ty.isBlob = false ∧ ∀ p ∈ ins, HasTy m f p.2 ty
  | .fcall _ ty callee args => CallTyped m f callee args (some ty)
  | .pcall callee args => CallTyped m f callee args none
  | .asm _ i o _ => ∀ a ∈ i ++ o, ∃ t, HasTy m f a t
  | .jump _ => True
  | .cjump a _ b _ _ => ∃ t, HasTy m f a t ∧ HasTy m f b t ∧ t.isBlob = false
  | .ret v => ∃ rt, f.ret = some rt ∧ HasTy m f v rt
  | .exit => f.ret = none

/-! ## uses are dominated by definitions -/

/-- operand `o`, read by instruction number `k` of block `bn`, is dominated by its definition:
    a parameter / global; or defined earlier in the same block; or defined in another block
    that dominates `bn`. -/
def UseDominated (f : Func) (bn : String) (k : Nat) : Operand → Prop
  | .glob _ => True
  | .loc x => ∃ ty s, DefSite f x ty s ∧
      match s with
      | none => True
      | some (db, di) => (db = bn ∧ di < k) ∨ (db ≠ bn ∧ Dom f db bn)

/-- a phi input `(pred, o)` is read on the edge leaving `pred`: the definition of `o` must dominate
    (the end of) `pred` -/
def PhiUseDominated (f : Func) (pred : String) : Operand → Prop
  | .glob _ => True
  | .loc x => ∃ ty s, DefSite f x ty s ∧
      match s with
      | none => True
      | some (db, _) => Dom f db pred

/-! ## well-formed function / module -/

/-- a block ends in exactly one terminator -/
def Terminated (b : Block) : Prop :=
  ∃ init t, b.instrs = init ++ [t] ∧ t.isTerminator = true ∧ ∀ i ∈ init, i.isTerminator = false

/-- The definition of "well-formed" of property C03 for one function `f` of module `m`. -/
structure WF (m : Module) (f : Func) : Prop where
  /-- the function has blocks and `f.entry` names the first one -/
  entry_first : ∃ b rest, f.blocks = b :: rest ∧ b.name = f.entry
  /-- blocks and local values are identified by their names -/
  block_names : f.blockNames.Nodup
  value_names : (f.defs.map (·.name)).Nodup
  /-- every block ends in exactly one terminator -/
  terminated : ∀ b ∈ f.blocks, Terminated b
  /-- jump targets are blocks of the function -/
  targets : ∀ b ∈ f.blocks, ∀ i ∈ b.instrs, ∀ t ∈ i.targets, ∃ b' ∈ f.blocks, b'.name = t
  /-- every block is reachable from the entry -/
  reachable : ∀ b ∈ f.blocks, Reachable f b.name
  /-- every phi has exactly one incoming value per predecessor (and none for a non-predecessor) -/
  phis : ∀ b ∈ f.blocks, ∀ i ∈ b.instrs, i.isPhi = true →
      (i.phiIns.map (·.1)).Nodup ∧ ∀ p, p ∈ i.phiIns.map (·.1) ↔ IsPred f p b.name
  /-- operand types agree -/
  typed : ∀ b ∈ f.blocks, ∀ i ∈ b.instrs, InstrTyped m f i
  /-- every use is dominated by its definition -/
  dominated : ∀ b ∈ f.blocks, ∀ k i, b.instrs[k]? = some i →
      (∀ o ∈ i.uses, UseDominated f b.name k o) ∧ (∀ p ∈ i.phiIns, PhiUseDominated f p.1 p.2)

/-- well-formed module: global names distinct, every function well-formed -/
structure WFModule (m : Module) : Prop where
  global_names : m.globalNames.Nodup
  funcs : ∀ f ∈ m.funcs, WF m f

end Spec.IRWF
