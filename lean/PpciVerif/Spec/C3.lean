import PpciVerif.Spec.IRArith
import PpciVerif.Spec.CInt
/-
Spec.C3 — what a C3 program computes (property C37): "fixed-width integer arithmetic of the
declared types, short-circuit conditions, loops, switch and calls, as computed by an equivalent C
program under a conforming C compiler".

Nothing here is derived from ppci's code.  The *C side* is `Spec.CInt` (ISO C11 integer semantics
on LP64 with gcc's implementation-defined choices, validated against gcc by C27); this file fixes
which C program is "the equivalent one":

* a C3 integer type is identified by signedness and width (`Spec.IRArith.Ty`; C3's `int` is the
  signed type of the target's `int` width, `byte` is `u8`); it is rendered as the `<stdint.h>` type
  of the same signedness and width (`cTy`);
* the C3 expression `a op b`, whose operands have the C3 type `T` (after the conversions C3's typing
  rules insert, see `commonType`/`coerce`), is the C expression  `(T)((W)a op (W)b)`  where
  `W = compTy T` is `int` for the signed and `unsigned int` for the unsigned types narrower than
  `int`, and `T` itself otherwise — i.e. exactly what C's integer promotions do, except that the
  narrow unsigned types are computed in `unsigned int` (so that `u16 * u16` cannot overflow `int`);
  the result is converted back to the declared type `T` (byte + byte stays a byte);
* "of the declared types": a shift by a count that is not smaller than the width of the *declared*
  type and the quotient `MIN / -1` of the *declared* type are outside fixed-width arithmetic of
  that type (`withinDeclared`); nothing is prescribed for them;
* signed overflow at `int` width and above, division by zero, `<<` of a negative value are
  undefined as in C (`none`);
* a conversion (C3 `cast<T>(e)` or an implicit coercion) is the C conversion `(T)e`;
* a comparison `a cmp b` at type `T` is `(T)a cmp (T)b`: the mathematical relation on the values.

The second half is a small abstract program language (expressions with explicit types and
conversions, assignments, arrays, if / while / switch / return, calls) with a fuel-indexed
evaluator; the harness renders one abstract program as C3, as C and as a term of this language.
-/
namespace Spec.C3
open Spec.IRArith (Ty InRange wrap)

/-! ### operators of the C3 source language -/

inductive Op | add | sub | mul | div | rem | shl | shr | band | bor | bxor
  deriving DecidableEq, Repr

def Op.all : List Op := [.add, .sub, .mul, .div, .rem, .shl, .shr, .band, .bor, .bxor]

def Op.symbol : Op → String
  | .add => "+" | .sub => "-" | .mul => "*" | .div => "/" | .rem => "%"
  | .shl => "<<" | .shr => ">>" | .band => "&" | .bor => "|" | .bxor => "^"

inductive Cmp | eq | ne | lt | gt | le | ge
  deriving DecidableEq, Repr

def Cmp.all : List Cmp := [.eq, .ne, .lt, .gt, .le, .ge]

def Cmp.symbol : Cmp → String
  | .eq => "==" | .ne => "!=" | .lt => "<" | .gt => ">" | .le => "<=" | .ge => ">="

/-! ### typing rules of the language -/

/-- the integer type with the given signedness and width (8, 16, 32, 64) -/
def ofSB (signed : Bool) (bits : Nat) : Ty :=
  match signed, bits with
  | true, 8 => .i8 | true, 16 => .i16 | true, 32 => .i32 | true, _ => .i64
  | false, 8 => .u8 | false, 16 => .u16 | false, 32 => .u32 | false, _ => .u64

/-- the type in which a binary operator is evaluated ("byte + int → int, byte + byte → byte"):
    signed as soon as one operand is signed, as wide as the wider operand -/
def commonType (a b : Ty) : Ty := ofSB (a.signed || b.signed) (max a.bits b.bits)

inductive Coercion | same | auto | reject
  deriving DecidableEq, Repr

def Coercion.name : Coercion → String
  | .same => "same" | .auto => "auto" | .reject => "reject"

/-- may a value of type `src` be used where `dst` is required without an explicit `cast<>`?
    widening within one signedness; unsigned → strictly wider signed; signed → any unsigned
    (reduced modulo 2^N as in C; the language allows it so that literals can initialise bytes);
    everything else needs an explicit cast. -/
def coerce (src dst : Ty) : Coercion :=
  if src = dst then .same
  else if src.signed then
    (if dst.signed then (if src.bits ≤ dst.bits then .auto else .reject) else .auto)
  else
    (if dst.signed then (if src.bits < dst.bits then .auto else .reject)
     else (if src.bits ≤ dst.bits then .auto else .reject))

/-! ### the equivalent C program -/

/-- the `<stdint.h>` type of the same signedness and width on LP64 -/
def cTy : Ty → Spec.CInt.Ty
  | .i8 => .schar | .i16 => .short | .i32 => .int | .i64 => .long
  | .u8 => .uchar | .u16 => .ushort | .u32 => .uint | .u64 => .ulong

/-- the C type in which `(W)a op (W)b` is computed -/
def compTy : Ty → Ty
  | .i8 | .i16 => .i32
  | .u8 | .u16 => .u32
  | t => t

def cOp : Op → Spec.CInt.BinOp
  | .add => .add | .sub => .sub | .mul => .mul | .div => .div | .rem => .mod
  | .shl => .shl | .shr => .shr | .band => .band | .bor => .bor | .bxor => .bxor

/-- the C value of `x op y` for operands that already have the (unpromoted) type `w` -/
def cArith (w : Ty) (op : Op) (x y : Int) : Option Int :=
  match op with
  | .shl | .shr => Spec.CInt.evalShift (cOp op) (cTy w) x y
  | _ => Spec.CInt.evalArith (cOp op) (cTy w) x y

/-- the operation stays inside fixed-width arithmetic of the declared type -/
def withinDeclared (t : Ty) (op : Op) (a b : Int) : Prop :=
  match op with
  | .shl | .shr => 0 ≤ b ∧ b < t.bits
  | .div | .rem => ¬ (t.signed = true ∧ a = t.minVal ∧ b = -1)
  | _ => True

instance (t : Ty) (op : Op) (a b : Int) : Decidable (withinDeclared t op a b) := by
  unfold withinDeclared; cases op <;> infer_instance

/-- C conversion `(T)v` -/
def convert (t : Ty) (v : Int) : Int := Spec.CInt.convert (cTy t) v

/-- **value of the C3 expression `a op b` at the C3 type `t`** (operands are values of `t`):
    the C value of `(T)((W)a op (W)b)`; `none` = nothing prescribed. -/
def binop (t : Ty) (op : Op) (a b : Int) : Option Int :=
  if withinDeclared t op a b then
    (cArith (compTy t) op (convert (compTy t) a) (convert (compTy t) b)).map (convert t)
  else none

/-- unary minus: `(T)(-(W)a)` -/
def neg (t : Ty) (a : Int) : Option Int :=
  (Spec.CInt.evalUn .neg (cTy (compTy t)) (convert (compTy t) a)).map (convert t)

/-- comparison `(T)a cmp (T)b` (both operands are values of the same type; C compares the values) -/
def cmp (c : Cmp) (a b : Int) : Bool :=
  match c with
  | .eq => decide (a = b) | .ne => decide (a ≠ b) | .lt => decide (a < b)
  | .gt => decide (a > b) | .le => decide (a ≤ b) | .ge => decide (a ≥ b)

/-- C's value of a constant expression `a op b` over `int` literals of an `intTy`-wide `int`
    (C3 `const` definitions, `case` labels, array sizes): plain C arithmetic at type `int` -/
def constOp (intTy : Ty) (op : Op) (a b : Int) : Option Int := cArith intTy op a b

/-! ### abstract programs -/

inductive Expr
  | lit (v : Int)                              -- integer literal (already a value of its type)
  | var (x : String)                           -- parameter, local or global scalar
  | idx (a : String) (i : Expr)                -- array element
  | bin (t : Ty) (op : Op) (a b : Expr)        -- operands have type t
  | neg (t : Ty) (a : Expr)
  | cast (t : Ty) (a : Expr)                   -- explicit cast or implicit coercion to t
  | call (f : String) (args : List Expr)
  | cmp (c : Cmp) (a b : Expr)                 -- bool-valued: 0 / 1
  | and (a b : Expr)                           -- short-circuit
  | or (a b : Expr)
  | not (a : Expr)
  deriving Repr, Inhabited

inductive Stmt
  | assign (x : String) (e : Expr)
  | store (a : String) (i : Expr) (e : Expr)
  | decl (a : String) (init : List Expr)       -- local array with all elements initialised
  | ite (c : Expr) (t e : List Stmt)
  | while (c : Expr) (body : List Stmt)
  | switch (e : Expr) (cases : List (Int × List Stmt)) (dflt : List Stmt)   -- no fall-through
  | ret (e : Expr)
  | retv
  | callp (f : String) (args : List Expr)
  deriving Repr, Inhabited

structure Func where
  name : String
  params : List String
  body : List Stmt
  deriving Repr, Inhabited

structure Mem where
  sc : List (String × Int) := []
  ar : List (String × List Int) := []
  deriving Repr, Inhabited

structure Prog where
  globals : Mem := {}
  funcs : List Func := []
  deriving Repr, Inhabited

inductive Res (α : Type)
  | ok (a : α)
  | undef (why : String)      -- the equivalent C program has undefined behaviour / nothing prescribed
  | fuel
  | stuck (why : String)      -- ill-formed abstract program (unbound name, bad index …)
  deriving Repr

def Res.bind {α β : Type} (r : Res α) (f : α → Res β) : Res β :=
  match r with
  | .ok a => f a
  | .undef w => .undef w
  | .fuel => .fuel
  | .stuck w => .stuck w

instance : Monad Res where
  pure := .ok
  bind := Res.bind

def lookup {α : Type} (k : String) : List (String × α) → Option α
  | [] => none
  | (n, v) :: rest => if n == k then some v else lookup k rest

def update {α : Type} (k : String) (v : α) : List (String × α) → List (String × α)
  | [] => []
  | (n, w) :: rest => if n == k then (n, v) :: rest else (n, w) :: update k v rest

def setNth : List Int → Nat → Int → List Int
  | [], _, _ => []
  | _ :: xs, 0, v => v :: xs
  | x :: xs, n + 1, v => x :: setNth xs n v

/-- state: globals and the locals of the current activation -/
structure St where
  g : Mem
  l : Mem
  deriving Inhabited

def St.getSc (s : St) (x : String) : Res Int :=
  match lookup x s.l.sc with
  | some v => .ok v
  | none => match lookup x s.g.sc with
    | some v => .ok v
    | none => .stuck ("unbound " ++ x)

def St.setSc (s : St) (x : String) (v : Int) : St :=
  match lookup x s.l.sc with
  | some _ => { s with l := { s.l with sc := update x v s.l.sc } }
  | none => match lookup x s.g.sc with
    | some _ => { s with g := { s.g with sc := update x v s.g.sc } }
    | none => { s with l := { s.l with sc := (x, v) :: s.l.sc } }

def St.getAr (s : St) (a : String) : Res (List Int) :=
  match lookup a s.l.ar with
  | some v => .ok v
  | none => match lookup a s.g.ar with
    | some v => .ok v
    | none => .stuck ("unbound array " ++ a)

def St.setAr (s : St) (a : String) (v : List Int) : St :=
  match lookup a s.l.ar with
  | some _ => { s with l := { s.l with ar := update a v s.l.ar } }
  | none => { s with g := { s.g with ar := update a v s.g.ar } }

def ofOpt (why : String) : Option Int → Res Int
  | some v => .ok v
  | none => .undef why

def zipParams : List String → List Int → List (String × Int)
  | p :: ps, v :: vs => (p, v) :: zipParams ps vs
  | _, _ => []

/-- how a statement list ended -/
inductive Flow | next | returned (v : Option Int)
  deriving Repr

mutual
/-- value of an expression; calls may change the globals -/
def evalE (p : Prog) : Nat → St → Expr → Res (Int × St)
  | 0, _, _ => .fuel
  | n + 1, s, e =>
    match e with
    | .lit v => .ok (v, s)
    | .var x => do let v ← s.getSc x; pure (v, s)
    | .idx a i => do
        let (iv, s) ← evalE p n s i
        let arr ← s.getAr a
        if 0 ≤ iv ∧ iv.toNat < arr.length then pure (arr.getD iv.toNat 0, s)
        else .undef "index out of bounds"
    | .bin t op a b => do
        let (x, s) ← evalE p n s a
        let (y, s) ← evalE p n s b
        let v ← ofOpt ("binop " ++ op.symbol) (binop t op x y)
        pure (v, s)
    | .neg t a => do
        let (x, s) ← evalE p n s a
        let v ← ofOpt "neg" (neg t x)
        pure (v, s)
    | .cast t a => do
        let (x, s) ← evalE p n s a
        pure (convert t x, s)
    | .call f args => do
        let (vs, s) ← evalArgs p n s args
        let (r, s) ← callF p n s f vs
        match r with
        | some v => pure (v, s)
        | none => .stuck ("no value returned by " ++ f)
    | .cmp c a b => do
        let (x, s) ← evalE p n s a
        let (y, s) ← evalE p n s b
        pure (if cmp c x y then 1 else 0, s)
    | .and a b => do
        let (x, s) ← evalE p n s a
        if x = 0 then pure (0, s) else
          let (y, s) ← evalE p n s b
          pure (if y = 0 then 0 else 1, s)
    | .or a b => do
        let (x, s) ← evalE p n s a
        if x ≠ 0 then pure (1, s) else
          let (y, s) ← evalE p n s b
          pure (if y = 0 then 0 else 1, s)
    | .not a => do
        let (x, s) ← evalE p n s a
        pure (if x = 0 then 1 else 0, s)

def evalArgs (p : Prog) : Nat → St → List Expr → Res (List Int × St)
  | 0, _, _ => .fuel
  | _ + 1, s, [] => .ok ([], s)
  | n + 1, s, e :: es => do
      let (v, s) ← evalE p n s e
      let (vs, s) ← evalArgs p n s es
      pure (v :: vs, s)

/-- call: fresh locals, shared globals -/
def callF (p : Prog) : Nat → St → String → List Int → Res (Option Int × St)
  | 0, _, _, _ => .fuel
  | n + 1, s, f, vs =>
    match p.funcs.find? (fun fn => fn.name == f) with
    | none => .stuck ("unknown function " ++ f)
    | some fn =>
      if fn.params.length ≠ vs.length then .stuck ("arity of " ++ f) else do
        let (fl, s') ← execL p n { g := s.g, l := { sc := zipParams fn.params vs } } fn.body
        match fl with
        | .returned v => pure (v, { g := s'.g, l := s.l })
        | .next => pure (none, { g := s'.g, l := s.l })

def execS (p : Prog) : Nat → St → Stmt → Res (Flow × St)
  | 0, _, _ => .fuel
  | n + 1, s, st =>
    match st with
    | .assign x e => do
        let (v, s) ← evalE p n s e
        pure (.next, s.setSc x v)
    | .store a i e => do
        let (iv, s) ← evalE p n s i
        let (v, s) ← evalE p n s e
        let arr ← s.getAr a
        if 0 ≤ iv ∧ iv.toNat < arr.length then pure (.next, s.setAr a (setNth arr iv.toNat v))
        else .undef "store out of bounds"
    | .decl a init => do
        let (vs, s) ← evalArgs p n s init
        pure (.next, { s with l := { s.l with ar := (a, vs) :: s.l.ar } })
    | .ite c t e => do
        let (cv, s) ← evalE p n s c
        if cv ≠ 0 then execL p n s t else execL p n s e
    | .while c body => do
        let (cv, s) ← evalE p n s c
        if cv = 0 then pure (.next, s) else
          let (fl, s) ← execL p n s body
          match fl with
          | .returned v => pure (.returned v, s)
          | .next => execS p n s (.while c body)
    | .switch e cases dflt => do
        let (v, s) ← evalE p n s e
        match cases.find? (fun cs => cs.1 == v) with
        | some cs => execL p n s cs.2
        | none => execL p n s dflt
    | .ret e => do
        let (v, s) ← evalE p n s e
        pure (.returned (some v), s)
    | .retv => pure (.returned none, s)
    | .callp f args => do
        let (vs, s) ← evalArgs p n s args
        let (_, s) ← callF p n s f vs
        pure (.next, s)

def execL (p : Prog) : Nat → St → List Stmt → Res (Flow × St)
  | 0, _, _ => .fuel
  | _ + 1, s, [] => .ok (.next, s)
  | n + 1, s, st :: rest => do
      let (fl, s) ← execS p n s st
      match fl with
      | .returned v => pure (.returned v, s)
      | .next => execL p n s rest
end

/-- run function `f` of `p` on `args`: return value and final globals -/
def run (p : Prog) (fuel : Nat) (f : String) (args : List Int) : Res (Option Int × Mem) := do
  let (r, s) ← callF p fuel { g := p.globals, l := {} } f args
  pure (r, s.g)

end Spec.C3
