import PpciVerif.Model.Regex
import PpciVerif.Spec.Lang
import PpciVerif.Spec.IntSet
/-
The language denoted by a `Regex` object of ppci (`Model.Regex.Re`), given by translation into the
abstract expressions of `Spec.Lang`.  A `SymbolSet` denotes the one-symbol strings whose symbol lies
in one of its ranges (`Spec.IntSet.memB`, the specification-level membership, not the code's
`bisect`-based `contains`); `Epsilon` the empty string; `Kleene`, `Concatenation`, `LogicalOr`,
`LogicalAnd` star, concatenation, union and intersection.
-/
namespace Spec.RegexLang
open Model.Regex Spec.Lang

def denote : Re → Rx Int
  | .eps => .eps
  | .set s => .cls (Spec.IntSet.memB s)
  | .star e => .star (denote e)
  | .cat l r => .cat (denote l) (denote r)
  | .or l r => .alt (denote l) (denote r)
  | .and l r => .inter (denote l) (denote r)

/-- representation invariant of `Regex` objects: every `SymbolSet` holds an `IntegerSet` in canonical
form (the `IntegerSet` constructor establishes it; C33) -/
def WF : Re → Prop
  | .eps => True
  | .set s => Spec.IntSet.Canon s
  | .star e => WF e
  | .cat l r => WF l ∧ WF r
  | .or l r => WF l ∧ WF r
  | .and l r => WF l ∧ WF r

/-- `s ∈ L r` -/
def L (r : Re) (s : List Int) : Prop := Matches (denote r) s

/-- every symbol of the string is in ppci's alphabet `SIGMA` (code points 0..255) -/
def InSigma (s : List Int) : Prop := ∀ c ∈ s, 0 ≤ c ∧ c ≤ 255

end Spec.RegexLang
