/-
Spec.Py — value semantics of the integer part of the Python subset that property C36 refers to
(CPython 3), import-free.

This is a *specification*: it is written from the Python language reference (6.7 "binary arithmetic
operations": `//` and `%` round toward minus infinity, the result of `%` has the sign of the
divisor, `/` on two ints is true division and yields a float; 6.10 comparisons; 6.11 boolean
operations: `and`/`or` evaluate the left operand first and the right one only when needed) and is
not derived from any ppci code.  Python ints are unbounded (`Int`); the property restricts
attention to executions in which every integer value that arises lies within 64 bits (`In64`).

Floats are executed by the harness (CPython is the oracle) but are not part of this file.
-/
namespace Spec.Py

/-- the value fits a signed 64-bit integer -/
def In64 (v : Int) : Prop := -(2 ^ 63) ≤ v ∧ v ≤ 2 ^ 63 - 1

instance (v : Int) : Decidable (In64 v) := by unfold In64; infer_instance

/-- the binary arithmetic operator classes of Python's `ast` module that apply to two ints -/
inductive BinOp | add | sub | mult | div | floordiv | mod
  deriving DecidableEq, Repr

def BinOp.all : List BinOp := [.add, .sub, .mult, .div, .floordiv, .mod]

/-- name of the `ast` node class -/
def BinOp.astName : BinOp → String
  | .add => "Add" | .sub => "Sub" | .mult => "Mult" | .div => "Div"
  | .floordiv => "FloorDiv" | .mod => "Mod"

/-- What CPython computes for `a op b` on two ints.
    `quot a b` is the result of true division: the float nearest to the rational `a / b`. -/
inductive Res
  | int (v : Int)
  | quot (a b : Int)
  | zeroDivisionError
  deriving DecidableEq, Repr

def binop : BinOp → Int → Int → Res
  | .add, a, b => .int (a + b)
  | .sub, a, b => .int (a - b)
  | .mult, a, b => .int (a * b)
  | .floordiv, a, b => if b = 0 then .zeroDivisionError else .int (Int.fdiv a b)
  | .mod, a, b => if b = 0 then .zeroDivisionError else .int (Int.fmod a b)
  | .div, a, b => if b = 0 then .zeroDivisionError else .quot a b

/-- the result as an int (`none`: an exception, or a float) -/
def Res.int? : Res → Option Int
  | .int v => some v
  | _ => none

/-- "the machine integer `w` is the value CPython computed" (Python's `==` between the two).
    For a true division the float nearest to `a / b` equals the integer `w` when `a / b = w`
    exactly and `w` is exactly representable in binary64 (|w| ≤ 2^53).  (A non-integral quotient
    closer than half an ulp to an integer also rounds to it; that case counts as "different" here,
    which only makes the negative statements about `/` conservative.) -/
def Res.isInt (r : Res) (w : Int) : Prop :=
  match r with
  | .int v => v = w
  | .quot a b => w * b = a ∧ -(2 ^ 53) ≤ w ∧ w ≤ 2 ^ 53
  | .zeroDivisionError => False

instance (r : Res) (w : Int) : Decidable (r.isInt w) := by
  unfold Res.isInt; cases r <;> infer_instance

/-- comparison operator classes of `ast` -/
inductive CmpOp | gt | gte | lt | lte | eq | noteq
  deriving DecidableEq, Repr

def CmpOp.all : List CmpOp := [.gt, .gte, .lt, .lte, .eq, .noteq]

def CmpOp.astName : CmpOp → String
  | .gt => "Gt" | .gte => "GtE" | .lt => "Lt" | .lte => "LtE" | .eq => "Eq" | .noteq => "NotEq"

/-- truth value of `a op b` on ints -/
def CmpOp.holds : CmpOp → Int → Int → Bool
  | .gt, a, b => decide (a > b)
  | .gte, a, b => decide (a ≥ b)
  | .lt, a, b => decide (a < b)
  | .lte, a, b => decide (a ≤ b)
  | .eq, a, b => decide (a = b)
  | .noteq, a, b => decide (a ≠ b)

/-- integer expressions: literals, local variables, binary operators -/
inductive Expr
  | num (v : Int)
  | name (x : String)
  | binop (op : BinOp) (a b : Expr)
  deriving Repr

/-- values of the local variables (`none` = unbound) -/
abbrev Env := String → Option Int

/-- CPython evaluation of an expression (left operand first) in which every value that arises —
    literal, variable, intermediate and final result — lies within 64 bits.
    `none`: an exception (NameError, ZeroDivisionError), a float result, or a value outside 64 bits
    (then the property says nothing). -/
def eval64 (σ : Env) : Expr → Option Int
  | .num v => if In64 v then some v else none
  | .name x => match σ x with
    | some v => if In64 v then some v else none
    | none => none
  | .binop op a b =>
    match eval64 σ a with
    | none => none
    | some x =>
      match eval64 σ b with
      | none => none
      | some y =>
        match (binop op x y).int? with
        | some v => if In64 v then some v else none
        | none => none

/-- conditions: one comparison, `and`, `or` (n-ary `a and b and c` = `a and (b and c)`) -/
inductive Cond
  | cmp (op : CmpOp) (a b : Expr)
  | and (a b : Cond)
  | or (a b : Cond)
  deriving Repr

/-- truth value of a condition, short-circuit, left to right; `none` as for `eval64` -/
def evalCond64 (σ : Env) : Cond → Option Bool
  | .cmp op a b =>
    match eval64 σ a with
    | none => none
    | some x =>
      match eval64 σ b with
      | none => none
      | some y => some (op.holds x y)
  | .and a b =>
    match evalCond64 σ a with
    | none => none
    | some false => some false
    | some true => evalCond64 σ b
  | .or a b =>
    match evalCond64 σ a with
    | none => none
    | some true => some true
    | some false => evalCond64 σ b

end Spec.Py
