/-
Specification for C31 (import-free, independent of ppci's algorithms).

* `Rx σ`       regular expressions over an alphabet `σ`; a character class is an
               arbitrary predicate on symbols (so `∅`, single symbols, `.` and
               `[a-z]` are all `cls`).  `inter` is language intersection (ppci's
               `LogicalAnd`).
* `Matches`    the usual denotational semantics under WHOLE-STRING matching, as
               an inductive relation on lists of symbols.
* `matchB`     an executable matcher by brute-force splitting (no derivatives, no
               automata); `Proofs.Regex.matchB_iff` proves it decides `Matches`.
               The harness compares it with Python's `re.fullmatch` (spec validation).
* `Syn`        the surface syntax the property names (literals, `.`, classes,
               grouping, alternation, concatenation, `* + ?`) as a tree, and its
               standard meaning `Syn.rx`.
* `Munch`      maximal-munch tokenisation of a string w.r.t. a language.
-/
namespace Spec.Lang

inductive Rx (σ : Type) where
  | eps : Rx σ
  | cls (p : σ → Bool) : Rx σ
  | star (r : Rx σ) : Rx σ
  | cat (l r : Rx σ) : Rx σ
  | alt (l r : Rx σ) : Rx σ
  | inter (l r : Rx σ) : Rx σ

/-- `Matches r s`: the whole string `s` is in the language of `r` -/
inductive Matches {σ : Type} : Rx σ → List σ → Prop where
  | eps : Matches .eps []
  | cls {p : σ → Bool} {c : σ} : p c = true → Matches (.cls p) [c]
  | starNil {r : Rx σ} : Matches (.star r) []
  | starCons {r : Rx σ} {u v : List σ} : Matches r u → Matches (.star r) v → Matches (.star r) (u ++ v)
  | cat {l r : Rx σ} {u v : List σ} : Matches l u → Matches r v → Matches (.cat l r) (u ++ v)
  | altL {l r : Rx σ} {s : List σ} : Matches l s → Matches (.alt l r) s
  | altR {l r : Rx σ} {s : List σ} : Matches r s → Matches (.alt l r) s
  | inter {l r : Rx σ} {s : List σ} : Matches l s → Matches r s → Matches (.inter l r) s

/-- all ways to write `s = u ++ v` -/
def splits {σ : Type} : List σ → List (List σ × List σ)
  | [] => [([], [])]
  | c :: s => ([], c :: s) :: (splits s).map (fun uv => (c :: uv.1, uv.2))

/-- `s ∈ m*` for a matcher `m`, by peeling non-empty prefixes; `n` bounds the number of pieces -/
def starAux {σ : Type} (m : List σ → Bool) : Nat → List σ → Bool
  | _, [] => true
  | 0, _ :: _ => false
  | n + 1, c :: s => (splits s).any (fun uv => m (c :: uv.1) && starAux m n uv.2)

/-- executable whole-string matcher (exponential, for short strings only) -/
def matchB {σ : Type} : Rx σ → List σ → Bool
  | .eps => fun s => s.isEmpty
  | .cls p => fun s => match s with
      | [c] => p c
      | _ => false
  | .star r => fun s => starAux (matchB r) s.length s
  | .cat l r => fun s => (splits s).any (fun uv => matchB l uv.1 && matchB r uv.2)
  | .alt l r => fun s => matchB l s || matchB r s
  | .inter l r => fun s => matchB l s && matchB r s

/-! ### surface syntax -/

/-- Regular-expression syntax trees. Symbols are code points (`Int`, Python's `ord`).
A class item `(a, b)` is the single symbol `a` when `a = b` and the range `a-b` when `a < b`. -/
inductive Syn where
  | chr (c : Int)
  | dot
  | cls (items : List (Int × Int))
  | star (e : Syn)
  | plus (e : Syn)
  | opt (e : Syn)
  | cat (l r : Syn)
  | alt (l r : Syn)
  deriving DecidableEq, Repr, Inhabited

/-- the alphabet of `.` (ppci: "ASCII for now", code points 0..255) -/
def inSigma (c : Int) : Bool := decide (0 ≤ c) && decide (c ≤ 255)

def inItems (items : List (Int × Int)) (c : Int) : Bool :=
  items.any (fun r => decide (r.1 ≤ c) && decide (c ≤ r.2))

/-- standard meaning: alternation = union, juxtaposition = concatenation, `e+ = e e*`, `e? = e | ε` -/
def Syn.rx : Syn → Rx Int
  | .chr c => .cls (fun x => decide (x = c))
  | .dot => .cls inSigma
  | .cls items => .cls (inItems items)
  | .star e => .star e.rx
  | .plus e => .cat e.rx (.star e.rx)
  | .opt e => .alt e.rx .eps
  | .cat l r => .cat l.rx r.rx
  | .alt l r => .alt l.rx r.rx

/-- class items are well formed: at least one item, no reversed range -/
def Syn.WF : Syn → Prop
  | .chr _ => True
  | .dot => True
  | .cls items => items ≠ [] ∧ ∀ r ∈ items, r.1 ≤ r.2
  | .star e => e.WF
  | .plus e => e.WF
  | .opt e => e.WF
  | .cat l r => l.WF ∧ r.WF
  | .alt l r => l.WF ∧ r.WF

def Syn.size : Syn → Nat
  | .chr _ => 1
  | .dot => 1
  | .cls _ => 1
  | .star e => e.size + 1
  | .plus e => e.size + 1
  | .opt e => e.size + 1
  | .cat l r => l.size + r.size + 1
  | .alt l r => l.size + r.size + 1

/-! ### maximal munch -/

/-- `t` is the longest NON-EMPTY prefix of `s` that is in the language `L` -/
def LongestPrefix {σ : Type} (L : List σ → Prop) (s t : List σ) : Prop :=
  t ≠ [] ∧ t <+: s ∧ L t ∧ ∀ t', t' <+: s → L t' → t'.length ≤ t.length

/-- `Munch L s ts ok`: splitting `s` greedily into longest non-empty `L`-prefixes gives the
tokens `ts`; `ok = true` when the whole input was consumed, `false` when the tokeniser got stuck
(the rest is non-empty and none of its non-empty prefixes is in `L`). -/
inductive Munch {σ : Type} (L : List σ → Prop) : List σ → List (List σ) → Bool → Prop where
  | done : Munch L [] [] true
  | stuck {s : List σ} : s ≠ [] → (∀ t, t ≠ [] → t <+: s → ¬ L t) → Munch L s [] false
  | tok {t rest : List σ} {ts : List (List σ)} {ok : Bool} :
      LongestPrefix L (t ++ rest) t → Munch L rest ts ok → Munch L (t ++ rest) (t :: ts) ok

end Spec.Lang
