/-
Spec.IRArith — run-time integer arithmetic of ppci IR (DESIGN.md S2), import-free.

This is a *specification*: it is written from the IR semantics of DESIGN S2 and
is not derived from any ppci code.  Values of an integer type are the
mathematical integers in the type's range (`InRange`); every operation takes
normalised operands and returns a normalised result, or `none` where the
operation is undefined.

  + - *     wrap to the type
  / %       truncate toward zero; undefined for divisor 0 and for INT_MIN / -1
  << >>     defined for 0 ≤ count < bits; >> arithmetic (signed) / logical (unsigned)
  & | ^     on the two's-complement bit pattern
  cast      wrap to the target type

`rol`/`ror`, floats and pointers are not part of this file.
-/
namespace Spec.IRArith

/-- the integer types of `ppci.ir` -/
inductive Ty | i8 | i16 | i32 | i64 | u8 | u16 | u32 | u64
  deriving DecidableEq, Repr

def Ty.all : List Ty := [.i8, .i16, .i32, .i64, .u8, .u16, .u32, .u64]

def Ty.bits : Ty → Nat
  | .i8 | .u8 => 8 | .i16 | .u16 => 16 | .i32 | .u32 => 32 | .i64 | .u64 => 64

def Ty.signed : Ty → Bool
  | .i8 | .i16 | .i32 | .i64 => true
  | .u8 | .u16 | .u32 | .u64 => false

def Ty.name : Ty → String
  | .i8 => "i8" | .i16 => "i16" | .i32 => "i32" | .i64 => "i64"
  | .u8 => "u8" | .u16 => "u16" | .u32 => "u32" | .u64 => "u64"

def Ty.minVal (ty : Ty) : Int := if ty.signed then -(2 ^ (ty.bits - 1)) else 0
def Ty.maxVal (ty : Ty) : Int := if ty.signed then 2 ^ (ty.bits - 1) - 1 else 2 ^ ty.bits - 1

/-- `v` is a value of type `ty` -/
def InRange (ty : Ty) (v : Int) : Prop := ty.minVal ≤ v ∧ v ≤ ty.maxVal

instance (ty : Ty) (v : Int) : Decidable (InRange ty v) := by unfold InRange; infer_instance

/-- the value of type `ty` congruent to `x` modulo `2^bits` -/
def wrap (ty : Ty) (x : Int) : Int :=
  if ty.signed then (x + 2 ^ (ty.bits - 1)) % 2 ^ ty.bits - 2 ^ (ty.bits - 1)
  else x % 2 ^ ty.bits

/-- two's-complement bit pattern of a value, as a natural number `< 2^bits` -/
def toBits (ty : Ty) (v : Int) : Nat := (v % 2 ^ ty.bits).toNat

/-- the value whose bit pattern is `n` (mod `2^bits`) -/
def ofBits (ty : Ty) (n : Nat) : Int := wrap ty (Int.ofNat n)

/-- the binary operators of `ir.Binop` on integers (without `rol`/`ror`) -/
inductive Op | add | sub | mul | div | rem | shl | shr | and | or | xor
  deriving DecidableEq, Repr

def Op.all : List Op := [.add, .sub, .mul, .div, .rem, .shl, .shr, .and, .or, .xor]

def Op.symbol : Op → String
  | .add => "+" | .sub => "-" | .mul => "*" | .div => "/" | .rem => "%"
  | .shl => "<<" | .shr => ">>" | .and => "&" | .or => "|" | .xor => "^"

/-- division and remainder are undefined for these operands -/
def divUndefined (ty : Ty) (a b : Int) : Prop := b = 0 ∨ (ty.signed = true ∧ a = ty.minVal ∧ b = -1)

instance (ty : Ty) (a b : Int) : Decidable (divUndefined ty a b) := by unfold divUndefined; infer_instance

/-- a shift count is valid iff `0 ≤ count < bits` -/
def shiftOk (ty : Ty) (b : Int) : Prop := 0 ≤ b ∧ b < ty.bits

instance (ty : Ty) (b : Int) : Decidable (shiftOk ty b) := by unfold shiftOk; infer_instance

/-- Run-time value of `a op b` at type `ty` (operands in range); `none` = undefined. -/
def binop (ty : Ty) (op : Op) (a b : Int) : Option Int :=
  match op with
  | .add => some (wrap ty (a + b))
  | .sub => some (wrap ty (a - b))
  | .mul => some (wrap ty (a * b))
  | .div => if divUndefined ty a b then none else some (Int.tdiv a b)
  | .rem => if divUndefined ty a b then none else some (Int.tmod a b)
  | .shl => if shiftOk ty b then some (wrap ty (a * 2 ^ b.toNat)) else none
  | .shr =>
    if shiftOk ty b then
      some (if ty.signed then a / 2 ^ b.toNat            -- arithmetic: floor, sign bits shifted in
            else Int.ofNat (a.toNat >>> b.toNat))        -- logical: zeros shifted in
    else none
  | .and => some (ofBits ty (toBits ty a &&& toBits ty b))
  | .or  => some (ofBits ty (toBits ty a ||| toBits ty b))
  | .xor => some (ofBits ty (toBits ty a ^^^ toBits ty b))

/-- integer → integer cast: the value of the target type congruent to `v` -/
def cast (to : Ty) (v : Int) : Int := wrap to v

end Spec.IRArith
