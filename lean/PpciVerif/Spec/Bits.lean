/-
S1 `Spec.Bits` — the mathematical vocabulary for fixed-width integers, shared by
several properties (C10, C11, C13, C17–C21, C24, C27, C38, C39).  Import-free.

Everything is stated on `Int` (Python `int`, unbounded) by modular arithmetic
and by bit index; nothing here is derived from ppci's code.

* `wrapU n x`   the residue of `x` modulo `2^n` in `[0, 2^n)`        (unsigned view)
* `wrapS n x`   the residue of `x` modulo `2^n` in `[-2^(n-1), 2^(n-1))` (two's complement view)
* `fitsU/fitsS` membership of those intervals
* `testBit x i` bit `i` of the infinite two's-complement expansion of `x`
* `ofBits n f`  the number `Σ_{i<n} f i · 2^i`
* `getBits/setBits` bit-field read / write
* `toBytesLE/BE`, `fromBytesLE/BE` byte (de)composition
* bit-level operations defined *by bit index*: `rotl`, `rotr`, `reverse`,
  `popcount`, and the declarative `IsClz`, `IsCtz` (with executable `clz`, `ctz`)

The algebra (ranges, idempotence, `testBit` characterisations, field and byte
round trips) is proved in `Proofs/Bits.lean`.
-/
namespace Spec.Bits

/-! ### wrapping and ranges -/

/-- unsigned `n`-bit view of `x` -/
def wrapU (n : Nat) (x : Int) : Int := x % 2 ^ n

/-- signed (two's complement) `n`-bit view of `x`; `wrapS 0 x = 0` -/
def wrapS (n : Nat) (x : Int) : Int :=
  if x % 2 ^ n < 2 ^ (n - 1) then x % 2 ^ n else x % 2 ^ n - 2 ^ n

/-- `x` is representable as an unsigned `n`-bit number -/
def fitsU (n : Nat) (x : Int) : Prop := 0 ≤ x ∧ x < 2 ^ n

/-- `x` is representable as a signed `n`-bit number (`n ≥ 1`) -/
def fitsS (n : Nat) (x : Int) : Prop := -(2 ^ (n - 1)) ≤ x ∧ x < 2 ^ (n - 1)

instance (n : Nat) (x : Int) : Decidable (fitsU n x) := by unfold fitsU; exact inferInstance
instance (n : Nat) (x : Int) : Decidable (fitsS n x) := by unfold fitsS; exact inferInstance

/-! ### bits -/

/-- bit `i` of `x` in infinite two's complement (floor division, so negative
    numbers have infinitely many leading ones) -/
def testBit (x : Int) (i : Nat) : Bool := decide (x / 2 ^ i % 2 = 1)

/-- `Σ_{i<n} (if f i then 2^i else 0)` -/
def ofBits : Nat → (Nat → Bool) → Nat
  | 0, _ => 0
  | n + 1, f => ofBits n f + (if f n then 2 ^ n else 0)

/-- the `len`-bit field of `x` starting at bit `lo`, as an unsigned number -/
def getBits (x : Int) (lo len : Nat) : Int := x / 2 ^ lo % 2 ^ len

/-- `x` with the `len`-bit field at `lo` replaced by the low `len` bits of `f` -/
def setBits (x : Int) (lo len : Nat) (f : Int) : Int :=
  x + (f % 2 ^ len - getBits x lo len) * 2 ^ lo

/-! ### bytes -/

/-- the `k` low bytes of `x`, least significant first (two's complement for negative `x`) -/
def toBytesLE : Nat → Int → List Nat
  | 0, _ => []
  | k + 1, x => (x % 256).toNat :: toBytesLE k (x / 256)

def fromBytesLE : List Nat → Int
  | [] => 0
  | b :: bs => (b : Int) + 256 * fromBytesLE bs

def toBytesBE (k : Nat) (x : Int) : List Nat := (toBytesLE k x).reverse
def fromBytesBE (bs : List Nat) : Int := fromBytesLE bs.reverse

/-! ### operations on the `n`-bit field, defined by bit index -/

/-- rotate the low `n` bits left by `c` (any integer count): result bit `i` is
    source bit `(i - c) mod n` -/
def rotl (n : Nat) (x : Int) (c : Int) : Nat :=
  ofBits n (fun i => testBit x (((i : Int) - c) % (n : Int)).toNat)

/-- rotate the low `n` bits right by `c`: result bit `i` is source bit `(i + c) mod n` -/
def rotr (n : Nat) (x : Int) (c : Int) : Nat :=
  ofBits n (fun i => testBit x (((i : Int) + c) % (n : Int)).toNat)

/-- reverse the low `n` bits: result bit `i` is source bit `n-1-i` -/
def reverse (n : Nat) (x : Int) : Nat := ofBits n (fun i => testBit x (n - 1 - i))

/-- number of set bits among bits `0 … n-1` -/
def popcount (n : Nat) (x : Int) : Nat := ((List.range n).filter (testBit x)).length

/-- `k` is the number of leading zero bits of the `n`-bit field of `x`:
    the top `k` bits are clear and, unless all `n` are clear, the next one is set -/
def IsClz (n : Nat) (x : Int) (k : Nat) : Prop :=
  k ≤ n ∧ (∀ i, n - k ≤ i → i < n → testBit x i = false) ∧ (k < n → testBit x (n - 1 - k) = true)

/-- `k` is the number of trailing zero bits of the `n`-bit field of `x` -/
def IsCtz (n : Nat) (x : Int) (k : Nat) : Prop :=
  k ≤ n ∧ (∀ i, i < k → testBit x i = false) ∧ (k < n → testBit x k = true)

/-- executable leading-zero count (scans from bit `n-1` down) -/
def clz : Nat → Int → Nat
  | 0, _ => 0
  | n + 1, x => if testBit x n then 0 else clz n x + 1

/-- executable trailing-zero count: `ctzFrom x j r` scans bits `j, j+1, …` for at most `r` steps -/
def ctzFrom (x : Int) : Nat → Nat → Nat
  | _, 0 => 0
  | j, r + 1 => if testBit x j then 0 else ctzFrom x (j + 1) r + 1

def ctz (n : Nat) (x : Int) : Nat := ctzFrom x 0 n

end Spec.Bits
