import PpciVerif.Spec.IRArith
/-!
# Spec.IR — reference semantics of ppci IR (DESIGN.md S2)

A *specification*: written from the meaning of the IR as described in ppci's
documentation and DESIGN S2, not derived from any ppci pass or back-end.
Imports only `Spec.IRArith` (core Lean, no Mathlib), so drivers start fast.

Contents
* syntax mirroring `ppci/ir.py`: `Ty`, `Operand`, `Instr` (all instruction kinds
  incl. terminators, so ill-formed blocks are representable), `Block`, `Func`,
  `GVar`, `Extern`, `Module`;
* values `Val` (integers normalised to their type's range, `ptr` as integer,
  floats as `Float` – executed only, `undef` as poison);
* memory `Mem`: byte arrays (global region, stack region) with `none` = undefined byte,
  little-endian typed load/store;
* small-step `step : Ctx → State → StepR` with an explicit frame stack,
  `run : Ctx → Nat → State → Outcome` on top (fuel = number of steps),
  `exec` = behaviour of calling one function on arguments;
* `wfFunc`/`wfModule` : independent Boolean well-formedness (C03), dominance by paths.

Naming: local values are referenced by name (`Operand.loc`), globals (variables,
functions, externals) by `Operand.glob`; blocks by name; instructions in lists.
-/
namespace Spec.IR

abbrev ITy := Spec.IRArith.Ty

/-! ## Syntax -/

inductive Ty
  | int (t : ITy)
  | f32 | f64
  | ptr
  | blob (size align : Nat)
  deriving DecidableEq, Repr

def Ty.name : Ty → String
  | .int t => t.name | .f32 => "f32" | .f64 => "f64" | .ptr => "ptr"
  | .blob s a => s!"(blob {s} {a})"

def Ty.isBlob : Ty → Bool | .blob _ _ => true | _ => false
def Ty.isFloat : Ty → Bool | .f32 | .f64 => true | _ => false
def Ty.isInt : Ty → Bool | .int _ => true | _ => false

/-- `ir.Binop.ops` -/
inductive BinOp | add | sub | mul | div | rem | or | and | xor | shl | shr | rol | ror
  deriving DecidableEq, Repr

def BinOp.all : List BinOp := [.add, .sub, .mul, .div, .rem, .or, .and, .xor, .shl, .shr, .rol, .ror]

def BinOp.name : BinOp → String
  | .add => "add" | .sub => "sub" | .mul => "mul" | .div => "div" | .rem => "rem"
  | .or => "or" | .and => "and" | .xor => "xor" | .shl => "shl" | .shr => "shr"
  | .rol => "rol" | .ror => "ror"

/-- ppci's operator spelling -/
def BinOp.symbol : BinOp → String
  | .add => "+" | .sub => "-" | .mul => "*" | .div => "/" | .rem => "%"
  | .or => "|" | .and => "&" | .xor => "^" | .shl => "<<" | .shr => ">>"
  | .rol => "rol" | .ror => "ror"

def BinOp.arith? : BinOp → Option Spec.IRArith.Op
  | .add => some .add | .sub => some .sub | .mul => some .mul | .div => some .div
  | .rem => some .rem | .or => some .or | .and => some .and | .xor => some .xor
  | .shl => some .shl | .shr => some .shr | .rol => none | .ror => none

/-- `ir.Unop.ops` = `-`, `~` -/
inductive UnOp | neg | not
  deriving DecidableEq, Repr

def UnOp.name : UnOp → String | .neg => "neg" | .not => "not"

/-- `ir.CJump.conditions` -/
inductive Cond | eq | lt | gt | ge | le | ne
  deriving DecidableEq, Repr

def Cond.all : List Cond := [.eq, .lt, .gt, .ge, .le, .ne]
def Cond.name : Cond → String
  | .eq => "eq" | .lt => "lt" | .gt => "gt" | .ge => "ge" | .le => "le" | .ne => "ne"
def Cond.symbol : Cond → String
  | .eq => "==" | .lt => "<" | .gt => ">" | .ge => ">=" | .le => "<=" | .ne => "!="

/-- an operand: a local value (instruction result or parameter) or a global
    (variable, function/procedure, external) -/
inductive Operand
  | loc (name : String)
  | glob (name : String)
  deriving DecidableEq, Repr

/-- payload of `ir.Const`: an integer, or a float given by its IEEE-754 binary64 bit pattern -/
inductive ConstVal
  | int (v : Int)
  | fbits (bits : Nat)
  deriving DecidableEq, Repr

/-- The instruction kinds of `ppci/ir.py`.  Terminators are ordinary
    constructors, so that blocks violating the termination rule are representable. -/
inductive Instr
  | const (dst : String) (ty : Ty) (c : ConstVal)
  | undefined (dst : String) (ty : Ty)
  | literal (dst : String) (data : List Nat)                -- LiteralData, type blob<len:1>
  | alloc (dst : String) (size align : Nat)                 -- type blob<size:align>
  | addrof (dst : String) (src : Operand)                   -- type ptr
  | binop (dst : String) (ty : Ty) (op : BinOp) (a b : Operand)
  | unop (dst : String) (ty : Ty) (op : UnOp) (a : Operand)
  | cast (dst : String) (ty : Ty) (a : Operand)
  | load (dst : String) (ty : Ty) (addr : Operand) (vol : Bool)
  | store (ty : Ty) (val addr : Operand) (vol : Bool)       -- ty = type of the stored value
  | copyblob (dst src : Operand) (amount : Nat)
  | phi (dst : String) (ty : Ty) (ins : List (String × Operand))   -- (predecessor block, value)
  | fcall (dst : String) (ty : Ty) (callee : Operand) (args : List Operand)
  | pcall (callee : Operand) (args : List Operand)
  | asm (template : String) (ins outs : List Operand) (clobbers : List String)
  | jump (target : String)
  | cjump (a : Operand) (cond : Cond) (b : Operand) (yes no : String)
  | ret (v : Operand)
  | exit
  deriving DecidableEq, Repr

structure Block where
  name : String
  instrs : List Instr
  deriving DecidableEq, Repr

structure Func where
  name : String
  isGlobal : Bool                      -- binding: global / local
  ret : Option Ty                      -- `none` = Procedure
  entry : String                       -- name of the entry block (`function.entry`)
  params : List (String × Ty)
  blocks : List Block
  deriving DecidableEq, Repr

inductive InitPart
  | bytes (bs : List Nat)
  | ref (name : String)                -- `(ir.ptr, name)`: pointer-sized address of a global
  deriving DecidableEq, Repr

structure GVar where
  name : String
  isGlobal : Bool
  size : Nat
  align : Nat
  init : Option (List InitPart)        -- `none` = zero-initialised
  deriving DecidableEq, Repr

inductive ExternKind
  | var
  | proc (args : List Ty)
  | func (args : List Ty) (ret : Ty)
  deriving DecidableEq, Repr

structure Extern where
  name : String
  kind : ExternKind
  deriving DecidableEq, Repr

structure Module where
  name : String
  externs : List Extern
  vars : List GVar
  funcs : List Func
  deriving DecidableEq, Repr

/-! ### syntactic helpers -/

def Instr.isTerminator : Instr → Bool
  | .jump _ | .cjump .. | .ret _ | .exit => true
  | _ => false

def Instr.isPhi : Instr → Bool
  | .phi .. => true
  | _ => false

/-- name and type of the value an instruction defines -/
def Instr.dst? : Instr → Option (String × Ty)
  | .const d ty _ | .undefined d ty | .binop d ty .. | .unop d ty .. | .cast d ty _
  | .load d ty .. | .phi d ty _ | .fcall d ty .. => some (d, ty)
  | .literal d data => some (d, .blob data.length 1)
  | .alloc d s a => some (d, .blob s a)
  | .addrof d _ => some (d, .ptr)
  | _ => none

/-- operands read by an instruction when it executes (phi inputs are *not*
    included: they are read on the incoming edge, see `Instr.phiIns`) -/
def Instr.uses : Instr → List Operand
  | .addrof _ s => [s]
  | .binop _ _ _ a b => [a, b]
  | .unop _ _ _ a | .cast _ _ a => [a]
  | .load _ _ a _ => [a]
  | .store _ v a _ => [v, a]
  | .copyblob d s _ => [d, s]
  | .fcall _ _ c as | .pcall c as => c :: as
  | .asm _ i o _ => i ++ o
  | .cjump a _ b _ _ => [a, b]
  | .ret v => [v]
  | _ => []

def Instr.phiIns : Instr → List (String × Operand)
  | .phi _ _ ins => ins
  | _ => []

/-- successor block names of a terminator (in `ir.py` order: yes, no) -/
def Instr.targets : Instr → List String
  | .jump t => [t]
  | .cjump _ _ _ y n => [y, n]
  | _ => []

/-- successors of a block = targets of its last instruction (as `Block.successors`) -/
def Block.succs (b : Block) : List String :=
  match b.instrs.getLast? with
  | some i => i.targets
  | none => []

def Block.phis (b : Block) : List Instr := b.instrs.filter Instr.isPhi

def Func.findBlock (f : Func) (n : String) : Option Block := f.blocks.find? (·.name = n)

def Func.blockNames (f : Func) : List String := f.blocks.map (·.name)

/-- predecessors recomputed from terminators (names of blocks that have `n` as a successor) -/
def Func.preds (f : Func) (n : String) : List String :=
  (f.blocks.filter (fun b => b.succs.contains n)).map (·.name)

def Module.findFunc (m : Module) (n : String) : Option Func := m.funcs.find? (·.name = n)
def Module.findVar (m : Module) (n : String) : Option GVar := m.vars.find? (·.name = n)
def Module.findExtern (m : Module) (n : String) : Option Extern := m.externs.find? (·.name = n)

/-! ## Values, environment -/

inductive Val
  | int (v : Int)       -- integer types and `ptr`
  | flt (f : Float)     -- f32 (kept rounded to binary32) and f64
  | undef               -- poison
  deriving Repr

def Val.isUndef : Val → Bool | .undef => true | _ => false

abbrev Env := List (String × Val)

def Env.get : Env → String → Option Val
  | [], _ => none
  | (y, v) :: r, x => if x = y then some v else Env.get r x

def Env.set : Env → String → Val → Env
  | [], x, v => [(x, v)]
  | (y, w) :: r, x, v => if x = y then (y, v) :: r else (y, w) :: Env.set r x v

/-- simultaneous assignment (right-hand sides already evaluated) -/
def Env.setMany (e : Env) (xs : List (String × Val)) : Env :=
  xs.foldl (fun e p => e.set p.1 p.2) e

/-! ## Configuration, errors, outcomes -/

structure Config where
  ptrSize : Nat := 8
  funcBase : Nat := 0x1000          -- code "addresses": funcBase + 16·index, never readable
  globBase : Nat := 0x100000        -- global variables, then literal data
  stackBase : Nat := 0x40000000     -- per-activation bump region
  deriving Repr

/-- the integer type that carries `ptr` arithmetic -/
def Config.ptrTy (c : Config) : ITy :=
  if c.ptrSize = 2 then .u16 else if c.ptrSize = 4 then .u32 else .u64

inductive Err
  | ub (why : String)              -- undefined behaviour (division by zero, bad shift, bad address …)
  | undefRead (why : String)       -- an undefined value was used
  | unsupported (why : String)     -- outside the specification (inline asm, external variables, blobs as values)
  deriving Repr, DecidableEq

/-- one external call: name, arguments, result (`none` for procedures) -/
structure Event where
  name : String
  args : List Val
  result : Option Val
  deriving Repr

/-- result of an external function: call index (position in the trace), name,
    arguments ↦ raw integer/float result (wrapped to the return type by `step`) -/
abbrev Oracle := Nat → String → List Val → Val

inductive Outcome
  | ok (ret : Option Val) (globals : List (String × List (Option Nat))) (trace : List Event)
  | err (e : Err)
  | outOfFuel
  deriving Repr

/-! ## Arithmetic -/

def pow2 (n : Nat) : Int := (2 : Int) ^ n

/-- rotate the `n`-bit pattern of `x` left by `c` (count taken modulo `n`) -/
def rotl (n : Nat) (x : Nat) (c : Nat) : Nat :=
  let c := c % n
  ((x <<< c) ||| (x >>> (n - c))) % 2 ^ n

def rotr (n : Nat) (x : Nat) (c : Nat) : Nat := rotl n x (n - c % n)

open Spec.IRArith in
def intBinop (t : ITy) (op : BinOp) (x y : Int) : Except Err Val :=
  match op.arith? with
  | some o =>
    match Spec.IRArith.binop t o x y with
    | some v => .ok (.int v)
    | none => .error (.ub s!"{op.name} undefined at {t.name} for {x}, {y}")
  | none =>
    let c := (y % (t.bits : Int)).toNat
    let p := toBits t x
    match op with
    | .rol => .ok (.int (ofBits t (rotl t.bits p c)))
    | _ => .ok (.int (ofBits t (rotr t.bits p c)))

def round32 (f : Float) : Float := f.toFloat32.toFloat

def fltBinop (rnd : Float → Float) (op : BinOp) (x y : Float) : Except Err Val :=
  match op with
  | .add => .ok (.flt (rnd (x + y)))
  | .sub => .ok (.flt (rnd (x - y)))
  | .mul => .ok (.flt (rnd (x * y)))
  | .div => .ok (.flt (rnd (x / y)))
  | _ => .error (.unsupported s!"float {op.name}")

def evalBinop (cfg : Config) (ty : Ty) (op : BinOp) (a b : Val) : Except Err Val :=
  match ty, a, b with
  | _, .undef, _ => .error (.undefRead "binop operand")
  | _, _, .undef => .error (.undefRead "binop operand")
  | .int t, .int x, .int y => intBinop t op x y
  | .ptr, .int x, .int y => intBinop cfg.ptrTy op x y
  | .f64, .flt x, .flt y => fltBinop id op x y
  | .f32, .flt x, .flt y => fltBinop round32 op x y
  | _, _, _ => .error (.ub "binop: operand kind does not match type")

def evalUnop (cfg : Config) (ty : Ty) (op : UnOp) (a : Val) : Except Err Val :=
  match ty, a with
  | _, .undef => .error (.undefRead "unop operand")
  | .int t, .int x =>
    .ok (.int (Spec.IRArith.wrap t (match op with | .neg => -x | .not => -x - 1)))
  | .ptr, .int x =>
    .ok (.int (Spec.IRArith.wrap cfg.ptrTy (match op with | .neg => -x | .not => -x - 1)))
  | .f64, .flt x => match op with
    | .neg => .ok (.flt (-x))
    | .not => .error (.unsupported "float ~")
  | .f32, .flt x => match op with
    | .neg => .ok (.flt (-x))
    | .not => .error (.unsupported "float ~")
  | _, _ => .error (.ub "unop: operand kind does not match type")

/-- exact truncation toward zero of the finite double with IEEE-754 binary64 pattern `bits`;
    `none` for NaN / ±inf -/
def truncBits (bits : Nat) : Option Int :=
  let neg := bits / 2 ^ 63 = 1
  let e := bits / 2 ^ 52 % 2048
  let m := bits % 2 ^ 52
  if e = 2047 then none
  else
    let mag : Nat :=
      if e = 0 then 0                                       -- subnormal: |f| < 1
      else if e ≥ 1075 then (m + 2 ^ 52) * 2 ^ (e - 1075)
      else (m + 2 ^ 52) / 2 ^ (1075 - e)
    some (if neg then -(mag : Int) else (mag : Int))

/-- exact truncation toward zero of a finite double; `none` for NaN / ±inf -/
def truncFloat (f : Float) : Option Int := truncBits f.toBits.toNat

def intInRange (t : ITy) (v : Int) : Bool := decide (Spec.IRArith.InRange t v)

/-- `ir.Cast`: int→int wraps; float→int truncates toward zero (undefined when the
    truncated value does not fit or the operand is not finite); int→float rounds to
    nearest; `ptr` behaves as the unsigned integer type of pointer width. -/
def evalCast (cfg : Config) (ty : Ty) (a : Val) : Except Err Val :=
  match ty, a with
  | _, .undef => .error (.undefRead "cast operand")
  | .blob _ _, _ => .error (.unsupported "cast to blob")
  | .int t, .int x => .ok (.int (Spec.IRArith.cast t x))
  | .ptr, .int x => .ok (.int (Spec.IRArith.cast cfg.ptrTy x))
  | .int t, .flt f =>
    match truncFloat f with
    | some z => if intInRange t z then .ok (.int z) else .error (.ub "float→int: value out of range")
    | none => .error (.ub "float→int: not finite")
  | .ptr, .flt f =>
    match truncFloat f with
    | some z => if intInRange cfg.ptrTy z then .ok (.int z) else .error (.ub "float→ptr: value out of range")
    | none => .error (.ub "float→ptr: not finite")
  | .f64, .int x => .ok (.flt (Float.ofInt x))
  | .f32, .int x => .ok (.flt (round32 (Float.ofInt x)))
  | .f64, .flt f => .ok (.flt f)
  | .f32, .flt f => .ok (.flt (round32 f))

def evalCond (c : Cond) (a b : Val) : Except Err Bool :=
  match a, b with
  | .undef, _ => .error (.undefRead "cjump operand")
  | _, .undef => .error (.undefRead "cjump operand")
  | .int x, .int y => .ok (match c with
      | .eq => x == y | .ne => x != y | .lt => decide (x < y) | .gt => decide (x > y)
      | .le => decide (x ≤ y) | .ge => decide (x ≥ y))
  | .flt x, .flt y => .ok (match c with
      | .eq => x == y | .ne => x != y | .lt => x < y | .gt => x > y
      | .le => x ≤ y | .ge => x ≥ y)
  | _, _ => .error (.ub "cjump: operand kinds differ")

def evalConst (cfg : Config) (ty : Ty) (c : ConstVal) : Except Err Val :=
  match ty, c with
  | .int t, .int v => .ok (.int (Spec.IRArith.wrap t v))
  | .ptr, .int v => .ok (.int (Spec.IRArith.wrap cfg.ptrTy v))
  | .f64, .int v => .ok (.flt (Float.ofInt v))
  | .f32, .int v => .ok (.flt (round32 (Float.ofInt v)))
  | .f64, .fbits b => .ok (.flt (Float.ofBits b.toUInt64))
  | .f32, .fbits b => .ok (.flt (round32 (Float.ofBits b.toUInt64)))
  | _, _ => .error (.ub "const: payload does not match type")

/-! ## Memory -/

/-- byte-addressed memory: `glob[i]` is address `globBase+i`, `stack[i]` is
    `stackBase+i`; a byte is `none` while undefined (fresh `alloc`) -/
structure Mem where
  glob : Array (Option Nat)
  stack : Array (Option Nat)
  deriving Repr

/-- `none` = address not mapped -/
def Mem.read (cfg : Config) (m : Mem) (a : Nat) : Option (Option Nat) :=
  if cfg.stackBase ≤ a then m.stack[a - cfg.stackBase]?
  else if cfg.globBase ≤ a then m.glob[a - cfg.globBase]?
  else none

def Mem.write (cfg : Config) (m : Mem) (a : Nat) (b : Option Nat) : Option Mem :=
  if cfg.stackBase ≤ a then
    if a - cfg.stackBase < m.stack.size then some { m with stack := m.stack.setIfInBounds (a - cfg.stackBase) b }
    else none
  else if cfg.globBase ≤ a then
    if a - cfg.globBase < m.glob.size then some { m with glob := m.glob.setIfInBounds (a - cfg.globBase) b }
    else none
  else none

def Mem.readBytes (cfg : Config) (m : Mem) (a : Nat) : Nat → Option (List (Option Nat))
  | 0 => some []
  | n + 1 => do
    let b ← m.read cfg a
    let r ← Mem.readBytes cfg m (a + 1) n
    pure (b :: r)

def Mem.writeBytes (cfg : Config) (m : Mem) (a : Nat) : List (Option Nat) → Option Mem
  | [] => some m
  | b :: bs => do
    let m' ← m.write cfg a b
    Mem.writeBytes cfg m' (a + 1) bs

def Ty.size (cfg : Config) : Ty → Nat
  | .int t => t.bits / 8
  | .f32 => 4 | .f64 => 8
  | .ptr => cfg.ptrSize
  | .blob s _ => s

def toBytesLE : Nat → Nat → List Nat
  | 0, _ => []
  | k + 1, x => x % 256 :: toBytesLE k (x / 256)

def fromBytesLE : List Nat → Nat
  | [] => 0
  | b :: bs => b + 256 * fromBytesLE bs

/-- all bytes defined? then their values -/
def definedBytes : List (Option Nat) → Option (List Nat)
  | [] => some []
  | none :: _ => none
  | some b :: r => (definedBytes r).map (b :: ·)

def decodeVal (cfg : Config) (ty : Ty) (bs : List (Option Nat)) : Val :=
  match definedBytes bs with
  | none => .undef
  | some ds =>
    let n := fromBytesLE ds
    match ty with
    | .int t => .int (Spec.IRArith.wrap t n)
    | .ptr => .int (Spec.IRArith.wrap cfg.ptrTy n)
    | .f64 => .flt (Float.ofBits n.toUInt64)
    | .f32 => .flt (Float32.ofBits n.toUInt32).toFloat
    | .blob _ _ => .undef

def encodeVal (cfg : Config) (ty : Ty) (v : Val) : Except Err (List (Option Nat)) :=
  let n := ty.size cfg
  match ty, v with
  | .blob _ _, _ => .error (.unsupported "store of a blob value")
  | _, .undef => .ok (List.replicate n none)
  | .int _, .int x => .ok ((toBytesLE n (x % pow2 (8 * n)).toNat).map some)
  | .ptr, .int x => .ok ((toBytesLE n (x % pow2 (8 * n)).toNat).map some)
  | .f64, .flt f => .ok ((toBytesLE 8 f.toBits.toNat).map some)
  | .f32, .flt f => .ok ((toBytesLE 4 f.toFloat32.toBits.toNat).map some)
  | _, _ => .error (.ub "store: value kind does not match type")

def alignUp (a align : Nat) : Nat :=
  if align ≤ 1 then a else (a + align - 1) / align * align

/-! ## Layout of globals -/

/-- all `(function, literal-name, data)` in module order -/
def Module.literals (m : Module) : List (String × String × List Nat) :=
  m.funcs.flatMap fun f => f.blocks.flatMap fun b => b.instrs.filterMap fun
    | .literal d data => some (f.name, d, data)
    | _ => none

/-- names that denote code: functions/procedures of the module, then external subroutines -/
def Module.codeNames (m : Module) : List String :=
  m.funcs.map (·.name) ++ (m.externs.filter (fun e => match e.kind with | .var => false | _ => true)).map (·.name)

structure Layout where
  vars : List (String × Nat)                 -- variable ↦ address
  lits : List ((String × String) × Nat)      -- (function, literal) ↦ address
  code : List (String × Nat)                 -- function / external subroutine ↦ code address
  globSize : Nat
  deriving Repr

def layoutVars (cfg : Config) : List GVar → Nat → List (String × Nat) × Nat
  | [], off => ([], off)
  | v :: vs, off =>
    let a := alignUp (cfg.globBase + off) v.align - cfg.globBase
    let (r, e) := layoutVars cfg vs (a + v.size)
    ((v.name, cfg.globBase + a) :: r, e)

def layoutLits (cfg : Config) : List (String × String × List Nat) → Nat → List ((String × String) × Nat) × Nat
  | [], off => ([], off)
  | (f, d, data) :: ls, off =>
    let (r, e) := layoutLits cfg ls (off + data.length)
    (((f, d), cfg.globBase + off) :: r, e)

def enumFrom {α} : Nat → List α → List (α × Nat)
  | _, [] => []
  | i, x :: xs => (x, i) :: enumFrom (i + 1) xs

def mkLayout (cfg : Config) (m : Module) : Layout :=
  let (vs, e1) := layoutVars cfg m.vars 0
  let (ls, e2) := layoutLits cfg m.literals e1
  { vars := vs, lits := ls,
    code := (enumFrom 0 m.codeNames).map (fun (n, i) => (n, cfg.funcBase + 16 * i)),
    globSize := e2 }

def lookupStr {β} : List (String × β) → String → Option β
  | [], _ => none
  | (y, v) :: r, x => if x = y then some v else lookupStr r x

/-- address denoted by a global name (variable, or code address of a function / external subroutine) -/
def Layout.addrOf (l : Layout) (n : String) : Option Nat :=
  match lookupStr l.vars n with
  | some a => some a
  | none => lookupStr l.code n

def Layout.codeAt (l : Layout) (a : Nat) : Option String :=
  (l.code.find? (fun p => p.2 = a)).map (·.1)

def putBytes (arr : Array (Option Nat)) (off : Nat) : List Nat → Array (Option Nat)
  | [] => arr
  | b :: bs => putBytes (arr.setIfInBounds off (some b)) (off + 1) bs

/-- bytes of a variable's initialiser (pointer-sized little-endian address for `ref` parts;
    an unknown name gives address 0) -/
def initBytes (cfg : Config) (l : Layout) : List InitPart → List Nat
  | [] => []
  | .bytes bs :: r => bs ++ initBytes cfg l r
  | .ref n :: r => toBytesLE cfg.ptrSize ((l.addrOf n).getD 0) ++ initBytes cfg l r

/-- initial global memory: variables zero-filled or initialised, literal data after them -/
def initGlob (cfg : Config) (m : Module) (l : Layout) : Array (Option Nat) :=
  let a0 : Array (Option Nat) := Array.replicate l.globSize (some 0)
  let a1 := m.vars.foldl (fun arr v =>
    match v.init, lookupStr l.vars v.name with
    | some parts, some addr => putBytes arr (addr - cfg.globBase) ((initBytes cfg l parts).take v.size)
    | _, _ => arr) a0
  m.literals.foldl (fun arr (f, d, data) =>
    match l.lits.find? (fun p => p.1 = (f, d)) with
    | some (_, addr) => putBytes arr (addr - cfg.globBase) data
    | none => arr) a1

/-! ## Small-step semantics -/

/-- static context of an execution -/
structure Ctx where
  cfg : Config
  mod : Module
  layout : Layout
  oracle : Oracle

def mkCtx (cfg : Config) (m : Module) (oracle : Oracle) : Ctx :=
  { cfg := cfg, mod := m, layout := mkLayout cfg m, oracle := oracle }

/-- one activation -/
structure Frame where
  fn : Func
  cur : String              -- name of the block being executed
  rest : List Instr         -- instructions of `cur` still to execute
  env : Env
  spSave : Nat              -- stack size at entry; restored when the activation ends
  retTo : Option String     -- name (in the caller) receiving the result

structure State where
  mem : Mem
  top : Frame
  callers : List Frame
  trace : List Event

inductive StepR
  | next (s : State)
  | done (o : Outcome)

def evalOpnd (ctx : Ctx) (env : Env) : Operand → Except Err Val
  | .loc x => match env.get x with
    | some v => .ok v
    | none => .error (.ub s!"unbound value {x}")
  | .glob g => match ctx.layout.addrOf g with
    | some a => .ok (.int a)
    | none => .error (.unsupported s!"address of external or unknown global {g}")

def evalOpnds (ctx : Ctx) (env : Env) : List Operand → Except Err (List Val)
  | [] => .ok []
  | o :: os => do
    let v ← evalOpnd ctx env o
    let vs ← evalOpnds ctx env os
    pure (v :: vs)

/-- an operand used as an address / callee: must be a defined integer -/
def evalAddr (ctx : Ctx) (env : Env) (o : Operand) (what : String) : Except Err Nat := do
  match ← evalOpnd ctx env o with
  | .int a => if a < 0 then .error (.ub s!"{what}: negative address") else pure a.toNat
  | .undef => .error (.undefRead s!"{what} address")
  | .flt _ => .error (.ub s!"{what}: float used as address")

/-- values of the phis of block `b` when entered from block `pred`, all read in the *old* environment -/
def phiValues (ctx : Ctx) (env : Env) (pred : String) : List Instr → Except Err (List (String × Val))
  | [] => .ok []
  | .phi d _ ins :: r =>
    match lookupStr ins pred with
    | some o => do
      let v ← evalOpnd ctx env o
      let vs ← phiValues ctx env pred r
      pure ((d, v) :: vs)
    | none => .error (.ub s!"phi {d} has no input for predecessor {pred}")
  | _ :: r => phiValues ctx env pred r

/-- transfer control of a frame to block `t`: phis of `t` are assigned in parallel -/
def enterBlock (ctx : Ctx) (fr : Frame) (t : String) : Except Err Frame :=
  match fr.fn.findBlock t with
  | none => .error (.ub s!"jump to unknown block {t}")
  | some b => do
    let vals ← phiValues ctx fr.env fr.cur b.instrs
    pure { fr with cur := t, rest := b.instrs, env := fr.env.setMany vals }

/-- wrap a raw value to a type (arguments and external results) -/
def normVal (cfg : Config) (ty : Ty) (v : Val) : Val :=
  match ty, v with
  | .int t, .int x => .int (Spec.IRArith.wrap t x)
  | .ptr, .int x => .int (Spec.IRArith.wrap cfg.ptrTy x)
  | .f32, .flt f => .flt (round32 f)
  | .f64, .int x => .flt (Float.ofInt x)
  | .f32, .int x => .flt (round32 (Float.ofInt x))
  | _, v => v

def bindParams (cfg : Config) : List (String × Ty) → List Val → Option Env
  | [], [] => some []
  | (n, ty) :: ps, v :: vs => (bindParams cfg ps vs).map ((n, normVal cfg ty v) :: ·)
  | _, _ => none

def newFrame (cfg : Config) (f : Func) (args : List Val) (sp : Nat) (retTo : Option String) : Except Err Frame :=
  match bindParams cfg f.params args, f.findBlock f.entry with
  | some env, some b =>
    .ok { fn := f, cur := f.entry, rest := b.instrs, env := env, spSave := sp, retTo := retTo }
  | none, _ => .error (.ub s!"call of {f.name} with wrong number of arguments")
  | _, none => .error (.ub s!"function {f.name} has no entry block")

/-- final global memory: bytes of each variable of the module, in module order -/
def finalGlobals (ctx : Ctx) (m : Mem) : List (String × List (Option Nat)) :=
  ctx.mod.vars.map fun v =>
    match lookupStr ctx.layout.vars v.name with
    | some a => (v.name, (List.range v.size).map (fun i => (m.glob[a - ctx.cfg.globBase + i]?).getD none))
    | none => (v.name, [])

/-- the activation on top returns `v` -/
def doReturn (ctx : Ctx) (s : State) (v : Option Val) : Except Err StepR :=
  let mem := { s.mem with stack := s.mem.stack.extract 0 s.top.spSave }
  match s.callers with
  | [] =>
    match v with
    | some .undef => .error (.undefRead "returned value")
    | _ => .ok (.done (.ok v (finalGlobals ctx mem) s.trace))
  | c :: cs =>
    match s.top.retTo, v with
    | some d, some x => .ok (.next { s with mem := mem, top := { c with env := c.env.set d x }, callers := cs })
    | none, _ => .ok (.next { s with mem := mem, top := c, callers := cs })
    | some _, none => .error (.ub "procedure result used as a value")

def anyUndef : List Val → Bool
  | [] => false
  | .undef :: _ => true
  | _ :: r => anyUndef r

/-- call of `callee` (resolved by name or by code address); `fr` = caller frame already advanced -/
def doCall (ctx : Ctx) (s : State) (fr : Frame) (dst : Option (String × Ty)) (callee : Operand)
    (args : List Operand) : Except Err StepR := do
  let name ← match callee with
    | .glob g =>
      if (ctx.layout.code.any (fun p => p.1 = g)) then pure g
      else throw (.ub s!"call of non-function global {g}")
    | .loc _ => do
      let a ← evalAddr ctx fr.env callee "call"
      match ctx.layout.codeAt a with
      | some g => pure g
      | none => throw (.ub "indirect call of an address that is not a function")
  let vs ← evalOpnds ctx fr.env args
  match ctx.mod.findFunc name with
  | some f =>
    match f.ret, dst with
    | none, some _ => throw (.ub s!"function call of procedure {name}")
    | _, _ =>
      let nf ← newFrame ctx.cfg f vs s.mem.stack.size (dst.map (·.1))
      pure (.next { s with top := nf, callers := fr :: s.callers })
  | none =>
    match ctx.mod.findExtern name with
    | some e =>
      if anyUndef vs then throw (.undefRead s!"argument of external call {name}") else
      match e.kind, dst with
      | .func _ rty, some (d, _) =>
        let r := normVal ctx.cfg rty (ctx.oracle s.trace.length name vs)
        pure (.next { s with top := { fr with env := fr.env.set d r },
                             trace := s.trace ++ [{ name := name, args := vs, result := some r }] })
      | .func _ rty, none =>
        let r := normVal ctx.cfg rty (ctx.oracle s.trace.length name vs)
        pure (.next { s with top := fr, trace := s.trace ++ [{ name := name, args := vs, result := some r }] })
      | .proc _, none =>
        pure (.next { s with top := fr, trace := s.trace ++ [{ name := name, args := vs, result := none }] })
      | .proc _, some _ => throw (.ub s!"function call of external procedure {name}")
      | .var, _ => throw (.ub s!"call of external variable {name}")
    | none => throw (.ub s!"call of unknown function {name}")

def copyBytes (cfg : Config) (m : Mem) (dst src n : Nat) : Except Err Mem :=
  match m.readBytes cfg src n with
  | none => .error (.ub "memcpy: source not mapped")
  | some bs => match m.writeBytes cfg dst bs with
    | none => .error (.ub "memcpy: destination not mapped")
    | some m' => .ok m'

def stepE (ctx : Ctx) (s : State) : Except Err StepR :=
  match s.top.rest with
  | [] => .error (.ub s!"block {s.top.cur} is not terminated")
  | i :: rest =>
    let fr : Frame := { s.top with rest := rest }
    let assign (d : String) (v : Val) : StepR := .next { s with top := { fr with env := fr.env.set d v } }
    match i with
    | .const d ty c => do
      let v ← evalConst ctx.cfg ty c
      pure (assign d v)
    | .undefined d _ => pure (assign d .undef)
    | .literal d _ =>
      match ctx.layout.lits.find? (fun p => p.1 = (fr.fn.name, d)) with
      | some (_, a) => pure (assign d (.int a))
      | none => .error (.ub s!"literal {d} has no address")
    | .alloc d size align =>
      let cur := ctx.cfg.stackBase + s.mem.stack.size
      let a := alignUp cur align
      let stack' := s.mem.stack ++ Array.replicate (a - cur + size) none
      pure (.next { s with mem := { s.mem with stack := stack' }, top := { fr with env := fr.env.set d (.int a) } })
    | .addrof d src => do
      let v ← evalOpnd ctx fr.env src
      pure (assign d v)
    | .binop d ty op a b => do
      let x ← evalOpnd ctx fr.env a
      let y ← evalOpnd ctx fr.env b
      let v ← evalBinop ctx.cfg ty op x y
      pure (assign d v)
    | .unop d ty op a => do
      let x ← evalOpnd ctx fr.env a
      let v ← evalUnop ctx.cfg ty op x
      pure (assign d v)
    | .cast d ty a => do
      let x ← evalOpnd ctx fr.env a
      let v ← evalCast ctx.cfg ty x
      pure (assign d v)
    | .load d ty addr _ => do
      let a ← evalAddr ctx fr.env addr "load"
      match s.mem.readBytes ctx.cfg a (ty.size ctx.cfg) with
      | some bs => pure (assign d (decodeVal ctx.cfg ty bs))
      | none => .error (.ub s!"load from unmapped address {a}")
    | .store ty v addr _ => do
      let a ← evalAddr ctx fr.env addr "store"
      let x ← evalOpnd ctx fr.env v
      let bs ← encodeVal ctx.cfg ty x
      match s.mem.writeBytes ctx.cfg a bs with
      | some m' => pure (.next { s with mem := m', top := fr })
      | none => .error (.ub s!"store to unmapped address {a}")
    | .copyblob d src n => do
      let da ← evalAddr ctx fr.env d "memcpy"
      let sa ← evalAddr ctx fr.env src "memcpy"
      let m' ← copyBytes ctx.cfg s.mem da sa n
      pure (.next { s with mem := m', top := fr })
    | .phi .. => pure (.next { s with top := fr })        -- assigned on block entry
    | .fcall d ty callee args => doCall ctx s fr (some (d, ty)) callee args
    | .pcall callee args => doCall ctx s fr none callee args
    | .asm .. => .error (.unsupported "inline asm")
    | .jump t => do
      let fr' ← enterBlock ctx fr t
      pure (.next { s with top := fr' })
    | .cjump a c b yes no => do
      let x ← evalOpnd ctx fr.env a
      let y ← evalOpnd ctx fr.env b
      let t ← evalCond c x y
      let fr' ← enterBlock ctx fr (if t then yes else no)
      pure (.next { s with top := fr' })
    | .ret v => do
      match fr.fn.ret with
      | none => .error (.ub "return in a procedure")
      | some _ =>
        let x ← evalOpnd ctx fr.env v
        doReturn ctx { s with top := fr } (some x)
    | .exit =>
      match fr.fn.ret with
      | some _ => .error (.ub "exit in a function")
      | none => doReturn ctx { s with top := fr } none

def step (ctx : Ctx) (s : State) : StepR :=
  match stepE ctx s with
  | .ok r => r
  | .error e => .done (.err e)

/-- at most `fuel` steps -/
def run (ctx : Ctx) : Nat → State → Outcome
  | 0, _ => .outOfFuel
  | n + 1, s =>
    match step ctx s with
    | .next s' => run ctx n s'
    | .done o => o

def initState (ctx : Ctx) (fname : String) (args : List Val) : Except Err State :=
  match ctx.mod.findFunc fname with
  | none => .error (.ub s!"no function {fname}")
  | some f => do
    let fr ← newFrame ctx.cfg f args 0 none
    pure { mem := { glob := initGlob ctx.cfg ctx.mod ctx.layout, stack := #[] },
           top := fr, callers := [], trace := [] }

/-- observable behaviour of calling `fname` on `args` -/
def exec (cfg : Config) (m : Module) (oracle : Oracle) (fname : String) (args : List Val) (fuel : Nat) : Outcome :=
  let ctx := mkCtx cfg m oracle
  match initState ctx fname args with
  | .ok s => run ctx fuel s
  | .error e => .err e

/-! ## Well-formedness (independent of `ppci.irutils.verify`) -/

def allDistinct : List String → Bool
  | [] => true
  | x :: xs => !xs.contains x && allDistinct xs

/-- every block is non-empty, ends in a terminator and has none before the end -/
def Block.terminatedOk (b : Block) : Bool :=
  match b.instrs.reverse with
  | [] => false
  | l :: init => l.isTerminator && init.all (fun i => !i.isTerminator)

/-- one round of graph search: add the successors of every visited node -/
def reachStep (succ : String → List String) (avoid : Option String) (seen : List String) : List String :=
  seen.foldl (fun acc n =>
    (succ n).foldl (fun acc t => if acc.contains t || avoid = some t then acc else acc ++ [t]) acc) seen

def reachIter (succ : String → List String) (avoid : Option String) : Nat → List String → List String
  | 0, seen => seen
  | k + 1, seen => reachIter succ avoid k (reachStep succ avoid seen)

def Func.succOf (f : Func) (n : String) : List String :=
  match f.findBlock n with
  | some b => b.succs
  | none => []

/-- blocks reachable from the entry by paths that avoid `avoid` -/
def Func.reach (f : Func) (avoid : Option String) : List String :=
  if avoid = some f.entry then [] else reachIter f.succOf avoid f.blocks.length [f.entry]

/-- `d` dominates `v`: `v = d`, or every path entry→`v` passes through `d`,
    i.e. `v` is unreachable once `d` is removed -/
def Func.dominates (f : Func) (d v : String) : Bool :=
  d = v || !(f.reach (some d)).contains v

/-- definitions of local values: name ↦ (type, block, index); parameters have block `none` -/
structure Def where
  name : String
  ty : Ty
  block : Option String
  idx : Nat
  deriving Repr

def blockDefs (bn : String) : Nat → List Instr → List Def
  | _, [] => []
  | k, i :: r =>
    match i.dst? with
    | some (d, ty) => { name := d, ty := ty, block := some bn, idx := k } :: blockDefs bn (k + 1) r
    | none => blockDefs bn (k + 1) r

def Func.defs (f : Func) : List Def :=
  f.params.map (fun (n, ty) => { name := n, ty := ty, block := none, idx := 0 })
  ++ f.blocks.flatMap (fun b => blockDefs b.name 0 b.instrs)

def findDef (ds : List Def) (x : String) : Option Def := ds.find? (·.name = x)

/-- static type of an operand; every global has type `ptr` -/
def opndTy (m : Module) (ds : List Def) : Operand → Option Ty
  | .loc x => (findDef ds x).map (·.ty)
  | .glob g =>
    if (m.findVar g).isSome || (m.findFunc g).isSome || (m.findExtern g).isSome then some .ptr else none

/-- signature of a directly called global: parameter types and result type -/
def Module.sigOf (m : Module) (g : String) : Option (List Ty × Option Ty) :=
  match m.findFunc g with
  | some f => some (f.params.map (·.2), f.ret)
  | none =>
    match m.findExtern g with
    | some { kind := .proc as, .. } => some (as, none)
    | some { kind := .func as r, .. } => some (as, some r)
    | _ => none

def callTypesOk (m : Module) (ds : List Def) (callee : Operand) (args : List Operand) (res : Option Ty) : Bool :=
  opndTy m ds callee = some .ptr &&
  args.all (fun a => (opndTy m ds a).isSome) &&
  match callee with
  | .glob g =>
    match m.sigOf g with
    | some (ps, r) => r = res && args.map (opndTy m ds) = ps.map some
    | none => false
  | .loc _ => true

/-- operand types agree (the typing rules of `ir.py`'s constructors and of the IR documentation) -/
def instrTypesOk (m : Module) (f : Func) (ds : List Def) : Instr → Bool
  | .const _ ty c => (match ty, c with
      | .int _, .int _ | .ptr, .int _ | .f32, _ | .f64, _ => true
      | _, _ => false)
  | .undefined _ ty => !ty.isBlob
  | .literal .. => true
  | .alloc _ size _ => size > 0
  | .addrof _ src => (match opndTy m ds src with | some (.blob _ _) => true | _ => false)
  | .binop _ ty _ a b => !ty.isBlob && opndTy m ds a = some ty && opndTy m ds b = some ty
  | .unop _ ty _ a => !ty.isBlob && opndTy m ds a = some ty
  | .cast _ ty a => !ty.isBlob && (match opndTy m ds a with | some t => !t.isBlob | none => false)
  | .load _ ty addr _ => !ty.isBlob && opndTy m ds addr = some .ptr
  | .store ty v addr _ => !ty.isBlob && opndTy m ds v = some ty && opndTy m ds addr = some .ptr
  | .copyblob d s _ => opndTy m ds d = some .ptr && opndTy m ds s = some .ptr
  | .phi _ ty ins => !ty.isBlob && ins.all (fun p => opndTy m ds p.2 = some ty)
  | .fcall _ ty callee args => callTypesOk m ds callee args (some ty)
  | .pcall callee args => callTypesOk m ds callee args none
  | .asm _ i o _ => (i ++ o).all (fun a => (opndTy m ds a).isSome)
  | .jump _ => true
  | .cjump a _ b _ _ => (match opndTy m ds a, opndTy m ds b with
      | some t1, some t2 => t1 = t2 && !t1.isBlob
      | _, _ => false)
  | .ret v => (match f.ret with | some rt => opndTy m ds v = some rt | none => false)
  | .exit => f.ret.isNone

/-- use of local `x` at (block `bn`, index `k`) is dominated by its definition -/
def useDominated (f : Func) (ds : List Def) (bn : String) (k : Nat) : Operand → Bool
  | .glob _ => true
  | .loc x =>
    match findDef ds x with
    | none => false
    | some d =>
      match d.block with
      | none => true                                            -- parameter
      | some db => if db = bn then d.idx < k else f.dominates db bn

/-- a phi input `(pred, x)`: the definition of `x` must dominate the *end* of `pred` -/
def phiUseDominated (f : Func) (ds : List Def) (pred : String) : Operand → Bool
  | .glob _ => true
  | .loc x =>
    match findDef ds x with
    | none => false
    | some d =>
      match d.block with
      | none => true
      | some db => f.dominates db pred

def sameSet (a b : List String) : Bool := a.all b.contains && b.all a.contains

def instrsDominated (f : Func) (ds : List Def) (bn : String) : Nat → List Instr → Bool
  | _, [] => true
  | k, i :: r =>
    i.uses.all (useDominated f ds bn k) &&
    i.phiIns.all (fun p => phiUseDominated f ds p.1 p.2) &&
    instrsDominated f ds bn (k + 1) r

/-- The checks of `wfFunc`, by name (the driver reports the names of failed checks). -/
def wfChecks (m : Module) (f : Func) : List (String × Bool) :=
  let ds := f.defs
  let names := f.blockNames
  [ ("has-blocks", !f.blocks.isEmpty),
    ("entry-is-first-block", (f.blocks.head?.map (·.name)) = some f.entry),
    ("block-names-distinct", allDistinct names),
    ("value-names-distinct", allDistinct (ds.map (·.name))),
    ("blocks-terminated", f.blocks.all Block.terminatedOk),
    ("targets-exist", f.blocks.all (fun b => b.instrs.all (fun i => i.targets.all names.contains))),
    ("all-blocks-reachable", let r := f.reach none; names.all r.contains),
    ("phi-inputs-are-predecessors", f.blocks.all (fun b =>
        let ps := f.preds b.name
        b.phis.all (fun i => let ks := i.phiIns.map (·.1); allDistinct ks && sameSet ks ps))),
    ("operand-types", f.blocks.all (fun b => b.instrs.all (instrTypesOk m f ds))),
    ("uses-dominated", f.blocks.all (fun b => instrsDominated f ds b.name 0 b.instrs)) ]

def wfFailures (m : Module) (f : Func) : List String :=
  (wfChecks m f).filterMap (fun p => if p.2 then none else some p.1)

/-- well-formedness of one function in the context of its module -/
def wfFunc (m : Module) (f : Func) : Bool := (wfChecks m f).all (·.2)

def Module.globalNames (m : Module) : List String :=
  m.externs.map (·.name) ++ m.vars.map (·.name) ++ m.funcs.map (·.name)

def wfModule (m : Module) : Bool :=
  allDistinct m.globalNames && m.funcs.all (wfFunc m)

end Spec.IR
