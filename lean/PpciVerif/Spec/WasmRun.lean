import PpciVerif.Spec.WasmParse
/-!
# Spec.WasmRun — line-protocol engine for the reference interpreter `Spec.Wasm`

Request (one line, one S-expression):

    (run FUEL MODULE (calls (FIDX ARGBITS*)*))

instantiates MODULE (start function included) and invokes the listed functions in order on
the **same** instance (the store is threaded through; after a trap the store modifications
made so far persist, as the specification says).  Reply:

    ok INST CALL* | g:BITS,BITS,… m:PAGES:ADDR=HEX;ADDR=HEX… nan:0|1

    INST := inst-ok | inst-trap/<why> | inst-oof | inst-stuck/<why>      (the rest is omitted unless inst-ok)
    CALL := v:BITS,BITS…[!][~H] | trap/<why>[!][~H] | oof | stuck/<why>
            (`!`: nanBits was set DURING this call (the flag is cleared before every call; whether it taints later calls of a
             stateful instance is the harness's business); `~H`: hazard mask of this call, omitted when 0)

Values are raw bit patterns; NaN results are canonical.  Memory is listed as its maximal runs of
non-zero bytes.  After `oof` (fuel exhausted) or `stuck` the remaining calls are not run.
-/
namespace Spec.WasmRun
open Spec.Wasm Spec.WasmParse

def dash (s : String) : String := String.ofList (s.toList.map fun c => if c = ' ' then '-' else c)

def hexDigit (n : Nat) : Char := if n < 10 then Char.ofNat (48 + n) else Char.ofNat (87 + n)

structure Scan where
  idx : Nat := 0
  start : Nat := 0
  cur : List Char := []           -- hex of the current run, reversed
  runs : List String := []        -- finished runs, reversed

def Scan.close (s : Scan) : Scan :=
  if s.cur.isEmpty then s
  else { s with cur := [], runs := (toString s.start ++ "=" ++ String.ofList s.cur.reverse) :: s.runs }

def showMem (mem : ByteArray) : String :=
  let s := mem.foldl (fun (s : Scan) b =>
    if b = 0 then { s.close with idx := s.idx + 1 }
    else
      let s := if s.cur.isEmpty then { s with start := s.idx } else s
      { s with idx := s.idx + 1, cur := hexDigit (b.toNat % 16) :: hexDigit (b.toNat / 16) :: s.cur }) ({} : Scan)
  toString (mem.size / pageSize) ++ ":" ++ ";".intercalate s.close.runs.reverse

def showVals (vs : List Value) : String := ",".intercalate (vs.map fun v => toString v.bits)

def pCall : Sexp → Option (Nat × List Nat)
  | .list (f :: args) => do pure (← pNat f, ← args.mapM pNat)
  | _ => none

def mkArgs (m : Module) (fi : Nat) (bits : List Nat) : Option (List Value) := do
  let f ← m.funcs[fi]?
  let ft ← m.types[f.type]?
  if ft.params.length ≠ bits.length then none
  else pure (List.zipWith Value.ofBits ft.params bits)

def flag (s : Store) : String :=
  (if s.nanBits then "!" else "") ++ (if s.hazards = 0 then "" else "~" ++ toString s.hazards)

def runCalls (m : Module) (fuel : Nat) : Store → List (Nat × List Nat) → List String → Store × List String
  | s, [], acc => (s, acc.reverse)
  | s, (fi, bits) :: rest, acc =>
    match mkArgs m fi bits with
    | none => (s, ("stuck/bad-call" :: acc).reverse)
    | some args =>
      match invoke m { s with hazards := 0, nanBits := false } fi args fuel with
      | .values vs s' => runCalls m fuel s' rest (("v:" ++ showVals vs ++ flag s') :: acc)
      | .trap w s' => runCalls m fuel s' rest (("trap/" ++ dash w ++ flag s') :: acc)
      | .outOfFuel => (s, ("oof" :: acc).reverse)
      | .stuck w => (s, (("stuck/" ++ dash w) :: acc).reverse)

def step (line : String) : String :=
  match parseSexp line with
  | some (.list [.atom "run", fuel, msx, .list (.atom "calls" :: calls)]) =>
    match pNat fuel, pModule msx, calls.mapM pCall with
    | some fuel, some m, some calls =>
      match instantiate m fuel with
      | .trap w => "ok inst-trap/" ++ dash w
      | .outOfFuel => "ok inst-oof"
      | .stuck w => "ok inst-stuck/" ++ dash w
      | .ok s =>
        let (s', outs) := runCalls m fuel s calls []
        "ok inst-ok " ++ " ".intercalate outs ++ " | g:" ++ showVals s'.globals.toList ++ " m:" ++ showMem s'.mem
          ++ " nan:" ++ (if s'.nanBits then "1" else "0")
    | _, _, _ => "bad-op"
  | _ => "bad-op"

end Spec.WasmRun
