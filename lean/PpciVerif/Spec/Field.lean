import PpciVerif.Spec.Bits
/-
Specification of an instruction-word bit field (C10), independent of ppci's code.

A field of width `w` declared unsigned holds exactly the integers `0 … 2^w-1`, a field
declared signed exactly `-2^(w-1) … 2^(w-1)-1` (two's complement).  Reading the `w`
stored bits back *according to the declaration* is `decode`.  The specification of
"store `v` into the field" is: succeed iff `fits`, and then `decode` of the stored bits
is `v`; otherwise fail.  (`Spec.Field.store` is that function; ppci's setter is
`Model.Token.setField`, and C10 compares the two.)
-/
namespace Spec.Field
open Spec.Bits

/-- `v` is representable in a `w`-bit field of the declared signedness -/
def fits (signed : Bool) (w : Nat) (v : Int) : Prop :=
  if signed then fitsS w v else fitsU w v

instance (s : Bool) (w : Nat) (v : Int) : Decidable (fits s w v) := by
  unfold fits; cases s <;> exact inferInstance

/-- the integer denoted by the raw `w` stored bits `raw` (`0 ≤ raw < 2^w`) under the declaration -/
def decode (signed : Bool) (w : Nat) (raw : Int) : Int :=
  if signed then wrapS w raw else wrapU w raw

/-- the specified store: the raw bits to put into the field, or `none` = must be rejected -/
def store (signed : Bool) (w : Nat) (v : Int) : Option Int :=
  if fits signed w v then some (wrapU w v) else none

/-- the union of both ranges, `[-2^(w-1), 2^w)`: what `wrap_negative` accepts -/
def fitsEither (w : Nat) (v : Int) : Prop := -(2 ^ (w - 1)) ≤ v ∧ v < 2 ^ w

instance (w : Nat) (v : Int) : Decidable (fitsEither w v) := by unfold fitsEither; exact inferInstance

end Spec.Field
