/-
`Spec.CLayout` — size, alignment and member offsets of C object types on x86-64
(System V psABI 3.1.2 "Data Representation"), import-free, not derived from ppci.

* scalar types: Figure 3.1 (`char` 1/1, `short` 2/2, `int` 4/4, `long` and `long long` 8/8,
  pointers 8/8, `float` 4/4, `double` 8/8); signedness does not matter for layout;
* "Structures and unions assume the alignment of their most strictly aligned component.
  Each member is assigned to the lowest available offset with the appropriate alignment.
  The size of any object is always a multiple of the object's alignment."
* "An array uses the same alignment as its elements"; its size is `n * sizeof element`
  (C11 6.5.3.4p7: no padding between elements, which is why sizes are rounded up).
* structure members are laid out in declaration order (C11 6.7.2.1p15), all members of a
  union start at offset 0 (6.7.2.1p16).

Not included: bit-fields, `long double`, `_Bool`, over-aligned / packed types, flexible
array members, the 16-byte alignment of large array *variables*.
-/
namespace Spec.CLayout

inductive Prim
  | char | short | int | long | llong | ptr | float | double
  deriving DecidableEq, Repr

def Prim.size : Prim → Nat
  | .char => 1 | .short => 2 | .int => 4 | .long => 8 | .llong => 8 | .ptr => 8 | .float => 4 | .double => 8

/-- every scalar type of Figure 3.1 in this list is aligned to its size -/
def Prim.align (p : Prim) : Nat := p.size

mutual
  inductive LTy
    | prim (p : Prim)
    | arr (elem : LTy) (n : Nat)
    | struct (fs : Fields)
    | union (fs : Fields)
  inductive Fields
    | nil
    | cons (t : LTy) (rest : Fields)
end

/-- the least multiple of `a` that is `≥ x` (`a > 0`) -/
def roundUp (x a : Nat) : Nat := (x + (a - 1)) / a * a

mutual
  /-- `sizeof` -/
  def sizeOf : LTy → Nat
    | .prim p => p.size
    | .arr e n => n * sizeOf e
    | .struct fs => roundUp (structEnd fs 0) (maxAlign fs)
    | .union fs => roundUp (maxSize fs) (maxAlign fs)
  /-- `_Alignof` -/
  def alignOf : LTy → Nat
    | .prim p => p.align
    | .arr e _ => alignOf e
    | .struct fs => maxAlign fs
    | .union fs => maxAlign fs
  /-- alignment of the most strictly aligned member (1 for no members) -/
  def maxAlign : Fields → Nat
    | .nil => 1
    | .cons t r => max (alignOf t) (maxAlign r)
  /-- size of the largest member -/
  def maxSize : Fields → Nat
    | .nil => 0
    | .cons t r => max (sizeOf t) (maxSize r)
  /-- first free offset after placing the members one after the other from offset `cur` -/
  def structEnd : Fields → Nat → Nat
    | .nil, cur => cur
    | .cons t r, cur => structEnd r (roundUp cur (alignOf t) + sizeOf t)
  /-- offsets of the members of a structure whose first free offset is `cur` -/
  def structOffsets : Fields → Nat → List Nat
    | .nil, _ => []
    | .cons t r, cur => roundUp cur (alignOf t) :: structOffsets r (roundUp cur (alignOf t) + sizeOf t)
end

def Fields.length : Fields → Nat
  | .nil => 0
  | .cons _ r => r.length + 1

/-- offsets of the members of a union -/
def unionOffsets (fs : Fields) : List Nat := List.replicate fs.length 0

/-- member offsets of a structure or union type (`[]` for other types) -/
def offsetsOf : LTy → List Nat
  | .struct fs => structOffsets fs 0
  | .union fs => unionOffsets fs
  | _ => []

end Spec.CLayout
