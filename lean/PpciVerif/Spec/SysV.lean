/-
System V AMD64 psABI, the part that concerns scalar parameters (written from the
psABI text, section 3.2 "Function Calling Sequence"; independent of ppci).

* 3.2.3 classification: `_Bool, char, short, int, long, long long` and pointers are
  class INTEGER; `float, double` are class SSE.
* 3.2.3 passing: an INTEGER argument takes the next available register of the
  sequence `%rdi, %rsi, %rdx, %rcx, %r8, %r9`; an SSE argument takes the next
  available vector register `%xmm0 … %xmm7`.  When no register of the class is
  left the argument is passed in memory.  Arguments of the *other* class keep
  using their registers.
* 3.2.3 / figure 3.3: memory arguments are pushed in reversed (right-to-left) order;
  the size of each argument gets rounded up to eightbytes.  With the frame of
  figure 3.3 (`push %rbp; mov %rsp,%rbp` on entry) memory-argument eightbyte `n`
  is at `8n+16(%rbp)`, i.e. at `8n+8(%rsp)` at function entry.
* 3.2.3 returning: INTEGER in `%rax`, SSE in `%xmm0`.
* 3.2.1: `%rbx, %rbp, %r12 … %r15` (and `%rsp`) belong to the calling function (callee saved).
* 3.2.2: `%rsp+8` is a multiple of 16 when control is transferred to the function
  entry point, i.e. `%rsp ≡ 0 (mod 16)` at the call instruction.
-/
namespace Spec.SysV

/-- scalar IR types (ppci's `ir.i8 … ir.f64, ir.ptr`): char/short/int/long (both signs),
    pointer, float, double -/
inductive Ty
  | i8 | u8 | i16 | u16 | i32 | u32 | i64 | u64 | ptr | f32 | f64
  deriving DecidableEq, Repr, Inhabited

inductive Class
  | INTEGER | SSE
  deriving DecidableEq, Repr

def classify : Ty → Class
  | .f32 | .f64 => .SSE
  | _ => .INTEGER

/-- general purpose registers, in hardware-number order (`rax`=0 … `r15`=15) -/
inductive GPR
  | rax | rcx | rdx | rbx | rsp | rbp | rsi | rdi | r8 | r9 | r10 | r11 | r12 | r13 | r14 | r15
  deriving DecidableEq, Repr, Inhabited

def GPR.num : GPR → Nat
  | .rax => 0 | .rcx => 1 | .rdx => 2 | .rbx => 3 | .rsp => 4 | .rbp => 5 | .rsi => 6 | .rdi => 7
  | .r8 => 8 | .r9 => 9 | .r10 => 10 | .r11 => 11 | .r12 => 12 | .r13 => 13 | .r14 => 14 | .r15 => 15

def GPR.ofNum? : Nat → Option GPR
  | 0 => some .rax | 1 => some .rcx | 2 => some .rdx | 3 => some .rbx | 4 => some .rsp | 5 => some .rbp
  | 6 => some .rsi | 7 => some .rdi | 8 => some .r8 | 9 => some .r9 | 10 => some .r10 | 11 => some .r11
  | 12 => some .r12 | 13 => some .r13 | 14 => some .r14 | 15 => some .r15 | _ => none

/-- where a value lives at the moment control reaches the callee -/
inductive Loc
  | gpr (r : GPR)
  | xmm (n : Nat)
  /-- byte offset from `%rbp` after the standard entry `push %rbp; mov %rsp,%rbp`
      (= offset `+8` less from `%rsp` at function entry) -/
  | mem (off : Nat)
  deriving DecidableEq, Repr, Inhabited

def intArgRegs : List GPR := [.rdi, .rsi, .rdx, .rcx, .r8, .r9]
def sseArgRegs : List Nat := [0, 1, 2, 3, 4, 5, 6, 7]

/-- number of arguments of class `c` among `ts` -/
def countClass (c : Class) (ts : List Ty) : Nat := (ts.filter (fun t => classify t == c)).length

/-- does the argument of type `t`, preceded by the arguments `before`, go to memory? -/
def inMemory (before : List Ty) (t : Ty) : Bool :=
  match classify t with
  | .INTEGER => decide (intArgRegs.length ≤ countClass .INTEGER before)
  | .SSE => decide (sseArgRegs.length ≤ countClass .SSE before)

/-- number of memory (stack) arguments among a signature prefix: of the INTEGER arguments all
    but the first six, of the SSE arguments all but the first eight (truncated subtraction) -/
def memCount (before : List Ty) : Nat :=
  (countClass .INTEGER before - intArgRegs.length) + (countClass .SSE before - sseArgRegs.length)

/-- offset of memory-argument eightbyte `n` from `%rbp` (figure 3.3) -/
def memSlot (n : Nat) : Nat := 8 * n + 16

/-- **positional definition**: the location of the argument of type `t` that is preceded by the
    arguments `before` (left to right) -/
def argLocAfter (before : List Ty) (t : Ty) : Loc :=
  if inMemory before t then .mem (memSlot (memCount before))
  else match classify t with
    | .INTEGER => .gpr (intArgRegs.getD (countClass .INTEGER before) .rax)
    | .SSE => .xmm (sseArgRegs.getD (countClass .SSE before) 0)

/-- location of argument number `i` of the signature -/
def argLoc (sig : List Ty) (i : Nat) : Loc := argLocAfter (sig.take i) (sig.getD i .i64)

def argLocs (sig : List Ty) : List Loc := (List.range sig.length).map (argLoc sig)

def retLoc (t : Ty) : Loc :=
  match classify t with
  | .INTEGER => .gpr .rax
  | .SSE => .xmm 0

/-- registers that belong to the caller: a conforming function returns with them unchanged -/
def calleeSaved : List GPR := [.rbx, .rbp, .r12, .r13, .r14, .r15]

/-- registers a conforming callee may destroy -/
def callerSaved : List GPR := [.rax, .rcx, .rdx, .rsi, .rdi, .r8, .r9, .r10, .r11]

/-- all sixteen vector registers may be destroyed by a callee (3.2.1: none is preserved across calls) -/
def callerSavedXmm : List Nat := [0, 1, 2, 3, 4, 5, 6, 7, 8, 9, 10, 11, 12, 13, 14, 15]

/-- stack alignment demanded at a call instruction -/
def alignedAtCall (rsp : Int) : Prop := rsp % 16 = 0
/-- hence at function entry (return address pushed) -/
def alignedAtEntry (rsp : Int) : Prop := rsp % 16 = 8

end Spec.SysV
