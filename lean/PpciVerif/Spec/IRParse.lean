import PpciVerif.Model.Proto
import PpciVerif.Spec.IR
/-!
# Spec.IRParse — S-expression exchange format for `Spec.IR` (DESIGN.md S4)

`harness/irser.py` walks a live `ppci.ir.Module` and prints one S-expression (one
line); `parseModule` turns it into a `Spec.IR.Module`; `showModule` prints a
`Spec.IR.Module` in the same format (`parseModule (showModule m) = some m` is
checked by the driver op `roundtrip`).  Grammar (see notes/IR.md):

```
module := (module NAME (externs E*) (vars V*) (funcs F*))
E := (xvar N) | (xproc N (T*)) | (xfunc N T (T*))
V := (var N global|local SIZE ALIGN) | (var N global|local SIZE ALIGN (init P*))
P := (bytes HEX) | (ref N)
F := (func N global|local T|void ENTRY (params (N T)*) (blocks B*))
B := (block N I*)
T := i8|i16|i32|i64|u8|u16|u32|u64|f32|f64|ptr|(blob SIZE ALIGN)
O := %local | @global
I := (const %d T INT) | (fconst %d T BITS) | (undef %d T) | (literal %d HEX)
   | (alloc %d SIZE ALIGN) | (addrof %d O) | (binop %d T OP O O) | (unop %d T neg|not O)
   | (cast %d T O) | (load %d T O) | (vload %d T O) | (store T O O) | (vstore T O O)
   | (copyblob O O N) | (phi %d T (BLOCK O)*) | (fcall %d T O O*) | (pcall O O*)
   | (asm HEX (O*) (O*) (NAME*)) | (jump B) | (cjump O COND O B B) | (ret O) | (exit)
OP := add sub mul div rem or and xor shl shr rol ror      COND := eq lt gt ge le ne
```
-/
namespace Spec.IRParse
open Spec.IR

inductive Sexp
  | atom (s : String)
  | list (xs : List Sexp)
  deriving Repr, Inhabited

/-- push a finished atom (characters accumulated in reverse) onto the innermost open list -/
def flush (acc : List Char) (stack : List (List Sexp)) : List (List Sexp) :=
  match acc, stack with
  | [], st => st
  | cs, top :: st => (Sexp.atom (String.ofList cs.reverse) :: top) :: st
  | _, [] => []

/-- `stack` = open lists, innermost first, each reversed -/
def parseGo : List Char → List Char → List (List Sexp) → Option Sexp
  | [], acc, stack =>
    match flush acc stack with
    | [[x]] => some x
    | _ => none
  | c :: cs, acc, stack =>
    if c = '(' then parseGo cs [] ([] :: flush acc stack)
    else if c = ')' then
      match flush acc stack with
      | top :: next :: st => parseGo cs [] ((Sexp.list top.reverse :: next) :: st)
      | _ => none
    else if c = ' ' || c = '\n' || c = '\t' || c = '\r' then parseGo cs [] (flush acc stack)
    else parseGo cs (c :: acc) stack

def parseSexp (s : String) : Option Sexp := parseGo s.toList [] [[]]

/-! ### Sexp → IR -/

def pNat : Sexp → Option Nat
  | .atom s => s.toNat?
  | _ => none

def pInt : Sexp → Option Int
  | .atom s => s.toInt?
  | _ => none

def pHex : Sexp → Option (List Nat)
  | .atom s => Proto.fromHex s
  | _ => none

def pITy (s : String) : Option ITy :=
  Spec.IRArith.Ty.all.find? (fun t => t.name = s)

def pTy : Sexp → Option Ty
  | .atom "f32" => some .f32
  | .atom "f64" => some .f64
  | .atom "ptr" => some .ptr
  | .atom s => (pITy s).map .int
  | .list [.atom "blob", s, a] => do pure (.blob (← pNat s) (← pNat a))
  | _ => none

def pOpnd : Sexp → Option Operand
  | .atom s =>
    match s.toList with
    | '%' :: r => some (.loc (String.ofList r))
    | '@' :: r => some (.glob (String.ofList r))
    | _ => none
  | _ => none

def pLoc (s : Sexp) : Option String :=
  match pOpnd s with
  | some (.loc n) => some n
  | _ => none

def pName : Sexp → Option String
  | .atom s => some s
  | _ => none

def pBinOp (s : Sexp) : Option BinOp := do
  let n ← pName s
  BinOp.all.find? (fun o => o.name = n)

def pCond (s : Sexp) : Option Cond := do
  let n ← pName s
  Cond.all.find? (fun o => o.name = n)

def pPhiIn : Sexp → Option (String × Operand)
  | .list [b, o] => do pure (← pName b, ← pOpnd o)
  | _ => none

def pInstr : Sexp → Option Instr
  | .list (.atom tag :: r) =>
    match tag, r with
    | "const", [d, t, v] => do pure (.const (← pLoc d) (← pTy t) (.int (← pInt v)))
    | "fconst", [d, t, v] => do pure (.const (← pLoc d) (← pTy t) (.fbits (← pNat v)))
    | "undef", [d, t] => do pure (.undefined (← pLoc d) (← pTy t))
    | "literal", [d, h] => do pure (.literal (← pLoc d) (← pHex h))
    | "alloc", [d, s, a] => do pure (.alloc (← pLoc d) (← pNat s) (← pNat a))
    | "addrof", [d, s] => do pure (.addrof (← pLoc d) (← pOpnd s))
    | "binop", [d, t, op, a, b] => do pure (.binop (← pLoc d) (← pTy t) (← pBinOp op) (← pOpnd a) (← pOpnd b))
    | "unop", [d, t, .atom "neg", a] => do pure (.unop (← pLoc d) (← pTy t) .neg (← pOpnd a))
    | "unop", [d, t, .atom "not", a] => do pure (.unop (← pLoc d) (← pTy t) .not (← pOpnd a))
    | "cast", [d, t, a] => do pure (.cast (← pLoc d) (← pTy t) (← pOpnd a))
    | "load", [d, t, a] => do pure (.load (← pLoc d) (← pTy t) (← pOpnd a) false)
    | "vload", [d, t, a] => do pure (.load (← pLoc d) (← pTy t) (← pOpnd a) true)
    | "store", [t, v, a] => do pure (.store (← pTy t) (← pOpnd v) (← pOpnd a) false)
    | "vstore", [t, v, a] => do pure (.store (← pTy t) (← pOpnd v) (← pOpnd a) true)
    | "copyblob", [d, s, n] => do pure (.copyblob (← pOpnd d) (← pOpnd s) (← pNat n))
    | "phi", d :: t :: ins => do pure (.phi (← pLoc d) (← pTy t) (← ins.mapM pPhiIn))
    | "fcall", d :: t :: c :: args => do pure (.fcall (← pLoc d) (← pTy t) (← pOpnd c) (← args.mapM pOpnd))
    | "pcall", c :: args => do pure (.pcall (← pOpnd c) (← args.mapM pOpnd))
    | "asm", [h, .list i, .list o, .list cl] => do
      let bs ← pHex h
      pure (.asm (String.ofList (bs.map Char.ofNat)) (← i.mapM pOpnd) (← o.mapM pOpnd) (← cl.mapM pName))
    | "jump", [t] => do pure (.jump (← pName t))
    | "cjump", [a, c, b, y, n] => do pure (.cjump (← pOpnd a) (← pCond c) (← pOpnd b) (← pName y) (← pName n))
    | "ret", [v] => do pure (.ret (← pOpnd v))
    | "exit", [] => some .exit
    | _, _ => none
  | _ => none

def pBlock : Sexp → Option Block
  | .list (.atom "block" :: n :: is) => do pure { name := ← pName n, instrs := ← is.mapM pInstr }
  | _ => none

def pBinding : Sexp → Option Bool
  | .atom "global" => some true
  | .atom "local" => some false
  | _ => none

def pParam : Sexp → Option (String × Ty)
  | .list [n, t] => do pure (← pName n, ← pTy t)
  | _ => none

def pRet : Sexp → Option (Option Ty)
  | .atom "void" => some none
  | s => (pTy s).map some

def pFunc : Sexp → Option Func
  | .list [.atom "func", n, b, rt, e, .list (.atom "params" :: ps), .list (.atom "blocks" :: bs)] => do
    pure { name := ← pName n, isGlobal := ← pBinding b, ret := ← pRet rt, entry := ← pName e,
           params := ← ps.mapM pParam, blocks := ← bs.mapM pBlock }
  | _ => none

def pInitPart : Sexp → Option InitPart
  | .list [.atom "bytes", h] => do pure (.bytes (← pHex h))
  | .list [.atom "ref", n] => do pure (.ref (← pName n))
  | _ => none

def pVar : Sexp → Option GVar
  | .list [.atom "var", n, b, s, a] => do
    pure { name := ← pName n, isGlobal := ← pBinding b, size := ← pNat s, align := ← pNat a, init := none }
  | .list [.atom "var", n, b, s, a, .list (.atom "init" :: ps)] => do
    pure { name := ← pName n, isGlobal := ← pBinding b, size := ← pNat s, align := ← pNat a,
           init := some (← ps.mapM pInitPart) }
  | _ => none

def pExtern : Sexp → Option Extern
  | .list [.atom "xvar", n] => do pure { name := ← pName n, kind := .var }
  | .list [.atom "xproc", n, .list ts] => do pure { name := ← pName n, kind := .proc (← ts.mapM pTy) }
  | .list [.atom "xfunc", n, rt, .list ts] => do pure { name := ← pName n, kind := .func (← ts.mapM pTy) (← pTy rt) }
  | _ => none

def pModule : Sexp → Option Module
  | .list [.atom "module", n, .list (.atom "externs" :: es), .list (.atom "vars" :: vs),
           .list (.atom "funcs" :: fs)] => do
    pure { name := ← pName n, externs := ← es.mapM pExtern, vars := ← vs.mapM pVar, funcs := ← fs.mapM pFunc }
  | _ => none

def parseModule (s : String) : Option Module := parseSexp s >>= pModule

/-! ### IR → text (same format) -/

def par (xs : List String) : String := "(" ++ " ".intercalate xs ++ ")"

def showOpnd : Operand → String
  | .loc n => "%" ++ n
  | .glob n => "@" ++ n

def showInstr : Instr → String
  | .const d t (.int v) => par ["const", "%" ++ d, t.name, toString v]
  | .const d t (.fbits b) => par ["fconst", "%" ++ d, t.name, toString b]
  | .undefined d t => par ["undef", "%" ++ d, t.name]
  | .literal d data => par ["literal", "%" ++ d, Proto.toHex data]
  | .alloc d s a => par ["alloc", "%" ++ d, toString s, toString a]
  | .addrof d s => par ["addrof", "%" ++ d, showOpnd s]
  | .binop d t op a b => par ["binop", "%" ++ d, t.name, op.name, showOpnd a, showOpnd b]
  | .unop d t op a => par ["unop", "%" ++ d, t.name, op.name, showOpnd a]
  | .cast d t a => par ["cast", "%" ++ d, t.name, showOpnd a]
  | .load d t a v => par [if v then "vload" else "load", "%" ++ d, t.name, showOpnd a]
  | .store t v a vol => par [if vol then "vstore" else "store", t.name, showOpnd v, showOpnd a]
  | .copyblob d s n => par ["copyblob", showOpnd d, showOpnd s, toString n]
  | .phi d t ins => par (["phi", "%" ++ d, t.name] ++ ins.map (fun p => par [p.1, showOpnd p.2]))
  | .fcall d t c args => par (["fcall", "%" ++ d, t.name, showOpnd c] ++ args.map showOpnd)
  | .pcall c args => par (["pcall", showOpnd c] ++ args.map showOpnd)
  | .asm tpl i o cl => par ["asm", Proto.toHex (tpl.toList.map Char.toNat), par (i.map showOpnd),
                            par (o.map showOpnd), par cl]
  | .jump t => par ["jump", t]
  | .cjump a c b y n => par ["cjump", showOpnd a, c.name, showOpnd b, y, n]
  | .ret v => par ["ret", showOpnd v]
  | .exit => "(exit)"

def showBlock (b : Block) : String := par (["block", b.name] ++ b.instrs.map showInstr)

def showBinding (g : Bool) : String := if g then "global" else "local"

def showFunc (f : Func) : String :=
  par ["func", f.name, showBinding f.isGlobal, (match f.ret with | some t => t.name | none => "void"), f.entry,
       par ("params" :: f.params.map (fun p => par [p.1, p.2.name])),
       par ("blocks" :: f.blocks.map showBlock)]

def showInitPart : InitPart → String
  | .bytes bs => par ["bytes", Proto.toHex bs]
  | .ref n => par ["ref", n]

def showVar (v : GVar) : String :=
  par (["var", v.name, showBinding v.isGlobal, toString v.size, toString v.align] ++
       (match v.init with | some ps => [par ("init" :: ps.map showInitPart)] | none => []))

def showExtern (e : Extern) : String :=
  match e.kind with
  | .var => par ["xvar", e.name]
  | .proc ts => par ["xproc", e.name, par (ts.map Ty.name)]
  | .func ts r => par ["xfunc", e.name, r.name, par (ts.map Ty.name)]

def showModule (m : Module) : String :=
  par ["module", m.name, par ("externs" :: m.externs.map showExtern), par ("vars" :: m.vars.map showVar),
       par ("funcs" :: m.funcs.map showFunc)]

end Spec.IRParse
