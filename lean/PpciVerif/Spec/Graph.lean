/-
S3 `Spec.Graph` — finite directed graphs, paths, reachability, dominance,
immediate dominators, dominance frontier, post-dominance.  Import-free.

Everything declarative here is stated with *paths* (inductive `Path`); the
executable Boolean versions (`reachB`, `domB`, `idom`, `dfB`, …) are proved equal
to the declarative ones in `PpciVerif/Proofs/Graph.lean` (`reachB_iff_path`,
`domB_iff`, `idom_eq_some_iff`, `dfB_iff`, …).  Independent of any ppci code.

Conventions.  Nodes are the numbers `0 … n-1`; `adj[u]` lists the successors of
`u`.  Entries that are not nodes (`≥ n`) and rows beyond `n` are ignored by the
edge relation, so every statement holds for every value of `Digraph`, without a
well-formedness side condition.  Sets of nodes are bit masks (`Nat`, bit `v` set
⇔ `v` in the set).
-/
namespace Spec.Graph

structure Digraph where
  n : Nat
  adj : List (List Nat)
deriving Repr, DecidableEq

namespace Digraph

/-- raw successor list of `u` (may contain non-nodes when the graph is not `WF`) -/
def succ (g : Digraph) (u : Nat) : List Nat := g.adj.getD u []

/-- the edge relation: both ends are nodes and `v` is listed as successor of `u` -/
def Edge (g : Digraph) (u v : Nat) : Prop := u < g.n ∧ v < g.n ∧ v ∈ g.succ u

instance (g : Digraph) (u v : Nat) : Decidable (g.Edge u v) := by unfold Edge; infer_instance

def edgeB (g : Digraph) (u v : Nat) : Bool := decide (g.Edge u v)

/-- well-formed: exactly `n` rows, all entries are nodes -/
def WF (g : Digraph) : Prop := g.adj.length = g.n ∧ ∀ row ∈ g.adj, ∀ v ∈ row, v < g.n

instance (g : Digraph) : Decidable g.WF := by unfold WF; infer_instance

/-- predecessors of `v`, ascending -/
def preds (g : Digraph) (v : Nat) : List Nat := (List.range g.n).filter (fun u => g.edgeB u v)

/-- the reversed graph -/
def rev (g : Digraph) : Digraph := ⟨g.n, (List.range g.n).map g.preds⟩

end Digraph

/-! ### paths -/

/-- `Path g u l v` : there is a walk `u → … → v` in `g`; `l` lists the vertices
    visited *after* `u` (so the vertices of the walk are `u :: l`, and `l = []`
    for the trivial walk).  Walks may repeat vertices. -/
inductive Path (g : Digraph) : Nat → List Nat → Nat → Prop
  | nil {u : Nat} : u < g.n → Path g u [] u
  | cons {u w v : Nat} {l : List Nat} : g.Edge u w → Path g w l v → Path g u (w :: l) v

/-- `v` is reachable from `u` (path of length ≥ 0) -/
def Reach (g : Digraph) (u v : Nat) : Prop := ∃ l, Path g u l v

/-- `v` is reachable from `u` by a path with at least one edge (transitive closure) -/
def ReachPlus (g : Digraph) (u v : Nat) : Prop := ∃ w, g.Edge u w ∧ Reach g w v

/-- `v` is reachable from `u` by a path none of whose vertices is `d` -/
def ReachAvoid (g : Digraph) (d u v : Nat) : Prop := ∃ l, Path g u l v ∧ d ∉ u :: l

/-! ### dominance, by definition -/

/-- `d` dominates `v` (entry `e`): every path from `e` to `v` passes through `d`.
    (Vacuously true when `v` is unreachable.) -/
def Dom (g : Digraph) (e d v : Nat) : Prop := ∀ l, Path g e l v → d ∈ e :: l

/-- strict dominance -/
def SDom (g : Digraph) (e d v : Nat) : Prop := Dom g e d v ∧ d ≠ v

/-- `d` is the immediate dominator of `v`: a strict dominator of `v` that is
    dominated by every strict dominator of `v`. -/
def IsIdom (g : Digraph) (e d v : Nat) : Prop := SDom g e d v ∧ ∀ d', SDom g e d' v → Dom g e d' d

/-- `y` is in the dominance frontier of `x` (Cytron et al.): `x` dominates a
    predecessor of `y` but does not strictly dominate `y`. -/
def InDF (g : Digraph) (e x y : Nat) : Prop := (∃ p, g.Edge p y ∧ Dom g e x p) ∧ ¬ SDom g e x y

/-- `d` post-dominates `v` (exit `x`): dominance in the reversed graph w.r.t. the
    exit; equivalently (`Proofs.Graph.pdom_iff_paths`) every path from `v` to `x`
    passes through `d`. -/
def PDom (g : Digraph) (x d v : Nat) : Prop := Dom g.rev x d v
def SPDom (g : Digraph) (x d v : Nat) : Prop := SDom g.rev x d v
def IsIpdom (g : Digraph) (x d v : Nat) : Prop := IsIdom g.rev x d v

/-! ### executable versions (bit-mask sets) -/

/-- bit `i` of `l.foldl (· ||| f ·) a` is set iff it is set in `a` or in some `f x` -/
def orList {α : Type} (f : α → Nat) (a : Nat) (l : List α) : Nat := l.foldl (fun acc x => acc ||| f x) a

def bit (v : Nat) : Nat := 1 <<< v

/-- mask of the successors of `u` that are nodes and differ from `avoid` -/
def succMask (g : Digraph) (avoid : Option Nat) (u : Nat) : Nat :=
  orList (fun w => if w < g.n ∧ some w ≠ avoid then bit w else 0) 0 (g.succ u)

/-- one round: add the (allowed) successors of every member of `S` -/
def expand (g : Digraph) (avoid : Option Nat) (S : Nat) : Nat :=
  orList (fun u => if S.testBit u then succMask g avoid u else 0) S (List.range g.n)

/-- at most `k` rounds, stopping as soon as nothing is added -/
def closure (g : Digraph) (avoid : Option Nat) : Nat → Nat → Nat
  | 0, S => S
  | k + 1, S =>
    let S' := expand g avoid S
    if S' = S then S else closure g avoid k S'

/-- set of nodes reachable from `u` along paths that do not touch `avoid` -/
def reachSet (g : Digraph) (avoid : Option Nat) (u : Nat) : Nat :=
  if u < g.n ∧ some u ≠ avoid then closure g avoid g.n (bit u) else 0

def reachB (g : Digraph) (u v : Nat) : Bool := (reachSet g none u).testBit v

def reachAvoidB (g : Digraph) (d u v : Nat) : Bool := (reachSet g (some d) u).testBit v

/-- transitive closure with at least one edge -/
def reachPlusB (g : Digraph) (u v : Nat) : Bool :=
  (List.range g.n).any (fun w => g.edgeB u w && reachB g w v)

/-- the same as a set: everything reachable from `u` by at least one edge -/
def reachPlusSet (g : Digraph) (u : Nat) : Nat :=
  orList (fun w => if g.edgeB u w then reachSet g none w else 0) 0 (List.range g.n)

/-- `d` dominates `v`: `v` cannot be reached from `e` in `g ∖ {d}` -/
def domB (g : Digraph) (e d v : Nat) : Bool := !reachAvoidB g d e v

def sdomB (g : Digraph) (e d v : Nat) : Bool := domB g e d v && d != v

/-- immediate dominator w.r.t. an arbitrary Boolean dominance test on nodes `< n`:
    the first `d` that strictly dominates `v` and is dominated by all strict dominators -/
def idomOf (n : Nat) (dom : Nat → Nat → Bool) (v : Nat) : Option Nat :=
  (List.range n).find? fun d =>
    dom d v && d != v && (List.range n).all fun d' => !(dom d' v && d' != v) || dom d' d

/-- the immediate dominator of `v`; `none` for the entry and for unreachable `v` -/
def idom (g : Digraph) (e v : Nat) : Option Nat :=
  if reachB g e v && v != e then idomOf g.n (domB g e) v else none

/-- dominance frontier membership, by definition -/
def dfOf (preds : Nat → List Nat) (dom : Nat → Nat → Bool) (x y : Nat) : Bool :=
  (preds y).any (fun p => dom x p) && !(dom x y && x != y)

def dfB (g : Digraph) (e x y : Nat) : Bool := dfOf g.preds (domB g e) x y

def pdomB (g : Digraph) (x d v : Nat) : Bool := domB g.rev x d v
def ipdom (g : Digraph) (x v : Nat) : Option Nat := idom g.rev x v

/-! ### table-driven versions (same values, `O(n)` closures instead of `O(n³)`)

`domTable g e` holds, for every node `d`, the mask of nodes reachable from `e`
avoiding `d`.  `Proofs.Graph.domT_eq` shows `domT (domTable g e) d v = domB g e d v`
for `d < n`, hence `idomT/dfT` agree with `idom/dfB` (`idomT_eq`, `dfT_eq`). -/

def domTable (g : Digraph) (e : Nat) : Array Nat := ((List.range g.n).map fun d => reachSet g (some d) e).toArray

/-- lookup; for `d ≥ n` nothing is avoided, so the row is the plain reach set `r` -/
def domT (tab : Array Nat) (r : Nat) (d v : Nat) : Bool :=
  !(match tab[d]? with | some row => row | none => r).testBit v

def idomT (g : Digraph) (e : Nat) (tab : Array Nat) (r : Nat) (v : Nat) : Option Nat :=
  if r.testBit v && v != e then idomOf g.n (domT tab r) v else none

def predTable (g : Digraph) : Array (List Nat) := ((List.range g.n).map g.preds).toArray

def dfT (ptab : Array (List Nat)) (tab : Array Nat) (r : Nat) (x y : Nat) : Bool :=
  dfOf (fun y => ptab.getD y []) (domT tab r) x y

/-- the validator for a claimed immediate-dominator map (`out[v] = none` ⇔ no idom) -/
def checkIdom (g : Digraph) (e : Nat) (out : List (Option Nat)) : Bool :=
  out.length == g.n &&
  let tab := domTable g e
  let r := reachSet g none e
  (List.range g.n).all fun v => out.getD v none == idomT g e tab r v

end Spec.Graph
