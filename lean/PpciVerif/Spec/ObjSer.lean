import PpciVerif.Model.ObjSer
/-!
Specification side of C14: which objects the round-trip statement quantifies over.

`WF o` is what `ObjectFile`'s own construction API enforces (`create_section`
refuses a second section of the same name, `add_symbol` refuses a second global
of the same name and asserts fresh ids, `add_relocation` asserts the section
exists, images hold sections of the object, an undefined symbol has no section,
section data are bytes) plus, for debug info, that every referenced type was
registered with `add_type` (`TypesRegistered`).  All of it is decidable
(`wfB`), so the harness can ask the driver whether a generated object lies
inside the theorem's domain.  Only the record types are taken from the model;
nothing here mentions `serialize`/`deserialize`.
-/
namespace Spec.ObjSer
open Model.ObjSer

/-- two symbols may coexist in one object -/
def SymCompat (a b : Symbol) : Prop :=
  a.id ≠ b.id ∧ ¬ (a.binding = kGlobal ∧ b.binding = kGlobal ∧ a.name = b.name)

instance (a b : Symbol) : Decidable (SymCompat a b) := by unfold SymCompat; exact inferInstance

def fieldRefs : TypeDesc → List Nat
  | .base _ _ _ => []
  | .struct fs => fs.map (·.typ)
  | .array e _ => [e]
  | .pointer t => [t]

def funcRefs (f : DbgFunc) : List Nat :=
  f.returnType :: (f.arguments.map (·.typ) ++ f.variables.map (·.typ))

/-- every type reference of the debug info denotes a registered type -/
def TypesRegistered (d : DebugInfo) : Prop :=
  (∀ t ∈ d.types, ∀ r ∈ fieldRefs t, r < d.types.length) ∧
  (∀ v ∈ d.variables, v.typ < d.types.length) ∧
  (∀ f ∈ d.functions, ∀ r ∈ funcRefs f, r < d.types.length)

instance (d : DebugInfo) : Decidable (TypesRegistered d) := by unfold TypesRegistered; exact inferInstance

structure WF (o : Obj) : Prop where
  secNames : (o.sections.map (·.name)).Nodup
  secBytes : ∀ s ∈ o.sections, ∀ b ∈ s.data, b < 256
  symbols : o.symbols.Pairwise SymCompat
  undefNoSection : ∀ s ∈ o.symbols, s.value = none → s.sect = none
  relocSections : ∀ r ∈ o.relocations, r.sect ∈ o.sections.map (·.name)
  imageSections : ∀ i ∈ o.images, ∀ s ∈ i.sections, s ∈ o.sections
  debugRefs : ∀ d, o.debug = some d → TypesRegistered d

def wfB (o : Obj) : Bool :=
  decide ((o.sections.map (·.name)).Nodup) &&
  decide (∀ s ∈ o.sections, ∀ b ∈ s.data, b < 256) &&
  decide (o.symbols.Pairwise SymCompat) &&
  decide (∀ s ∈ o.symbols, s.value = none → s.sect = none) &&
  decide (∀ r ∈ o.relocations, r.sect ∈ o.sections.map (·.name)) &&
  decide (∀ i ∈ o.images, ∀ s ∈ i.sections, s ∈ o.sections) &&
  (match o.debug with
   | some d => decide (TypesRegistered d)
   | none => true)

theorem wfB_iff (o : Obj) : wfB o = true ↔ WF o := by
  unfold wfB
  constructor
  · intro h
    simp only [Bool.and_eq_true, decide_eq_true_eq] at h
    obtain ⟨⟨⟨⟨⟨⟨h1, h2⟩, h3⟩, h4⟩, h5⟩, h6⟩, h7⟩ := h
    refine ⟨h1, h2, h3, h4, h5, h6, ?_⟩
    intro d hd
    rw [hd] at h7
    simpa using h7
  · intro h
    simp only [Bool.and_eq_true, decide_eq_true_eq]
    refine ⟨⟨⟨⟨⟨⟨h.secNames, h.secBytes⟩, h.symbols⟩, h.undefNoSection⟩, h.relocSections⟩, h.imageSections⟩, ?_⟩
    cases hd : o.debug with
    | none => rfl
    | some d => simpa using h.debugRefs d hd

end Spec.ObjSer
