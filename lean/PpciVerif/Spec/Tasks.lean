/-
Specification side of C34 (import-free, independent of the DFS in the code):
what "dependency", "transitive dependency", "dependency loop in the part of the
graph reachable from the requested targets", "exactly once" and "only after all
of its dependencies" mean.  Everything is declarative (inductive paths), nothing
here is an algorithm.
-/
namespace Spec.Tasks

/-- A project: target ↦ the names it lists as dependencies (first entry for a
    name counts; `Project.add_target` rejects duplicates). -/
abbrev Graph := List (Nat × List Nat)

/-- `u` is a target of the project -/
def IsTarget (g : Graph) (u : Nat) : Prop := ∃ ds, g.lookup u = some ds

/-- `u` depends directly on `v` -/
def Dep (g : Graph) (u v : Nat) : Prop := ∃ ds, g.lookup u = some ds ∧ v ∈ ds

/-- reflexive-transitive closure of `Dep`: a dependency path `u → … → w` of length ≥ 0 -/
inductive Reach (g : Graph) : Nat → Nat → Prop
  | refl (u : Nat) : Reach g u u
  | step {u v w : Nat} : Dep g u v → Reach g v w → Reach g u w

/-- `v` lies on a dependency cycle (a path of length ≥ 1 from `v` back to `v`) -/
def OnCycle (g : Graph) (v : Nat) : Prop := ∃ w, Dep g v w ∧ Reach g w v

/-- `v` is a requested target or a transitive dependency of one -/
def Needed (g : Graph) (req : List Nat) (v : Nat) : Prop := ∃ r, r ∈ req ∧ Reach g r v

/-- the part of the graph reachable from the requested targets contains a cycle -/
def CycleReachable (g : Graph) (req : List Nat) : Prop := ∃ v, Needed g req v ∧ OnCycle g v

/-- every name that is needed is a target of the project (a "dependency graph":
    no dangling dependency or request) -/
def AllExist (g : Graph) (req : List Nat) : Prop := ∀ v, Needed g req v → IsTarget g v

/-- every needed target is executed exactly once, nothing else is executed -/
def ExactlyOnce (g : Graph) (req : List Nat) (order : List Nat) : Prop :=
  (∀ v, Needed g req v → order.count v = 1) ∧ (∀ v, ¬ Needed g req v → order.count v = 0)

/-- whenever a target is executed, each of its dependencies has been executed before -/
def AfterDeps (g : Graph) (order : List Nat) : Prop :=
  ∀ (l₁ : List Nat) (v : Nat) (l₂ : List Nat), order = l₁ ++ v :: l₂ → ∀ d, Dep g v d → d ∈ l₁

end Spec.Tasks
