/-!
# Spec.CFG — context-free grammars, derivations, derivation trees, first sets

Independent of ppci's code (import-free, core Lean only).

* symbols are natural numbers; a grammar lists its terminals, its productions
  `A → α` (in order: a production is referred to by its index, as ppci does)
  and its start symbol;
* `Derives G α w` : the sentential form `α` derives the terminal string `w`
  (big-step; this *is* membership in the language for `α = [start]`);
* `Step/Steps` : one-step / many-step rewriting of sentential forms, used for
  the textbook definition of FIRST and of nullability;
* `Tree`, `TreeOK`, `Tree.yield`, `Tree.fold` : derivation trees, their validity,
  their frontier, and the value computed by semantic actions over them;
* `recognise` : an executable chart (CYK/Earley-style, fixpoint over spans)
  membership test — proved sound and complete in `Proofs.LR`.
-/
namespace Spec.CFG

/-- A token: its type (a terminal symbol) and an opaque value (the harness uses the position). -/
structure Tok where
  typ : Nat
  val : Nat
deriving DecidableEq, Repr

structure Prod where
  lhs : Nat
  rhs : List Nat
deriving DecidableEq, Repr

structure Grammar where
  terms : List Nat
  prods : List Prod
  start : Nat
deriving Repr

def Grammar.isTerm (G : Grammar) (x : Nat) : Bool := G.terms.contains x
def Grammar.isNonterm (G : Grammar) (x : Nat) : Bool := G.prods.any (fun p => p.lhs == x)

/-- `Derives G α w`: the sentential form `α` derives the string of terminals `w`. -/
inductive Derives (G : Grammar) : List Nat → List Nat → Prop
  | nil : Derives G [] []
  | term {a : Nat} {Xs w : List Nat} :
      G.isTerm a = true → Derives G Xs w → Derives G (a :: Xs) (a :: w)
  | prod {p : Prod} {Xs u v : List Nat} :
      p ∈ G.prods → Derives G p.rhs u → Derives G Xs v → Derives G (p.lhs :: Xs) (u ++ v)

/-- The language of the grammar. -/
def InLanguage (G : Grammar) (w : List Nat) : Prop := Derives G [G.start] w

/-! ### sentential-form rewriting (for FIRST / nullable) -/

inductive Step (G : Grammar) : List Nat → List Nat → Prop
  | mk (u v : List Nat) (p : Prod) : p ∈ G.prods → Step G (u ++ p.lhs :: v) (u ++ p.rhs ++ v)

inductive Steps (G : Grammar) : List Nat → List Nat → Prop
  | refl (α : List Nat) : Steps G α α
  | head {α β γ : List Nat} : Step G α β → Steps G β γ → Steps G α γ

/-- textbook FIRST: `a` is a terminal and `X ⇒* a β` for some sentential form `β`. -/
def FirstSpec (G : Grammar) (X a : Nat) : Prop := G.isTerm a = true ∧ ∃ β, Steps G [X] (a :: β)
/-- textbook nullability: `X ⇒* ε`. -/
def NullableSpec (G : Grammar) (X : Nat) : Prop := Steps G [X] []

/-- ppci's well-formedness conditions on a grammar (`add_terminal`/`add_production`/`check_symbols`),
plus: the two pseudo symbols `reserved` (EOF is allowed as a declared terminal, EPS is not a symbol). -/
def Grammar.wf (G : Grammar) (eps : Nat) : Bool :=
  G.prods.all (fun p => !G.isTerm p.lhs && p.lhs != eps &&
    p.rhs.all (fun x => (G.isTerm x || G.isNonterm x) && x != eps)) && !G.isTerm eps

/-! ### derivation trees -/

inductive Tree where
  | leaf (t : Tok)
  | node (rule : Nat) (kids : List Tree)
deriving Repr

mutual
  /-- `TreeOK G t X`: `t` is a derivation tree of `G` with root symbol `X`. -/
  inductive TreeOK (G : Grammar) : Tree → Nat → Prop
    | leaf (t : Tok) : G.isTerm t.typ = true → TreeOK G (.leaf t) t.typ
    | node (i : Nat) (p : Prod) (kids : List Tree) :
        G.prods[i]? = some p → ForestOK G kids p.rhs → TreeOK G (.node i kids) p.lhs
  inductive ForestOK (G : Grammar) : List Tree → List Nat → Prop
    | nil : ForestOK G [] []
    | cons {t : Tree} {ts : List Tree} {X : Nat} {Xs : List Nat} :
        TreeOK G t X → ForestOK G ts Xs → ForestOK G (t :: ts) (X :: Xs)
end

mutual
  /-- the frontier of a tree: its tokens from left to right -/
  def Tree.yield : Tree → List Tok
    | .leaf t => [t]
    | .node _ kids => yieldL kids
  def yieldL : List Tree → List Tok
    | [] => []
    | t :: ts => t.yield ++ yieldL ts
end

mutual
  /-- the value computed by the semantic actions over a derivation tree:
  `tokv` for a shifted token, `act i args` for production number `i`. -/
  def Tree.fold {V : Type} (act : Nat → List V → V) (tokv : Tok → V) : Tree → V
    | .leaf t => tokv t
    | .node i kids => act i (foldL act tokv kids)
  def foldL {V : Type} (act : Nat → List V → V) (tokv : Tok → V) : List Tree → List V
    | [] => []
    | t :: ts => t.fold act tokv :: foldL act tokv ts
end

mutual
  /-- executable version of `TreeOK` -/
  def treeOk (G : Grammar) : Tree → Nat → Bool
    | .leaf t, X => G.isTerm t.typ && t.typ == X
    | .node i kids, X =>
      match G.prods[i]? with
      | some p => p.lhs == X && forestOk G kids p.rhs
      | none => false
  def forestOk (G : Grammar) : List Tree → List Nat → Bool
    | [], [] => true
    | t :: ts, X :: Xs => treeOk G t X && forestOk G ts Xs
    | _, _ => false
end

/-! ### chart recogniser (executable membership oracle)

A chart is a list of facts `(X, i, j)` meaning "`X` derives `w[i:j]`".  One
pass visits every (production, span) pair and adds the fact a production
justifies from the chart built so far; the recogniser repeats passes until one
adds nothing (then the chart is closed under the productions, which gives
completeness) and answers whether the start symbol matches `w[0:|w|]`.
`none` = fuel exhausted before the fixpoint. -/

abbrev Fact := Nat × Nat × Nat

def symAt (G : Grammar) (w : List Nat) (chart : List Fact) (X i k : Nat) : Bool :=
  (G.isTerm X && k == i + 1 && w[i]? == some X) || (G.isNonterm X && chart.contains (X, i, k))

/-- can the sentential form `α` be matched on `w[i:j]`, reading nonterminal spans from the chart? -/
def matchRhs (G : Grammar) (w : List Nat) (chart : List Fact) : List Nat → Nat → Nat → Bool
  | [], i, j => i == j
  | [X], i, j => decide (i ≤ j) && symAt G w chart X i j
  | X :: Y :: rest, i, j =>
    (List.range (j + 1 - i)).any (fun d =>
      symAt G w chart X i (i + d) && matchRhs G w chart (Y :: rest) (i + d) j)

/-- all spans `(i, j)` with `i ≤ j ≤ n`, shortest first -/
def spans (n : Nat) : List (Nat × Nat) :=
  (List.range (n + 1)).flatMap (fun d => (List.range (n + 1 - d)).map (fun i => (i, i + d)))

/-- every (production, span) pair -/
def candidates (G : Grammar) (n : Nat) : List (Prod × Nat × Nat) :=
  (spans n).flatMap (fun ij => G.prods.map (fun p => (p, ij.1, ij.2)))

/-- one pass over the candidates; the flag says whether a fact was added -/
def chartPass (G : Grammar) (w : List Nat) :
    List (Prod × Nat × Nat) → List Fact → Bool → List Fact × Bool
  | [], chart, ch => (chart, ch)
  | c :: cs, chart, ch =>
    if !chart.contains (c.1.lhs, c.2.1, c.2.2) && matchRhs G w chart c.1.rhs c.2.1 c.2.2 then
      chartPass G w cs ((c.1.lhs, c.2.1, c.2.2) :: chart) true
    else chartPass G w cs chart ch

def chartLoop (G : Grammar) (w : List Nat) : Nat → List Fact → Option (List Fact)
  | 0, _ => none
  | fuel + 1, chart =>
    let r := chartPass G w (candidates G w.length) chart false
    if r.2 then chartLoop G w fuel r.1 else some r.1

/-- membership of `w` in the language of `G` (`none` only if `fuel` is too small;
`(number of nonterminals)·(|w|+1)² + 1` passes always suffice). -/
def recognise (G : Grammar) (fuel : Nat) (w : List Nat) : Option Bool :=
  (chartLoop G w fuel []).map (fun chart => matchRhs G w chart [G.start] 0 w.length)

end Spec.CFG
