/-!
# `Spec.RVABI` — register roles of the RISC-V calling convention (import-free, not derived from ppci)

RISC-V ELF psABI, "Integer Register Convention": `x1` ra, `x2` sp, `x5–x7`/`x28–x31` temporaries, `x8` s0/fp, `x9` s1,
`x10–x17` a0–a7 (arguments, `a0`/`a1` return values), `x18–x27` s2–s11.  Preserved across calls: sp and s0–s11.
-/
namespace Spec.RVABI

/-- s0–s11: a callee must return with these unchanged -/
def calleeSaved : List Nat := [8, 9, 18, 19, 20, 21, 22, 23, 24, 25, 26, 27]

/-- a0–a7 -/
def argRegs : List Nat := [10, 11, 12, 13, 14, 15, 16, 17]

/-- registers a call may destroy: ra, t0–t6, a0–a7 -/
def callerSaved : List Nat := [1, 5, 6, 7, 10, 11, 12, 13, 14, 15, 16, 17, 28, 29, 30, 31]

end Spec.RVABI
