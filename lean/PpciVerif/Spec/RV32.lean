/-
`Spec.RV32` — RISC-V RV32I + M + Zicsr (+ `mret`) + the RV32C integer subset: instruction
datatype, decoders, one-step semantics and a printer.  Import-free.

Written from "The RISC-V Instruction Set Manual, Volume I: Unprivileged ISA" (chapters 2 RV32I,
7 "M", 9 "Zicsr", 16 "C", 24 instruction listings, 25 assembly pseudo-instructions) and NOT from
ppci.  It is validated against `llvm-mc --disassemble` 14 by harness/c08.py (random and boundary
words; see notes/RV32.md).

* registers are numbers `0..31` (`Nat`; the decoders only ever produce numbers `< 32`);
  `x0` is hard-wired to zero in `State.get/State.set`
* register values, `pc`, addresses are `Nat`s `< 2^32`; immediates/offsets are sign-extended `Int`s;
  `lui/auipc` carry the raw 20-bit field (`0 ≤ imm20 < 2^20`, as assemblers print it)
* `decode : Nat → Option Instr` for a 32-bit word (little-endian value of the 4 bytes),
  `decodeC : Nat → Option CInstr` for a 16-bit parcel, `CInstr.expand : CInstr → Instr`
  (the base instruction a compressed one is defined to be)
* `step s i len` executes `i` (`len` = 4, or 2 for an expanded compressed instruction);
  `none` = environment call / breakpoint (the effect belongs to the execution environment)
* `pretty` prints the canonical (alias-free) form in the syntax ppci uses (`x<n>` register names,
  decimal immediates, `off(base)` for loads/stores, `jalr rd, rs1, off`), `aliases` lists the
  pseudo-instruction spellings of chapter 25 that denote the same instruction
-/
namespace Spec.RV32

/-! ## instructions -/

inductive AluOp where | add | sub | sll | slt | sltu | xor | srl | sra | or | and
  deriving Repr, DecidableEq, Inhabited
inductive MulOp where | mul | mulh | mulhsu | mulhu | div | divu | rem | remu
  deriving Repr, DecidableEq, Inhabited
inductive ImmOp where | addi | slti | sltiu | xori | ori | andi
  deriving Repr, DecidableEq, Inhabited
inductive ShiftOp where | slli | srli | srai
  deriving Repr, DecidableEq, Inhabited
inductive BrOp where | beq | bne | blt | bge | bltu | bgeu
  deriving Repr, DecidableEq, Inhabited
inductive LoadOp where | lb | lh | lw | lbu | lhu
  deriving Repr, DecidableEq, Inhabited
inductive StoreOp where | sb | sh | sw
  deriving Repr, DecidableEq, Inhabited
inductive CsrOp where | rw | rs | rc
  deriving Repr, DecidableEq, Inhabited

inductive Instr where
  | lui (rd imm20 : Nat)
  | auipc (rd imm20 : Nat)
  | jal (rd : Nat) (off : Int)
  | jalr (rd rs1 : Nat) (off : Int)
  | branch (op : BrOp) (rs1 rs2 : Nat) (off : Int)
  | load (op : LoadOp) (rd rs1 : Nat) (off : Int)
  | store (op : StoreOp) (rs2 rs1 : Nat) (off : Int)
  | alui (op : ImmOp) (rd rs1 : Nat) (imm : Int)
  | shift (op : ShiftOp) (rd rs1 shamt : Nat)
  | alu (op : AluOp) (rd rs1 rs2 : Nat)
  | mul (op : MulOp) (rd rs1 rs2 : Nat)
  | fence (pred succ : Nat)
  | ecall
  | ebreak
  | mret
  | csr (op : CsrOp) (rd rs1 csr : Nat)
  | csri (op : CsrOp) (rd uimm csr : Nat)
  deriving Repr, DecidableEq, Inhabited

inductive CAluOp where | sub | xor | or | and
  deriving Repr, DecidableEq, Inhabited

/-- RV32C, integer subset.  Register operands are full register numbers (`8..15` for the
    three-bit `rd'/rs1'/rs2'` fields). -/
inductive CInstr where
  | addi4spn (rd nzuimm : Nat)
  | lw (rd rs1 uoff : Nat)
  | sw (rs2 rs1 uoff : Nat)
  | nop
  | addi (rd : Nat) (imm : Int)
  | jal (off : Int)
  | li (rd : Nat) (imm : Int)
  | addi16sp (nzimm : Int)
  | lui (rd : Nat) (nzimm : Int)          -- sign-extended 6-bit field, value loaded is `nzimm <<< 12`
  | srli (rd shamt : Nat)
  | srai (rd shamt : Nat)
  | andi (rd : Nat) (imm : Int)
  | alu (op : CAluOp) (rd rs2 : Nat)
  | j (off : Int)
  | beqz (rs1 : Nat) (off : Int)
  | bnez (rs1 : Nat) (off : Int)
  | slli (rd shamt : Nat)
  | lwsp (rd uoff : Nat)
  | jr (rs1 : Nat)
  | mv (rd rs2 : Nat)
  | ebreak
  | jalr (rs1 : Nat)
  | add (rd rs2 : Nat)
  | swsp (rs2 uoff : Nat)
  deriving Repr, DecidableEq, Inhabited

/-! ## bit fields -/

/-- the `n`-bit field of `w` starting at bit `lo` -/
@[inline] def bits (w lo n : Nat) : Nat := w / 2 ^ lo % 2 ^ n

/-- sign extension of an `n`-bit field value (`n ≥ 1`) -/
def sext (n : Nat) (v : Nat) : Int := if v < 2 ^ (n - 1) then (v : Int) else (v : Int) - 2 ^ n

/-! ## the 32-bit decoder (chapter 24, "RV32I Base Instruction Set", "RV32M", "Zicsr") -/

def immI (w : Nat) : Int := sext 12 (bits w 20 12)
def immS (w : Nat) : Int := sext 12 (bits w 25 7 * 32 + bits w 7 5)
def immB (w : Nat) : Int :=
  sext 13 (bits w 31 1 * 4096 + bits w 7 1 * 2048 + bits w 25 6 * 32 + bits w 8 4 * 2)
def immJ (w : Nat) : Int :=
  sext 21 (bits w 31 1 * 1048576 + bits w 12 8 * 4096 + bits w 20 1 * 2048 + bits w 21 10 * 2)

def decode (w : Nat) : Option Instr :=
  if 2 ^ 32 ≤ w then none else
  let opcode := bits w 0 7
  let rd := bits w 7 5
  let f3 := bits w 12 3
  let rs1 := bits w 15 5
  let rs2 := bits w 20 5
  let f7 := bits w 25 7
  if opcode = 0x37 then some (.lui rd (bits w 12 20))
  else if opcode = 0x17 then some (.auipc rd (bits w 12 20))
  else if opcode = 0x6f then some (.jal rd (immJ w))
  else if opcode = 0x67 then (if f3 = 0 then some (.jalr rd rs1 (immI w)) else none)
  else if opcode = 0x63 then
    (if f3 = 0 then some (.branch .beq rs1 rs2 (immB w))
     else if f3 = 1 then some (.branch .bne rs1 rs2 (immB w))
     else if f3 = 4 then some (.branch .blt rs1 rs2 (immB w))
     else if f3 = 5 then some (.branch .bge rs1 rs2 (immB w))
     else if f3 = 6 then some (.branch .bltu rs1 rs2 (immB w))
     else if f3 = 7 then some (.branch .bgeu rs1 rs2 (immB w))
     else none)
  else if opcode = 0x03 then
    (if f3 = 0 then some (.load .lb rd rs1 (immI w))
     else if f3 = 1 then some (.load .lh rd rs1 (immI w))
     else if f3 = 2 then some (.load .lw rd rs1 (immI w))
     else if f3 = 4 then some (.load .lbu rd rs1 (immI w))
     else if f3 = 5 then some (.load .lhu rd rs1 (immI w))
     else none)
  else if opcode = 0x23 then
    (if f3 = 0 then some (.store .sb rs2 rs1 (immS w))
     else if f3 = 1 then some (.store .sh rs2 rs1 (immS w))
     else if f3 = 2 then some (.store .sw rs2 rs1 (immS w))
     else none)
  else if opcode = 0x13 then
    (if f3 = 0 then some (.alui .addi rd rs1 (immI w))
     else if f3 = 2 then some (.alui .slti rd rs1 (immI w))
     else if f3 = 3 then some (.alui .sltiu rd rs1 (immI w))
     else if f3 = 4 then some (.alui .xori rd rs1 (immI w))
     else if f3 = 6 then some (.alui .ori rd rs1 (immI w))
     else if f3 = 7 then some (.alui .andi rd rs1 (immI w))
     else if f3 = 1 then (if f7 = 0 then some (.shift .slli rd rs1 rs2) else none)
     else (if f7 = 0 then some (.shift .srli rd rs1 rs2)
           else if f7 = 0x20 then some (.shift .srai rd rs1 rs2) else none))
  else if opcode = 0x33 then
    (if f7 = 0 then
       (if f3 = 0 then some (.alu .add rd rs1 rs2)
        else if f3 = 1 then some (.alu .sll rd rs1 rs2)
        else if f3 = 2 then some (.alu .slt rd rs1 rs2)
        else if f3 = 3 then some (.alu .sltu rd rs1 rs2)
        else if f3 = 4 then some (.alu .xor rd rs1 rs2)
        else if f3 = 5 then some (.alu .srl rd rs1 rs2)
        else if f3 = 6 then some (.alu .or rd rs1 rs2)
        else some (.alu .and rd rs1 rs2))
     else if f7 = 0x20 then
       (if f3 = 0 then some (.alu .sub rd rs1 rs2)
        else if f3 = 5 then some (.alu .sra rd rs1 rs2)
        else none)
     else if f7 = 1 then
       (if f3 = 0 then some (.mul .mul rd rs1 rs2)
        else if f3 = 1 then some (.mul .mulh rd rs1 rs2)
        else if f3 = 2 then some (.mul .mulhsu rd rs1 rs2)
        else if f3 = 3 then some (.mul .mulhu rd rs1 rs2)
        else if f3 = 4 then some (.mul .div rd rs1 rs2)
        else if f3 = 5 then some (.mul .divu rd rs1 rs2)
        else if f3 = 6 then some (.mul .rem rd rs1 rs2)
        else some (.mul .remu rd rs1 rs2))
     else none)
  else if opcode = 0x0f then
    -- FENCE with fm = 0, rd = rs1 = 0 (the only form RV32I defines; others are reserved)
    (if f3 = 0 ∧ rd = 0 ∧ rs1 = 0 ∧ bits w 28 4 = 0 then some (.fence (bits w 24 4) (bits w 20 4)) else none)
  else if opcode = 0x73 then
    (if f3 = 0 then
       -- SYSTEM, funct3 = 0: rd = rs1 = 0 and funct12 selects ECALL / EBREAK / MRET
       (if rd = 0 ∧ rs1 = 0 then
          (if bits w 20 12 = 0 then some .ecall
           else if bits w 20 12 = 1 then some .ebreak
           else if bits w 20 12 = 0x302 then some .mret
           else none)
        else none)
     else if f3 = 1 then some (.csr .rw rd rs1 (bits w 20 12))
     else if f3 = 2 then some (.csr .rs rd rs1 (bits w 20 12))
     else if f3 = 3 then some (.csr .rc rd rs1 (bits w 20 12))
     else if f3 = 5 then some (.csri .rw rd rs1 (bits w 20 12))
     else if f3 = 6 then some (.csri .rs rd rs1 (bits w 20 12))
     else if f3 = 7 then some (.csri .rc rd rs1 (bits w 20 12))
     else none)
  else none

/-! ## the 16-bit decoder (chapter 16, tables 16.5–16.7, RV32 columns, integer subset) -/

/-- CJ-format offset: `imm[11|4|9:8|10|6|7|3:1|5]` in bits `12|11|10:9|8|7|6|5:3|2` -/
def immCJ (h : Nat) : Int :=
  sext 12 (bits h 12 1 * 2048 + bits h 11 1 * 16 + bits h 9 2 * 256 + bits h 8 1 * 1024
           + bits h 7 1 * 64 + bits h 6 1 * 128 + bits h 3 3 * 2 + bits h 2 1 * 32)
/-- CB-format offset: `offset[8|4:3]` in bits `12|11:10`, `offset[7:6|2:1|5]` in bits `6:5|4:3|2` -/
def immCB (h : Nat) : Int :=
  sext 9 (bits h 12 1 * 256 + bits h 10 2 * 8 + bits h 5 2 * 64 + bits h 3 2 * 2 + bits h 2 1 * 32)
/-- CI-format 6-bit immediate `imm[5]` = bit 12, `imm[4:0]` = bits `6:2` -/
def immCI (h : Nat) : Int := sext 6 (bits h 12 1 * 32 + bits h 2 5)

def decodeC (h : Nat) : Option CInstr :=
  if 2 ^ 16 ≤ h then none else
  let op := bits h 0 2
  let f3 := bits h 13 3
  let rdF := bits h 7 5          -- full 5-bit rd/rs1
  let rs2F := bits h 2 5         -- full 5-bit rs2
  let rdP := 8 + bits h 7 3      -- rd'/rs1'
  let rs2P := 8 + bits h 2 3     -- rd'/rs2' of the CL/CS/CIW formats
  let b12 := bits h 12 1
  if op = 0 then
    (if f3 = 0 then
       (let nz := bits h 7 4 * 64 + bits h 11 2 * 16 + bits h 5 1 * 8 + bits h 6 1 * 4
        if nz = 0 then none else some (.addi4spn rs2P nz))
     else if f3 = 2 then some (.lw rs2P rdP (bits h 5 1 * 64 + bits h 10 3 * 8 + bits h 6 1 * 4))
     else if f3 = 6 then some (.sw rs2P rdP (bits h 5 1 * 64 + bits h 10 3 * 8 + bits h 6 1 * 4))
     else none)
  else if op = 1 then
    (if f3 = 0 then (if rdF = 0 then (if immCI h = 0 then some .nop else none) else some (.addi rdF (immCI h)))
     else if f3 = 1 then some (.jal (immCJ h))
     else if f3 = 2 then some (.li rdF (immCI h))
     else if f3 = 3 then
       (if rdF = 2 then
          (let nz := sext 10 (b12 * 512 + bits h 3 2 * 128 + bits h 5 1 * 64 + bits h 2 1 * 32 + bits h 6 1 * 16)
           if nz = 0 then none else some (.addi16sp nz))
        else if immCI h = 0 then none else some (.lui rdF (immCI h)))
     else if f3 = 4 then
       (let sel := bits h 10 2
        if sel = 0 then (if b12 = 0 then some (.srli rdP rs2F) else none)
        else if sel = 1 then (if b12 = 0 then some (.srai rdP rs2F) else none)
        else if sel = 2 then some (.andi rdP (immCI h))
        else if b12 = 0 then
          (let f2 := bits h 5 2
           if f2 = 0 then some (.alu .sub rdP rs2P)
           else if f2 = 1 then some (.alu .xor rdP rs2P)
           else if f2 = 2 then some (.alu .or rdP rs2P)
           else some (.alu .and rdP rs2P))
        else none)
     else if f3 = 5 then some (.j (immCJ h))
     else if f3 = 6 then some (.beqz rdP (immCB h))
     else some (.bnez rdP (immCB h)))
  else if op = 2 then
    (if f3 = 0 then (if b12 = 0 then some (.slli rdF rs2F) else none)
     else if f3 = 2 then
       (if rdF = 0 then none else some (.lwsp rdF (bits h 2 2 * 64 + b12 * 32 + bits h 4 3 * 4)))
     else if f3 = 4 then
       (if b12 = 0 then
          (if rs2F = 0 then (if rdF = 0 then none else some (.jr rdF)) else some (.mv rdF rs2F))
        else
          (if rs2F = 0 then (if rdF = 0 then some .ebreak else some (.jalr rdF)) else some (.add rdF rs2F)))
     else if f3 = 6 then some (.swsp rs2F (bits h 7 2 * 64 + bits h 9 4 * 4))
     else none)
  else none

/-- the base instruction each compressed instruction expands to (chapter 16) -/
def CInstr.expand : CInstr → Instr
  | .addi4spn rd nz => .alui .addi rd 2 nz
  | .lw rd rs1 off => .load .lw rd rs1 off
  | .sw rs2 rs1 off => .store .sw rs2 rs1 off
  | .nop => .alui .addi 0 0 0
  | .addi rd imm => .alui .addi rd rd imm
  | .jal off => .jal 1 off
  | .li rd imm => .alui .addi rd 0 imm
  | .addi16sp nz => .alui .addi 2 2 nz
  | .lui rd nz => .lui rd (nz % 2 ^ 20).toNat
  | .srli rd sh => .shift .srli rd rd sh
  | .srai rd sh => .shift .srai rd rd sh
  | .andi rd imm => .alui .andi rd rd imm
  | .alu .sub rd rs2 => .alu .sub rd rd rs2
  | .alu .xor rd rs2 => .alu .xor rd rd rs2
  | .alu .or rd rs2 => .alu .or rd rd rs2
  | .alu .and rd rs2 => .alu .and rd rd rs2
  | .j off => .jal 0 off
  | .beqz rs1 off => .branch .beq rs1 0 off
  | .bnez rs1 off => .branch .bne rs1 0 off
  | .slli rd sh => .shift .slli rd rd sh
  | .lwsp rd off => .load .lw rd 2 off
  | .jr rs1 => .jalr 0 rs1 0
  | .mv rd rs2 => .alu .add rd 0 rs2
  | .ebreak => .ebreak
  | .jalr rs1 => .jalr 1 rs1 0
  | .add rd rs2 => .alu .add rd rd rs2
  | .swsp rs2 off => .store .sw rs2 2 off

/-! ## machine state and one-step semantics (chapter 2, 7, 9) -/

structure State where
  regs : Nat → Nat        -- x1..x31 (index 0 is never consulted)
  pc : Nat
  mem : Nat → Nat         -- byte at each address `< 2^32`
  csr : Nat → Nat

def W : Nat := 2 ^ 32

def State.get (s : State) (r : Nat) : Nat := if r = 0 then 0 else s.regs r
def State.set (s : State) (r : Nat) (v : Nat) : State :=
  if r = 0 then s else { s with regs := fun i => if i = r then v % W else s.regs i }

/-- two's-complement reading of a 32-bit value -/
def toS (v : Nat) : Int := if v < 2 ^ 31 then (v : Int) else (v : Int) - 2 ^ 32
/-- the 32-bit value of an integer -/
def ofInt (z : Int) : Nat := (z % 2 ^ 32).toNat

def addOff (a : Nat) (off : Int) : Nat := ofInt ((a : Int) + off)

def aluOp : AluOp → Nat → Nat → Nat
  | .add, a, b => (a + b) % W
  | .sub, a, b => ofInt ((a : Int) - b)
  | .sll, a, b => (a <<< (b % 32)) % W
  | .slt, a, b => if toS a < toS b then 1 else 0
  | .sltu, a, b => if a < b then 1 else 0
  | .xor, a, b => a ^^^ b
  | .srl, a, b => a >>> (b % 32)
  | .sra, a, b => ofInt (toS a / 2 ^ (b % 32))
  | .or, a, b => a ||| b
  | .and, a, b => a &&& b

def immOp : ImmOp → Nat → Int → Nat
  | .addi, a, i => addOff a i
  | .slti, a, i => if toS a < i then 1 else 0
  | .sltiu, a, i => if a < ofInt i then 1 else 0
  | .xori, a, i => a ^^^ ofInt i
  | .ori, a, i => a ||| ofInt i
  | .andi, a, i => a &&& ofInt i

def shiftOp : ShiftOp → Nat → Nat → Nat
  | .slli, a, sh => (a <<< sh) % W
  | .srli, a, sh => a >>> sh
  | .srai, a, sh => ofInt (toS a / 2 ^ sh)

def mulOp : MulOp → Nat → Nat → Nat
  | .mul, a, b => (a * b) % W
  | .mulh, a, b => ofInt (toS a * toS b / 2 ^ 32)
  | .mulhsu, a, b => ofInt (toS a * (b : Int) / 2 ^ 32)
  | .mulhu, a, b => a * b / W
  | .div, a, b => if b = 0 then W - 1 else ofInt (Int.tdiv (toS a) (toS b))
  | .divu, a, b => if b = 0 then W - 1 else a / b
  | .rem, a, b => if b = 0 then a else ofInt (Int.tmod (toS a) (toS b))
  | .remu, a, b => if b = 0 then a else a % b

def brOp : BrOp → Nat → Nat → Bool
  | .beq, a, b => a == b
  | .bne, a, b => a != b
  | .blt, a, b => decide (toS a < toS b)
  | .bge, a, b => decide (toS b ≤ toS a)
  | .bltu, a, b => decide (a < b)
  | .bgeu, a, b => decide (b ≤ a)

def loadByte (s : State) (a : Nat) : Nat := s.mem (a % W) % 256
def loadLE (s : State) (a : Nat) : Nat → Nat
  | 0 => 0
  | n + 1 => loadByte s a + 256 * loadLE s (a + 1) n

def storeLE (m : Nat → Nat) (a : Nat) (v : Nat) : Nat → (Nat → Nat)
  | 0 => m
  | n + 1 => storeLE (fun x => if x = a % W then v % 256 else m x) (a + 1) (v / 256) n

def loadOp : LoadOp → State → Nat → Nat
  | .lb, s, a => ofInt (let v := loadLE s a 1; if v < 128 then (v : Int) else (v : Int) - 256)
  | .lh, s, a => ofInt (let v := loadLE s a 2; if v < 32768 then (v : Int) else (v : Int) - 65536)
  | .lw, s, a => loadLE s a 4
  | .lbu, s, a => loadLE s a 1
  | .lhu, s, a => loadLE s a 2

def storeWidth : StoreOp → Nat
  | .sb => 1 | .sh => 2 | .sw => 4

def csrNew : CsrOp → Nat → Nat → Nat
  | .rw, _, v => v
  | .rs, old, v => old ||| v
  | .rc, old, v => old &&& (W - 1 - v)

/-- address of `mepc` (privileged spec; used by `mret` only) -/
def mepc : Nat := 0x341

/-- execute one instruction of length `len` bytes.  `none`: `ecall`/`ebreak` transfer control to
    the execution environment.  CSRs are plain storage here (no side effects, no access checks);
    `mret` only restores `pc` from `mepc`. -/
def step (s : State) (i : Instr) (len : Nat := 4) : Option State :=
  let next := (s.pc + len) % W
  match i with
  | .lui rd imm => some { s.set rd (imm * 4096 % W) with pc := next }
  | .auipc rd imm => some { s.set rd ((s.pc + imm * 4096) % W) with pc := next }
  | .jal rd off => some { s.set rd next with pc := addOff s.pc off }
  | .jalr rd rs1 off =>
      let t := addOff (s.get rs1) off
      some { s.set rd next with pc := t - t % 2 }
  | .branch op rs1 rs2 off =>
      some { s with pc := if brOp op (s.get rs1) (s.get rs2) then addOff s.pc off else next }
  | .load op rd rs1 off => some { s.set rd (loadOp op s (addOff (s.get rs1) off)) with pc := next }
  | .store op rs2 rs1 off =>
      some { s with mem := storeLE s.mem (addOff (s.get rs1) off) (s.get rs2) (storeWidth op), pc := next }
  | .alui op rd rs1 imm => some { s.set rd (immOp op (s.get rs1) imm) with pc := next }
  | .shift op rd rs1 sh => some { s.set rd (shiftOp op (s.get rs1) sh) with pc := next }
  | .alu op rd rs1 rs2 => some { s.set rd (aluOp op (s.get rs1) (s.get rs2)) with pc := next }
  | .mul op rd rs1 rs2 => some { s.set rd (mulOp op (s.get rs1) (s.get rs2)) with pc := next }
  | .fence _ _ => some { s with pc := next }
  | .ecall => none
  | .ebreak => none
  | .mret => some { s with pc := s.csr mepc % W }
  | .csr op rd rs1 c =>
      let old := s.csr c % W
      let s' := s.set rd old
      -- csrrs/csrrc with rs1 = x0 do not write the CSR; csrrw always does
      let wr := match op with | .rw => true | _ => rs1 != 0
      some { s' with csr := if wr then (fun x => if x = c then csrNew op old (s.get rs1) else s.csr x) else s.csr,
                     pc := next }
  | .csri op rd uimm c =>
      let old := s.csr c % W
      let s' := s.set rd old
      let wr := match op with | .rw => true | _ => uimm != 0
      some { s' with csr := if wr then (fun x => if x = c then csrNew op old uimm else s.csr x) else s.csr,
                     pc := next }

/-- a compressed instruction executes as its expansion, with `pc` advancing by 2 -/
def stepC (s : State) (c : CInstr) : Option State := step s c.expand 2

/-! ## printing -/

def AluOp.name : AluOp → String
  | .add => "add" | .sub => "sub" | .sll => "sll" | .slt => "slt" | .sltu => "sltu"
  | .xor => "xor" | .srl => "srl" | .sra => "sra" | .or => "or" | .and => "and"
def MulOp.name : MulOp → String
  | .mul => "mul" | .mulh => "mulh" | .mulhsu => "mulhsu" | .mulhu => "mulhu"
  | .div => "div" | .divu => "divu" | .rem => "rem" | .remu => "remu"
def ImmOp.name : ImmOp → String
  | .addi => "addi" | .slti => "slti" | .sltiu => "sltiu" | .xori => "xori" | .ori => "ori" | .andi => "andi"
def ShiftOp.name : ShiftOp → String
  | .slli => "slli" | .srli => "srli" | .srai => "srai"
def BrOp.name : BrOp → String
  | .beq => "beq" | .bne => "bne" | .blt => "blt" | .bge => "bge" | .bltu => "bltu" | .bgeu => "bgeu"
def LoadOp.name : LoadOp → String
  | .lb => "lb" | .lh => "lh" | .lw => "lw" | .lbu => "lbu" | .lhu => "lhu"
def StoreOp.name : StoreOp → String
  | .sb => "sb" | .sh => "sh" | .sw => "sw"
def CsrOp.name : CsrOp → String
  | .rw => "csrrw" | .rs => "csrrs" | .rc => "csrrc"
def CAluOp.name : CAluOp → String
  | .sub => "c.sub" | .xor => "c.xor" | .or => "c.or" | .and => "c.and"

/-- an operand as printed: a register `x<n>`, a decimal immediate, a CSR number -/
inductive Tok where
  | word (s : String)
  | reg (n : Nat)
  | imm (v : Int)
  | csr (n : Nat)
  deriving Repr, DecidableEq, Inhabited

/-- mnemonic and operands of the canonical form, in the order ppci prints them:
    `op rd, rs1, rs2` · `op rd, rs1, imm` · `op rd, off(rs1)` ↦ `[rd, off, rs1]` ·
    `op rs2, off(rs1)` · `bxx rs1, rs2, off` · `jal rd, off` · `jalr rd, rs1, off` ·
    `csrrw rd, csr, rs1` -/
def Instr.toks : Instr → List Tok
  | .lui rd imm => [.word "lui", .reg rd, .imm imm]
  | .auipc rd imm => [.word "auipc", .reg rd, .imm imm]
  | .jal rd off => [.word "jal", .reg rd, .imm off]
  | .jalr rd rs1 off => [.word "jalr", .reg rd, .reg rs1, .imm off]
  | .branch op rs1 rs2 off => [.word op.name, .reg rs1, .reg rs2, .imm off]
  | .load op rd rs1 off => [.word op.name, .reg rd, .imm off, .reg rs1]
  | .store op rs2 rs1 off => [.word op.name, .reg rs2, .imm off, .reg rs1]
  | .alui op rd rs1 imm => [.word op.name, .reg rd, .reg rs1, .imm imm]
  | .shift op rd rs1 sh => [.word op.name, .reg rd, .reg rs1, .imm sh]
  | .alu op rd rs1 rs2 => [.word op.name, .reg rd, .reg rs1, .reg rs2]
  | .mul op rd rs1 rs2 => [.word op.name, .reg rd, .reg rs1, .reg rs2]
  | .fence p q => [.word "fence", .imm p, .imm q]
  | .ecall => [.word "ecall"]
  | .ebreak => [.word "ebreak"]
  | .mret => [.word "mret"]
  | .csr op rd rs1 c => [.word op.name, .reg rd, .csr c, .reg rs1]
  | .csri op rd u c => [.word (op.name ++ "i"), .reg rd, .csr c, .imm u]

/-- pseudo-instruction spellings (chapter 25, tables 25.2/25.3) that denote `i`, as token lists.
    `bgt/ble/bgtu/bleu a, b` swap the operands of `blt/bge/bltu/bgeu`. -/
def Instr.aliases : Instr → List (List Tok)
  | .alui .addi rd rs1 0 =>
      (if rd = 0 ∧ rs1 = 0 then [[.word "nop"]] else []) ++ [[.word "mv", .reg rd, .reg rs1]]
  | .jal 0 off => [[.word "j", .imm off]]
  | .jal 1 off => [[.word "jal", .imm off]]
  | .jalr 0 rs1 0 => (if rs1 = 1 then [[.word "ret"]] else []) ++ [[.word "jr", .reg rs1]]
  | .jalr 1 rs1 0 => [[.word "jalr", .reg rs1]]
  | .branch .blt rs1 rs2 off => [[.word "bgt", .reg rs2, .reg rs1, .imm off]]
  | .branch .bge rs1 rs2 off => [[.word "ble", .reg rs2, .reg rs1, .imm off]]
  | .branch .bltu rs1 rs2 off => [[.word "bgtu", .reg rs2, .reg rs1, .imm off]]
  | .branch .bgeu rs1 rs2 off => [[.word "bleu", .reg rs2, .reg rs1, .imm off]]
  | .csr .rs rd rs1 c =>
      (if rs1 = 0 then
        [[.word "csrr", .reg rd, .csr c]]
        ++ (if c = 0xC00 then [[.word "rdcycle", .reg rd]] else [])
        ++ (if c = 0xC80 then [[.word "rdcycleh", .reg rd]] else [])
        ++ (if c = 0xC01 then [[.word "rdtime", .reg rd]] else [])
        ++ (if c = 0xC81 then [[.word "rdtimeh", .reg rd]] else [])
        ++ (if c = 0xC02 then [[.word "rdinstret", .reg rd]] else [])
        ++ (if c = 0xC82 then [[.word "rdinstreth", .reg rd]] else [])
       else [])
      ++ (if rd = 0 then [[.word "csrs", .csr c, .reg rs1]] else [])
  | .csr .rw 0 rs1 c => [[.word "csrw", .csr c, .reg rs1]]
  | .csr .rc 0 rs1 c => [[.word "csrc", .csr c, .reg rs1]]
  | .csri .rw 0 u c => [[.word "csrwi", .csr c, .imm u]]
  | .csri .rs 0 u c => [[.word "csrsi", .csr c, .imm u]]
  | .csri .rc 0 u c => [[.word "csrci", .csr c, .imm u]]
  | _ => []

/-- `ts` is a spelling of `i` -/
def Instr.spelledBy (i : Instr) (ts : List Tok) : Prop := ts = i.toks ∨ ts ∈ i.aliases

instance (i : Instr) (ts : List Tok) : Decidable (i.spelledBy ts) := by
  unfold Instr.spelledBy; exact inferInstance

/-- compressed instructions: the assembler form `c.op` with the implicit operands left out
    (`c.addi rd, imm`; `c.lwsp rd, off(x2)` keeps its literal `x2`) -/
def CInstr.toks : CInstr → List Tok
  | .addi4spn rd nz => [.word "c.addi4spn", .reg rd, .reg 2, .imm nz]
  | .lw rd rs1 off => [.word "c.lw", .reg rd, .imm off, .reg rs1]
  | .sw rs2 rs1 off => [.word "c.sw", .reg rs2, .imm off, .reg rs1]
  | .nop => [.word "c.nop"]
  | .addi rd imm => [.word "c.addi", .reg rd, .imm imm]
  | .jal off => [.word "c.jal", .imm off]
  | .li rd imm => [.word "c.li", .reg rd, .imm imm]
  | .addi16sp nz => [.word "c.addi16sp", .reg 2, .imm nz]
  | .lui rd nz => [.word "c.lui", .reg rd, .imm nz]
  | .srli rd sh => [.word "c.srli", .reg rd, .imm sh]
  | .srai rd sh => [.word "c.srai", .reg rd, .imm sh]
  | .andi rd imm => [.word "c.andi", .reg rd, .imm imm]
  | .alu op rd rs2 => [.word op.name, .reg rd, .reg rs2]
  | .j off => [.word "c.j", .imm off]
  | .beqz rs1 off => [.word "c.beqz", .reg rs1, .imm off]
  | .bnez rs1 off => [.word "c.bnez", .reg rs1, .imm off]
  | .slli rd sh => [.word "c.slli", .reg rd, .imm sh]
  | .lwsp rd off => [.word "c.lwsp", .reg rd, .imm off, .reg 2]
  | .jr rs1 => [.word "c.jr", .reg rs1]
  | .mv rd rs2 => [.word "c.mv", .reg rd, .reg rs2]
  | .ebreak => [.word "c.ebreak"]
  | .jalr rs1 => [.word "c.jalr", .reg rs1]
  | .add rd rs2 => [.word "c.add", .reg rd, .reg rs2]
  | .swsp rs2 off => [.word "c.swsp", .reg rs2, .imm off, .reg 2]

/-- other accepted spellings of a compressed instruction: with the destination repeated as the
    source (`c.addi rd, rd, imm`, the three-operand form of the base instruction), or with the
    implicit stack pointer left out (`c.addi16sp imm`, `c.addi4spn rd, imm`) -/
def CInstr.aliases : CInstr → List (List Tok)
  | .addi4spn rd nz => [[.word "c.addi4spn", .reg rd, .imm nz]]
  | .addi rd imm => [[.word "c.addi", .reg rd, .reg rd, .imm imm]]
  | .addi16sp nz => [[.word "c.addi16sp", .imm nz]]
  | .srli rd sh => [[.word "c.srli", .reg rd, .reg rd, .imm sh]]
  | .srai rd sh => [[.word "c.srai", .reg rd, .reg rd, .imm sh]]
  | .andi rd imm => [[.word "c.andi", .reg rd, .reg rd, .imm imm]]
  | .slli rd sh => [[.word "c.slli", .reg rd, .reg rd, .imm sh]]
  | _ => []

def CInstr.spelledBy (c : CInstr) (ts : List Tok) : Prop := ts = c.toks ∨ ts ∈ c.aliases

instance (c : CInstr) (ts : List Tok) : Decidable (c.spelledBy ts) := by
  unfold CInstr.spelledBy; exact inferInstance

def Tok.str : Tok → String
  | .word s => s
  | .reg n => "x" ++ toString n
  | .imm v => toString v
  | .csr n => toString n

/-- shapes with a memory operand print as `op r, off(base)` -/
def memShape : List Tok → Bool
  | [.word _, .reg _, .imm _, .reg _] => true
  | _ => false

def renderToks (ts : List Tok) : String :=
  match ts with
  | [] => ""
  | [m] => m.str
  | [m, a, b, c] =>
      if memShape ts then m.str ++ " " ++ a.str ++ ", " ++ b.str ++ "(" ++ c.str ++ ")"
      else m.str ++ " " ++ a.str ++ ", " ++ b.str ++ ", " ++ c.str
  | m :: rest => m.str ++ " " ++ ", ".intercalate (rest.map Tok.str)

/-- canonical text, e.g. `add x5, x6, x7`, `lw x5, -4(x2)`, `jalr x1, x5, 0`, `c.addi x5, -1` -/
def pretty (i : Instr) : String := renderToks i.toks
def prettyC (c : CInstr) : String := renderToks c.toks

end Spec.RV32
