/-
Specification side of C19 (import-free, independent of ppci's code): a strict
reader for Motorola S-record files.

  record = 'S' t  CC  AA…  DD…  KK          (two hex digits per byte)
    t   record type 0–9
    CC  count = number of the bytes that follow (address + data + checksum)
    AA… address, big endian: 2 bytes for S0 S1 S5 S9, 3 for S2 S6 S8, 4 for S3 S7
    KK  checksum = one's complement of the low byte of the sum of CC, AA…, DD…
        (so the sum of all bytes CC … KK is 0xFF modulo 256)
  S0 header (address 0000, data = header text) — may only come first
  S1/S2/S3 data at a 16/24/32-bit address; the bytes go to address, address+1, …
           and must stay inside the address width of the record type
  S4 reserved — rejected
  S5/S6 optional count of the data records so far (no data bytes)
  S9/S8/S7 termination (and start address) of a block of S1/S2/S3 records
           respectively; exactly one, last, no data bytes.
All data records of a file use the type that the termination record pairs with.
-/
namespace Spec.SRec

def hexVal (c : Char) : Option Nat :=
  if '0' ≤ c ∧ c ≤ '9' then some (c.toNat - '0'.toNat)
  else if 'A' ≤ c ∧ c ≤ 'F' then some (c.toNat - 'A'.toNat + 10)
  else if 'a' ≤ c ∧ c ≤ 'f' then some (c.toNat - 'a'.toNat + 10)
  else none

def hexBytes : List Char → Option (List Nat)
  | [] => some []
  | [_] => none
  | hi :: lo :: rest =>
    match hexVal hi, hexVal lo, hexBytes rest with
    | some h, some l, some bs => some ((h * 16 + l) :: bs)
    | _, _, _ => none

def digit (c : Char) : Option Nat :=
  if '0' ≤ c ∧ c ≤ '9' then some (c.toNat - '0'.toNat) else none

/-- width of the address field in bytes -/
def addrLen : Nat → Option Nat
  | 0 => some 2 | 1 => some 2 | 5 => some 2 | 9 => some 2
  | 2 => some 3 | 6 => some 3 | 8 => some 3
  | 3 => some 4 | 7 => some 4
  | _ => none

def beVal : List Nat → Nat
  | [] => 0
  | b :: bs => b * 256 ^ bs.length + beVal bs

structure Record where
  typ : Nat
  address : Nat
  data : List Nat
  deriving Repr, DecidableEq

/-- record grammar, count and checksum -/
def parseRecord : List Char → Option Record
  | 'S' :: t :: cs =>
    match digit t, hexBytes cs with
    | some typ, some (count :: rest) =>
      match addrLen typ with
      | some n =>
        if rest.length = count ∧ n + 1 ≤ count ∧ (count + rest.sum) % 256 = 255
        then some ⟨typ, beVal (rest.take n), (rest.drop n).dropLast⟩ else none
      | none => none
    | _, _ => none
  | _ => none

def parseAll : List (List Char) → Option (List Record)
  | [] => some []
  | l :: ls =>
    match parseRecord l, parseAll ls with
    | some r, some rs => some (r :: rs)
    | _, _ => none

def cellsOf (a : Nat) : List Nat → List (Nat × Nat)
  | [] => []
  | b :: bs => (a, b) :: cellsOf (a + 1) bs

structure Image where
  /-- header text of the S0 record, if any -/
  header : Option (List Nat)
  /-- (address, byte) in file order -/
  mem : List (Nat × Nat)
  /-- start address of the termination record -/
  start : Nat
  deriving Repr, DecidableEq

/-- the records after the optional header; `dt` = type of the data records seen so far,
    `n` = their number -/
def body (dt : Option Nat) (n : Nat) : List Record → Option (List (Nat × Nat) × Nat)
  | [] => none
  | r :: rs =>
    if r.typ = 1 ∨ r.typ = 2 ∨ r.typ = 3 then
      if (dt = none ∨ dt = some r.typ) ∧ r.address + r.data.length ≤ 256 ^ (r.typ + 1) then
        match body (some r.typ) (n + 1) rs with
        | some (m, s) => some (cellsOf r.address r.data ++ m, s)
        | none => none
      else none
    else if r.typ = 5 ∨ r.typ = 6 then
      if r.data.length = 0 ∧ r.address = n then body dt n rs else none
    else if r.typ = 7 ∨ r.typ = 8 ∨ r.typ = 9 then
      if r.data.length = 0 ∧ rs.length = 0 ∧ (dt = none ∨ dt = some (10 - r.typ)) then some ([], r.address)
      else none
    else none

/-- read a whole file (list of lines) -/
def read (lines : List (List Char)) : Option Image :=
  match parseAll lines with
  | none => none
  | some [] => none
  | some (r :: rs) =>
    if r.typ = 0 then
      if r.address = 0 then
        match body none 0 rs with
        | some (m, s) => some ⟨some r.data, m, s⟩
        | none => none
      else none
    else
      match body none 0 (r :: rs) with
      | some (m, s) => some ⟨none, m, s⟩
      | none => none

end Spec.SRec
