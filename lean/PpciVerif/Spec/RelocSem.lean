import PpciVerif.Spec.Bits
/-
`Spec.RelocSem` — what a relocated field MEANS, per relocation type, written from the
architecture manuals (not from ppci):

* RISC-V: "The RISC-V Instruction Set Manual, Volume I" v2.2 — B-type (§2.5 conditional branches:
  imm[12|10:5] in bits 31|30:25, imm[4:1|11] in bits 11:8|7), J-type (JAL: imm[20|10:1|11|19:12] in
  bits 31|30:21|20|19:12), U-type (imm[31:12] in bits 31:12), I-type (imm[11:0] in bits 31:20,
  sign-extended); LUI+ADDI / AUIPC+ADDI pairs compute `(hi << 12) + sext(lo)` modulo 2^32.
  RVC (ch. 12): CJ format offset[11|4|9:8|10|6|7|3:1|5] in bits 12:2; CB format offset[8|4:3] in
  bits 12:10, offset[7:6|2:1|5] in bits 6:2.
* ARM (ARM ARM DDI 0406): A1 `B/BL`: target = PC + 8 + SignExtend(imm24:'00'); `LDR (literal)` A1:
  address = Align(PC,4) + 8 ± imm12 (U = bit 23); `ADR` A1/A2 = `ADD/SUB rd, pc, #ARMExpandImm(imm12)`
  (ADD: bits 24:21 = 0100, SUB: 0010), ARMExpandImm = imm8 rotated right by 2·rot.
  Thumb: `LDR (literal)` T1: Align(PC+4,4) + imm8·4; `B` T2: PC + 4 + SignExtend(imm11:'0');
  `B<c>` T1: PC + 4 + SignExtend(imm8:'0'); `BL` T1: imm32 = SignExtend(S:I1:I2:imm10:imm11:'0'),
  I1 = NOT(J1 EOR S), I2 = NOT(J2 EOR S); `B<c>.W` T3: imm32 = SignExtend(S:J2:J1:imm6:imm11:'0').
* x86-64 (Intel SDM vol. 2): `JMP/CALL/Jcc rel32`: target = address of the next instruction + sext(disp32),
  the displacement being the last 4 bytes, so target = P + 4 + sext32(field) for a field at P;
  (`decodeTarget` returns the field-relative address P + sext32(field), to be compared with S + A);
  `JMP rel8`: P + 1 + sext8; absolute 32/64-bit immediates hold the address itself.

All decoders read the little-endian integer `w` of the relocated bytes (`wordLE`).
`P` is the address of the first relocated byte.  Import-free apart from `Spec.Bits`.
-/
namespace Spec.RelocSem
open Spec.Bits

def wordLE : List Nat → Nat
  | [] => 0
  | b :: bs => b + 256 * wordLE bs

/-- bits `[lo, lo+len)` of `w` -/
def bits (w lo len : Nat) : Nat := w / 2 ^ lo % 2 ^ len

/-! ### RISC-V -/

/-- byte offset encoded by a B-type instruction word -/
def rvBOffset (w : Nat) : Int :=
  wrapS 13 (bits w 31 1 * 4096 + bits w 7 1 * 2048 + bits w 25 6 * 32 + bits w 8 4 * 2 : Nat)

/-- byte offset encoded by a J-type instruction word (JAL) -/
def rvJOffset (w : Nat) : Int :=
  wrapS 21 (bits w 31 1 * 1048576 + bits w 12 8 * 4096 + bits w 20 1 * 2048 + bits w 21 10 * 2 : Nat)

/-- the value a U-type instruction contributes: `imm[31:12] << 12` -/
def rvUValue (w : Nat) : Int := (bits w 12 20 * 4096 : Nat)

/-- sign-extended I-type immediate -/
def rvIImm (w : Nat) : Int := wrapS 12 (bits w 20 12 : Nat)

/-- the 32-bit value produced by a `lui/auipc rd, hi ; addi rd, rd, lo` pair -/
def rvHiLo (whi wlo : Nat) : Int := wrapU 32 (rvUValue whi + rvIImm wlo)

/-- byte offset encoded by a C.J / C.JAL halfword -/
def rvcJOffset (h : Nat) : Int :=
  wrapS 12 (bits h 12 1 * 2048 + bits h 8 1 * 1024 + bits h 9 2 * 256 + bits h 6 1 * 128
    + bits h 7 1 * 64 + bits h 2 1 * 32 + bits h 11 1 * 16 + bits h 3 3 * 2 : Nat)

/-- byte offset encoded by a C.BEQZ / C.BNEZ halfword -/
def rvcBOffset (h : Nat) : Int :=
  wrapS 9 (bits h 12 1 * 256 + bits h 5 2 * 64 + bits h 2 1 * 32 + bits h 10 2 * 8 + bits h 3 2 * 2 : Nat)

/-! ### ARM (A32) -/

def armBTarget (w : Nat) (P : Int) : Int := P + 8 + wrapS 26 (bits w 0 24 * 4 : Nat)

/-- address read by `LDR rt, [pc, #±imm12]` at word-aligned `P` -/
def armLdrLitAddr (w : Nat) (P : Int) : Int :=
  if bits w 23 1 = 1 then P + 8 + (bits w 0 12 : Nat) else P + 8 - (bits w 0 12 : Nat)

/-- `ARMExpandImm(imm12)`: imm8 rotated right by `2·rot` in 32 bits -/
def armExpandImm (imm12 : Nat) : Nat :=
  let rot := 2 * (imm12 / 256 % 16)
  let v := imm12 % 256
  (v / 2 ^ rot + v % 2 ^ rot * 2 ^ (32 - rot)) % 2 ^ 32

/-- value computed by `ADR` (= `ADD`/`SUB rd, pc, #const`) at word-aligned `P`;
    `none` if bits 24:21 are neither ADD (0100) nor SUB (0010) -/
def armAdrValue (w : Nat) (P : Int) : Option Int :=
  if bits w 21 4 = 4 then some (P + 8 + (armExpandImm (bits w 0 12) : Nat))
  else if bits w 21 4 = 2 then some (P + 8 - (armExpandImm (bits w 0 12) : Nat))
  else none

/-! ### Thumb -/

/-- `Align(x, 4)`: round down -/
def alignDown4 (x : Int) : Int := x - x % 4

def thumbLdrLitAddr (h : Nat) (P : Int) : Int := alignDown4 (P + 4) + (bits h 0 8 * 4 : Nat)

def thumbBTarget (h : Nat) (P : Int) : Int := P + 4 + wrapS 12 (bits h 0 11 * 2 : Nat)

def thumbBcTarget (h : Nat) (P : Int) : Int := P + 4 + wrapS 9 (bits h 0 8 * 2 : Nat)

/-- `BL` T1 on the 32-bit little-endian view (first halfword = bits 0..15) -/
def thumbBlTarget (w : Nat) (P : Int) : Int :=
  let hw1 := w % 65536
  let hw2 := w / 65536
  let s := bits hw1 10 1
  let j1 := bits hw2 13 1
  let j2 := bits hw2 11 1
  let i1 := if j1 = s then 1 else 0        -- NOT(J1 EOR S)
  let i2 := if j2 = s then 1 else 0
  P + 4 + wrapS 25 (s * 16777216 + i1 * 8388608 + i2 * 4194304 + bits hw1 0 10 * 4096 + bits hw2 0 11 * 2 : Nat)

/-- `B<c>.W` T3 -/
def thumbBcWTarget (w : Nat) (P : Int) : Int :=
  let hw1 := w % 65536
  let hw2 := w / 65536
  let s := bits hw1 10 1
  let j1 := bits hw2 13 1
  let j2 := bits hw2 11 1
  P + 4 + wrapS 21 (s * 1048576 + j2 * 524288 + j1 * 262144 + bits hw1 0 6 * 4096 + bits hw2 0 11 * 2 : Nat)

/-! ### x86-64 -/

/-- the address a rel32 field at `P` designates relative to ITS OWN address (ELF `S + A - P` convention);
    the branch target of the instruction whose last 4 bytes it is lies 4 further, which is why ppci emits
    these relocations with addend -4 -/
def x86Rel32Target (w : Nat) (P : Int) : Int := P + wrapS 32 (w : Nat)
def x86Rel8Target (w : Nat) (P : Int) : Int := P + 1 + wrapS 8 (w : Nat)

/-! ### one entry point: the address (or value) a relocated field designates -/

/-- `decodeTarget isa type bytes P`: the address designated by the relocated bytes at address `P`,
    for the self-contained types (hi/lo halves are read with `rvUValue`/`rvIImm`/`rvHiLo`). -/
def decodeTarget (isa ty : String) (bytes : List Nat) (P : Int) : Option Int :=
  let w := wordLE bytes
  match isa, ty with
  | "riscv", "b_imm12" => some (P + rvBOffset w)
  | "riscv", "b_imm20" => some (P + rvJOffset w)
  | "riscv", "cb_imm11" => some (P + rvJOffset w)
  | "riscv", "cbl_imm11" => some (P + rvJOffset w)
  | "riscv", "bc_imm11" => some (P + rvcJOffset w)
  | "riscv", "bc_imm8" => some (P + rvcBOffset w)
  | "arm", "imm24" => some (armBTarget w P)
  | "arm", "ldr_imm12" => some (armLdrLitAddr w P)
  | "arm", "adr_imm12" => armAdrValue w P
  | "thumb", "lit8" => some (thumbLdrLitAddr w P)
  | "thumb", "wrap_new11" => some (thumbBTarget w P)
  | "thumb", "rel8" => some (thumbBcTarget w P)
  | "thumb", "bl_imm11" => some (thumbBlTarget w P)
  | "thumb", "b_imm11_imm6" => some (thumbBcWTarget w P)
  | "x86_64", "rel32" => some (x86Rel32Target w P)
  | "x86_64", "jmp8" => some (x86Rel8Target w P)
  | "x86_64", "abs32" => some (w : Nat)
  | "x86_64", "abs64" => some (w : Nat)
  | _, "absaddr16" => some (w : Nat)
  | _, "absaddr32" => some (w : Nat)
  | _, "absaddr64" => some (w : Nat)
  | _, _ => none


/-! ### representability: can the architecture's field hold the reference at all? -/

def evenB (x : Int) : Bool := x % 2 == 0

/-- `x` is a valid ARM "modified immediate": an 8-bit value rotated right by an even amount -/
def armIsModImm (x : Nat) : Bool :=
  (List.range 16).any (fun r => (List.range 256).any (fun v => armExpandImm (r * 256 + v) == x))

/-- the reference to `S + A` from a field at `P` is representable in a field of this type.
    (`A` only matters for x86_64 `rel32`; the other ppci types have no addend in their formula.) -/
def representable (isa ty : String) (S A P : Int) : Option Bool :=
  let d := S - P
  match isa, ty with
  | "riscv", "b_imm12" => some (evenB d && decide (fitsS 13 d))
  | "riscv", "b_imm20" => some (evenB d && decide (fitsS 21 d))
  | "riscv", "cb_imm11" => some (evenB d && decide (fitsS 21 d))
  | "riscv", "cbl_imm11" => some (evenB d && decide (fitsS 21 d))
  | "riscv", "bc_imm11" => some (evenB d && decide (fitsS 12 d))
  | "riscv", "bc_imm8" => some (evenB d && decide (fitsS 9 d))
  | "riscv", "abs32_imm20" => some (decide (fitsU 32 S))
  | "riscv", "abs32_imm12" => some (decide (fitsU 32 S))
  | "riscv", "rel_imm20" => some true
  | "riscv", "rel_imm12" => some true
  | "arm", "imm24" => some ((d - 8) % 4 == 0 && decide (fitsS 26 (d - 8)))
  | "arm", "ldr_imm12" => some (decide (-4096 < d - 8 ∧ d - 8 < 4096))
  | "arm", "adr_imm12" => some (decide (-4294967296 < d - 8 ∧ d - 8 < 4294967296) && armIsModImm (d - 8).natAbs)
  | "thumb", "lit8" => let o := S - alignDown4 (P + 4); some (o % 4 == 0 && decide (0 ≤ o ∧ o ≤ 1020))
  | "thumb", "wrap_new11" => some (evenB (d - 4) && decide (fitsS 12 (d - 4)))
  | "thumb", "rel8" => some (evenB (d - 4) && decide (fitsS 9 (d - 4)))
  | "thumb", "bl_imm11" => some (evenB (d - 4) && decide (fitsS 25 (d - 4)))
  | "thumb", "b_imm11_imm6" => some (evenB (d - 4) && decide (fitsS 21 (d - 4)))
  | "x86_64", "rel32" => some (decide (fitsS 32 (d + A)))
  | "x86_64", "jmp8" => some (decide (fitsS 8 (d - 1)))
  | "x86_64", "abs32" => some (decide (fitsU 32 S))
  | "x86_64", "abs64" => some (decide (fitsU 64 S))
  | _, "absaddr16" => some (decide (fitsU 16 S))
  | _, "absaddr32" => some (decide (fitsU 32 S))
  | _, "absaddr64" => some (decide (fitsU 64 S))
  | _, _ => none

end Spec.RelocSem
