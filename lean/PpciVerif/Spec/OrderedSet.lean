/-!
Specification for C30's OrderedSet sliver (import-free, independent of the code):
an ordered set is a duplicate-free list in insertion order.

* `add v`      appends `v` unless present
* `discard v`  removes `v`
* everything else is defined from these two on lists
* `firstOccurrences` : the order in which values FIRST appear in a sequence —
  what "iteration order = first-insertion order" means for add-only histories.
-/
namespace Spec.OrderedSet

def add (l : List Int) (v : Int) : List Int := if v ∈ l then l else l ++ [v]
def discard (l : List Int) (v : Int) : List Int := l.filter (· ≠ v)

def ofList (it : List Int) : List Int := it.foldl add []

/-- keep the first occurrence of every value -/
def firstOccurrences : List Int → List Int
  | [] => []
  | x :: xs => x :: (firstOccurrences xs).filter (· ≠ x)

inductive Op
  | add (v : Int) | discard (v : Int) | remove (v : Int) | pop | clear
  | ior (l : List Int) | iand (l : List Int) | isub (l : List Int) | ixor (l : List Int)
  | iorSelf | iandSelf | isubSelf | ixorSelf
  | init (l : List Int)

/-- abstract effect of one operation; `true` = the operation raises `KeyError` -/
def apply (l : List Int) : Op → List Int × Bool
  | .add v => (add l v, false)
  | .discard v => (discard l v, false)
  | .remove v => if v ∈ l then (discard l v, false) else (l, true)
  | .pop => match l with
    | [] => ([], true)
    | _ :: rest => (rest, false)
  | .clear => ([], false)
  | .ior it => (it.foldl add l, false)
  | .iand it => (l.filter (· ∈ it), false)
  | .isub it => (l.filter (· ∉ it), false)
  | .ixor it => ((ofList it).foldl (fun l v => if v ∈ l then discard l v else add l v) l, false)
  | .iorSelf => (l, false)
  | .iandSelf => (l, false)
  | .isubSelf => ([], false)
  | .ixorSelf => ([], false)
  | .init it => (ofList it, false)

def run (ops : List Op) : List Int := ops.foldl (fun l op => (apply l op).1) []

end Spec.OrderedSet
