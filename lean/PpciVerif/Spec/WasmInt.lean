/-
Integer operators of the WebAssembly core specification (§4.3.2 "Integer
operations"), on `BitVec N` with Lean core's bit-vector library as the
reference (independent of ppci's code and of `Spec.Bits`).  Core Lean only.

  irotl_N(i1, i2)  rotate i1 left by i2 mod N bits          BitVec.rotateLeft (count taken mod N)
  irotr_N(i1, i2)  rotate right                               BitVec.rotateRight
  iclz_N(i)        number of leading zero bits (N if i = 0)   BitVec.clz
  ictz_N(i)        number of trailing zero bits (N if i = 0)  BitVec.ctz
  ipopcnt_N(i)     number of non-zero bits                    BitVec.cpop
  iextendM_s_N(i)  extend_s_{M,N}(wrap_{N,M}(i))              truncate to M bits, sign-extend to N

A wasm `iN` value is exchanged with the host as the Python int `toInt`
(signed) — `ofSigned` is the inverse direction (any integer is reduced mod 2^N).
-/
namespace Spec.WasmInt

def irotl {n : Nat} (i1 i2 : BitVec n) : BitVec n := i1.rotateLeft i2.toNat
def irotr {n : Nat} (i1 i2 : BitVec n) : BitVec n := i1.rotateRight i2.toNat
def iclz {n : Nat} (i : BitVec n) : BitVec n := i.clz
def ictz {n : Nat} (i : BitVec n) : BitVec n := i.ctz
def ipopcnt {n : Nat} (i : BitVec n) : BitVec n := i.cpop
def iextend_s (m : Nat) {n : Nat} (i : BitVec n) : BitVec n := (i.setWidth m).signExtend n

/-- the wasm value denoted by a host integer -/
def ofSigned (n : Nat) (v : Int) : BitVec n := BitVec.ofInt n v

end Spec.WasmInt
