import PpciVerif.Spec.IRArith
/-
Spec.ConstExpr — closed constant expression trees over the IR integer types and
their run-time value under `Spec.IRArith` (what executing the `Const`/`Cast`/
`Binop` instructions one by one computes).  Specification only; no ppci code.
-/
namespace Spec.ConstExpr
open Spec.IRArith

inductive SExpr
  | const (ty : Ty) (value : Int)
  | cast (ty : Ty) (src : SExpr)
  | binop (ty : Ty) (op : Op) (a b : SExpr)
  deriving Repr

def SExpr.ty : SExpr → Ty
  | .const ty _ | .cast ty _ | .binop ty _ _ _ => ty

/-- well-typed as `ir.Binop.__init__` demands (operands have the result type) and every
    constant is a value of its type -/
def SExpr.WF : SExpr → Prop
  | .const ty v => InRange ty v
  | .cast _ src => src.WF
  | .binop ty _ a b => a.ty = ty ∧ b.ty = ty ∧ a.WF ∧ b.WF

/-- run-time value; `none` if some operation on the way is undefined -/
def SExpr.eval : SExpr → Option Int
  | .const _ v => some v
  | .cast ty src => (src.eval).map (IRArith.cast ty)
  | .binop ty op a b =>
    match a.eval, b.eval with
    | some va, some vb => IRArith.binop ty op va vb
    | _, _ => none

end Spec.ConstExpr
