import PpciVerif.Spec.Wasm
/-!
# Spec.WasmParse — S-expression exchange format for `Spec.Wasm`

`harness/c22.py` walks a live `ppci.wasm.Module` (its definitions and flat instruction lists) and prints one
S-expression; this file turns it into a `Spec.Wasm.Module`.  Values travel as raw bit patterns (unsigned
decimal), so floats (incl. NaN payloads, signed zeros) are exact.

```
module := (module (types (ft (T*) (T*))*) (funcs (func TYPEIDX (T*) I*)*) (table MIN MAX|-)|(notable)
                  (mem MIN MAX|-)|(nomem) (globals (T mut|const BITS)*) (elems (OFF F*)*) (datas (OFF HEX)*) (start N|-))
T := i32|i64|f32|f64
I := unreachable|nop|drop|select|return|memory.size|memory.grow|<numeric opcode, wasm text name, e.g. i32.add f64.lt
     i32.trunc_f64_s i64.trunc_sat_f32_u f32.convert_i64_u f32.demote_f64 i64.extend_i32_s i32.wrap_i64 i32.extend8_s>
   | (T.const BITS) | (local.get N) | (local.set N) | (local.tee N) | (global.get N) | (global.set N)
   | (T.load OFF) | (T.loadN_s OFF) | (T.loadN_u OFF) | (T.store OFF) | (T.storeN OFF)
   | (block NP NR I*) | (loop NP NR I*) | (if NP NR (I*) (I*)) | (br N) | (br_if N) | (br_table N* DEFAULT)
   | (call N) | (call_indirect TYPEIDX)
```
-/
namespace Spec.WasmParse
open Spec.Wasm

inductive Sexp
  | atom (s : String)
  | list (xs : List Sexp)
  deriving Repr, Inhabited

def flush (acc : List Char) (stack : List (List Sexp)) : List (List Sexp) :=
  match acc, stack with
  | [], st => st
  | cs, top :: st => (Sexp.atom (String.ofList cs.reverse) :: top) :: st
  | _, [] => []

def parseGo : List Char → List Char → List (List Sexp) → Option Sexp
  | [], acc, stack =>
    match flush acc stack with
    | [[x]] => some x
    | _ => none
  | c :: cs, acc, stack =>
    if c = '(' then parseGo cs [] ([] :: flush acc stack)
    else if c = ')' then
      match flush acc stack with
      | top :: next :: st => parseGo cs [] ((Sexp.list top.reverse :: next) :: st)
      | _ => none
    else if c = ' ' || c = '\n' || c = '\t' || c = '\r' then parseGo cs [] (flush acc stack)
    else parseGo cs (c :: acc) stack

def parseSexp (s : String) : Option Sexp := parseGo s.toList [] [[]]

def pNat : Sexp → Option Nat
  | .atom s => s.toNat?
  | _ => none

def pOptNat : Sexp → Option (Option Nat)
  | .atom "-" => some none
  | .atom s => s.toNat?.map some
  | _ => none

def pValType : Sexp → Option ValType
  | .atom "i32" => some .i32 | .atom "i64" => some .i64 | .atom "f32" => some .f32 | .atom "f64" => some .f64
  | _ => none

def pVT (s : String) : Option ValType := pValType (.atom s)

def pW : String → Option W
  | "i32" => some .w32 | "f32" => some .w32 | "i64" => some .w64 | "f64" => some .w64 | _ => none

def isInt (t : String) : Bool := t == "i32" || t == "i64"

def pIUn : String → Option IUnOp
  | "clz" => some .clz | "ctz" => some .ctz | "popcnt" => some .popcnt
  | "extend8_s" => some .extend8_s | "extend16_s" => some .extend16_s | "extend32_s" => some .extend32_s | _ => none
def pIBin : String → Option IBinOp
  | "add" => some .add | "sub" => some .sub | "mul" => some .mul | "div_s" => some .div_s | "div_u" => some .div_u
  | "rem_s" => some .rem_s | "rem_u" => some .rem_u | "and" => some .and | "or" => some .or | "xor" => some .xor
  | "shl" => some .shl | "shr_s" => some .shr_s | "shr_u" => some .shr_u | "rotl" => some .rotl | "rotr" => some .rotr
  | _ => none
def pIRel : String → Option IRelOp
  | "eq" => some .eq | "ne" => some .ne | "lt_s" => some .lt_s | "lt_u" => some .lt_u | "gt_s" => some .gt_s
  | "gt_u" => some .gt_u | "le_s" => some .le_s | "le_u" => some .le_u | "ge_s" => some .ge_s | "ge_u" => some .ge_u
  | _ => none
def pFUn : String → Option FUnOp
  | "abs" => some .abs | "neg" => some .neg | "sqrt" => some .sqrt | "ceil" => some .ceil | "floor" => some .floor
  | "trunc" => some .trunc | "nearest" => some .nearest | _ => none
def pFBin : String → Option FBinOp
  | "add" => some .add | "sub" => some .sub | "mul" => some .mul | "div" => some .div | "min" => some .min
  | "max" => some .max | "copysign" => some .copysign | _ => none
def pFRel : String → Option FRelOp
  | "eq" => some .eq | "ne" => some .ne | "lt" => some .lt | "gt" => some .gt | "le" => some .le | "ge" => some .ge
  | _ => none

def pSign : String → Option Bool
  | "s" => some true | "u" => some false | _ => none

/-- conversions, by their text name split at `_` -/
def pCvt (t : String) (parts : List String) : Option CvtOp :=
  match t, parts with
  | "i32", ["wrap", "i64"] => some .wrap
  | "i64", ["extend", "i32", sx] => do pure (.extend (← pSign sx))
  | _, ["trunc", "sat", src, sx] =>
    if isInt t && !isInt src then do pure (.truncSat (← pW t) (← pW src) (← pSign sx)) else none
  | _, ["trunc", src, sx] =>
    if isInt t && !isInt src then do pure (.trunc (← pW t) (← pW src) (← pSign sx)) else none
  | _, ["convert", src, sx] =>
    if !isInt t && isInt src then do pure (.convert (← pW t) (← pW src) (← pSign sx)) else none
  | "f32", ["demote", "f64"] => some .demote
  | "f64", ["promote", "f32"] => some .promote
  | "i32", ["reinterpret", "f32"] => some (.reinterpretFI .w32)
  | "i64", ["reinterpret", "f64"] => some (.reinterpretFI .w64)
  | "f32", ["reinterpret", "i32"] => some (.reinterpretIF .w32)
  | "f64", ["reinterpret", "i64"] => some (.reinterpretIF .w64)
  | _, _ => none

def orElse {α} (a : Option α) (b : Unit → Option α) : Option α :=
  match a with | some x => some x | none => b ()

/-- plain (immediate-free) numeric instruction `T.name` -/
def pNumeric (s : String) : Option Instr :=
  match s.splitOn "." with
  | [t, name] =>
    match pW t with
    | none => none
    | some w =>
      if isInt t then
        if name == "eqz" then some (.ieqz w) else
        orElse ((pIUn name).map (.iun w)) fun _ =>
        orElse ((pIBin name).map (.ibin w)) fun _ =>
        orElse ((pIRel name).map (.irel w)) fun _ =>
        (pCvt t (name.splitOn "_")).map .cvt
      else
        orElse ((pFUn name).map (.fun_ w)) fun _ =>
        orElse ((pFBin name).map (.fbin w)) fun _ =>
        orElse ((pFRel name).map (.frel w)) fun _ =>
        (pCvt t (name.splitOn "_")).map .cvt
  | _ => none

/-- `T.load`, `T.load8_s`, … / `T.store`, `T.store16` -/
def pMem (s : String) (off : Nat) : Option Instr :=
  match s.splitOn "." with
  | [t, name] =>
    match pVT t with
    | none => none
    | some vt =>
      if name == "load" then some (.load vt none off)
      else if name == "store" then some (.store vt none off)
      else if !isInt t then none
      else
        match name with
        | "load8_s" => some (.load vt (some (8, true)) off) | "load8_u" => some (.load vt (some (8, false)) off)
        | "load16_s" => some (.load vt (some (16, true)) off) | "load16_u" => some (.load vt (some (16, false)) off)
        | "load32_s" => if t == "i64" then some (.load vt (some (32, true)) off) else none
        | "load32_u" => if t == "i64" then some (.load vt (some (32, false)) off) else none
        | "store8" => some (.store vt (some 8) off) | "store16" => some (.store vt (some 16) off)
        | "store32" => if t == "i64" then some (.store vt (some 32) off) else none
        | _ => none
  | _ => none

def splitLast {α} : List α → Option (List α × α)
  | [] => none
  | [x] => some ([], x)
  | x :: xs => (splitLast xs).map fun (i, l) => (x :: i, l)

mutual
def pInstr : Sexp → Option Instr
  | .atom "unreachable" => some .unreachable
  | .atom "nop" => some .nop
  | .atom "drop" => some .drop
  | .atom "select" => some .select
  | .atom "return" => some .ret
  | .atom "memory.size" => some .memorySize
  | .atom "memory.grow" => some .memoryGrow
  | .atom s => pNumeric s
  | .list (.atom "block" :: np :: nr :: body) => do pure (.block (← pNat np) (← pNat nr) (← pInstrs body))
  | .list (.atom "loop" :: np :: nr :: body) => do pure (.loop (← pNat np) (← pNat nr) (← pInstrs body))
  | .list [.atom "if", np, nr, .list t, .list e] => do pure (.ite (← pNat np) (← pNat nr) (← pInstrs t) (← pInstrs e))
  | .list [.atom "br", n] => do pure (.br (← pNat n))
  | .list [.atom "br_if", n] => do pure (.brIf (← pNat n))
  | .list (.atom "br_table" :: ls) => do
      let ns ← ls.mapM pNat
      let (i, d) ← splitLast ns
      pure (.brTable i d)
  | .list [.atom "call", n] => do pure (.call (← pNat n))
  | .list [.atom "call_indirect", n] => do pure (.callIndirect (← pNat n))
  | .list [.atom "local.get", n] => do pure (.localGet (← pNat n))
  | .list [.atom "local.set", n] => do pure (.localSet (← pNat n))
  | .list [.atom "local.tee", n] => do pure (.localTee (← pNat n))
  | .list [.atom "global.get", n] => do pure (.globalGet (← pNat n))
  | .list [.atom "global.set", n] => do pure (.globalSet (← pNat n))
  | .list [.atom "i32.const", n] => do pure (.const (.ofBits .i32 (← pNat n)))
  | .list [.atom "i64.const", n] => do pure (.const (.ofBits .i64 (← pNat n)))
  | .list [.atom "f32.const", n] => do pure (.const (.ofBits .f32 (← pNat n)))
  | .list [.atom "f64.const", n] => do pure (.const (.ofBits .f64 (← pNat n)))
  | .list [.atom s, off] => do pMem s (← pNat off)
  | _ => none
def pInstrs : List Sexp → Option (List Instr)
  | [] => some []
  | x :: xs => do pure ((← pInstr x) :: (← pInstrs xs))
end

def pTypes : Sexp → Option (List ValType)
  | .list xs => xs.mapM pValType
  | _ => none

def pFuncType : Sexp → Option FuncType
  | .list [.atom "ft", ps, rs] => do pure { params := ← pTypes ps, results := ← pTypes rs }
  | _ => none

def pFunc : Sexp → Option Func
  | .list (.atom "func" :: ty :: ls :: body) => do pure { type := ← pNat ty, locals := ← pTypes ls, body := ← pInstrs body }
  | _ => none

def pGlobal : Sexp → Option GlobalDecl
  | .list [t, .atom m, v] => do
      let vt ← pValType t
      pure { type := vt, mutable := m == "mut", init := Value.ofBits vt (← pNat v) }
  | _ => none

def pElem : Sexp → Option (Nat × List Nat)
  | .list (off :: fs) => do pure (← pNat off, ← fs.mapM pNat)
  | _ => none

def hexVal (c : Char) : Option Nat :=
  let n := c.toNat
  if 48 ≤ n ∧ n ≤ 57 then some (n - 48) else if 97 ≤ n ∧ n ≤ 102 then some (n - 87) else none

def fromHexChars : List Char → Option (List Nat)
  | [] => some []
  | [_] => none
  | a :: b :: rest => do pure (((← hexVal a) * 16 + (← hexVal b)) :: (← fromHexChars rest))

def pData : Sexp → Option (Nat × List Nat)
  | .list [off, .atom "-"] => do pure (← pNat off, [])
  | .list [off, .atom h] => do pure (← pNat off, ← fromHexChars h.toList)
  | _ => none

def pLimits : Sexp → String → String → Option (Option Limits)
  | .list [.atom t, mn, mx], tag, _ => if t == tag then do pure (some { min := ← pNat mn, max := ← pOptNat mx }) else none
  | .list [.atom t], _, notag => if t == notag then some none else none
  | _, _, _ => none

def pModule : Sexp → Option Module
  | .list [.atom "module", .list (.atom "types" :: ts), .list (.atom "funcs" :: fs), tbl, mem,
           .list (.atom "globals" :: gs), .list (.atom "elems" :: es), .list (.atom "datas" :: ds),
           .list [.atom "start", st]] => do
      pure { types := (← ts.mapM pFuncType).toArray, funcs := (← fs.mapM pFunc).toArray,
             table := ← pLimits tbl "table" "notable", mem := ← pLimits mem "mem" "nomem",
             globals := (← gs.mapM pGlobal).toArray, elems := ← es.mapM pElem, datas := ← ds.mapM pData,
             start := ← pOptNat st }
  | _ => none

end Spec.WasmParse
