/-
Specification of LEB128 (DWARF v5 §7.6, WebAssembly core §5.2.2), written as a
*denotation* of byte strings, independent of ppci's loops.

A well-formed encoding is a non-empty byte string (bytes < 256) in which
exactly the last byte has the high bit clear.  Its value is the little-endian
base-128 number of the low 7-bit groups; for the signed form the top group is
sign-extended (bit 6 of the last byte).  The *canonical* encoding of a number
is the unique shortest well-formed string denoting it.
-/
namespace Spec.Leb

def uval : List Nat → Option Nat
  | [] => none
  | [b] => if b < 128 then some b else none
  | b :: c :: rest =>
    if 128 ≤ b ∧ b < 256 then (uval (c :: rest)).map (fun v => (b - 128) + 128 * v) else none

def sval : List Nat → Option Int
  | [] => none
  | [b] => if b < 64 then some (b : Int) else if b < 128 then some ((b : Int) - 128) else none
  | b :: c :: rest =>
    if 128 ≤ b ∧ b < 256 then (sval (c :: rest)).map (fun v => ((b : Int) - 128) + 128 * v) else none

/-- `bs` is the canonical unsigned encoding of `n` -/
def UCanonical (bs : List Nat) (n : Nat) : Prop :=
  uval bs = some n ∧ ∀ cs, uval cs = some n → bs.length ≤ cs.length ∧ (cs.length = bs.length → cs = bs)

def SCanonical (bs : List Nat) (z : Int) : Prop :=
  sval bs = some z ∧ ∀ cs, sval cs = some z → bs.length ≤ cs.length ∧ (cs.length = bs.length → cs = bs)

end Spec.Leb
