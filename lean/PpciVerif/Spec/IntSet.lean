/-
Specification for C33 (import-free, independent of the code's algorithms).

A list of inclusive integer ranges *denotes* the set of integers lying in at
least one of them (`Mem`).  `Canon` is the canonical form the property names:
every range non-empty, ranges ascending, and between two consecutive ranges at
least one integer is missing (non-overlapping and non-adjacent).
-/
namespace Spec.IntSet

abbrev R := Int × Int

/-- `v` lies in the inclusive range `r` -/
def InR (r : R) (v : Int) : Prop := r.1 ≤ v ∧ v ≤ r.2

instance (r : R) (v : Int) : Decidable (InR r v) := by unfold InR; infer_instance

/-- denotation: `v ∈ ⟦rs⟧` -/
def Mem (rs : List R) (v : Int) : Prop := ∃ r ∈ rs, InR r v

/-- executable denotation (used by the driver) -/
def memB (rs : List R) (v : Int) : Bool := rs.any (fun r => decide (r.1 ≤ v) && decide (v ≤ r.2))

/-- canonical form: `a_i ≤ b_i` and `b_i + 1 < a_{i+1}` -/
def Canon : List R → Prop
  | [] => True
  | [r] => r.1 ≤ r.2
  | r :: s :: t => r.1 ≤ r.2 ∧ r.2 + 1 < s.1 ∧ Canon (s :: t)

/-- executable canonical-form test (used by the driver on the real outputs) -/
def canonB : List R → Bool
  | [] => true
  | [r] => decide (r.1 ≤ r.2)
  | r :: s :: t => decide (r.1 ≤ r.2) && decide (r.2 + 1 < s.1) && canonB (s :: t)

end Spec.IntSet
