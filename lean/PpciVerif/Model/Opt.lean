import PpciVerif.Spec.IR
import PpciVerif.Model.ConstFold
/-!
# Model.Opt — functional models of ppci's local optimisation passes on `Spec.IR` syntax (C02)

Mirrors, as they are in /repo now (after the `fix:` commits listed in findings/C02.json):

* `ppci/opt/transform.py`  `RemoveAddZeroPass`, `DeleteUnusedInstructionsPass`
* `ppci/opt/constantfolding.py` `ConstantFolder` (arithmetic taken from `Model.ConstFold`, the C38 model)
* `ppci/opt/cse.py` `CommonSubexpressionEliminationPass`
* `ppci/opt/cjmp.py` `CJumpPass`
* `ppci/opt/load_after_store.py` `LoadAfterStorePass`
* `ppci/opt/clean.py` `CleanPass` (`remove_empty_blocks`, `remove_one_preds`/`glue_blocks`)

Python object identity of values is name identity here (`value-names-distinct`), `Value.replace_by` is
substitution of the name in every operand slot of the function (`Func.subst`), `used_by` is "occurs as an
operand somewhere in the function" (`Func.isUsed`), `Block.predecessors` is `Func.preds` (recomputed from
the terminators), dict-valued `Phi.inputs` is an association list in insertion order.
Exceptions are modelled by `Except String` carrying the Python exception class name.
Imports only core-Lean files (no Mathlib), so that the driver starts fast.
-/
namespace Model.Opt
open Spec.IR

abbrev R := Except String

/-! ## generic helpers -/

/-- apply `g` to every operand slot (phi inputs included) -/
def mapOps (g : Operand → Operand) : Instr → Instr
  | .addrof d s => .addrof d (g s)
  | .binop d t op a b => .binop d t op (g a) (g b)
  | .unop d t op a => .unop d t op (g a)
  | .cast d t a => .cast d t (g a)
  | .load d t a v => .load d t (g a) v
  | .store t v a vol => .store t (g v) (g a) vol
  | .copyblob d s n => .copyblob (g d) (g s) n
  | .phi d t ins => .phi d t (ins.map fun p => (p.1, g p.2))
  | .fcall d t c as => .fcall d t (g c) (as.map g)
  | .pcall c as => .pcall (g c) (as.map g)
  | .asm t i o c => .asm t (i.map g) (o.map g) c
  | .cjump a c b y n => .cjump (g a) c (g b) y n
  | .ret v => .ret (g v)
  | i => i

def substOpnd (x : String) (y : Operand) : Operand → Operand
  | .loc z => if z = x then y else .loc z
  | o => o

/-- all operands of an instruction, phi inputs included (`Instruction.uses`) -/
def allOps (i : Instr) : List Operand := i.uses ++ i.phiIns.map (·.2)

def mapBlocks (f : Func) (g : Block → Block) : Func := { f with blocks := f.blocks.map g }

def mapInstrs (f : Func) (g : Instr → Instr) : Func :=
  mapBlocks f fun b => { b with instrs := b.instrs.map g }

/-- `x.replace_by(y)`: every use of `x` becomes `y` -/
def subst (f : Func) (x : String) (y : Operand) : Func := mapInstrs f (mapOps (substOpnd x y))

def dstName (i : Instr) : Option String := i.dst?.map (·.1)

/-- the instruction defining local `x` -/
def defInstr (f : Func) (x : String) : Option Instr :=
  f.blocks.findSome? fun b => b.instrs.find? fun i => dstName i = some x

def opndDef (f : Func) : Operand → Option Instr
  | .loc x => defInstr f x
  | .glob _ => none

/-- `value.is_used` -/
def isUsed (f : Func) (x : String) : Bool :=
  f.blocks.any fun b => b.instrs.any fun i => (allOps i).contains (.loc x)

def allNames (f : Func) : List String :=
  f.params.map (·.1) ++ f.blocks.flatMap fun b => b.instrs.filterMap dstName

/-- a name not yet defined in `f` (ppci: `make_unique_name`; any fresh name is equivalent up to renaming) -/
def freshName (f : Func) (base : String) : String :=
  let used := allNames f
  if !used.contains base then base else
  let rec go : Nat → Nat → String
    | 0, k => s!"{base}_{k}"
    | fuel + 1, k => if used.contains s!"{base}_{k}" then go fuel (k + 1) else s!"{base}_{k}"
  go used.length 0

def setBlock (f : Func) (bi : Nat) (b : Block) : Func := { f with blocks := f.blocks.set bi b }

def instrAt (f : Func) (bi k : Nat) : Option Instr := (f.blocks[bi]?).bind (·.instrs[k]?)

/-- positions `(block index, instruction index)` in iteration order -/
def positions (f : Func) : List (Nat × Nat) :=
  (List.range f.blocks.length).flatMap fun bi =>
    match f.blocks[bi]? with
    | some b => (List.range b.instrs.length).map fun k => (bi, k)
    | none => []

/-! ## RemoveAddZeroPass -/

def zeroBits (b : Nat) : Bool := b = 0 || b = 2 ^ 63          -- 0.0 and -0.0 compare equal to 0
def oneBits (b : Nat) : Bool := b = 0x3FF0000000000000          -- 1.0

/-- `type(v) is ir.Const and v.value == k` for k ∈ {0, 1} -/
def constIs (f : Func) (o : Operand) (k : Nat) : Bool :=
  match opndDef f o with
  | some (.const _ _ (.int v)) => v == (k : Int)
  | some (.const _ _ (.fbits b)) => if k = 0 then zeroBits b else oneBits b
  | _ => false

def addZeroInstr (f : Func) : Instr → Func
  | .binop d t .add a b =>
    if t.isFloat then f                       -- x + 0.0 is not x for x = -0.0
    else if constIs f b 0 then subst f d a
    else if constIs f a 0 then subst f d b
    else f
  | .binop d _ .mul a b => if constIs f b 1 then subst f d a else f
  | _ => f

def removeAddZero (f : Func) : Func :=
  (positions f).foldl (fun f p => match instrAt f p.1 p.2 with
    | some i => addZeroInstr f i
    | none => f) f

/-! ## DeleteUnusedInstructionsPass -/

/-- `isinstance(i, ir.Value) and not isinstance(i, ir.FunctionCall) and not i.is_used` -/
def isDeadIn (f : Func) (i : Instr) : Bool :=
  match i with
  | .fcall .. => false
  | _ => match dstName i with
    | some d => !isUsed f d
    | none => false

def delUnusedBlock (f : Func) (bi : Nat) : Func :=
  match f.blocks[bi]? with
  | none => f
  | some b => setBlock f bi { b with instrs := b.instrs.filter fun i => !isDeadIn f i }

def deleteUnused (f : Func) : Func :=
  (List.range f.blocks.length).foldl delUnusedBlock f

/-! ## CommonSubexpressionEliminationPass -/

/-- python equality of two constant payloads (used as dict keys together with the type) -/
def constKeyEq : ConstVal → ConstVal → Bool
  | .int a, .int b => a == b
  | .fbits a, .fbits b => a == b && !(a / 2 ^ 52 % 2048 == 2047 && a % 2 ^ 52 != 0)   -- same bits, not NaN (sign of zero kept apart)
  | _, _ => false

/-- key of an instruction in `ins_map`, as the instruction that was recorded -/
def cseSame : Instr → Instr → Bool
  | .binop _ t op a b, .binop _ t' op' a' b' => t == t' && op == op' && a == a' && b == b'
  | .const _ t c, .const _ t' c' => t == t' && constKeyEq c c'
  | _, _ => false

def cseKeyed : Instr → Bool
  | .binop .. | .const .. => true
  | _ => false

/-- one block: `seen` = recorded instructions (in the form they had when visited) -/
def cseBlock (f : Func) (bi : Nat) : Func :=
  match f.blocks[bi]? with
  | none => f
  | some b0 =>
    ((List.range b0.instrs.length).foldl (fun (st : Func × List Instr) k =>
      let (f, seen) := st
      match instrAt f bi k with
      | some i =>
        if cseKeyed i then
          match seen.find? (cseSame i), dstName i with
          | some j, some d => (match dstName j with
              | some dj => (subst f d (.loc dj), seen)
              | none => (f, seen))
          | _, _ => (f, seen ++ [i])
        else (f, seen)
      | none => (f, seen)) (f, [])).1

def cse (f : Func) : Func := (List.range f.blocks.length).foldl cseBlock f

/-! ## ConstantFolder -/

open Model.ConstFold in
def typOf (t : ITy) : Model.ConstFold.Typ :=
  match t with
  | .i8 => i8 | .i16 => i16 | .i32 => i32 | .i64 => i64
  | .u8 => u8 | .u16 => u16 | .u32 => u32 | .u64 => u64

def cfErr (e : Model.ConstFold.Err) : String := e.name

/-- `int(value)` of a python float given by its bits (truncation; OverflowError/ValueError for inf/nan) -/
def pyIntOfFloat (bits : Nat) : R Int :=
  match truncBits bits with
  | some z => .ok z
  | none => if bits % 2 ^ 52 = 0 then .error "OverflowError" else .error "ValueError"

/-- `cast(value, ty)` of constantfolding.py -/
def cfCast (v : ConstVal) (ty : Ty) : R ConstVal :=
  match ty with
  | .ptr => match v with
    | .int x => .ok (.int x)
    | .fbits b => do pure (.int (← pyIntOfFloat b))
  | .int t => match v with
    | .int x => .ok (.int (Model.ConstFold.correct x (typOf t)))
    | .fbits b => do pure (.int (Model.ConstFold.correct (← pyIntOfFloat b) (typOf t)))
  | .f32 | .f64 => .ok v
  | .blob .. => .error "AssertionError"

/-- `ConstantFolder.is_const` (recursion through the defining instructions; `fuel` bounds the depth) -/
def isConst (f : Func) : Nat → Operand → Bool
  | 0, _ => false
  | fuel + 1, o =>
    match opndDef f o with
    | some (.const ..) => true
    | some (.cast _ _ a) => isConst f fuel a
    | some (.binop _ t op a b) =>
      (Model.ConstFold.ops.lookup op.symbol).isSome && t.isInt && isConst f fuel a && isConst f fuel b
    | _ => false

/-- `ConstantFolder.eval_const`: type and payload of the new `Const` -/
def evalConst (f : Func) : Nat → Operand → R (Ty × ConstVal)
  | 0, _ => .error "RecursionError"
  | fuel + 1, o =>
    match opndDef f o with
    | some (.const _ t c) => .ok (t, c)
    | some (.binop _ t op a b) => do
      let (ta, va) ← evalConst f fuel a
      let (tb, vb) ← evalConst f fuel b
      if ta ≠ tb then throw "AssertionError"
      if ta ≠ t then throw "AssertionError"
      match Model.ConstFold.ops.lookup op.symbol, t, va, vb with
      | some g, .int it, .int x, .int y =>
        match Model.ConstFold.enhance g (typOf it) x y with
        | .ok r => pure (ta, .int r)
        | .error e => throw (cfErr e)
      | none, _, _, _ => throw "KeyError"
      | _, _, _, _ => throw "TypeError"
    | some (.cast _ t a) => do
      let (_, v) ← evalConst f fuel a
      pure (t, ← cfCast v t)
    | _ => .error "NotImplementedError"

/-- insert `ins` right before the instruction defining `d` -/
def insertBefore (f : Func) (d : String) (ins : Instr) : Func :=
  mapBlocks f fun b =>
    { b with instrs := b.instrs.flatMap fun i => if dstName i = some d then [ins, i] else [i] }

/-- replace the instruction defining `d` -/
def replaceInstr (f : Func) (d : String) (ins : Instr) : Func :=
  mapInstrs f fun i => if dstName i = some d then ins else i

/-- the value `correct(a.value + b.value, a.ty)` / `cast(.., a.ty)` of the chain rewrites
    (integer and pointer types only, see findings/C02.json) -/
def chainValue (ty : Ty) (va vb : ConstVal) : R ConstVal :=
  match va, vb with
  | .int x, .int y => cfCast (.int (x + y)) ty
  | _, _ => .error "TypeError"

def chainTyOk : Ty → Bool
  | .int _ | .ptr => true
  | _ => false

/-- `try_eval_const`: an operation that is undefined for its constant operands (division by zero, negative
    shift amount, inf/nan to integer) is not folded -/
def tryEvalConst (f : Func) (fuel : Nat) (o : Operand) : R (Option (Ty × ConstVal)) :=
  match evalConst f fuel o with
  | .ok r => .ok (some r)
  | .error e => if e = "ZeroDivisionError" || e = "ValueError" || e = "OverflowError" then .ok none else .error e

/-- body of the loop of `ConstantFolder.on_block` for the value named `d` -/
def foldInstr (f : Func) (d : String) : R Func :=
  let fuel := (allNames f).length + 1
  match defInstr f d with
  | none => .ok f
  | some (.const ..) => .ok f
  | some ins =>
    if isConst f fuel (.loc d) then do
      match ← tryEvalConst f fuel (.loc d) with
      | none => pure f
      | some (t, c) =>
        let n := freshName f (match ins with | .cast .. => "casted" | _ => "new_fold")
        pure (subst (insertBefore f d (.const n t c)) d (.loc n))
    else
      match ins with
      | .binop _ t op a c2 =>
        match opndDef f a with
        | some (.binop _ _ op1 y c1) =>
          if (op == .add && op1 == .add || op == .sub && op1 == .sub) && chainTyOk t
             && isConst f fuel c1 && isConst f fuel c2 then do
            match ← tryEvalConst f fuel c1, ← tryEvalConst f fuel c2 with
            | some (ta, va), some (tb, vb) =>
              if ta ≠ tb then throw "AssertionError"
              let v ← chainValue ta va vb
              let n := freshName f "new_fold"
              if t ≠ ta then throw "AssertionError"
              pure (replaceInstr (insertBefore f d (.const n ta v)) d (.binop d t op y (.loc n)))
            | _, _ => pure f
          else pure f
        | _ => pure f
      | _ => pure f

def foldBlock (f : Func) (bi : Nat) : R Func :=
  match f.blocks[bi]? with
  | none => .ok f
  | some b => (b.instrs.filterMap dstName).foldlM foldInstr f

def constFold (f : Func) : R Func := (List.range f.blocks.length).foldlM foldBlock f

/-! ## CJumpPass -/

def fOfBits (b : Nat) : Float := Float.ofBits b.toUInt64

/-- python comparison of two constant payloads -/
def pyCompare (c : Cond) : ConstVal → ConstVal → Bool
  | .int x, .int y => (match c with
      | .eq => x == y | .ne => x != y | .lt => decide (x < y) | .gt => decide (x > y)
      | .le => decide (x ≤ y) | .ge => decide (x ≥ y))
  | a, b =>
    let x := match a with | .int v => Float.ofInt v | .fbits v => fOfBits v
    let y := match b with | .int v => Float.ofInt v | .fbits v => fOfBits v
    (match c with
      | .eq => x == y | .ne => x != y | .lt => x < y | .gt => x > y | .le => x ≤ y | .ge => x ≥ y)

def cjumpInstr (f : Func) : Instr → Instr
  | .cjump a c b yes no =>
    match opndDef f a, opndDef f b with
    | some (.const _ _ ka), some (.const _ _ kb) => .jump (if pyCompare c ka kb then yes else no)
    | _, _ => .cjump a c b yes no
  | i => i

/-- `phi.del_incoming(blk)` (KeyError when the phi has no value for `blk`) -/
def delIncoming (blk : String) : Instr → R Instr
  | .phi d t ins =>
    if ins.any (·.1 = blk) then .ok (.phi d t (ins.filter (·.1 ≠ blk))) else .error "KeyError"
  | i => .ok i

def delIncomingBlock (f : Func) (target blk : String) : R Func := do
  let bs ← f.blocks.mapM fun b =>
    if b.name = target then do pure { b with instrs := ← b.instrs.mapM (delIncoming blk) } else pure b
  pure { f with blocks := bs }

/-- the not-taken target of a conditional jump that folds to `jump t` -/
def otherTarget : Instr → String → Option String
  | .cjump _ _ _ yes no, t => if t = yes then (if no = yes then none else some no) else some yes
  | _, _ => none

/-- one block: folded jumps are appended at the end of the block (`remove_instruction` + `add_instruction`),
    the phis of the not-taken target lose their value for this block; returns the number of folded jumps -/
def cjumpBlock (st : Func × Nat) (bn : String) : R (Func × Nat) := do
  let (f, n) := st
  match f.findBlock bn with
  | none => pure st
  | some b =>
    let folded := b.instrs.filter fun i => cjumpInstr f i != i
    let kept := b.instrs.filter fun i => cjumpInstr f i == i
    let f1 := mapBlocks f fun x => if x.name = bn then { x with instrs := kept ++ folded.map (cjumpInstr f) } else x
    let f2 ← folded.foldlM (fun g i =>
      match cjumpInstr f i with
      | .jump t => (match otherTarget i t with
          | some o => delIncomingBlock g o bn
          | none => pure g)
      | _ => pure g) f1
    pure (f2, n + folded.length)

/-- `SubRoutine.delete_unreachable` -/
def deleteUnreachable (f : Func) : R Func := do
  let r := f.reach none
  let unr := f.blocks.filter fun b => !r.contains b.name
  let f1 ← unr.foldlM (fun g b => b.succs.eraseDups.foldlM (fun g s => delIncomingBlock g s b.name) g) f
  pure { f1 with blocks := f1.blocks.filter fun b => r.contains b.name }

def cjumpPass (f : Func) : R Func := do
  let (f1, n) ← (f.blocks.map (·.name)).foldlM cjumpBlock (f, 0)
  if n = 0 then pure f1 else deleteUnreachable f1

/-! ## LoadAfterStorePass -/

/-- does an instruction stop `find_store_backwards`? (`stop_on`; the matching Store case is handled before) -/
def lasStops (stopLoad : Bool) : Instr → Bool
  | .fcall .. | .pcall .. | .store .. | .copyblob .. | .asm .. => true
  | .load .. => stopLoad
  | _ => false

/-- `find_store_backwards`: positions `pos-1, …, 1` of `instrs` -/
def findStoreBack (instrs : List Instr) (ty : Ty) (addr : Operand) (stopLoad : Bool) : Nat → Option Nat
  | 0 => none
  | x + 1 =>
    -- looks at position x+1 … wait: called with `pos - 1`, examines index `x + 1`, never index 0
    match instrs[x + 1]? with
    | some (.store t _ a _) => if t == ty then (if a == addr then some (x + 1) else none) else none
    | some i => if lasStops stopLoad i then none else findStoreBack instrs ty addr stopLoad x
    | none => findStoreBack instrs ty addr stopLoad x

def indexOfDst (instrs : List Instr) (d : String) : Option Nat :=
  instrs.findIdx? fun i => dstName i = some d

def lasLoad (bi : Nat) (f : Func) (d : String) : Func :=
  match f.blocks[bi]? with
  | none => f
  | some b =>
    match indexOfDst b.instrs d with
    | none => f
    | some pos =>
      match b.instrs[pos]? with
      | some (.load _ ty addr _) =>
        (match findStoreBack b.instrs ty addr false (pos - 1) with
         | some q => (match b.instrs[q]? with
            | some (.store _ v _ _) => subst f d v
            | _ => f)
         | none => f)
      | _ => f

/-- `remove_redundant_stores` on one instruction list: `acc` = instructions already passed (after removals) -/
def lasStores : List Instr → List Instr → List Instr
  | acc, [] => acc
  | acc, i :: rest =>
    match i with
    | .store ty _ addr false =>
      let all := acc ++ [i]
      (match findStoreBack all ty addr true (acc.length - 1) with
       | some q => (match acc[q]? with
          | some (.store _ _ _ false) => lasStores (acc.eraseIdx q ++ [i]) rest
          | _ => lasStores (acc ++ [i]) rest)
       | none => lasStores (acc ++ [i]) rest)
    | _ => lasStores (acc ++ [i]) rest

def lasBlock (f : Func) (bi : Nat) : Func :=
  match f.blocks[bi]? with
  | none => f
  | some b =>
    let loads := b.instrs.filterMap fun i => match i with
      | .load d _ _ false => some d
      | _ => none
    let f := loads.foldl (lasLoad bi) f
    match f.blocks[bi]? with
    | none => f
    | some b => setBlock f bi { b with instrs := lasStores [] b.instrs }

def loadAfterStore (f : Func) : Func := (List.range f.blocks.length).foldl lasBlock f

/-! ## CleanPass -/

def setAssoc (l : List (String × Operand)) (k : String) (v : Operand) : List (String × Operand) :=
  if l.any (·.1 = k) then l.map fun p => if p.1 = k then (k, v) else p else l ++ [(k, v)]

/-- `Block.replace_incoming(block, new_blocks)` on one instruction -/
def replaceIncoming (blk : String) (news : List String) : Instr → R Instr
  | .phi d t ins =>
    match lookupStr ins blk with
    | none => .error "KeyError"
    | some v => .ok (.phi d t (news.foldl (fun acc p => setAssoc acc p v) (ins.filter (·.1 ≠ blk))))
  | i => .ok i

def replaceIncomingBlock (f : Func) (succ blk : String) (news : List String) : R Func := do
  let bs ← f.blocks.mapM fun b =>
    if b.name = succ then do pure { b with instrs := ← b.instrs.mapM (replaceIncoming blk news) } else pure b
  pure { f with blocks := bs }

def retarget (old new : String) : Instr → Instr
  | .jump t => .jump (if t = old then new else t)
  | .cjump a c b y n => .cjump a c b (if y = old then new else y) (if n = old then new else n)
  | i => i

/-- `pred.change_target(old, new)`: only the last instruction -/
def changeTarget (f : Func) (pred old new : String) : Func :=
  mapBlocks f fun b =>
    if b.name = pred then
      match b.instrs.reverse with
      | l :: init => { b with instrs := (retarget old new l :: init).reverse }
      | [] => b
    else b

def removeBlock (f : Func) (n : String) : Func := { f with blocks := f.blocks.filter (·.name ≠ n) }

def isEmptyBlock (f : Func) (b : Block) : Bool :=
  b.name ≠ f.entry && (match b.instrs.head? with | some (.jump _) => true | _ => false)

/-- the guard added by the fix (findings/C02.json): an empty block is kept when one of its predecessors
    already is a predecessor of a successor that has phis (the phi could not tell the two edges apart) -/
def sharedPredWithPhi (f : Func) (preds : List String) (succs : List String) : Bool :=
  succs.any fun s =>
    match f.findBlock s with
    | some sb => !sb.phis.isEmpty && preds.any fun p => (f.preds s).contains p
    | none => false

def removeEmptyBlock (f : Func) (bn : String) : R Func :=
  match f.findBlock bn with
  | none => .ok f
  | some b =>
    let preds := f.preds bn
    let succs := b.succs
    if preds.contains bn then .ok f
    else if sharedPredWithPhi f preds succs then .ok f
    else do
      let f ← succs.foldlM (fun f s => replaceIncomingBlock f s bn preds) f
      match b.instrs.getLast? with
      | some (.jump tgt) =>
        let f := preds.foldl (fun f p => changeTarget f p bn tgt) f
        pure (removeBlock f bn)
      | _ => .error "AttributeError"

def removeEmptyBlocks (f : Func) : R Func :=
  ((f.blocks.filter (isEmptyBlock f)).map (·.name)).foldlM removeEmptyBlock f

/-- `find_single_predecessor_block` -/
def findSinglePred (f : Func) : Option (String × String) :=
  f.blocks.findSome? fun b =>
    if b.name = f.entry then none else      -- the entry block is never glued into a predecessor
    match f.preds b.name with
    | [p] =>
      if p = b.name then none else
      match (f.findBlock p).bind (·.instrs.getLast?) with
      | some (.jump _) => some (p, b.name)
      | _ => none
    | _ => none

def removeInstr (f : Func) (d : String) : Func :=
  mapBlocks f fun b => { b with instrs := b.instrs.filter fun i => dstName i ≠ some d }

/-- the phis of `b2` (single predecessor `b1`) are replaced by their only value and removed -/
def resolvePhis (f : Func) (b1 b2 : String) : R Func :=
  match f.findBlock b2 with
  | none => .ok f
  | some x2 => (x2.phis.filterMap dstName).foldlM (fun f d =>
      match defInstr f d with
      | some (.phi _ _ ins) =>
        match lookupStr ins b1 with
        | some v => pure (removeInstr (subst f d v) d)
        | none => throw "KeyError"
      | _ => pure f) f

/-- `glue_blocks(block1, block2)` -/
def glue (f : Func) (b1 b2 : String) : R Func := do
  let f ← resolvePhis f b1 b2
  match f.findBlock b1, f.findBlock b2 with
  | some x1, some x2 =>
    let f1 := mapBlocks f fun b => if b.name = b1 then { b with instrs := x1.instrs.dropLast ++ x2.instrs } else b
    let f2 ← x2.succs.eraseDups.foldlM (fun f s => replaceIncomingBlock f s b2 [b1]) f1
    pure (removeBlock f2 b2)
  | _, _ => pure f

def removeOnePreds (f : Func) : Nat → R Func
  | 0 => .ok f
  | fuel + 1 =>
    match findSinglePred f with
    | some (p, b) => do removeOnePreds (← glue f p b) fuel
    | none => .ok f

def clean (f : Func) : R Func := do
  let f ← removeEmptyBlocks f
  removeOnePreds f (f.blocks.length + 1)

/-! ## pass table (driver op `pass <name>`) -/

def passByName : String → Option (Func → R Func)
  | "addzero" => some fun f => .ok (removeAddZero f)
  | "delunused" => some fun f => .ok (deleteUnused f)
  | "cse" => some fun f => .ok (cse f)
  | "constfold" => some constFold
  | "cjump" => some cjumpPass
  | "las" => some fun f => .ok (loadAfterStore f)
  | "clean" => some clean
  | _ => none

def runPass (p : Func → R Func) (m : Module) : R Module := do
  pure { m with funcs := ← m.funcs.mapM p }

end Model.Opt
