import PpciVerif.Spec.ItemTrace
/-!
# `Model.Peephole` — `ppci/codegen/peephole.py: PeepHoleStream`

```python
def do_emit(self, item):
    self._window.append(item)
    self.clip_window(2)
    if len(self._window) == 2:
        a, b = self._window
        if hasattr(a, "effect") and hasattr(b, "effect"):
            if a.effect() == b.effect():
                if not isinstance(a, Label):
                    self._window.pop(0)
def clip_window(self, size):
    while len(self._window) > size:
        self._downstream.emit(self._window.pop(0))
def flush(self):
    self.clip_window(0)
```
Only two classes have an `effect` method: `Label` (`[("set","pc",name)]`) and the x86-64
`NearJump` (`[("set","pc",target)]`), so the only rewrite is: an unconditional jump is dropped
when the NEXT item is the label it jumps to, or another unconditional jump to the same label.

* `Stream`, `doEmit`, `clip`, `flush`, `runStream` mirror the class (window + what went downstream);
* `peep` is the same rewrite as a function on the whole list;
  `Proofs.Peephole.runStream_eq_peep` shows they agree.
-/
namespace Model.Peephole
open Spec.ItemTrace

/-- `item.effect()` when the method exists: the label name / the jump target -/
def effect? : Item → Option Nat
  | .label l => some l
  | .jump t => some t
  | .other _ => none

def isLabel : Item → Bool
  | .label _ => true
  | _ => false

structure Stream where
  window : List Item
  out : List Item          -- what was handed to the downstream stream, in order
  deriving Repr, DecidableEq, Inhabited

/-- `clip_window(size)` -/
def clip (size : Nat) (s : Stream) : Stream :=
  match _h : s.window with
  | [] => s
  | x :: w => if s.window.length > size then clip size { window := w, out := s.out ++ [x] } else s
termination_by s.window.length
decreasing_by simp [_h]

/-- `do_emit(item)` -/
def doEmit (s : Stream) (item : Item) : Stream :=
  let s := clip 2 { s with window := s.window ++ [item] }
  match s.window with
  | [a, b] =>
    match effect? a, effect? b with
    | some ea, some eb => if ea = eb ∧ ¬ isLabel a then { s with window := [b] } else s
    | _, _ => s
  | _ => s

def flush (s : Stream) : Stream := clip 0 s

/-- emit every item, then flush: what reaches the downstream stream -/
def runStream (items : List Item) : List Item := (flush (items.foldl doEmit { window := [], out := [] })).out

/-- `a` is dropped in front of `b` -/
def dropPair : Item → Item → Bool
  | .jump t, .jump t' => t == t'
  | .jump t, .label l => t == l
  | _, _ => false

/-- the rewrite on the whole list -/
def peep : List Item → List Item
  | a :: b :: rest => if dropPair a b then peep (b :: rest) else a :: peep (b :: rest)
  | l => l


end Model.Peephole
