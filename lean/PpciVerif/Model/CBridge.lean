/-
`Model.CBridge` — how an expression of the specification (`Spec.CExpr.Expr`) is *written*
in C and handed by ppci's lexer/parser to the semantic actions (`Model.CType.Src`).
No Mathlib; used by `Drivers/C01.lean` and by the statements of `Props/C01.lean`.

* an integer constant is printed in decimal, or in hexadecimal with `0x`, with its suffix;
  `utils.cnum` returns the value and the specifier list of the suffix;
  `not text.startswith("0")` holds exactly for a decimal constant other than `0`;
* a character constant is one (possibly escaped) character with that code;
* `sizeof (T)` with `CContext.sizeof(T) = n`;
* operators are printed with their C spelling, fully parenthesised (operator precedence of
  the parser is therefore not under test);
* a variable / cast type is printed by name; `signed char` and `char` are the same
  `BasicType.CHAR` (char is signed in ppci and in `Spec.CInt`).
`harness/c01.py` renders the same trees to text and the run compares the real front-end
with the model on them.
-/
import PpciVerif.Spec.CExpr
import PpciVerif.Model.CType
import PpciVerif.Spec.CLayout
import PpciVerif.Model.CLayout

namespace Model.CBridge
open Spec.CInt (Base Suffix UnOp BinOp)

/-- the `BasicType` a type name denotes -/
def M : Spec.CInt.Ty → Model.CType.Ty
  | .char | .schar => .char | .uchar => .uchar | .short => .short | .ushort => .ushort
  | .int => .int | .uint => .uint | .long => .long | .ulong => .ulong
  | .llong => .llong | .ullong => .ullong

/-- the C type with a given `BasicType` (plain `char` for `BasicType.CHAR`) -/
def S : Model.CType.Ty → Spec.CInt.Ty
  | .char => .char | .uchar => .uchar | .short => .short | .ushort => .ushort
  | .int => .int | .uint => .uint | .long => .long | .ulong => .ulong
  | .llong => .llong | .ullong => .ullong

def sufUnsigned : Suffix → Bool
  | .u | .ul | .ull => true
  | _ => false

def sufLongs : Suffix → Nat
  | .none | .u => 0
  | .l | .ul => 1
  | .ll | .ull => 2

def unSym : UnOp → Model.CType.UnSym
  | .neg => .minus | .bnot => .tilde | .lnot => .bang | .plus => .plus

def binSym : BinOp → Model.CType.BinSym
  | .add => .plus | .sub => .minus | .mul => .star | .div => .slash | .mod => .percent
  | .shl => .shl | .shr => .shr | .band => .amp | .bor => .bar | .bxor => .caret
  | .lt => .lt | .gt => .gt | .le => .le | .ge => .ge | .eq => .eqeq | .ne => .ne
  | .land => .andand | .lor => .oror

def toSrc : Spec.CExpr.Expr → Model.CType.Src
  | .var τ i => .var (M τ) i
  | .lit b s v => .num (decide (b = .dec) && decide (v ≠ 0)) (sufUnsigned s) (sufLongs s) v
  | .chr v => .chr v
  | .szof n => .szof n
  | .un op a => .un (unSym op) (toSrc a)
  | .bin op a b => .bin (binSym op) (toSrc a) (toSrc b)
  | .cond c a b => .tern (toSrc c) (toSrc a) (toSrc b)
  | .cast τ a => .cast (M τ) (toSrc a)

/-! ### object types -/

/-- the psABI scalar class of a basic type (signedness is irrelevant for layout) -/
def primS : Model.CLayout.Prim → Spec.CLayout.Prim
  | .char | .uchar => .char | .short | .ushort => .short | .int | .uint => .int
  | .long | .ulong => .long | .llong | .ullong => .llong | .float => .float | .double => .double | .ptr => .ptr

mutual
  def ltyS : Model.CLayout.LTy → Spec.CLayout.LTy
    | .prim p => .prim (primS p)
    | .arr e n => .arr (ltyS e) n
    | .struct fs => .struct (fieldsS fs)
    | .union fs => .union (fieldsS fs)
  def fieldsS : Model.CLayout.Fields → Spec.CLayout.Fields
    | .nil => .nil
    | .cons t r => .cons (ltyS t) (fieldsS r)
end

end Model.CBridge
