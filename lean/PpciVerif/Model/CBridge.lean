/-
`Model.CBridge` — how an expression of the specification (`Spec.CExpr.Expr`) is *written*
in C and handed by ppci's lexer/parser to the semantic actions (`Model.CType.Src`).
No Mathlib; used by `Drivers/C01.lean` and by the statements of `Props/C01.lean`.

* an integer constant is printed in decimal, or in hexadecimal with `0x`, with its suffix;
  `utils.cnum` returns the value and the specifier list of the suffix;
  `not text.startswith("0")` holds exactly for a decimal constant other than `0`;
* a character constant is one (possibly escaped) character with that code;
* `sizeof (T)` with `CContext.sizeof(T) = n`;
* operators are printed with their C spelling, fully parenthesised (operator precedence of
  the parser is therefore not under test);
* a variable / cast type is printed by name; `signed char` and `char` are the same
  `BasicType.CHAR` (char is signed in ppci and in `Spec.CInt`).
`harness/c01.py` renders the same trees to text and the run compares the real front-end
with the model on them.
-/
import PpciVerif.Spec.CExpr
import PpciVerif.Model.CType
import PpciVerif.Spec.CLayout
import PpciVerif.Model.CLayout

namespace Model.CBridge
open Spec.CInt (Base Suffix UnOp BinOp)

/-- the `BasicType` a type name denotes -/
def M : Spec.CInt.Ty → Model.CType.Ty
  | .char | .schar => .char | .uchar => .uchar | .short => .short | .ushort => .ushort
  | .int => .int | .uint => .uint | .long => .long | .ulong => .ulong
  | .llong => .llong | .ullong => .ullong

/-- the C type with a given `BasicType` (plain `char` for `BasicType.CHAR`) -/
def S : Model.CType.Ty → Spec.CInt.Ty
  | .char => .char | .uchar => .uchar | .short => .short | .ushort => .ushort
  | .int => .int | .uint => .uint | .long => .long | .ulong => .ulong
  | .llong => .llong | .ullong => .ullong

def sufUnsigned : Suffix → Bool
  | .u | .ul | .ull => true
  | _ => false

def sufLongs : Suffix → Nat
  | .none | .u => 0
  | .l | .ul => 1
  | .ll | .ull => 2

def unSym : UnOp → Model.CType.UnSym
  | .neg => .minus | .bnot => .tilde | .lnot => .bang | .plus => .plus

def binSym : BinOp → Model.CType.BinSym
  | .add => .plus | .sub => .minus | .mul => .star | .div => .slash | .mod => .percent
  | .shl => .shl | .shr => .shr | .band => .amp | .bor => .bar | .bxor => .caret
  | .lt => .lt | .gt => .gt | .le => .le | .ge => .ge | .eq => .eqeq | .ne => .ne
  | .land => .andand | .lor => .oror

def toSrc : Spec.CExpr.Expr → Model.CType.Src
  | .var τ i => .var (M τ) i
  | .lit b s v => .num (decide (b = .dec) && decide (v ≠ 0)) (sufUnsigned s) (sufLongs s) v
  | .chr v => .chr v
  | .szof n => .szof n
  | .un op a => .un (unSym op) (toSrc a)
  | .bin op a b => .bin (binSym op) (toSrc a) (toSrc b)
  | .cond c a b => .tern (toSrc c) (toSrc a) (toSrc b)
  | .cast τ a => .cast (M τ) (toSrc a)

/-! ### what C prescribes for a single operator node, written as a typed tree -/

open Model.CType (TExpr coerce) in
/-- `e` converted to `τ1`, then to `τ2` (a conversion to the type it already has is no node) -/
def conv2 (e : Model.CType.TExpr) (τ1 τ2 : Model.CType.Ty) : Model.CType.TExpr := coerce (coerce e τ1) τ2

def BinOp.all' : List BinOp :=
  [.add, .sub, .mul, .div, .mod, .shl, .shr, .band, .bor, .bxor, .lt, .gt, .le, .ge, .eq, .ne, .land, .lor]

def isCmp : BinOp → Bool
  | .lt | .gt | .le | .ge | .eq | .ne => true
  | _ => false

open Spec.CInt (promote uac) in
/-- the node C's rules prescribe for `a op b` with `a : ta` (variable 0), `b : tb` (variable 1):
    integer promotions, then usual arithmetic conversions (arithmetic, bitwise, comparison), result type as in 6.5;
    for shifts ppci additionally converts the promoted count to the result type -/
def expectedBin (op : BinOp) (ta tb : Model.CType.Ty) : Model.CType.TExpr :=
  let sa := S ta
  let sb := S tb
  let va := Model.CType.TExpr.var ta 0
  let vb := Model.CType.TExpr.var tb 1
  let common := M (uac sa sb)
  if op.isArith then .bin (binSym op) common (conv2 va (M (promote sa)) common) (conv2 vb (M (promote sb)) common)
  else if op.isShift then
    .bin (binSym op) (M (promote sa)) (conv2 va (M (promote sa)) (M (promote sa))) (conv2 vb (M (promote sb)) (M (promote sa)))
  else if isCmp op then .bin (binSym op) .int (conv2 va (M (promote sa)) common) (conv2 vb (M (promote sb)) common)
  else .bin (binSym op) .int va vb

open Spec.CInt (promote) in
/-- the node C's rules prescribe for a unary operator on variable 0 of type `ta` -/
def expectedUn (op : UnOp) (ta : Model.CType.Ty) : Model.CType.TExpr :=
  let pa := M (promote (S ta))
  let va := Model.CType.TExpr.var ta 0
  match op with
  | .neg => .un .minus pa (Model.CType.coerce va pa)
  | .bnot => .un .tilde pa (Model.CType.coerce va pa)
  | .plus => Model.CType.coerce va pa
  | .lnot => .un .bang .int va

/-- width and signedness of an IR integer type name -/
def irInfo : String → Option (Nat × Bool)
  | "i8" => some (8, true) | "i16" => some (16, true) | "i32" => some (32, true) | "i64" => some (64, true)
  | "u8" => some (8, false) | "u16" => some (16, false) | "u32" => some (32, false) | "u64" => some (64, false)
  | _ => none

/-! ### object types -/

/-- the psABI scalar class of a basic type (signedness is irrelevant for layout) -/
def primS : Model.CLayout.Prim → Spec.CLayout.Prim
  | .char | .uchar => .char | .short | .ushort => .short | .int | .uint => .int
  | .long | .ulong => .long | .llong | .ullong => .llong | .float => .float | .double => .double | .ptr => .ptr

mutual
  def ltyS : Model.CLayout.LTy → Spec.CLayout.LTy
    | .prim p => .prim (primS p)
    | .arr e n => .arr (ltyS e) n
    | .struct fs => .struct (fieldsS fs)
    | .union fs => .union (fieldsS fs)
  def fieldsS : Model.CLayout.Fields → Spec.CLayout.Fields
    | .nil => .nil
    | .cons t r => .cons (ltyS t) (fieldsS r)
end

end Model.CBridge
