/-
C23 (third sliver) — function-table slots of `ppci/wasm/ppci2wasm.py`.

`do_tree` (branch `LABEL`): the first time the address of a function is taken
anywhere in the module, the function gets the next free slot
(`addr = len(self.pointed_functions)`), the slot is remembered module-wide
(`self.global_labels[name] = addr`, a dict that lives from `prepare_compilation`
to the end of the module) and the function is appended to
`self.pointed_functions`; later uses, in any function, find the remembered slot.
`i32.const slot` is emitted at every use.  `create_wasm_module` emits one
element segment at offset 0 whose entries are `pointed_functions` in order, and a
table of that size.  Functions are numbers here (index in the module).
-/
namespace Model.FuncTable

/-- the remembered slot of `f`: its position in the table built so far -/
def slotOf : List Nat → Nat → Option Nat
  | [], _ => none
  | g :: t, f => if g = f then some 0 else (slotOf t f).map (· + 1)

/-- one `LABEL f` use: (table afterwards, slot emitted) -/
def take (t : List Nat) (f : Nat) : List Nat × Nat :=
  match slotOf t f with
  | some s => (t, s)
  | none => (t ++ [f], t.length)

/-- all `LABEL` uses of the module, in compilation order (across functions):
    (final table = element segment, slots emitted) -/
def run : List Nat → List Nat → List Nat × List Nat
  | t, [] => (t, [])
  | t, f :: fs =>
    let r := take t f
    let rest := run r.1 fs
    (rest.1, r.2 :: rest.2)

/-- the whole module: `uses` = per function, the functions whose address it takes -/
def compileModule (uses : List (List Nat)) : List Nat × List Nat := run [] uses.flatten

/-- what the code would do if the slot dictionary were re-created per function
    while the element segment keeps growing (a plausible refactoring slip): only
    used for the negative example in Props/C23.lean -/
def runPerFunction : List Nat → List (List Nat) → List Nat × List (List Nat)
  | elems, [] => (elems, [])
  | elems, us :: rest =>
    let r := run [] us                      -- fresh dictionary, slots restart at 0
    let r' := runPerFunction (elems ++ r.1) rest
    (r'.1, r.2 :: r'.2)

end Model.FuncTable
