import PpciVerif.Model.Proto
import PpciVerif.Model.CBridge
import PpciVerif.Model.CLower
import PpciVerif.Model.CAssign
import PpciVerif.Model.CSwitch
/-! Request interpreter of the C01 line-protocol driver (compiled, so that the driver starts fast).

Expressions are sent in prefix form (words separated by blanks):
  `V <ty> <i>`                          variable number i of type ty
  `L <d|x> <n|u|l|ul|ll|ull> <value>`   integer constant (decimal | hex/octal, suffix)
  `C <value>`                           character constant
  `Z <n>`                               sizeof of a type of size n
  `U <neg|bnot|lnot|plus> e`  `B <add|...|lor> e e`  `Q e e e`  `K <ty> e`
Types: char schar uchar short ushort int uint long ulong llong ullong.
Object types:  `P <prim>` | `A <n> t` | `S <k> t1 … tk` (struct) | `N <k> t1 … tk` (union)
  prim: char uchar short ushort int uint long ulong llong ullong float double ptr

Requests:
  stype e                 Spec.CExpr.typeOf                      -> ok <ty> | ok none
  elab e                  Model.CType.elaborate (toSrc e)        -> ok <typed tree> | ok none
  lelab <op> <t1> <t2>    the rules before 21f7d05 on `a op b`   -> ok <typed tree>
  tree e                  decision tree of Model.CLower.compile  -> ok <tree> | ok none
  relab e / rtree e / rieval <vs> e   the same for the body of `long long f(…) { return e; }`
                          (`on_return` coerces the value to the return type)
  seval <v0,v1,…> e       Spec.CExpr.eval                        -> ok <int> | ok none
  ieval <v0,v1,…> e       Spec.IRExpr.ieval of the compiled tree -> ok <int> | ok none
  events x                Model.CAssign.events (order and multiplicity of loads/stores/calls of an assignment expression)
                          x := c | call <f> x | bin x x | lv l | asg l x | casg l x | inc l | comma x x
                          l := V <n> | I x | D x | M x                       -> ok <ev ev …> | ok -
  switches <k> s1 … sk    Model.CSwitch.gen on a statement list: per switch (test-block order) `c1,c2,…|D` or `…|N`
                          s := case <int> | default | o | block <k> s… | if <k1> <k2> s… s… | loop <k> s… | switch <k> s…
  mlayout t               Model.CLayout: size align [offsets]
  slayout t               Spec.CLayout:  size align [offsets]
-/
namespace Model.C01Driver
open Proto
open Spec.CInt (Base Suffix UnOp BinOp)
open Spec.CExpr (Expr)

def specTy? : String → Option Spec.CInt.Ty
  | "char" => some .char | "schar" => some .schar | "uchar" => some .uchar
  | "short" => some .short | "ushort" => some .ushort | "int" => some .int | "uint" => some .uint
  | "long" => some .long | "ulong" => some .ulong | "llong" => some .llong | "ullong" => some .ullong
  | _ => none

def specTyName : Spec.CInt.Ty → String
  | .char => "char" | .schar => "schar" | .uchar => "uchar" | .short => "short" | .ushort => "ushort"
  | .int => "int" | .uint => "uint" | .long => "long" | .ulong => "ulong" | .llong => "llong" | .ullong => "ullong"

def suffix? : String → Option Suffix
  | "n" => some .none | "u" => some .u | "l" => some .l | "ul" => some .ul | "ll" => some .ll | "ull" => some .ull
  | _ => none

def unop? : String → Option UnOp
  | "neg" => some .neg | "bnot" => some .bnot | "lnot" => some .lnot | "plus" => some .plus
  | _ => none

def binop? : String → Option BinOp
  | "add" => some .add | "sub" => some .sub | "mul" => some .mul | "div" => some .div | "mod" => some .mod
  | "shl" => some .shl | "shr" => some .shr | "band" => some .band | "bor" => some .bor | "bxor" => some .bxor
  | "lt" => some .lt | "gt" => some .gt | "le" => some .le | "ge" => some .ge | "eq" => some .eq | "ne" => some .ne
  | "land" => some .land | "lor" => some .lor
  | _ => none

/-- prefix parser with fuel (the number of words suffices): returns the expression and the unread words -/
def parseE : Nat → List String → Option (Expr × List String)
  | 0, _ => none
  | fuel + 1, ws =>
  match ws with
  | "V" :: t :: i :: rest => do
      let τ ← specTy? t
      let n ← nat? i
      pure (.var τ n, rest)
  | "L" :: b :: s :: v :: rest => do
      let base ← (if b == "d" then some Base.dec else if b == "x" then some Base.hexoct else none)
      let suf ← suffix? s
      let n ← nat? v
      pure (.lit base suf n, rest)
  | "C" :: v :: rest => do
      let n ← nat? v
      pure (.chr n, rest)
  | "Z" :: v :: rest => do
      let n ← nat? v
      pure (.szof n, rest)
  | "U" :: op :: rest => do
      let o ← unop? op
      let (a, r) ← parseE fuel rest
      pure (.un o a, r)
  | "B" :: op :: rest => do
      let o ← binop? op
      let (a, r) ← parseE fuel rest
      let (b, r) ← parseE fuel r
      pure (.bin o a b, r)
  | "Q" :: rest => do
      let (c, r) ← parseE fuel rest
      let (a, r) ← parseE fuel r
      let (b, r) ← parseE fuel r
      pure (.cond c a b, r)
  | "K" :: t :: rest => do
      let τ ← specTy? t
      let (a, r) ← parseE fuel rest
      pure (.cast τ a, r)
  | _ => none

def parseAll (ws : List String) : Option Expr :=
  match parseE (ws.length + 1) ws with
  | some (e, []) => some e
  | _ => none

def prim? : String → Option Model.CLayout.Prim
  | "char" => some .char | "uchar" => some .uchar | "short" => some .short | "ushort" => some .ushort
  | "int" => some .int | "uint" => some .uint | "long" => some .long | "ulong" => some .ulong
  | "llong" => some .llong | "ullong" => some .ullong | "float" => some .float | "double" => some .double
  | "ptr" => some .ptr
  | _ => none

mutual
  def parseT : Nat → List String → Option (Model.CLayout.LTy × List String)
    | 0, _ => none
    | fuel + 1, ws =>
    match ws with
    | "P" :: p :: rest => do
        let q ← prim? p
        pure (.prim q, rest)
    | "A" :: n :: rest => do
        let k ← nat? n
        let (e, r) ← parseT fuel rest
        pure (.arr e k, r)
    | "S" :: n :: rest => do
        let k ← nat? n
        let (fs, r) ← parseFs fuel k rest
        pure (.struct fs, r)
    | "N" :: n :: rest => do
        let k ← nat? n
        let (fs, r) ← parseFs fuel k rest
        pure (.union fs, r)
    | _ => none
  def parseFs : Nat → Nat → List String → Option (Model.CLayout.Fields × List String)
    | 0, _, _ => none
    | _ + 1, 0, ws => some (.nil, ws)
    | fuel + 1, k + 1, ws => do
        let (t, r) ← parseT fuel ws
        let (fs, r) ← parseFs fuel k r
        pure (.cons t fs, r)
end

def parseTy (ws : List String) : Option Model.CLayout.LTy :=
  match parseT (2 * ws.length + 2) ws with
  | some (t, []) => some t
  | _ => none

mutual
  def parseR : Nat → List String → Option (Model.CAssign.RExp × List String)
    | 0, _ => none
    | fuel + 1, ws =>
    match ws with
    | "c" :: rest => some (.const, rest)
    | "call" :: f :: rest => do
        let n ← nat? f
        let (a, r) ← parseR fuel rest
        pure (.call n a, r)
    | "bin" :: rest => do
        let (a, r) ← parseR fuel rest
        let (b, r) ← parseR fuel r
        pure (.bin a b, r)
    | "comma" :: rest => do
        let (a, r) ← parseR fuel rest
        let (b, r) ← parseR fuel r
        pure (.comma a b, r)
    | "lv" :: rest => do
        let (l, r) ← parseL fuel rest
        pure (.lval l, r)
    | "inc" :: rest => do
        let (l, r) ← parseL fuel rest
        pure (.incdec l, r)
    | "asg" :: rest => do
        let (l, r) ← parseL fuel rest
        let (e, r) ← parseR fuel r
        pure (.assign l e, r)
    | "casg" :: rest => do
        let (l, r) ← parseL fuel rest
        let (e, r) ← parseR fuel r
        pure (.compound l e, r)
    | _ => none
  def parseL : Nat → List String → Option (Model.CAssign.LExp × List String)
    | 0, _ => none
    | fuel + 1, ws =>
    match ws with
    | "V" :: n :: rest => do
        let k ← nat? n
        pure (.var k, rest)
    | "I" :: rest => do
        let (e, r) ← parseR fuel rest
        pure (.index e, r)
    | "D" :: rest => do
        let (e, r) ← parseR fuel rest
        pure (.deref e, r)
    | "M" :: rest => do
        let (e, r) ← parseR fuel rest
        pure (.member e, r)
    | _ => none
end

def parseRAll (ws : List String) : Option Model.CAssign.RExp :=
  match parseR (ws.length + 1) ws with
  | some (e, []) => some e
  | _ => none

mutual
  def parseSt : Nat → List String → Option (Model.CSwitch.St × List String)
    | 0, _ => none
    | fuel + 1, ws =>
    match ws with
    | "case" :: v :: rest => do
        let z ← int? v
        pure (.case z, rest)
    | "default" :: rest => some (.default, rest)
    | "o" :: rest => some (.other, rest)
    | "block" :: n :: rest => do
        let k ← nat? n
        let (b, r) ← parseSts fuel k rest
        pure (.block b, r)
    | "loop" :: n :: rest => do
        let k ← nat? n
        let (b, r) ← parseSts fuel k rest
        pure (.loop b, r)
    | "switch" :: n :: rest => do
        let k ← nat? n
        let (b, r) ← parseSts fuel k rest
        pure (.switch b, r)
    | "if" :: n1 :: n2 :: rest => do
        let k1 ← nat? n1
        let k2 ← nat? n2
        let (t, r) ← parseSts fuel k1 rest
        let (e, r) ← parseSts fuel k2 r
        pure (.ifs t e, r)
    | _ => none
  def parseSts : Nat → Nat → List String → Option (Model.CSwitch.Sts × List String)
    | 0, _, _ => none
    | _ + 1, 0, ws => some (.nil, ws)
    | fuel + 1, k + 1, ws => do
        let (s, r) ← parseSt fuel ws
        let (l, r) ← parseSts fuel k r
        pure (.cons s l, r)
end

def showOptInt : Option Int → String
  | some v => s!"ok {v}"
  | none => "ok none"

def envOf (vs : List Int) : Nat → Int := fun i => vs.getD i 0

def modelTy? : String → Option Model.CType.Ty
  | "char" => some .char | "uchar" => some .uchar | "short" => some .short | "ushort" => some .ushort
  | "int" => some .int | "uint" => some .uint | "long" => some .long | "ulong" => some .ulong
  | "llong" => some .llong | "ullong" => some .ullong
  | _ => none

def step (line : String) : String :=
  match words line with
  | "stype" :: ws => match parseAll ws with
      | some e => match Spec.CExpr.typeOf e with
          | some τ => "ok " ++ specTyName τ
          | none => "ok none"
      | _ => "bad-op"
  | "elab" :: ws => match parseAll ws with
      | some e => match Model.CType.elaborate (Model.CBridge.toSrc e) with
          | some t => "ok " ++ t.show
          | none => "ok none"
      | _ => "bad-op"
  | ["lelab", op, t1, t2] => match binop? op, modelTy? t1, modelTy? t2 with
      | some o, some a, some b =>
          "ok " ++ (Model.CType.Legacy.onBinop (Model.CBridge.binSym o) (.var a 0) (.var b 1)).show
      | _, _, _ => "bad-op"
  | "tree" :: ws => match parseAll ws with
      | some e => match Model.CLower.compile (Model.CBridge.toSrc e) with
          | some c => "ok " ++ (Model.CLower.decisionTree c).show
          | none => "ok none"
      | _ => "bad-op"
  | "relab" :: ws => match parseAll ws with
      | some e => match Model.CType.elaborate (Model.CBridge.toSrc e) with
          | some t => "ok " ++ (Model.CType.coerce t .llong).show
          | none => "ok none"
      | _ => "bad-op"
  | "rtree" :: ws => match parseAll ws with
      | some e => match Model.CType.elaborate (Model.CBridge.toSrc e) with
          | some t => "ok " ++ (Model.CLower.decisionTree (Model.CLower.lower (Model.CType.coerce t .llong))).show
          | none => "ok none"
      | _ => "bad-op"
  | "rieval" :: vs :: ws => match intList? vs, parseAll ws with
      | some env, some e => match Model.CType.elaborate (Model.CBridge.toSrc e) with
          | some t => showOptInt (Spec.IRExpr.ieval (envOf env) (Model.CLower.lower (Model.CType.coerce t .llong)))
          | none => "ok nocode"
      | _, _ => "bad-op"
  | "seval" :: vs :: ws => match intList? vs, parseAll ws with
      | some env, some e => showOptInt (Spec.CExpr.eval (envOf env) e)
      | _, _ => "bad-op"
  | "ieval" :: vs :: ws => match intList? vs, parseAll ws with
      | some env, some e => match Model.CLower.compile (Model.CBridge.toSrc e) with
          | some c => showOptInt (Spec.IRExpr.ieval (envOf env) c)
          | none => "ok nocode"
      | _, _ => "bad-op"
  | "events" :: ws => match parseRAll ws with
      | some e => let es := Model.CAssign.events e
                  if es.isEmpty then "ok -" else "ok " ++ Model.CAssign.showEvents es
      | none => "bad-op"
  | "switches" :: n :: ws => match nat? n with
      | some k => match parseSts (2 * ws.length + 2) k ws with
          | some (l, []) => "ok " ++ Model.CSwitch.showRecs (Model.CSwitch.genL l []).2
          | _ => "bad-op"
      | none => "bad-op"
  | "mlayout" :: ws => match parseTy ws with
      | some t => s!"ok {Model.CLayout.sizeof t} {Model.CLayout.alignment t} {showNatList (Model.CLayout.offsets t)}"
      | none => "bad-op"
  | "slayout" :: ws => match parseTy ws with
      | some t =>
          let s := Model.CBridge.ltyS t
          s!"ok {Spec.CLayout.sizeOf s} {Spec.CLayout.alignOf s} {showNatList (Spec.CLayout.offsetsOf s)}"
      | none => "bad-op"
  | _ => "bad-op"

end Model.C01Driver
