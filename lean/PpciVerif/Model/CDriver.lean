import PpciVerif.Model.Proto
import PpciVerif.Spec.CInt
import PpciVerif.Model.CEval
import PpciVerif.Model.CEvalLegacy
import PpciVerif.Model.CSyntax
/-! Request interpreter of the C27 / C28 line-protocol drivers (compiled, so that the drivers start fast).

Expressions are sent in prefix form (words separated by blanks):
  `L <d|x> <n|u|l|ul|ll|ull> <value>`   integer constant (decimal | hex/octal, suffix)
  `C <value>`                           character constant
  `U <neg|bnot|lnot|plus> e`  `B <add|...|lor> e e`  `Q e e e`  `K <ty> e`
Types: char schar uchar short ushort int uint long ulong llong ullong.

Requests (model = `Model.CEval` on `Model.CSyntax.render e`, spec = `Spec.CInt`):
  init <ty> e | case <ty> e | enum e | arr e          model of the four users
  sinit <ty> e | scase <ty> e | senum e | sarr e       the specification (`ok none` = undefined / no type)
  linit <ty> e                                        the pre-fix pipeline (`Model.CEvalLegacy`)
  mtype e | stype e                                   type given by ppci's semantics / by C
  pack <ty> <int> | lpack <ty> <int>                  `CContext.pack` (fixed / pre-fix) on a raw value
  elist <I | X e>… | selist …                        enumerator list: values of all enumerators (model / spec)
  epack <int> | ppack <int>                           `CContext.pack` on an enum type / a pointer type
  einit e | pinit e | seinit e | spinit e             `enum E x = e;` / `T *p = (T *)e;` (model / spec)
  wrap <ty> <int> | conv <ty> <int>                   `to_integer_type` / `Spec.CInt.convert`
-/
namespace Model.CDriver
open Proto
open Spec.CInt (Expr Base Suffix UnOp BinOp)

def specTy? : String → Option Spec.CInt.Ty
  | "char" => some .char | "schar" => some .schar | "uchar" => some .uchar
  | "short" => some .short | "ushort" => some .ushort | "int" => some .int | "uint" => some .uint
  | "long" => some .long | "ulong" => some .ulong | "llong" => some .llong | "ullong" => some .ullong
  | _ => none

def specTyName : Spec.CInt.Ty → String
  | .char => "char" | .schar => "schar" | .uchar => "uchar" | .short => "short" | .ushort => "ushort"
  | .int => "int" | .uint => "uint" | .long => "long" | .ulong => "ulong" | .llong => "llong" | .ullong => "ullong"

def modelTyName : Model.CEval.Ty → String
  | .char => "char" | .uchar => "uchar" | .short => "short" | .ushort => "ushort"
  | .int => "int" | .uint => "uint" | .long => "long" | .ulong => "ulong" | .llong => "llong" | .ullong => "ullong"

def suffix? : String → Option Suffix
  | "n" => some .none | "u" => some .u | "l" => some .l | "ul" => some .ul | "ll" => some .ll | "ull" => some .ull
  | _ => none

def unop? : String → Option UnOp
  | "neg" => some .neg | "bnot" => some .bnot | "lnot" => some .lnot | "plus" => some .plus
  | _ => none

def binop? : String → Option BinOp
  | "add" => some .add | "sub" => some .sub | "mul" => some .mul | "div" => some .div | "mod" => some .mod
  | "shl" => some .shl | "shr" => some .shr | "band" => some .band | "bor" => some .bor | "bxor" => some .bxor
  | "lt" => some .lt | "gt" => some .gt | "le" => some .le | "ge" => some .ge | "eq" => some .eq | "ne" => some .ne
  | "land" => some .land | "lor" => some .lor
  | _ => none

/-- prefix parser with fuel (the number of words suffices): returns the expression and the unread words -/
def parseE : Nat → List String → Option (Expr × List String)
  | 0, _ => none
  | fuel + 1, ws =>
  match ws with
  | "L" :: b :: s :: v :: rest => do
      let base ← (if b == "d" then some Base.dec else if b == "x" then some Base.hexoct else none)
      let suf ← suffix? s
      let n ← nat? v
      pure (.lit base suf n, rest)
  | "C" :: v :: rest => do
      let n ← nat? v
      pure (.chr n, rest)
  | "U" :: op :: rest => do
      let o ← unop? op
      let (a, r) ← parseE fuel rest
      pure (.un o a, r)
  | "B" :: op :: rest => do
      let o ← binop? op
      let (a, r) ← parseE fuel rest
      let (b, r) ← parseE fuel r
      pure (.bin o a b, r)
  | "Q" :: rest => do
      let (c, r) ← parseE fuel rest
      let (a, r) ← parseE fuel r
      let (b, r) ← parseE fuel r
      pure (.cond c a b, r)
  | "K" :: t :: rest => do
      let τ ← specTy? t
      let (a, r) ← parseE fuel rest
      pure (.cast τ a, r)
  | _ => none

def parseAll (ws : List String) : Option Expr :=
  match parseE (ws.length + 1) ws with
  | some (e, []) => some e
  | _ => none

/-- enumerator list: `I` (no `= expr`) or `X <expr>` per enumerator -/
def parseItems : Nat → List String → Option (List (Option Expr))
  | 0, _ => none
  | _ + 1, [] => some []
  | fuel + 1, "I" :: rest => (parseItems fuel rest).map (none :: ·)
  | fuel + 1, "X" :: rest =>
    match parseE (rest.length + 1) rest with
    | some (e, r) => (parseItems fuel r).map (some e :: ·)
    | none => none
  | _ + 1, _ => none

def showBytes : Except Model.CEval.Err (List Nat) → String
  | .ok bs => "ok " ++ toHex bs
  | .error e => "err " ++ e.name

def showInt : Except Model.CEval.Err Int → String
  | .ok v => s!"ok {v}"
  | .error e => "err " ++ e.name

def showOptBytes : Option (List Nat) → String
  | some bs => "ok " ++ toHex bs
  | none => "ok none"

def showOptInt : Option Int → String
  | some v => s!"ok {v}"
  | none => "ok none"

open Model.CSyntax in
def step (line : String) : String :=
  match words line with
  | "init" :: t :: ws => match specTy? t, parseAll ws with
      | some τ, some e => showBytes (Model.CEval.initializer (ofSpecTy τ) (render e))
      | _, _ => "bad-op"
  | "linit" :: t :: ws => match specTy? t, parseAll ws with
      | some τ, some e => showBytes (Model.CEvalLegacy.initializer (ofSpecTy τ) (render e))
      | _, _ => "bad-op"
  | "sinit" :: t :: ws => match specTy? t, parseAll ws with
      | some τ, some e => showOptBytes (Spec.CInt.initBytes τ e)
      | _, _ => "bad-op"
  | "elist" :: ws => match parseItems (ws.length + 1) ws with
      | some l => match Model.CEval.enumValues (l.map (Option.map render)) with
          | .ok vs => "ok " ++ showIntList vs
          | .error e => "err " ++ e.name
      | none => "bad-op"
  | "selist" :: ws => match parseItems (ws.length + 1) ws with
      | some l => match Spec.CInt.enumValues l with
          | some vs => "ok " ++ showIntList vs
          | none => "ok none"
      | none => "bad-op"
  | "einit" :: ws => match parseAll ws with
      | some e => showBytes (Model.CEval.initializerEnum (render e))
      | _ => "bad-op"
  | "seinit" :: ws => match parseAll ws with
      | some e => showOptBytes (Spec.CInt.initBytesEnum e)
      | _ => "bad-op"
  | "pinit" :: ws => match parseAll ws with
      | some e => showBytes (Model.CEval.initializerPtr (render e))
      | _ => "bad-op"
  | "spinit" :: ws => match parseAll ws with
      | some e => showOptBytes (Spec.CInt.initBytesPtr e)
      | _ => "bad-op"
  | ["epack", v] => match int? v with
      | some z => showBytes (Model.CEval.packAny .enum z)
      | _ => "bad-op"
  | ["ppack", v] => match int? v with
      | some z => showBytes (Model.CEval.packAny .ptr z)
      | _ => "bad-op"
  | "case" :: t :: ws => match specTy? t, parseAll ws with
      | some τ, some e => showInt (Model.CEval.caseLabel (ofSpecTy τ) (render e))
      | _, _ => "bad-op"
  | "scase" :: t :: ws => match specTy? t, parseAll ws with
      | some τ, some e => showOptInt (Spec.CInt.caseLabel τ e)
      | _, _ => "bad-op"
  | "enum" :: ws => match parseAll ws with
      | some e => showInt (Model.CEval.enumerator (render e))
      | _ => "bad-op"
  | "senum" :: ws => match parseAll ws with
      | some e => showOptInt (Spec.CInt.enumerator e)
      | _ => "bad-op"
  | "arr" :: ws => match parseAll ws with
      | some e => showInt (Model.CEval.arraySize (render e))
      | _ => "bad-op"
  | "sarr" :: ws => match parseAll ws with
      | some e => showOptInt (Spec.CInt.arrayBound e)
      | _ => "bad-op"
  | "mtype" :: ws => match parseAll ws with
      | some e => match Model.CEval.elaborate (render e) with
          | .ok t => "ok " ++ modelTyName t.ty
          | .error er => "err " ++ er.name
      | _ => "bad-op"
  | "stype" :: ws => match parseAll ws with
      | some e => match Spec.CInt.typeOf e with
          | some τ => "ok " ++ specTyName τ
          | none => "ok none"
      | _ => "bad-op"
  | ["pack", t, v] => match specTy? t, int? v with
      | some τ, some z => showBytes (Model.CEval.pack (ofSpecTy τ) z)
      | _, _ => "bad-op"
  | ["lpack", t, v] => match specTy? t, int? v with
      | some τ, some z => showBytes (Model.CEvalLegacy.pack (ofSpecTy τ) z)
      | _, _ => "bad-op"
  | ["wrap", t, v] => match specTy? t, int? v with
      | some τ, some z => s!"ok {Model.CEval.toIntegerType (ofSpecTy τ) z}"
      | _, _ => "bad-op"
  | ["conv", t, v] => match specTy? t, int? v with
      | some τ, some z => s!"ok {Spec.CInt.convert τ z}"
      | _, _ => "bad-op"
  | _ => "bad-op"

end Model.CDriver
