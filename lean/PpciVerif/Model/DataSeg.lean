/-
C23 (second sliver) — initial-memory data segments of `ppci/wasm/ppci2wasm.py`.

`IrToWasmCompiler.compile` walks `ir_module.variables` in order, gives each the
next free address starting at `STACKSIZE` (the virtual stack occupies
`[0, STACKSIZE)` and grows downwards from the stack-pointer global initialised to
`STACKSIZE`), records a data segment `(memory 0, i32.const addr, bytes)` when the
variable has an initial value, and advances by `amount` (no alignment padding).
`create_wasm_module` emits the segments in that order.  Loads and stores address
a global through `global_labels[name] = addr`.
-/
namespace Model.DataSeg

def STACKSIZE : Nat := 1000

/-- an IR global: size in bytes and initial bytes (`[]` when `value` is None/empty) -/
structure Var where
  amount : Nat
  data : List Nat
  deriving Repr

/-- address of each variable -/
def layout : Nat → List Var → List Nat
  | _, [] => []
  | a, v :: vs => a :: layout (a + v.amount) vs

/-- first free address after the globals (where literal constants go next) -/
def endAddr : Nat → List Var → Nat
  | a, [] => a
  | a, v :: vs => endAddr (a + v.amount) vs

/-- the data segments `(offset, bytes)` in emission order -/
def segments : Nat → List Var → List (Nat × List Nat)
  | _, [] => []
  | a, v :: vs =>
    if v.data.isEmpty then segments (a + v.amount) vs
    else (a, v.data) :: segments (a + v.amount) vs

/-- wasm instantiation: copy one segment into memory -/
def applySeg (m : Nat → Nat) (seg : Nat × List Nat) : Nat → Nat :=
  fun x => if seg.1 ≤ x ∧ x < seg.1 + seg.2.length then seg.2.getD (x - seg.1) 0 else m x

/-- memory after applying all segments in order to zero-filled memory -/
def imageFrom (m : Nat → Nat) (a : Nat) (vs : List Var) : Nat → Nat :=
  (segments a vs).foldl applySeg m

def image (a : Nat) (vs : List Var) : Nat → Nat := imageFrom (fun _ => 0) a vs

/-- every initial value fits in its variable -/
def WF (vs : List Var) : Prop := ∀ v ∈ vs, v.data.length ≤ v.amount

end Model.DataSeg
