import PpciVerif.Model.Proto
import PpciVerif.Spec.PPInt
import PpciVerif.Model.PPExpr
/-! Request interpreter of the C26 line-protocol driver (compiled, so that the driver starts fast).

Tokens (one word each): `n:<value>:<u|s>:<d|x>` integer constant (value, `u` suffix?, decimal?),
or the spelling of a punctuator `* / % + - << >> < > <= >= == != & ^ | && || ~ ! ( ) ? :`.
Trees (prefix): `N <value> <u|s> <d|x>` | `U <neg|bnot|lnot|plus> t` | `B <op> t t` | `Q t t t`.

  parse <tokens…>     `Model.PPExpr.parseExpr` on the line: `ok <mtree> <number of unread tokens>` | `err <E>`
  mval <tokens…>      parse, end of line, `evalTree`: `ok <int>` | `err <E>`
  evalif <tokens…>    `Model.PPExpr.evalIf`: `ok true|false` | `err <E>`
  spec <tree>         `Spec.PPInt.eval`: `ok <value> <u|s>` | `ok none`
  want <tree>         `Model.PPExpr.ofTree`: the tree the parser is expected to build
-/
namespace Model.PPDriver
open Proto
open Spec.PPInt (Sym Tok UnOp BinOp Tree)
open Model.PPExpr

def sym? : String → Option Sym
  | "*" => some .star | "/" => some .slash | "%" => some .percent | "+" => some .plus | "-" => some .minus
  | "<<" => some .shl | ">>" => some .shr | "<" => some .lt | ">" => some .gt | "<=" => some .le | ">=" => some .ge
  | "==" => some .eqeq | "!=" => some .ne | "&" => some .amp | "^" => some .caret | "|" => some .bar
  | "&&" => some .andand | "||" => some .oror | "~" => some .tilde | "!" => some .bang
  | "(" => some .lp | ")" => some .rp | "?" => some .quest | ":" => some .colon
  | _ => none

def tok? (w : String) : Option Tok :=
  match sym? w with
  | some s => some (.sym s)
  | none =>
    match w.splitOn ":" with
    | ["n", v, u, d] => do
        let n ← nat? v
        let uu ← (if u == "u" then some true else if u == "s" then some false else none)
        let dd ← (if d == "d" then some true else if d == "x" then some false else none)
        pure (.num n uu dd)
    | _ => none

def unop? : String → Option UnOp
  | "neg" => some .neg | "bnot" => some .bnot | "lnot" => some .lnot | "plus" => some .plus
  | _ => none

def binop? : String → Option BinOp
  | "mul" => some .mul | "div" => some .div | "mod" => some .mod | "add" => some .add | "sub" => some .sub
  | "shl" => some .shl | "shr" => some .shr | "lt" => some .lt | "gt" => some .gt | "le" => some .le | "ge" => some .ge
  | "eq" => some .eq | "ne" => some .ne | "band" => some .band | "bxor" => some .bxor | "bor" => some .bor
  | "land" => some .land | "lor" => some .lor
  | _ => none

def parseT : Nat → List String → Option (Tree × List String)
  | 0, _ => none
  | fuel + 1, ws =>
  match ws with
  | "N" :: v :: u :: d :: rest => do
      let n ← nat? v
      let uu ← (if u == "u" then some true else if u == "s" then some false else none)
      let dd ← (if d == "d" then some true else if d == "x" then some false else none)
      pure (.num n uu dd, rest)
  | "U" :: op :: rest => do
      let o ← unop? op
      let (a, r) ← parseT fuel rest
      pure (.un o a, r)
  | "B" :: op :: rest => do
      let o ← binop? op
      let (a, r) ← parseT fuel rest
      let (b, r) ← parseT fuel r
      pure (.bin o a b, r)
  | "Q" :: rest => do
      let (c, r) ← parseT fuel rest
      let (a, r) ← parseT fuel r
      let (b, r) ← parseT fuel r
      pure (.cond c a b, r)
  | _ => none

def tree? (ws : List String) : Option Tree :=
  match parseT (ws.length + 1) ws with
  | some (t, []) => some t
  | _ => none

def showM : MTree → String
  | .num v => s!"(N {v})"
  | .un op a => s!"(U {Sym.str op} {showM a})"
  | .bin op a b => s!"(B {Sym.str op} {showM a} {showM b})"
  | .tern c a b => s!"(Q {showM c} {showM a} {showM b})"

def step (line : String) : String :=
  match words line with
  | "parse" :: ws => match ws.mapM tok? with
      | some toks => match parseExpr (2 * toks.length + 2) 0 toks with
          | .ok (t, rest) => s!"ok {showM t} {rest.length}"
          | .error e => "err " ++ e.name
      | none => "bad-op"
  | "mval" :: ws => match ws.mapM tok? with
      | some toks => match parseExpr (2 * toks.length + 2) 0 toks with
          | .ok (t, []) => match evalTree t with
              | .ok v => s!"ok {v}"
              | .error e => "err " ++ e.name
          | .ok (_, _ :: _) => "err CompilerError"
          | .error e => "err " ++ e.name
      | none => "bad-op"
  | "evalif" :: ws => match ws.mapM tok? with
      | some toks => match evalIf toks with
          | .ok b => if b then "ok true" else "ok false"
          | .error e => "err " ++ e.name
      | none => "bad-op"
  | "spec" :: ws => match tree? ws with
      | some t => match Spec.PPInt.eval t with
          | some x => s!"ok {x.v} {if x.u then "u" else "s"}"
          | none => "ok none"
      | none => "bad-op"
  | "want" :: ws => match tree? ws with
      | some t => "ok " ++ showM (ofTree t)
      | none => "bad-op"
  | _ => "bad-op"

end Model.PPDriver
