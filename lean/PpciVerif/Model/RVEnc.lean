import PpciVerif.Spec.RV32
/-
`Model.RVEnc` — hand model of the encoders of ppci's RISC-V instruction classes
(`ppci/arch/riscv/instructions.py`: RV32I + M + Zicsr classes; `rvc_instructions.py`: every
class with tokens), of what each class prints (`Syntax.render`, tokenised) and of the instruction
each class is MEANT to be (`meaning`), class by class.

Mirrors the code as it is:
* `put lo w v tok` is `Token.__setitem__(slice(lo, lo+w), v)`: `v ≥ 2^w` → ValueError,
  `v < -2^w` → AssertionError, otherwise the field is cleared and `v mod 2^w` is or-ed in;
* each `encode()` / declarative `patterns` dict is a chain of `put`s on a fresh zero token in the
  order of the source; Python `x & m` ↦ `x % (m+1)`, `x >> k` ↦ `x / 2^k` (floor);
* operands: `Ops.a b c` are the register operands (and CSR numbers) in the order of the syntax's
  formal arguments, `imm` the integer operand; a label operand has no value (its field stays 0
  and is filled by a relocation — C11) and prints as the token `imm 0`.
  Where a syntax names the same operand twice (`c.addi rd, rd, imm`; `lw rd %pcrel_lo(l)(rd)`)
  the constructor assigns it twice and the LAST argument wins — mirrored.

Not modelled: float classes (rvf/rvfx), pseudo instructions without tokens (they `render()`
into the classes modelled here), `Dcd2` (a data word).  Tied to /repo by harness/c08.py
(real `encode()` bytes and `str()` of real instances vs `enc`/`ptoks`).
-/
namespace Model.RVEnc
open Spec.RV32

inductive Err where | ValueError | AssertionError
  deriving Repr, DecidableEq, Inhabited

def Err.name : Err → String
  | .ValueError => "ValueError" | .AssertionError => "AssertionError"

/-- `tok[lo:lo+w] = v`.  The token value is kept as an `Int` (it is always `≥ 0`) so that the whole
    encoder is integer arithmetic with literal divisors. -/
def put (lo w : Nat) (v : Int) (tok : Int) : Except Err Int :=
  let limit : Int := ((2 ^ w : Nat) : Int)
  let shift : Int := ((2 ^ lo : Nat) : Int)
  if v ≥ limit then .error .ValueError
  else if v < -limit then .error .AssertionError
  else .ok (tok - (tok / shift % limit) * shift + (v % limit) * shift)

structure Ops where
  a : Nat := 0
  b : Nat := 0
  c : Nat := 0
  imm : Int := 0
  deriving Repr, DecidableEq, Inhabited

/-! ### token layouts written through named fields (`patterns` dicts, in dict order) -/

/-- `RiscvToken` patterns: opcode, rd, funct3, rs1, rs2, funct7 -/
def pR (opc rd f3 rs1 rs2 f7 : Int) : Except Err Int := do
  let t ← put 0 7 opc 0
  let t ← put 7 5 rd t
  let t ← put 12 3 f3 t
  let t ← put 15 5 rs1 t
  let t ← put 20 5 rs2 t
  put 25 7 f7 t

/-- `RiscvIToken` patterns / I-shaped `encode()`s: opcode, rd, funct3, rs1, imm -/
def pI (opc rd f3 rs1 imm : Int) : Except Err Int := do
  let t ← put 0 7 opc 0
  let t ← put 7 5 rd t
  let t ← put 12 3 f3 t
  let t ← put 15 5 rs1 t
  put 20 12 imm t

/-- U-shaped `encode()`s: `[0:7]`, `[7:12]`, `[12:32]` -/
def pU (opc rd imm : Int) : Except Err Int := do
  let t ← put 0 7 opc 0
  let t ← put 7 5 rd t
  put 12 20 imm t

/-- `Bl`/`B`/`CBl`/`CB`: `[0:7]`, `[7:12]` only -/
def pJ (opc rd : Int) : Except Err Int := do
  let t ← put 0 7 opc 0
  put 7 5 rd t

/-- `BranchBase.encode` -/
def pB (cond : Int) (invert : Bool) (rn rm : Int) : Except Err Int := do
  let t ← put 0 7 0x63 0
  let t ← put 12 3 cond t
  if invert then do
    let t ← put 15 5 rm t
    put 20 5 rn t
  else do
    let t ← put 15 5 rn t
    put 20 5 rm t

/-- `StrBase.encode` -/
def pS (func rs1 rs2 offset : Int) : Except Err Int := do
  let imml5 := offset % 32
  let immh7 := offset / 32 % 128
  let t ← put 0 7 0x23 0
  let t ← put 7 5 imml5 t
  let t ← put 12 3 func t
  let t ← put 15 5 rs1 t
  let t ← put 20 5 rs2 t
  put 25 7 immh7 t

/-! ### the classes -/

inductive Cls where
  -- instructions.py
  | Movr | Csrs | Csrwi | Csrsi | Csrci | Csrw | Csrr | Mret
  | Addr | Subr | Sll | Slt | Sltu | Xorr | Srl | Sra | Orr | Andr
  | Slli | Srli | Srai
  | Addi | Slti | Sltiu | Xori | Ori | Andi
  | Nop
  | Rdcyclei | Rdcyclehi | Rdtimei | Rdtimehi | Rdinstreti | Rdinstrethi
  | Ebreak | Bl | B | Blr | Lui | Adru | Adrurel | Adrl | Loadlrel | Adrlrel | Auipc
  | Beq | Bne | Blt | Bgt | Bge | Ble | Bltu | Bgtu | Bgeu | Bleu
  | Sb | Sh | Sw
  | Lb | Lh | Lw | Lbu | Lhu
  | Mul | Div | Divu | Rem | Remu
  -- rvc_instructions.py
  | CSub | CXor | COr | CAnd | CSlli | CSrli | CSrai | CAndi | CAddi | CNop | CEbreak | CMovr
  | CBl | CJal | CB | CJ | CJr | CJalr | CBeqz | CBnez | CLw | CSw | CLwsp | CAddi4spn | CAddi16sp
  | CSwsp | CLi | CLui
  deriving Repr, DecidableEq, Inhabited

def Cls.all : List Cls :=
  [.Movr, .Csrs, .Csrwi, .Csrsi, .Csrci, .Csrw, .Csrr, .Mret,
   .Addr, .Subr, .Sll, .Slt, .Sltu, .Xorr, .Srl, .Sra, .Orr, .Andr,
   .Slli, .Srli, .Srai, .Addi, .Slti, .Sltiu, .Xori, .Ori, .Andi, .Nop,
   .Rdcyclei, .Rdcyclehi, .Rdtimei, .Rdtimehi, .Rdinstreti, .Rdinstrethi,
   .Ebreak, .Bl, .B, .Blr, .Lui, .Adru, .Adrurel, .Adrl, .Loadlrel, .Adrlrel, .Auipc,
   .Beq, .Bne, .Blt, .Bgt, .Bge, .Ble, .Bltu, .Bgtu, .Bgeu, .Bleu,
   .Sb, .Sh, .Sw, .Lb, .Lh, .Lw, .Lbu, .Lhu, .Mul, .Div, .Divu, .Rem, .Remu,
   .CSub, .CXor, .COr, .CAnd, .CSlli, .CSrli, .CSrai, .CAndi, .CAddi, .CNop, .CEbreak, .CMovr,
   .CBl, .CJal, .CB, .CJ, .CJr, .CJalr, .CBeqz, .CBnez, .CLw, .CSw, .CLwsp, .CAddi4spn, .CAddi16sp,
   .CSwsp, .CLi, .CLui]

/-- the Python class name (`cls.__name__`) and defining module, for the harness -/
def Cls.pyName : Cls → String
  | .Movr => "Movr" | .Csrs => "Csrs" | .Csrwi => "Csrwi" | .Csrsi => "Csrsi" | .Csrci => "Csrci"
  | .Csrw => "Csrw" | .Csrr => "Csrr" | .Mret => "Mret"
  | .Addr => "Addr" | .Subr => "Subr" | .Sll => "Sll" | .Slt => "Slt" | .Sltu => "Sltu" | .Xorr => "Xorr"
  | .Srl => "Srl" | .Sra => "Sra" | .Orr => "Orr" | .Andr => "Andr"
  | .Slli => "Slli" | .Srli => "Srli" | .Srai => "Srai"
  | .Addi => "Addi" | .Slti => "Slti" | .Sltiu => "Sltiu" | .Xori => "Xori" | .Ori => "Ori" | .Andi => "Andi"
  | .Nop => "Nop"
  | .Rdcyclei => "Rdcyclei" | .Rdcyclehi => "Rdcyclehi" | .Rdtimei => "Rdtimei" | .Rdtimehi => "Rdtimehi"
  | .Rdinstreti => "Rdinstreti" | .Rdinstrethi => "Rdinstrethi"
  | .Ebreak => "Ebreak" | .Bl => "Bl" | .B => "B" | .Blr => "Blr" | .Lui => "Lui" | .Adru => "Adru"
  | .Adrurel => "Adrurel" | .Adrl => "Adrl" | .Loadlrel => "Loadlrel" | .Adrlrel => "Adrlrel" | .Auipc => "Auipc"
  | .Beq => "Beq" | .Bne => "Bne" | .Blt => "Blt" | .Bgt => "Bgt" | .Bge => "Bge" | .Ble => "Ble"
  | .Bltu => "Bltu" | .Bgtu => "Bgtu" | .Bgeu => "Bgeu" | .Bleu => "Bleu"
  | .Sb => "Sb" | .Sh => "Sh" | .Sw => "Sw"
  | .Lb => "Lb" | .Lh => "Lh" | .Lw => "Lw" | .Lbu => "Lbu" | .Lhu => "Lhu"
  | .Mul => "Mul" | .Div => "Div" | .Divu => "Divu" | .Rem => "Rem" | .Remu => "Remu"
  | .CSub => "CSub" | .CXor => "CXor" | .COr => "COr" | .CAnd => "CAnd" | .CSlli => "CSlli" | .CSrli => "CSrli"
  | .CSrai => "CSrai" | .CAndi => "CAndi" | .CAddi => "CAddi" | .CNop => "CNop" | .CEbreak => "CEbreak"
  | .CMovr => "CMovr" | .CBl => "CBl" | .CJal => "CJal" | .CB => "CB" | .CJ => "CJ" | .CJr => "CJr"
  | .CJalr => "CJalr" | .CBeqz => "CBeqz" | .CBnez => "CBnez" | .CLw => "CLw" | .CSw => "CSw" | .CLwsp => "CLwsp"
  | .CAddi4spn => "CAddi4spn" | .CAddi16sp => "CAddi16sp" | .CSwsp => "CSwsp" | .CLi => "CLi" | .CLui => "CLui"

def Cls.ofName (s : String) : Option Cls := Cls.all.find? (fun c => c.pyName == s)

/-- compressed (16-bit token) class? -/
def Cls.isC : Cls → Bool
  | .CSub | .CXor | .COr | .CAnd | .CSlli | .CSrli | .CSrai | .CAndi | .CAddi | .CNop | .CEbreak | .CMovr
  | .CJal | .CJ | .CJr | .CJalr | .CBeqz | .CBnez | .CLw | .CSw | .CLwsp | .CAddi4spn | .CAddi16sp
  | .CSwsp | .CLi | .CLui => true
  | _ => false

/-- size of the encoding in bytes -/
def Cls.size (c : Cls) : Nat := if c.isC then 2 else 4

/-! ### encoders -/

/-- `make_regregreg(mnemonic, opcode=f7, func=f3)` -/
def regregreg (f7 f3 : Int) (o : Ops) : Except Err Int := pR 0x33 o.a f3 o.b o.c f7
/-- `make_si(mnemonic, code=f7, func=f3)`: the shift amount goes through the `rs2` field -/
def si (f7 f3 : Int) (o : Ops) : Except Err Int := pR 0x13 o.a f3 o.b o.imm f7
/-- `IBase.encode` with `func` -/
def ibase (func : Int) (o : Ops) : Except Err Int := pI 0x13 o.a func o.b (o.imm % 4096)
/-- `SmBase.encode` with `code` -/
def sm (code : Int) (o : Ops) : Except Err Int := pI 0x73 o.a 2 0 code
/-- `make_ldr(mnemonic, func)` (declarative, `RiscvIToken`) -/
def ldr (func : Int) (o : Ops) : Except Err Int := pI 0x03 o.a func o.b o.imm
/-- `make_str(mnemonic, func)`: operands `rs2, offset, rs1` -/
def str (func : Int) (o : Ops) : Except Err Int := pS func o.b o.a o.imm
/-- `MextBase.encode` with `func`: syntax order `rd, rs1, rs2` -/
def mext (func : Int) (o : Ops) : Except Err Int := pR 0x33 o.a func o.b o.c 1
/-- `make_csrwi(mnemonic, func)`: patterns opcode, rd=0, funct3, rs1=imm, imm=csr -/
def csrwi (func : Int) (o : Ops) : Except Err Int := pI 0x73 0 func o.imm o.a

/-- `OpcRegReg.encode` with `func` -/
def cRegReg (func : Int) (o : Ops) : Except Err Int := do
  let t ← put 0 2 1 0
  let t ← put 2 3 ((o.b : Int) - 8) t
  let t ← put 5 2 func t
  let t ← put 7 3 ((o.a : Int) - 8) t
  put 10 6 0x23 t

/-- `CiBase.encode` with `func` (operands `rd, rs, imm`; `rs` is not encoded) -/
def cI (func : Int) (o : Ops) : Except Err Int := do
  let t ← put 0 2 1 0
  let t ← put 2 5 (o.imm % 32) t
  let t ← put 7 3 ((o.a : Int) - 8) t
  let t ← put 10 2 func t
  let t ← put 12 1 (o.imm / 32 % 2) t
  put 13 3 4 t

/-- the offset scrambling of `CLw`/`CSw` -/
def cLS (f3 : Int) (rdOrRs2 rs1 : Nat) (offset : Int) : Except Err Int := do
  let t ← put 0 2 0 0
  let t ← put 2 3 ((rdOrRs2 : Int) - 8) t
  let t ← put 5 1 (offset / 64 % 2) t
  let t ← put 6 1 (offset / 4 % 2) t
  let t ← put 7 3 ((rs1 : Int) - 8) t
  let t ← put 10 3 (offset / 8 % 8) t
  put 13 3 f3 t

def enc (c : Cls) (o : Ops) : Except Err Int :=
  match c with
  | .Movr => pR 0x13 o.a 0 o.b 0 0
  | .Csrs => pI 0x73 0 2 o.b o.a
  | .Csrwi => csrwi 5 o
  | .Csrsi => csrwi 6 o
  | .Csrci => csrwi 7 o
  | .Csrw => pI 0x73 0 1 o.b o.a
  | .Csrr => pI 0x73 o.a 2 0 o.b
  | .Mret => pI 0x73 0 0 0 0x302
  | .Addr => regregreg 0x00 0 o | .Subr => regregreg 0x20 0 o | .Sll => regregreg 0x00 1 o
  | .Slt => regregreg 0x00 2 o | .Sltu => regregreg 0x00 3 o | .Xorr => regregreg 0x00 4 o
  | .Srl => regregreg 0x00 5 o | .Sra => regregreg 0x20 5 o | .Orr => regregreg 0x00 6 o
  | .Andr => regregreg 0x00 7 o
  | .Slli => si 0x00 1 o | .Srli => si 0x00 5 o | .Srai => si 0x20 5 o
  | .Addi => ibase 0 o | .Slti => ibase 2 o | .Sltiu => ibase 3 o | .Xori => ibase 4 o
  | .Ori => ibase 6 o | .Andi => ibase 7 o
  | .Nop => pR 0x13 0 0 0 0 0
  | .Rdcyclei => sm 0xC00 o | .Rdcyclehi => sm 0xC80 o | .Rdtimei => sm 0xC01 o
  | .Rdtimehi => sm 0xC81 o | .Rdinstreti => sm 0xC02 o | .Rdinstrethi => sm 0xC82 o
  | .Ebreak => pR 0x73 0 0 0 1 0
  | .Bl => pJ 0x6f o.a
  | .B => pJ 0x6f 0
  | .Blr => pI 0x67 o.a 0 o.b o.imm
  | .Lui => pU 0x37 o.a (o.imm % 1048576)
  | .Adru => pU 0x37 o.a 0
  | .Adrurel => pU 0x17 o.a 0
  | .Adrl => pI 0x13 o.a 0 o.b 0
  | .Loadlrel => pI 0x03 o.b 2 o.b 0            -- Loadlrel(rd, label, rd): the last `rd` wins
  | .Adrlrel => pI 0x13 o.a 0 o.a 0
  | .Auipc => pU 0x17 o.a o.imm
  | .Beq => pB 0 false o.a o.b | .Bne => pB 1 false o.a o.b | .Blt => pB 4 false o.a o.b
  | .Bgt => pB 4 true o.a o.b | .Bge => pB 5 false o.a o.b | .Ble => pB 5 true o.a o.b
  | .Bltu => pB 6 false o.a o.b | .Bgtu => pB 6 true o.a o.b | .Bgeu => pB 7 false o.a o.b
  | .Bleu => pB 7 true o.a o.b
  | .Sb => str 0 o | .Sh => str 1 o | .Sw => str 2 o
  | .Lb => ldr 0 o | .Lh => ldr 1 o | .Lw => ldr 2 o | .Lbu => ldr 4 o | .Lhu => ldr 5 o
  | .Mul => mext 0 o | .Div => mext 4 o | .Divu => mext 5 o | .Rem => mext 6 o | .Remu => mext 7 o
  | .CSub => cRegReg 0 o | .CXor => cRegReg 1 o | .COr => cRegReg 2 o | .CAnd => cRegReg 3 o
  | .CSlli => do
      let t ← put 0 2 2 0
      let t ← put 2 5 (o.imm % 32) t
      let t ← put 7 5 o.a t
      put 13 3 0 t
  | .CSrli => cI 0 o | .CSrai => cI 1 o | .CAndi => cI 2 o
  | .CAddi => do                                  -- CAddi(rd, rd, imm): the second `rd` wins
      let t ← put 0 2 1 0
      let t ← put 2 5 (o.imm % 32) t
      let t ← put 7 5 o.b t
      let t ← put 12 1 (o.imm / 32 % 2) t
      put 13 3 0 t
  | .CNop => do
      let t ← put 0 2 1 0
      put 2 14 0 t
  | .CEbreak => put 0 16 0x9002 0
  | .CMovr => do
      let t ← put 0 2 2 0
      let t ← put 2 5 o.b t
      let t ← put 7 5 o.a t
      put 12 4 8 t
  | .CBl => pJ 0x6f o.a
  | .CJal => do
      let t ← put 0 2 1 0
      put 13 3 1 t
  | .CB => pJ 0x6f 0
  | .CJ => do
      let t ← put 0 2 1 0
      put 13 3 5 t
  | .CJr => do
      let t ← put 0 7 2 0
      let t ← put 7 5 o.a t
      put 12 4 8 t
  | .CJalr => do
      let t ← put 0 7 2 0
      let t ← put 7 5 o.a t
      put 12 4 9 t
  | .CBeqz => do
      let t ← put 0 2 1 0
      let t ← put 13 3 6 t
      put 7 3 ((o.a : Int) - 8) t
  | .CBnez => do
      let t ← put 0 2 1 0
      let t ← put 13 3 7 t
      put 7 3 ((o.a : Int) - 8) t
  | .CLw => cLS 2 o.a o.b o.imm
  | .CSw => do                                    -- same fields, `op`/`funct3` through the named properties
      let t ← put 0 2 0 0
      let t ← put 2 3 ((o.a : Int) - 8) t
      let t ← put 5 1 (o.imm / 64 % 2) t
      let t ← put 6 1 (o.imm / 4 % 2) t
      let t ← put 7 3 ((o.b : Int) - 8) t
      let t ← put 10 3 (o.imm / 8 % 8) t
      put 13 3 6 t
  | .CLwsp => do
      let t ← put 0 2 2 0
      let t ← put 2 2 (o.imm / 64 % 4) t
      let t ← put 4 3 (o.imm / 4 % 8) t
      let t ← put 7 5 o.a t
      let t ← put 12 1 (o.imm / 32 % 2) t
      put 13 3 2 t
  | .CAddi4spn => do
      let t ← put 0 2 0 0
      let t ← put 2 3 ((o.a : Int) - 8) t
      let t ← put 5 1 (o.imm / 8 % 2) t
      let t ← put 6 1 (o.imm / 4 % 2) t
      let t ← put 7 4 (o.imm / 64 % 16) t
      let t ← put 11 2 (o.imm / 16 % 4) t
      put 13 3 0 t
  | .CAddi16sp => do
      let t ← put 0 2 1 0
      let t ← put 2 1 (o.imm / 32 % 2) t
      let t ← put 3 2 (o.imm / 128 % 4) t
      let t ← put 5 1 (o.imm / 64 % 2) t
      let t ← put 6 1 (o.imm / 16 % 2) t
      let t ← put 7 5 2 t
      let t ← put 12 1 (o.imm / 512 % 2) t
      put 13 3 3 t
  | .CSwsp => do
      let t ← put 0 2 2 0
      let t ← put 2 5 o.a t
      let t ← put 7 2 (o.imm / 64 % 4) t
      let t ← put 9 4 (o.imm / 4 % 16) t
      put 13 3 6 t
  | .CLi => do
      -- patterns op, imm (bit_concat(bit 12, bits 2..6): low part first), rd, funct3
      let t ← put 0 2 1 0
      let t ← put 2 5 (o.imm % 32) t
      let t ← put 12 1 (o.imm / 32 % 2) t
      let t ← put 7 5 o.a t
      put 13 3 2 t
  | .CLui => do
      let imm6 := o.imm % 64
      let t ← put 0 2 1 0
      let t ← put 2 5 (imm6 % 32) t
      let t ← put 7 5 o.a t
      let t ← put 12 1 (imm6 / 32 % 2) t
      put 13 3 3 t

/-- little-endian bytes of the token (`Token.pack`) -/
def bytesLE : Nat → Nat → List Nat
  | 0, _ => []
  | n + 1, v => v % 256 :: bytesLE n (v / 256)

def encodeBytes (c : Cls) (o : Ops) : Except Err (List Nat) := (enc c o).map (fun w => bytesLE c.size w.toNat)

/-! ### what each class prints (`Syntax.render`), tokenised: mnemonic, then the operands in printed
    order; separators (blank, comma, parentheses, `%pcrel_hi(`…`)`) dropped; a label ↦ `imm 0` -/

def ptoks (c : Cls) (o : Ops) : List Tok :=
  let r3 (m : String) : List Tok := [.word m, .reg o.a, .reg o.b, .reg o.c]
  let ri (m : String) : List Tok := [.word m, .reg o.a, .reg o.b, .imm o.imm]
  let mem (m : String) : List Tok := [.word m, .reg o.a, .imm o.imm, .reg o.b]
  let br (m : String) : List Tok := [.word m, .reg o.a, .reg o.b, .imm 0]
  match c with
  | .Movr => [.word "mv", .reg o.a, .reg o.b]
  | .Csrs => [.word "csrs", .csr o.a, .reg o.b]
  | .Csrwi => [.word "csrwi", .csr o.a, .imm o.imm]
  | .Csrsi => [.word "csrsi", .csr o.a, .imm o.imm]
  | .Csrci => [.word "csrci", .csr o.a, .imm o.imm]
  | .Csrw => [.word "csrw", .csr o.a, .reg o.b]
  | .Csrr => [.word "csrr", .reg o.a, .csr o.b]
  | .Mret => [.word "mret"]
  | .Addr => r3 "add" | .Subr => r3 "sub" | .Sll => r3 "sll" | .Slt => r3 "slt" | .Sltu => r3 "sltu"
  | .Xorr => r3 "xor" | .Srl => r3 "srl" | .Sra => r3 "sra" | .Orr => r3 "or" | .Andr => r3 "and"
  | .Slli => ri "slli" | .Srli => ri "srli" | .Srai => ri "srai"
  | .Addi => ri "addi" | .Slti => ri "slti" | .Sltiu => ri "sltiu" | .Xori => ri "xori"
  | .Ori => ri "ori" | .Andi => ri "andi"
  | .Nop => [.word "nop"]
  | .Rdcyclei => [.word "rdcycle", .reg o.a] | .Rdcyclehi => [.word "rdcycleh", .reg o.a]
  | .Rdtimei => [.word "rdtime", .reg o.a] | .Rdtimehi => [.word "rdtimeh", .reg o.a]
  | .Rdinstreti => [.word "rdinstret", .reg o.a] | .Rdinstrethi => [.word "rdinstreth", .reg o.a]
  | .Ebreak => [.word "ebreak"]
  | .Bl => [.word "jal", .reg o.a, .imm 0]
  | .B => [.word "j", .imm 0]
  | .Blr => ri "jalr"
  | .Lui => [.word "lui", .reg o.a, .imm o.imm]
  | .Adru => [.word "lui", .reg o.a, .imm 0]
  | .Adrurel => [.word "auipc", .reg o.a, .imm 0]
  | .Adrl => [.word "addi", .reg o.a, .reg o.b, .imm 0]
  | .Loadlrel => [.word "lw", .reg o.b, .imm 0, .reg o.b]
  | .Adrlrel => [.word "addi", .reg o.a, .imm 0]
  | .Auipc => [.word "auipc", .reg o.a, .imm o.imm]
  | .Beq => br "beq" | .Bne => br "bne" | .Blt => br "blt" | .Bgt => br "bgt" | .Bge => br "bge"
  | .Ble => br "ble" | .Bltu => br "bltu" | .Bgtu => br "bgtu" | .Bgeu => br "bgeu" | .Bleu => br "bleu"
  | .Sb => mem "sb" | .Sh => mem "sh" | .Sw => mem "sw"
  | .Lb => mem "lb" | .Lh => mem "lh" | .Lw => mem "lw" | .Lbu => mem "lbu" | .Lhu => mem "lhu"
  | .Mul => r3 "mul" | .Div => r3 "div" | .Divu => r3 "divu" | .Rem => r3 "rem" | .Remu => r3 "remu"
  | .CSub => [.word "c.sub", .reg o.a, .reg o.b] | .CXor => [.word "c.xor", .reg o.a, .reg o.b]
  | .COr => [.word "c.or", .reg o.a, .reg o.b] | .CAnd => [.word "c.and", .reg o.a, .reg o.b]
  | .CSlli => ri "c.slli" | .CSrli => ri "c.srli" | .CSrai => ri "c.srai" | .CAndi => ri "c.andi"
  | .CAddi => [.word "c.addi", .reg o.b, .reg o.b, .imm o.imm]
  | .CNop => [.word "c.nop"]
  | .CEbreak => [.word "c.ebreak"]
  | .CMovr => [.word "c.mv", .reg o.a, .reg o.b]
  | .CBl => [.word "jal", .reg o.a, .imm 0]
  | .CJal => [.word "c.jal", .imm 0]
  | .CB => [.word "j", .imm 0]
  | .CJ => [.word "c.j", .imm 0]
  | .CJr => [.word "c.jr", .reg o.a]
  | .CJalr => [.word "c.jalr", .reg o.a]
  | .CBeqz => [.word "c.beqz", .reg o.a, .imm 0]
  | .CBnez => [.word "c.bneqz", .reg o.a, .imm 0]
  | .CLw => mem "c.lw" | .CSw => mem "c.sw"
  | .CLwsp => [.word "c.lwsp", .reg o.a, .imm o.imm, .reg 2]
  | .CAddi4spn => [.word "c.addi4spn", .reg o.a, .imm o.imm]
  | .CAddi16sp => [.word "c.addi16sp", .imm o.imm]
  | .CSwsp => [.word "c.swsp", .reg o.a, .imm o.imm, .reg 2]
  | .CLi => [.word "c.li", .reg o.a, .imm o.imm]
  | .CLui => [.word "c.lui", .reg o.a, .imm o.imm]

/-! ### what each class is meant to be -/

inductive Meaning where
  | base (i : Instr)
  | comp (c : CInstr)
  deriving Repr, DecidableEq, Inhabited

def Meaning.spelledBy : Meaning → List Tok → Prop
  | .base i, ts => i.spelledBy ts
  | .comp c, ts => c.spelledBy ts

instance (m : Meaning) (ts : List Tok) : Decidable (m.spelledBy ts) := by
  cases m <;> (unfold Meaning.spelledBy; exact inferInstance)

/-- the base instruction executed -/
def Meaning.instr : Meaning → Instr
  | .base i => i
  | .comp c => c.expand

/-- decoder for a token of `size` bytes -/
def decodeAny (size : Nat) (w : Nat) : Option Meaning :=
  if size = 2 then (decodeC w).map .comp else (decode w).map .base

def meaning (c : Cls) (o : Ops) : Meaning :=
  match c with
  | .Movr => .base (.alui .addi o.a o.b 0)
  | .Csrs => .base (.csr .rs 0 o.b o.a)
  | .Csrwi => .base (.csri .rw 0 o.imm.toNat o.a)
  | .Csrsi => .base (.csri .rs 0 o.imm.toNat o.a)
  | .Csrci => .base (.csri .rc 0 o.imm.toNat o.a)
  | .Csrw => .base (.csr .rw 0 o.b o.a)
  | .Csrr => .base (.csr .rs o.a 0 o.b)
  | .Mret => .base .mret
  | .Addr => .base (.alu .add o.a o.b o.c) | .Subr => .base (.alu .sub o.a o.b o.c)
  | .Sll => .base (.alu .sll o.a o.b o.c) | .Slt => .base (.alu .slt o.a o.b o.c)
  | .Sltu => .base (.alu .sltu o.a o.b o.c) | .Xorr => .base (.alu .xor o.a o.b o.c)
  | .Srl => .base (.alu .srl o.a o.b o.c) | .Sra => .base (.alu .sra o.a o.b o.c)
  | .Orr => .base (.alu .or o.a o.b o.c) | .Andr => .base (.alu .and o.a o.b o.c)
  | .Slli => .base (.shift .slli o.a o.b o.imm.toNat)
  | .Srli => .base (.shift .srli o.a o.b o.imm.toNat)
  | .Srai => .base (.shift .srai o.a o.b o.imm.toNat)
  | .Addi => .base (.alui .addi o.a o.b o.imm) | .Slti => .base (.alui .slti o.a o.b o.imm)
  | .Sltiu => .base (.alui .sltiu o.a o.b o.imm) | .Xori => .base (.alui .xori o.a o.b o.imm)
  | .Ori => .base (.alui .ori o.a o.b o.imm) | .Andi => .base (.alui .andi o.a o.b o.imm)
  | .Nop => .base (.alui .addi 0 0 0)
  | .Rdcyclei => .base (.csr .rs o.a 0 0xC00) | .Rdcyclehi => .base (.csr .rs o.a 0 0xC80)
  | .Rdtimei => .base (.csr .rs o.a 0 0xC01) | .Rdtimehi => .base (.csr .rs o.a 0 0xC81)
  | .Rdinstreti => .base (.csr .rs o.a 0 0xC02) | .Rdinstrethi => .base (.csr .rs o.a 0 0xC82)
  | .Ebreak => .base .ebreak
  | .Bl => .base (.jal o.a 0)
  | .B => .base (.jal 0 0)
  | .Blr => .base (.jalr o.a o.b o.imm)
  | .Lui => .base (.lui o.a o.imm.toNat)
  | .Adru => .base (.lui o.a 0)
  | .Adrurel => .base (.auipc o.a 0)
  | .Adrl => .base (.alui .addi o.a o.b 0)
  | .Loadlrel => .base (.load .lw o.b o.b 0)
  | .Adrlrel => .base (.alui .addi o.a o.a 0)
  | .Auipc => .base (.auipc o.a o.imm.toNat)
  | .Beq => .base (.branch .beq o.a o.b 0) | .Bne => .base (.branch .bne o.a o.b 0)
  | .Blt => .base (.branch .blt o.a o.b 0) | .Bgt => .base (.branch .blt o.b o.a 0)
  | .Bge => .base (.branch .bge o.a o.b 0) | .Ble => .base (.branch .bge o.b o.a 0)
  | .Bltu => .base (.branch .bltu o.a o.b 0) | .Bgtu => .base (.branch .bltu o.b o.a 0)
  | .Bgeu => .base (.branch .bgeu o.a o.b 0) | .Bleu => .base (.branch .bgeu o.b o.a 0)
  | .Sb => .base (.store .sb o.a o.b o.imm) | .Sh => .base (.store .sh o.a o.b o.imm)
  | .Sw => .base (.store .sw o.a o.b o.imm)
  | .Lb => .base (.load .lb o.a o.b o.imm) | .Lh => .base (.load .lh o.a o.b o.imm)
  | .Lw => .base (.load .lw o.a o.b o.imm) | .Lbu => .base (.load .lbu o.a o.b o.imm)
  | .Lhu => .base (.load .lhu o.a o.b o.imm)
  | .Mul => .base (.mul .mul o.a o.b o.c) | .Div => .base (.mul .div o.a o.b o.c)
  | .Divu => .base (.mul .divu o.a o.b o.c) | .Rem => .base (.mul .rem o.a o.b o.c)
  | .Remu => .base (.mul .remu o.a o.b o.c)
  | .CSub => .comp (.alu .sub o.a o.b) | .CXor => .comp (.alu .xor o.a o.b)
  | .COr => .comp (.alu .or o.a o.b) | .CAnd => .comp (.alu .and o.a o.b)
  | .CSlli => .comp (.slli o.a o.imm.toNat)
  | .CSrli => .comp (.srli o.a o.imm.toNat)
  | .CSrai => .comp (.srai o.a o.imm.toNat)
  | .CAndi => .comp (.andi o.a o.imm)
  | .CAddi => .comp (.addi o.b o.imm)
  | .CNop => .comp .nop
  | .CEbreak => .comp .ebreak
  | .CMovr => .comp (.mv o.a o.b)
  | .CBl => .base (.jal o.a 0)
  | .CJal => .comp (.jal 0)
  | .CB => .base (.jal 0 0)
  | .CJ => .comp (.j 0)
  | .CJr => .comp (.jr o.a)
  | .CJalr => .comp (.jalr o.a)
  | .CBeqz => .comp (.beqz o.a 0)
  | .CBnez => .comp (.bnez o.a 0)
  | .CLw => .comp (.lw o.a o.b o.imm.toNat)
  | .CSw => .comp (.sw o.a o.b o.imm.toNat)
  | .CLwsp => .comp (.lwsp o.a o.imm.toNat)
  | .CAddi4spn => .comp (.addi4spn o.a o.imm.toNat)
  | .CAddi16sp => .comp (.addi16sp o.imm)
  | .CSwsp => .comp (.swsp o.a o.imm.toNat)
  | .CLi => .comp (.li o.a o.imm)
  | .CLui => .comp (.lui o.a o.imm)

/-! ### the architecturally valid operands of each class (the domain of the C08 theorems) -/

def reg (n : Nat) : Prop := n < 32
/-- a three-bit `rd'/rs1'/rs2'` register -/
def regP (n : Nat) : Prop := 8 ≤ n ∧ n < 16
def simm (bitsN : Nat) (v : Int) : Prop := -((2 ^ (bitsN - 1) : Nat) : Int) ≤ v ∧ v < ((2 ^ (bitsN - 1) : Nat) : Int)
def uimm (bitsN : Nat) (v : Int) : Prop := 0 ≤ v ∧ v < ((2 ^ bitsN : Nat) : Int)

instance (n : Nat) : Decidable (reg n) := by unfold reg; exact inferInstance
instance (n : Nat) : Decidable (regP n) := by unfold regP; exact inferInstance
instance (k : Nat) (v : Int) : Decidable (simm k v) := by unfold simm; exact inferInstance
instance (k : Nat) (v : Int) : Decidable (uimm k v) := by unfold uimm; exact inferInstance

def valid (c : Cls) (o : Ops) : Prop :=
  match c with
  | .Movr => reg o.a ∧ reg o.b
  | .Csrs | .Csrw => o.a < 4096 ∧ reg o.b
  | .Csrwi | .Csrsi | .Csrci => o.a < 4096 ∧ uimm 5 o.imm
  | .Csrr => reg o.a ∧ o.b < 4096
  | .Mret | .Nop | .Ebreak | .B | .CNop | .CEbreak | .CB | .CJal | .CJ => True
  | .Addr | .Subr | .Sll | .Slt | .Sltu | .Xorr | .Srl | .Sra | .Orr | .Andr
  | .Mul | .Div | .Divu | .Rem | .Remu => reg o.a ∧ reg o.b ∧ reg o.c
  | .Slli | .Srli | .Srai => reg o.a ∧ reg o.b ∧ uimm 5 o.imm
  | .Addi | .Slti | .Sltiu | .Xori | .Ori | .Andi | .Blr
  | .Sb | .Sh | .Sw | .Lb | .Lh | .Lw | .Lbu | .Lhu => reg o.a ∧ reg o.b ∧ simm 12 o.imm
  | .Rdcyclei | .Rdcyclehi | .Rdtimei | .Rdtimehi | .Rdinstreti | .Rdinstrethi
  | .Bl | .Adru | .Adrurel | .Adrlrel | .CBl => reg o.a
  | .Lui | .Auipc => reg o.a ∧ uimm 20 o.imm
  | .Adrl => reg o.a ∧ reg o.b
  | .Loadlrel => reg o.b
  | .Beq | .Bne | .Blt | .Bgt | .Bge | .Ble | .Bltu | .Bgtu | .Bgeu | .Bleu => reg o.a ∧ reg o.b
  | .CSub | .CXor | .COr | .CAnd => regP o.a ∧ regP o.b
  | .CSlli => reg o.a ∧ o.b = o.a ∧ uimm 5 o.imm
  | .CSrli | .CSrai => regP o.a ∧ o.b = o.a ∧ uimm 5 o.imm
  | .CAndi => regP o.a ∧ o.b = o.a ∧ simm 6 o.imm
  | .CAddi => reg o.b ∧ o.b ≠ 0 ∧ simm 6 o.imm
  | .CMovr => reg o.a ∧ reg o.b ∧ o.b ≠ 0
  | .CJr | .CJalr => reg o.a ∧ o.a ≠ 0
  | .CBeqz | .CBnez => regP o.a
  | .CLw | .CSw => regP o.a ∧ regP o.b ∧ uimm 7 o.imm ∧ o.imm % 4 = 0
  | .CLwsp => reg o.a ∧ o.a ≠ 0 ∧ uimm 8 o.imm ∧ o.imm % 4 = 0
  | .CSwsp => reg o.a ∧ uimm 8 o.imm ∧ o.imm % 4 = 0
  | .CAddi4spn => regP o.a ∧ uimm 10 o.imm ∧ o.imm % 4 = 0 ∧ o.imm ≠ 0
  | .CAddi16sp => simm 10 o.imm ∧ o.imm % 16 = 0 ∧ o.imm ≠ 0
  | .CLi => reg o.a ∧ simm 6 o.imm
  | .CLui => reg o.a ∧ o.a ≠ 2 ∧ simm 6 o.imm ∧ o.imm ≠ 0

instance (c : Cls) (o : Ops) : Decidable (valid c o) := by
  cases c <;> (simp only [valid]; exact inferInstance)

end Model.RVEnc
