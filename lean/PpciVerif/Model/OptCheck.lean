import PpciVerif.Spec.IR
import PpciVerif.Model.Opt
/-!
# Model.OptCheck — executable validators for optimiser outputs (C02, shape V)

`checkAlign m m'` : `m'` is `m` with, in every function, some *unused side-effect-free* instructions deleted
and some *fresh constants* inserted, nothing else changed (what `DeleteUnusedInstructionsPass` does, and the
instruction-insertion half of `ConstantFolder`).  Soundness (`Proofs.Opt.Align`): `checkAlign m m' = true →
Preserves cfg m m'` for every configuration, oracle, function, argument vector and fuel.
-/
namespace Model.OptCheck
open Spec.IR Model.Opt

/-- instructions whose only effect is the assignment of their result (no memory change, no call, no control) -/
def removable : Instr → Bool
  | .const .. | .undefined .. | .addrof .. | .binop .. | .unop .. | .cast .. | .load .. | .phi .. => true
  | _ => false

/-- `evalConst` succeeds on this payload for every configuration -/
def constOk : Ty → ConstVal → Bool
  | .int _, .int _ | .ptr, .int _ | .f32, _ | .f64, _ => true
  | _, _ => false

def opAvoids (X : List String) : Operand → Bool
  | .loc x => !X.contains x
  | .glob _ => true

/-- the instruction neither uses nor defines a name of `X` -/
def avoids (X : List String) (i : Instr) : Bool :=
  (allOps i).all (opAvoids X) &&
  (match dstName i with
   | some d => !X.contains d
   | none => true)

def isDel (D : List String) (i : Instr) : Bool :=
  removable i && (match dstName i with
    | some d => D.contains d
    | none => false)

def isIns (N : List String) : Instr → Bool
  | .const d ty c => N.contains d && constOk ty c
  | _ => false

/-- greedy alignment of two instruction lists: keep (identical, avoiding `D ++ N`), delete (left only),
    insert (right only); `fuel` bounds the number of decisions (structural recursion: kernel-evaluable) -/
def alignF (D N : List String) : Nat → List Instr → List Instr → Bool
  | 0, _, _ => false
  | _ + 1, [], [] => true
  | n + 1, i :: r, [] => isDel D i && alignF D N n r []
  | n + 1, [], i' :: r' => isIns N i' && alignF D N n [] r'
  | n + 1, i :: r, i' :: r' =>
    if i = i' ∧ avoids (D ++ N) i = true then alignF D N n r r'
    else if isDel D i then alignF D N n r (i' :: r')
    else if isIns N i' then alignF D N n (i :: r) r'
    else false

def alignB (D N : List String) (l l' : List Instr) : Bool := alignF D N (l.length + l'.length + 1) l l'

def blocksB (D N : List String) : List Block → List Block → Bool
  | [], [] => true
  | b :: bs, b' :: bs' => b.name = b'.name && alignB D N b.instrs b'.instrs && blocksB D N bs bs'
  | _, _ => false

def defNames (f : Func) : List String := f.blocks.flatMap fun b => b.instrs.filterMap dstName

def delNames (f f' : Func) : List String := (defNames f).filter fun x => !(defNames f').contains x
def insNames (f f' : Func) : List String := (defNames f').filter fun x => !(defNames f).contains x

def checkAlignFn (f f' : Func) : Bool :=
  f.name = f'.name && f.params = f'.params && f.ret = f'.ret && f.entry = f'.entry &&
  blocksB (delNames f f') (insNames f f') f.blocks f'.blocks

def funcsB : List Func → List Func → Bool
  | [], [] => true
  | f :: fs, f' :: fs' => checkAlignFn f f' && funcsB fs fs'
  | _, _ => false

def checkAlign (m m' : Module) : Bool :=
  m.externs = m'.externs && m.vars = m'.vars && funcsB m.funcs m'.funcs

end Model.OptCheck

/-! ## SSA facts (checked, not derived): unique definitions, a dominance table that is closed along edges and
antisymmetric, every use dominated by its definition.  `Proofs.Opt.SSA` proves from these facts alone (no
graph theory) that, along every execution, each pure instruction `x := op(a…)` whose definition strictly
dominates the current program point satisfies `env x = ⟦op⟧(env a…)` (DESIGN S6). -/
namespace Model.OptCheck
open Spec.IR Model.Opt

abbrev Pos := String × Nat

/-- position (block name, index) of the first instruction defining `x` -/
def defPos (f : Func) (x : String) : Option Pos :=
  f.blocks.findSome? fun b => (b.instrs.findIdx? fun i => dstName i = some x).map fun k => (b.name, k)

def instrAtPos (f : Func) (p : Pos) : Option Instr := (f.findBlock p.1).bind fun b => b.instrs[p.2]?

def isParam (f : Func) (x : String) : Bool := f.params.any fun p => p.1 = x

/-- dominator table: block ↦ its dominators (itself included) -/
abbrev DomTab := List (String × List String)

def DomTab.dom (T : DomTab) (d v : String) : Bool :=
  match lookupStr T v with
  | some ds => ds.contains d
  | none => false

def inter (a b : List String) : List String := a.filter b.contains

/-- one round of the classical dataflow iteration -/
def domRound (f : Func) (T : DomTab) : DomTab :=
  T.map fun (n, ds) =>
    if n = f.entry then (n, [n]) else
    let ps := f.preds n
    match ps with
    | [] => (n, ds)
    | p :: rest =>
      let start := (lookupStr T p).getD []
      (n, n :: (rest.foldl (fun acc q => inter acc ((lookupStr T q).getD [])) start).filter (· ≠ n))

def domIter (f : Func) : Nat → DomTab → DomTab
  | 0, T => T
  | k + 1, T => let T' := domRound f T; if T' = T then T else domIter f k T'

/-- computed by unverified code; the facts the proof needs are *checked* on the result (`ssaCheck`) -/
def computeDoms (f : Func) : DomTab :=
  let names := f.blockNames
  domIter f (names.length * names.length + 2) (names.map fun n => (n, if n = f.entry then [n] else names))

/-- `d` strictly dominates the program point `u` (before the instruction at index `u.2` of block `u.1`) -/
def sdomPt (T : DomTab) (d u : Pos) : Bool := if d.1 = u.1 then d.2 < u.2 else T.dom d.1 u.1

/-- a (non-phi) use of `o` at point `u` is dominated by the definition -/
def useOk (f : Func) (T : DomTab) (u : Pos) : Operand → Bool
  | .glob _ => true
  | .loc x => isParam f x || (match defPos f x with
      | some p => sdomPt T p u
      | none => false)

/-- a phi input `(pred, o)`: the definition dominates the end of `pred` -/
def phiUseOk (f : Func) (T : DomTab) (pred : String) : Operand → Bool
  | .glob _ => true
  | .loc x => isParam f x || (match defPos f x with
      | some p => p.1 = pred || T.dom p.1 pred
      | none => false)

def zipIdx {α : Type} : List α → Nat → List (α × Nat)
  | [], _ => []
  | x :: xs, k => (x, k) :: zipIdx xs (k + 1)

def ssaCheck (f : Func) (T : DomTab) : Bool :=
  allDistinct f.blockNames &&
  f.blocks.all Block.terminatedOk &&
  -- every definition is THE definition of its name, and is not a parameter
  f.blocks.all (fun b => (zipIdx b.instrs 0).all fun (i, k) =>
    match dstName i with
    | some d => defPos f d = some (b.name, k) && !isParam f d
    | none => true) &&
  -- closure along edges
  f.blocks.all (fun p => p.succs.all fun q =>
    match lookupStr T q with
    | some ds => ds.all fun d => d = q || T.dom d p.name
    | none => false) &&
  -- antisymmetry
  T.all (fun (v, ds) => ds.all fun d => d = v || !T.dom v d) &&
  -- nothing but the entry dominates the entry
  (lookupStr T f.entry = some [f.entry]) &&
  -- uses are dominated
  f.blocks.all (fun b => (zipIdx b.instrs 0).all fun (i, k) =>
    i.uses.all (useOk f T (b.name, k)) && i.phiIns.all fun p => phiUseOk f T p.1 p.2)

end Model.OptCheck

/-! ## typing facts (checked): integer operands of integer binops / phis / returns / direct calls have the
declared integer type.  `Proofs.Opt.Typing` proves from them that every integer-typed local always holds a
value in the range of its type (needed for `x + 0 = x`). -/
namespace Model.OptCheck
open Spec.IR Model.Opt

/-- declared type of a local: parameter type, or result type of its defining instruction -/
def declTy (f : Func) (x : String) : Option Ty :=
  match lookupStr f.params x with
  | some t => some t
  | none =>
    match defPos f x with
    | some p => (instrAtPos f p).bind fun i => i.dst?.map (·.2)
    | none => none

def opTy (f : Func) : Operand → Option Ty
  | .loc x => declTy f x
  | .glob _ => some .ptr

def instrTyOk (m : Module) (f : Func) : Instr → Bool
  | .binop _ (.int t) _ a b => opTy f a = some (.int t) && opTy f b = some (.int t)
  | .phi _ (.int t) ins => ins.all fun p => opTy f p.2 = some (.int t)
  | .ret v =>
    (match f.ret with
     | some (.int t) => opTy f v = some (.int t)
     | _ => true)
  | .fcall _ (.int t) callee _ =>
    (match callee with
     | .glob g =>
       (match m.findFunc g with
        | some fg => fg.ret = some (.int t)
        | none =>
          match m.findExtern g with
          | some e => (match e.kind with
              | .func _ rty => rty = .int t
              | _ => true)
          | none => true)
     | .loc _ => false)
  | _ => true

def tyCheck (m : Module) (f : Func) : Bool := f.blocks.all fun b => b.instrs.all (instrTyOk m f)

end Model.OptCheck

/-! ## substitution validator: operands replaced by operands that provably hold the same value

`checkSubst m m'`: same functions, blocks and instructions; in `m'` operands may be replaced by other
operands (and a conditional jump on two known constants by the jump taken), where each replacement is
justified at its program point by the equations of pure instructions of the ORIGINAL function whose
definitions strictly dominate that point (`justB`, `knownInt`):
  * CSE: `x := a op b`, `y := a' op b'` with the same operator/type and justified-equal operands;
  * constants: `x := const c`, `y := const c` ; integer constant expressions with the same value
    (`Spec.IR.intBinop` / `Spec.IRArith.cast` on known integer values) — constant folding.
Soundness: `Proofs.Opt.Subst.checkSubst_sound`. -/
namespace Model.OptCheck
open Spec.IR Model.Opt

/-- the integer value an operand is known to have at point `u` (from constants, integer binops and casts
    whose definitions strictly dominate `u`) -/
def knownInt (f : Func) (T : DomTab) (u : Pos) : Nat → Operand → Option Int
  | 0, _ => none
  | n + 1, .glob _ => none
  | n + 1, .loc x =>
    match defPos f x with
    | none => none
    | some p =>
      if sdomPt T p u then
        match instrAtPos f p with
        | some (.const _ (.int t) (.int v)) => some (Spec.IRArith.wrap t v)
        | some (.binop _ (.int t) op a b) =>
          match knownInt f T u n a, knownInt f T u n b with
          | some xa, some xb =>
            (match intBinop t op xa xb with
             | .ok (.int v) => some v
             | _ => none)
          | _, _ => none
        | some (.cast _ (.int t) a) =>
          (match knownInt f T u n a with
           | some xa => some (Spec.IRArith.cast t xa)
           | none => none)
        | _ => none
      else none

/-- `x := a + 0`, `x := 0 + b`, `x := a * 1` at integer type: the operand that `x` is a copy of
    (only used when the module passes `tyCheck`: the copy is exact because the operand is in range) -/
def copyOf (f : Func) (T : DomTab) (u : Pos) (fuel : Nat) : Operand → Option Operand
  | .glob _ => none
  | .loc x =>
    match defPos f x with
    | none => none
    | some px =>
      if sdomPt T px u then
        match instrAtPos f px with
        | some (.binop _ (.int t) .add a b) =>
          if knownInt f T u fuel b = some 0 && opTy f a = some (.int t) then some a
          else if knownInt f T u fuel a = some 0 && opTy f b = some (.int t) then some b
          else none
        | some (.binop _ (.int t) .mul a b) =>
          if knownInt f T u fuel b = some 1 && opTy f a = some (.int t) then some a else none
        | _ => none
      else none

/-- instructions that may write memory (or call) -/
def isWriter : Instr → Bool
  | .store .. | .fcall .. | .pcall .. | .copyblob .. | .asm .. => true
  | _ => false

/-- searching backwards from index `n - 1`: the first writer must be a store of type `int t` to the address
    operand `p`; result: its index and the stored operand -/
def scanBack (instrs : List Instr) (p : Operand) (t : ITy) : Nat → Option (Nat × Operand)
  | 0 => none
  | k + 1 =>
    match instrs[k]? with
    | some (.store ty v a _) => if ty = .int t ∧ a = p then some (k, v) else none
    | some i => if isWriter i then none else scanBack instrs p t k
    | none => none

/-- `x := load (int t) p` (not volatile) preceded in its block by `store (int t) v p` with no writer in between,
    `v` of declared type `int t`: position of the load, index of the store, `v`, `p`, `t` -/
def lasSrc (f : Func) (x : String) : Option (Pos × Nat × Operand × Operand × ITy) :=
  match defPos f x with
  | none => none
  | some px =>
    match f.findBlock px.1 with
    | none => none
    | some b =>
      match b.instrs[px.2]? with
      | some (.load _ (.int t) p false) =>
        (match scanBack b.instrs p t px.2 with
         | some (q, v) => if opTy f v = some (.int t) then some (px, q, v, p, t) else none
         | none => none)
      | _ => none

/-- the stored operand that the load `x` is a copy of, if the load strictly dominates `u` -/
def loadOf (f : Func) (T : DomTab) (u : Pos) (x : String) : Option Operand :=
  match lasSrc f x with
  | some (px, _, v, _, _) => if sdomPt T px u then some v else none
  | none => none

def loadOfOp (f : Func) (T : DomTab) (u : Pos) : Operand → Option Operand
  | .loc x => loadOf f T u x
  | .glob _ => none

/-- `o'` provably holds the value of `o` at point `u`; `ty` = the module passes `tyCheck` -/
def justB (f : Func) (T : DomTab) (ty : Bool) (u : Pos) : Nat → Operand → Operand → Bool
  | 0, o, o' => o == o'
  | n + 1, o, o' =>
    o == o' ||
    (ty && (match copyOf f T u (n + 1) o with
       | some a => justB f T ty u n a o'
       | none => false)) ||
    (ty && (match loadOfOp f T u o with
       | some v => justB f T ty u n v o'
       | none => false)) ||
    (match knownInt f T u (n + 1) o, knownInt f T u (n + 1) o' with
     | some v, some v' => v == v'
     | _, _ => false) ||
    (match o, o' with
     | .loc x, .loc y =>
       (match defPos f x, defPos f y with
        | some px, some py =>
          sdomPt T px u && sdomPt T py u &&
          (match instrAtPos f px, instrAtPos f py with
           | some (.binop _ t op a b), some (.binop _ t' op' a' b') =>
             t == t' && op == op' && justB f T ty u n a a' && justB f T ty u n b b'
           | some (.const _ t c), some (.const _ t' c') => t == t' && c == c'
           | _, _ => false)
        | _, _ => false)
     | _, _ => false)

def lookupOp : List (Operand × Operand) → Operand → Option Operand
  | [], _ => none
  | (a, b) :: r, o => if o = a then some b else lookupOp r o

/-- index of the terminator of block `bn` -/
def endIdx (f : Func) (bn : String) : Nat :=
  match f.findBlock bn with
  | some b => b.instrs.length - 1
  | none => 0

def justFuel (f : Func) : Nat := (allNames f).length + 2

/-- comparison of two known integers (the body of `Spec.IR.evalCond` on integers) -/
def condInt (c : Cond) (x y : Int) : Bool :=
  match c with
  | .eq => x == y | .ne => x != y | .lt => decide (x < y) | .gt => decide (x > y)
  | .le => decide (x ≤ y) | .ge => decide (x ≥ y)

/-- a conditional jump on two known integer constants becomes the jump that is taken (`CJumpPass`; the pruning
    of phi inputs and of unreachable blocks that the pass does afterwards is NOT covered by this rule) -/
def cjFold (f : Func) (T : DomTab) (u : Pos) (fuel : Nat) : Instr → Instr → Bool
  | .cjump a c b yes no, .jump t =>
    (match knownInt f T u fuel a, knownInt f T u fuel b with
     | some va, some vb => t == (if condInt c va vb then yes else no)
     | _, _ => false)
  | _, _ => false

/-- the chain rewrite of `ConstantFolder`: `x := (y op c1) op c2` becomes `x := y op c3` for `op ∈ {+, -}` at an
    integer type, where `c1 c2 c3` are known integers with `c3 ≡ c1 + c2` modulo the width -/
def chainFold (f : Func) (T : DomTab) (u : Pos) (fuel : Nat) : Instr → Instr → Bool
  | .binop d (.int t) op tt c2, .binop d' (.int t') op' y c3 =>
    d = d' && t = t' && op = op' && (op = .add || op = .sub) &&
    (match tt with
     | .loc x =>
       (match defPos f x with
        | some pt =>
          sdomPt T pt u &&
          (match instrAtPos f pt with
           | some (.binop _ (.int t1) op1 y1 c1) =>
             t1 = t && op1 = op && y1 = y &&
             (match knownInt f T u fuel c1, knownInt f T u fuel c2, knownInt f T u fuel c3 with
              | some k1, some k2, some k3 => Spec.IRArith.wrap t (k1 + k2) == Spec.IRArith.wrap t k3
              | _, _, _ => false)
           | _ => false)
        | none => false)
     | .glob _ => false)
  | _, _ => false

/-- the callee of a call is never replaced -/
def calleeSame : Instr → Instr → Bool
  | .fcall _ _ c _, .fcall _ _ c' _ => c = c'
  | .pcall c _, .pcall c' _ => c = c'
  | _, _ => true

/-- instruction `i` at point `u` of `f` may become `i'` -/
def instrOk (f : Func) (T : DomTab) (ty : Bool) (u : Pos) (i i' : Instr) : Bool :=
  i = i' || cjFold f T u (justFuel f) i i' || chainFold f T u (justFuel f) i i' ||
  (let σ := (allOps i).zip (allOps i')
   let g : Operand → Operand := fun o => (lookupOp σ o).getD o
   i' = mapOps g i && calleeSame i i' &&
   i.uses.all (fun o => justB f T ty u (justFuel f) o (g o)) &&
   i.phiIns.all (fun p => justB f T ty (p.1, endIdx f p.1) (justFuel f) p.2 (g p.2)))

def instrsOk (f : Func) (T : DomTab) (ty : Bool) (bn : String) : Nat → List Instr → List Instr → Bool
  | _, [], [] => true
  | k, i :: r, i' :: r' => instrOk f T ty (bn, k) i i' && instrsOk f T ty bn (k + 1) r r'
  | _, _, _ => false

def blocksOk (f : Func) (T : DomTab) (ty : Bool) : List Block → List Block → Bool
  | [], [] => true
  | b :: bs, b' :: bs' => b.name = b'.name && instrsOk f T ty b.name 0 b.instrs b'.instrs && blocksOk f T ty bs bs'
  | _, _ => false

def checkSubstFn (ty : Bool) (f f' : Func) : Bool :=
  let T := computeDoms f
  f.name = f'.name && f.params = f'.params && f.ret = f'.ret && f.entry = f'.entry &&
  ssaCheck f T && blocksOk f T ty f.blocks f'.blocks

def funcsSubst (ty : Bool) : List Func → List Func → Bool
  | [], [] => true
  | f :: fs, f' :: fs' => checkSubstFn ty f f' && funcsSubst ty fs fs'
  | _, _ => false

/-- every function of the module passes the typing check (enables the `x + 0 = x` justifications) -/
def tyModule (m : Module) : Bool := m.funcs.all (tyCheck m)

def checkSubst (m m' : Module) : Bool :=
  m.externs = m'.externs && m.vars = m'.vars && funcsSubst (tyModule m) m.funcs m'.funcs

end Model.OptCheck
