/-
Model.Py2Ir — hand model of `ppci/lang/python/python2ir.py` (`PythonToIrCompiler`), import-free.

The model mirrors the code as it is after the `fix:` commits of C36 (floor division emitted as a
floor division; the for-loop counter is incremented in a block of its own which is the target of
`continue` and the back-edge predecessor of the loop phi; the loop variable is an ordinary local;
allocas are placed in the entry block).

What is modelled
  * `binop_map`, the comparison table of `gen_compare`, `type_mapping`   (tables; re-checked against
    a dump of the live objects, `Gen.Py2Ir`)
  * `gen_expr / gen_name / gen_num / gen_binop / gen_arithmetic / gen_floor_div`  ↦ `genExpr`
    (an expression only *emits* instructions into the current block: it is a function to a list)
  * `gen_cond / gen_compare / gen_bool_op`                                        ↦ `genCond`
  * `gen_statement` with `gen_if / gen_while / gen_for / gen_break / gen_continue / gen_return /
    gen_assign / gen_aug_assign`, `get_variable`, `enter_loop/leave_loop`          ↦ `genStmt`
  * `gen_function` incl. the final `delete_unreachable`                          ↦ `genFunction`

The `irutils.Builder` is modelled by an append-only event log (`St.log`): `emit b i` = instruction
`i` appended to block `b`, `hoist` = alloca pair inserted at the front of the entry block,
`incoming` = `Phi.set_incoming`.  Blocks are numbered in creation order (`new_block`), values are
numbered in creation order.  Calls, strings and imports are not modelled.
-/
namespace Model.Py2Ir

inductive Err | compilerError | keyError | notImplementedError | indexError
  deriving DecidableEq, Repr

def Err.name : Err → String
  | .compilerError => "CompilerError" | .keyError => "KeyError"
  | .notImplementedError => "NotImplementedError" | .indexError => "IndexError"

/-- the IR types in `type_mapping` -/
inductive Ty | i64 | f64 | ptr
  deriving DecidableEq, Repr

def Ty.name : Ty → String | .i64 => "i64" | .f64 => "f64" | .ptr => "ptr"
/-- `ty.is_signed` -/
def Ty.isSigned : Ty → Bool | .i64 => true | _ => false
/-- `ty.bits` (only used for signed integer types) -/
def Ty.bits : Ty → Nat | .i64 => 64 | .f64 => 64 | .ptr => 0

/-- `PythonToIrCompiler().type_mapping` -/
def typeMapping : List (String × Ty) := [("int", .i64), ("float", .f64), ("str", .ptr)]

/-- `PythonToIrCompiler.binop_map`: ast operator class ↦ IR operator -/
def binopMap : List (String × String) := [("Add", "+"), ("Sub", "-"), ("Mult", "*"), ("Div", "/")]

/-- `op_map` of `gen_compare`: ast comparison class ↦ `CJump` condition -/
def cmpMap : List (String × String) :=
  [("Gt", ">"), ("GtE", ">="), ("Lt", "<"), ("LtE", "<="), ("Eq", "=="), ("NotEq", "!=")]

def lookup {α} (k : String) : List (String × α) → Option α
  | [] => none
  | (k', v) :: r => if k = k' then some v else lookup k r

/-- an IR value: the i-th parameter or the n-th created instruction -/
inductive Val | param (i : Nat) | tmp (n : Nat)
  deriving DecidableEq, Repr

inductive Instr
  | alloc (d : Nat)                                   -- Alloc(8, 8)
  | addrof (d : Nat) (src : Nat)
  | store (v : Val) (addr : Val)
  | load (d : Nat) (ty : Ty) (addr : Val)
  | const (d : Nat) (ty : Ty) (v : Int)               -- f64: the IEEE bit pattern
  | binop (d : Nat) (ty : Ty) (op : String) (a b : Val)
  | phi (d : Nat) (ty : Ty)                           -- inputs arrive as `incoming` events
  | jump (t : Nat)
  | cjump (a : Val) (op : String) (b : Val) (yes no : Nat)
  | ret (v : Val)
  | exit
  deriving DecidableEq, Repr

def Instr.isTerminator : Instr → Bool
  | .jump _ | .cjump .. | .ret _ | .exit => true
  | _ => false

def Instr.targets : Instr → List Nat
  | .jump t => [t]
  | .cjump _ _ _ y n => [y, n]
  | _ => []

/-- Python expressions (operators by `ast` class name) -/
inductive PExpr
  | num (v : Int)
  | fnum (bits : Nat)
  | name (x : String)
  | binop (op : String) (a b : PExpr)
  | other                                   -- any node `gen_expr` does not know (`not_impl`)
  deriving Repr

/-- entries of `local_map` -/
structure Var where
  addr : Val
  lvalue : Bool
  ty : Ty
  deriving Repr

/-- code, result value, result type, next free value number -/
abbrev ExprR := List Instr × Val × Ty × Nat

/-- `gen_floor_div` -/
def floorDivCode (ty : Ty) (a b : Val) (n : Nat) : List Instr :=
  [ .binop n ty "/" a b,                                 -- quotient
    .binop (n+1) ty "%" a b,                             -- remainder
    .const (n+2) ty (Int.ofNat (ty.bits - 1)),           -- sign_shift
    .const (n+3) ty 0,                                   -- zero
    .binop (n+4) ty "^" (.tmp (n+1)) b,                  -- mixed
    .binop (n+5) ty ">>" (.tmp (n+4)) (.tmp (n+2)),      -- differ
    .binop (n+6) ty "-" (.tmp (n+3)) (.tmp (n+1)),       -- negated
    .binop (n+7) ty "|" (.tmp (n+1)) (.tmp (n+6)),       -- either
    .binop (n+8) ty ">>" (.tmp (n+7)) (.tmp (n+2)),      -- nonzero
    .binop (n+9) ty "&" (.tmp (n+5)) (.tmp (n+8)),       -- adjust
    .binop (n+10) ty "+" (.tmp n) (.tmp (n+9)) ]

/-- `gen_arithmetic(node, a, b, ty)` -/
def genArith (op : String) (ty : Ty) (a b : Val) (n : Nat) : Except Err (List Instr × Val × Nat) :=
  match lookup op binopMap with
  | some irop => .ok ([.binop n ty irop a b], .tmp n, n + 1)
  | none =>
    if op = "FloorDiv" ∧ ty.isSigned = true then .ok (floorDivCode ty a b n, .tmp (n + 10), n + 11)
    else .error .compilerError

/-- `gen_expr` -/
def genExpr (locals : List (String × Var)) : PExpr → Nat → Except Err ExprR
  | .num v, n => .ok ([.const n .i64 v], .tmp n, .i64, n + 1)
  | .fnum b, n => .ok ([.const n .f64 (Int.ofNat b)], .tmp n, .f64, n + 1)
  | .name x, n =>
    match lookup x locals with
    | none => .error .keyError
    | some var =>
      if var.lvalue then .ok ([.load n var.ty var.addr], .tmp n, var.ty, n + 1)
      else .ok ([], var.addr, var.ty, n)
  | .binop op a b, n =>
    match genExpr locals a n with
    | .error e => .error e
    | .ok (ca, va, ta, n1) =>
      match genExpr locals b n1 with
      | .error e => .error e
      | .ok (cb, vb, tb, n2) =>
        if ta ≠ tb then .error .compilerError
        else
          match genArith op ta va vb n2 with
          | .error e => .error e
          | .ok (cc, vc, n3) => .ok (ca ++ cb ++ cc, vc, ta, n3)
  | .other, _ => .error .compilerError

/-! ### the builder -/

inductive Event
  | emit (blk : Nat) (i : Instr)
  | hoist (dAlloc dAddr : Nat)                -- `entry.insert_instruction(addr); …(mem)`
  | incoming (phi : Nat) (blk : Nat) (v : Val)
  deriving DecidableEq, Repr

structure St where
  nblocks : Nat                       -- `builder.block_number`
  cur : Nat                           -- `builder.block`
  nvals : Nat
  locals : List (String × Var)        -- `local_map`
  loops : List (Nat × Nat)            -- `block_stack`: (continue target, break target)
  log : List Event
  deriving Repr

def St.emit (st : St) (i : Instr) : St := { st with log := st.log ++ [.emit st.cur i] }

def St.emitAll (st : St) (is : List Instr) : St :=
  { st with log := st.log ++ is.map (Event.emit st.cur) }

def St.newBlock (st : St) : Nat × St := (st.nblocks, { st with nblocks := st.nblocks + 1 })

def St.setBlock (st : St) (b : Nat) : St := { st with cur := b }

/-- `get_variable(node, name, ty)` -/
def getVariable (st : St) (x : String) (ty : Option Ty) : Except Err (Var × St) :=
  match lookup x st.locals with
  | some v => .ok (v, st)
  | none =>
    match ty with
    | none => .error .compilerError
    | some t =>
      let v : Var := ⟨.tmp (st.nvals + 1), true, t⟩
      .ok (v, { st with nvals := st.nvals + 2, locals := st.locals ++ [(x, v)],
                        log := st.log ++ [.hoist st.nvals (st.nvals + 1)] })

/-- evaluate an expression into the current block -/
def St.expr (st : St) (e : PExpr) : Except Err (Val × Ty × St) :=
  match genExpr st.locals e st.nvals with
  | .error er => .error er
  | .ok (code, v, t, n) => .ok (v, t, { (st.emitAll code) with nvals := n })

/-- conditions; `other` = anything that is neither a Compare nor a BoolOp -/
inductive PCond
  | cmp (op : String) (a b : PExpr)
  | and (a b : PCond)
  | or (a b : PCond)
  | other
  deriving Repr

/-- `gen_cond(condition, yes_block, no_block)` -/
def genCond : PCond → Nat → Nat → St → Except Err St
  | .cmp op a b, yes, no, st =>
    match st.expr a with
    | .error e => .error e
    | .ok (va, ta, st1) =>
      match lookup op cmpMap with
      | none => .error .keyError
      | some irop =>
        match st1.expr b with
        | .error e => .error e
        | .ok (vb, tb, st2) =>
          if ta ≠ tb then .error .compilerError
          else .ok (st2.emit (.cjump va irop vb yes no))
  | .and a b, yes, no, st =>
    let (allTrue, st1) := st.newBlock
    match genCond a allTrue no st1 with
    | .error e => .error e
    | .ok st2 => genCond b yes no (st2.setBlock allTrue)
  | .or a b, yes, no, st =>
    let (allFalse, st1) := st.newBlock
    match genCond a yes allFalse st1 with
    | .error e => .error e
    | .ok st2 => genCond b yes no (st2.setBlock allFalse)
  | .other, _, _, _ => .error .compilerError

inductive PStmt
  | pass
  | ret (e : Option PExpr)
  | assign (x : String) (e : PExpr)
  | tupleAssign (xs : List String) (es : List PExpr)
  | aug (x : String) (op : String) (e : PExpr)
  | expr (e : PExpr)
  | ifs (c : PCond) (body orelse : PStmt)
  | whiles (c : PCond) (body : PStmt)
  | fors (x : String) (lo : Option PExpr) (hi : PExpr) (body : PStmt)
  | brk
  | cont
  | seq (a b : PStmt)
  deriving Repr

/-- evaluate all right-hand sides of a tuple assignment, left to right -/
def evalAll : List PExpr → St → Except Err (List Val × St)
  | [], st => .ok ([], st)
  | e :: es, st =>
    match st.expr e with
    | .error er => .error er
    | .ok (v, _, st1) =>
      match evalAll es st1 with
      | .error er => .error er
      | .ok (vs, st2) => .ok (v :: vs, st2)

/-- `store_value` for each (target, value) pair (zip stops at the shorter list) -/
def storeAll : List String → List (Val × Ty) → St → Except Err St
  | x :: xs, (v, t) :: vs, st =>
    match getVariable st x (some t) with
    | .error er => .error er
    | .ok (var, st1) => storeAll xs vs (st1.emit (.store v var.addr))
  | _, _, st => .ok st

def evalAllT : List PExpr → St → Except Err (List (Val × Ty) × St)
  | [], st => .ok ([], st)
  | e :: es, st =>
    match st.expr e with
    | .error er => .error er
    | .ok (v, t, st1) =>
      match evalAllT es st1 with
      | .error er => .error er
      | .ok (vs, st2) => .ok ((v, t) :: vs, st2)

/-- `gen_for`, start value: `range(n)` starts at the constant 0, `range(a, b)` at `a` -/
def forPre (st : St) (lo : Option PExpr) : Except Err (Val × St) :=
  match lo with
  | none =>
    .ok (.tmp st.nvals, { (st.emit (.const st.nvals .i64 0)) with nvals := st.nvals + 1 })
  | some e =>
    match st.expr e with
    | .error er => .error er
    | .ok (v, _, s) => .ok (v, s)

/-- `gen_for` from `entry_block = self.builder.block` up to the point where the body is generated:
    four new blocks (test, body, increment, final), jump to the test block, the loop phi with its
    entry input, the conditional jump, `enter_loop(increment_block, final_block)`, the loop variable
    receives the counter. -/
def forEnter (st3 : St) (iInit n2 : Val) (loopVar : Var) : St :=
  let entryB := st3.cur
  let (test, st4) := st3.newBlock
  let (bodyB, st5) := st4.newBlock
  let (inc, st6) := st5.newBlock
  let (final, st7) := st6.newBlock
  let st8 := (st7.emit (.jump test)).setBlock test
  let phi := st8.nvals
  let st9 := { (st8.emit (.phi phi .i64)) with nvals := phi + 1 }
  let st10 := { st9 with log := st9.log ++ [Event.incoming phi entryB iInit] }
  let st11 := st10.emit (.cjump (.tmp phi) "<" n2 bodyB final)
  let st12 := { (st11.setBlock bodyB) with loops := (inc, final) :: st11.loops }
  st12.emit (.store (.tmp phi) loopVar.addr)

/-- `gen_for` after the body: `leave_loop`, jump to the increment block, `i + 1` feeds the phi
    from the increment block, jump back to the test block, continue in the final block.
    (`st3` is the state before the loop's blocks were created: test = `st3.nblocks`, …, phi = `st3.nvals`.) -/
def forLeave (st3 st14 : St) : St :=
  let test := st3.nblocks
  let inc := st3.nblocks + 2
  let final := st3.nblocks + 3
  let phi := st3.nvals
  let st15 := { st14 with loops := st14.loops.tail }
  let st16 := (st15.emit (.jump inc)).setBlock inc
  let one := st16.nvals
  let st17 := { (st16.emit (.const one .i64 1)) with nvals := one + 1 }
  let st18 := { (st17.emit (.binop (one + 1) .i64 "+" (.tmp phi) (.tmp one))) with nvals := one + 2 }
  let st19 := { st18 with log := st18.log ++ [Event.incoming phi inc (.tmp (one + 1))] }
  (st19.emit (.jump test)).setBlock final

/-- `gen_statement`; `isProc` = the function has no return type -/
def genStmt (isProc : Bool) : PStmt → St → Except Err St
  | .pass, st => .ok st
  | .ret e, st =>
    -- gen_return
    if isProc then
      match e with
      | some _ => .error .compilerError
      | none =>
        let st1 := st.emit .exit
        let (void, st2) := st1.newBlock
        .ok (st2.setBlock void)
    else
      match e with
      | none => .error .compilerError
      | some e =>
        match st.expr e with
        | .error er => .error er
        | .ok (v, _, st1) =>
          let st2 := st1.emit (.ret v)
          let (void, st3) := st2.newBlock
          .ok (st3.setBlock void)
  | .assign x e, st =>
    match st.expr e with
    | .error er => .error er
    | .ok (v, t, st1) =>
      match getVariable st1 x (some t) with
      | .error er => .error er
      | .ok (var, st2) => .ok (st2.emit (.store v var.addr))
  | .tupleAssign xs es, st =>
    match evalAllT es st with
    | .error er => .error er
    | .ok (vs, st1) => storeAll xs vs st1
  | .aug x op e, st =>
    match getVariable st x none with
    | .error er => .error er
    | .ok (var, st0) =>
      let lhs := st0.nvals
      let st1 := { (st0.emit (.load lhs var.ty var.addr)) with nvals := lhs + 1 }
      match st1.expr e with
      | .error er => .error er
      | .ok (rhs, _, st2) =>
        match genArith op var.ty (.tmp lhs) rhs st2.nvals with
        | .error er => .error er
        | .ok (code, v, n) =>
          .ok (({ (st2.emitAll code) with nvals := n }).emit (.store v var.addr))
  | .expr e, st =>
    match st.expr e with
    | .error er => .error er
    | .ok (_, _, st1) => .ok st1
  | .ifs c body orelse, st =>
    let (ja, st1) := st.newBlock
    let (els, st2) := st1.newBlock
    let (cont, st3) := st2.newBlock
    match genCond c ja els st3 with
    | .error er => .error er
    | .ok st4 =>
      match genStmt isProc body (st4.setBlock ja) with
      | .error er => .error er
      | .ok st5 =>
        let st6 := (st5.emit (.jump cont)).setBlock els
        match genStmt isProc orelse st6 with
        | .error er => .error er
        | .ok st7 => .ok ((st7.emit (.jump cont)).setBlock cont)
  | .whiles c body, st =>
    let (test, st1) := st.newBlock
    let (bodyB, st2) := st1.newBlock
    let (final, st3) := st2.newBlock
    let st4 := (st3.emit (.jump test)).setBlock test
    match genCond c bodyB final st4 with
    | .error er => .error er
    | .ok st5 =>
      let st6 := { (st5.setBlock bodyB) with loops := (test, final) :: st5.loops }
      match genStmt isProc body st6 with
      | .error er => .error er
      | .ok st7 =>
        let st8 := st7.emit (.jump test)
        .ok ({ st8 with loops := st8.loops.tail }.setBlock final)
  | .fors x lo hi body, st =>
    match forPre st lo with
    | .error er => .error er
    | .ok (iInit, st1) =>
      match st1.expr hi with
      | .error er => .error er
      | .ok (n2, _, st2) =>
        match getVariable st2 x (some .i64) with
        | .error er => .error er
        | .ok (loopVar, st3) =>
          match genStmt isProc body (forEnter st3 iInit n2 loopVar) with
          | .error er => .error er
          | .ok st14 => .ok (forLeave st3 st14)
  | .brk, st =>
    match st.loops with
    | [] => .error .indexError
    | (_, b) :: _ =>
      let st1 := st.emit (.jump b)
      let (un, st2) := st1.newBlock
      .ok (st2.setBlock un)
  | .cont, st =>
    match st.loops with
    | [] => .error .indexError
    | (c, _) :: _ =>
      let st1 := st.emit (.jump c)
      let (un, st2) := st1.newBlock
      .ok (st2.setBlock un)
  | .seq a b, st =>
    match genStmt isProc a st with
    | .error er => .error er
    | .ok st1 => genStmt isProc b st1

/-! ### the finished function -/

/-- instruction of the finished function (phis carry their inputs) -/
inductive OInstr
  | plain (i : Instr)
  | phi (d : Nat) (ty : Ty) (ins : List (Nat × Val))
  deriving Repr

/-- instructions appended to block `b`, in order -/
def blockInstrs (log : List Event) (b : Nat) : List Instr :=
  log.filterMap (fun e => match e with
    | .emit b' i => if b' = b then some i else none
    | _ => none)

/-- the hoisted allocas, most recent first (each pair is inserted at position 0) -/
def hoisted (log : List Event) : List Instr :=
  (log.filterMap (fun e => match e with
    | .hoist a d => some [Instr.alloc a, Instr.addrof d a]
    | _ => none)).reverse.flatten

def phiInputs (log : List Event) (d : Nat) : List (Nat × Val) :=
  log.filterMap (fun e => match e with
    | .incoming p b v => if p = d then some (b, v) else none
    | _ => none)

/-- successors of block `b`: the targets of its last instruction -/
def succs (log : List Event) (b : Nat) : List Nat :=
  match (blockInstrs log b).getLast? with
  | some i => i.targets
  | none => []

/-- blocks reachable from the entry block 0 (`n` rounds of successor closure) -/
def reachable (log : List Event) (nblocks : Nat) : List Nat :=
  let step (seen : List Nat) : List Nat :=
    seen ++ ((seen.flatMap (succs log)).filter (fun b => !seen.contains b)).eraseDups
  (List.range nblocks).foldl (fun seen _ => step seen) [0]

structure OBlock where
  id : Nat
  instrs : List OInstr
  deriving Repr

/-- blocks of the function after `delete_unreachable`: creation order, unreachable blocks removed,
    phi inputs coming from a removed predecessor removed -/
def finish (st : St) : List OBlock :=
  let reach := reachable st.log st.nblocks
  ((List.range st.nblocks).filter reach.contains).map fun b =>
    let is := (if b = 0 then hoisted st.log else []) ++ blockInstrs st.log b
    ⟨b, is.map fun i => match i with
      | .phi d ty => .phi d ty ((phiInputs st.log d).filter fun (p, _) =>
          reach.contains p || !(succs st.log p).contains b)
      | i => .plain i⟩

def St.curClosed (st : St) : Bool :=
  match (blockInstrs st.log st.cur).getLast? with
  | some i => i.isTerminator
  | none => false

def St.curEmpty (st : St) : Bool :=
  (blockInstrs st.log st.cur).isEmpty && (st.cur != 0 || (hoisted st.log).isEmpty)

def initSt : St := { nblocks := 1, cur := 0, nvals := 0, locals := [], loops := [], log := [] }

/-- copy the parameters to variables -/
def genParams : List (String × Ty) → Nat → St → Except Err St
  | [], _, st => .ok st
  | (x, t) :: ps, i, st =>
    match getVariable st x (some t) with
    | .error er => .error er
    | .ok (var, st1) => genParams ps (i + 1) (st1.emit (.store (.param i) var.addr))

/-- `gen_function`: state when the body has been generated and the function closed -/
def genFunctionSt (params : List (String × Ty)) (ret : Option Ty) (body : PStmt) : Except Err St :=
  match genParams params 0 initSt with
  | .error er => .error er
  | .ok st0 =>
    match genStmt ret.isNone body st0 with
    | .error er => .error er
    | .ok st1 =>
      if st1.curClosed then .ok st1
      else if ret.isSome then
        if st1.curEmpty then .ok st1 else .error .notImplementedError
      else .ok (st1.emit .exit)

def genFunction (params : List (String × Ty)) (ret : Option Ty) (body : PStmt) : Except Err (List OBlock) :=
  match genFunctionSt params ret body with
  | .error er => .error er
  | .ok st => .ok (finish st)

/-! ### printing (one line; the harness renames blocks and values canonically on both sides) -/

def Val.show : Val → String
  | .param i => s!"$p{i}"
  | .tmp n => s!"%{n}"

def Instr.show : Instr → String
  | .alloc d => s!"(alloc %{d})"
  | .addrof d s => s!"(addrof %{d} %{s})"
  | .store v a => s!"(store {v.show} {a.show})"
  | .load d t a => s!"(load %{d} {t.name} {a.show})"
  | .const d t v => s!"(const %{d} {t.name} {v})"
  | .binop d t op a b => s!"(binop %{d} {t.name} {op} {a.show} {b.show})"
  | .phi d t => s!"(phi %{d} {t.name})"
  | .jump t => s!"(jump b{t})"
  | .cjump a op b y n => s!"(cjump {a.show} {op} {b.show} b{y} b{n})"
  | .ret v => s!"(ret {v.show})"
  | .exit => "(exit)"

def OInstr.show : OInstr → String
  | .plain i => i.show
  | .phi d t ins =>
    s!"(phi %{d} {t.name}" ++ String.join (ins.map fun (b, v) => s!" (b{b} {v.show})") ++ ")"

def OBlock.show (b : OBlock) : String :=
  s!"(b{b.id}" ++ String.join (b.instrs.map fun i => " " ++ i.show) ++ ")"

def showFunc (bs : List OBlock) : String := " ".intercalate (bs.map OBlock.show)

end Model.Py2Ir
