import PpciVerif.Model.Reloc
/-
Hand model of the relocation step of the linker (core Lean only), mirroring
ppci/binutils/linker.py:Linker._do_relocation / do_relocations and
ppci/binutils/objectfile.py:ObjectFile.get_symbol_id_value:

    sym_value   = symbol.value (+ section(symbol).address if the symbol has a section); undefined → ValueError
    section     = dst.get_section(relocation.section)
    reloc_value = section.address + relocation.offset
    reloc       = relocation_map[relocation.reloc_type](None, offset=…, addend=relocation.addend)
    data        = section.data[offset : offset + reloc.size()];  assert len(data) == size
    data        = reloc.apply(sym_value, data, reloc_value);     assert len(data) == size
    section.data[offset : offset + size] = data

(The rest of the linker — merging, layout, images — is C12's `Model.Linker`; this file only needs
sections with an address and bytes, and symbols with a value.)  `relocSize` is `Relocation.size()`:
the token's size in bytes, 4 for the two thumb types that override it.
Tied to the source by the correspondence run of harness/c11.py through the real `link()`.
-/
namespace Model.LinkReloc
open Model.Reloc

abbrev Err := Model.Token.Err

structure Sec where
  name : String
  address : Int
  data : List Nat
  deriving Repr, DecidableEq

structure Sym where
  id : Nat
  undefined : Bool
  value : Int
  sect : Option String
  deriving Repr, DecidableEq

structure RelocEntry where
  relocType : String
  symbolId : Nat
  sect : String
  offset : Nat
  addend : Int
  deriving Repr, DecidableEq

/-- `cls.size()` of the modelled relocation types -/
def relocSize (isa ty : String) : Option Nat :=
  match isa, ty with
  | "riscv", "b_imm12" | "riscv", "b_imm20" | "riscv", "abs32_imm20" | "riscv", "rel_imm20"
  | "riscv", "abs32_imm12" | "riscv", "rel_imm12" | "riscv", "cb_imm11" | "riscv", "cbl_imm11" => some 4
  | "riscv", "bc_imm11" | "riscv", "bc_imm8" => some 2
  | "arm", "rel8" | "arm", "imm24" | "arm", "ldr_imm12" | "arm", "adr_imm12" => some 4
  | "thumb", "lit8" | "thumb", "wrap_new11" | "thumb", "rel8" => some 2
  | "thumb", "bl_imm11" | "thumb", "b_imm11_imm6" => some 4
  | "x86_64", "rel32" | "x86_64", "abs32" => some 4
  | "x86_64", "jmp8" => some 1
  | "x86_64", "abs64" => some 8
  | _, "absaddr16" => some 2
  | _, "absaddr32" => some 4
  | _, "absaddr64" => some 8
  | _, _ => none

def getSec (secs : List Sec) (n : String) : Option Sec := secs.find? (fun s => s.name == n)

/-- `ObjectFile.get_symbol_id_value` -/
def symbolValue (secs : List Sec) (syms : List Sym) (id : Nat) : Except Err Int :=
  match syms.find? (fun s => s.id == id) with
  | none => .error .KeyError
  | some s =>
    if s.undefined then .error .ValueError
    else match s.sect with
      | none => .ok s.value
      | some n => match getSec secs n with
        | none => .error .KeyError
        | some sec => .ok (s.value + sec.address)

/-- `data[b : b + n]` -/
def slice (data : List Nat) (b n : Nat) : List Nat := (data.drop b).take n

/-- `data[b : b + len(new)] = new` -/
def splice (data : List Nat) (b : Nat) (new : List Nat) : List Nat :=
  data.take b ++ new ++ data.drop (b + new.length)

def updSec (secs : List Sec) (n : String) (f : Sec → Sec) : List Sec :=
  secs.map (fun s => if s.name == n then f s else s)

/-- `Linker._do_relocation` -/
def doRelocation (isa : String) (secs : List Sec) (syms : List Sym) (r : RelocEntry) : Except Err (List Sec) :=
  match symbolValue secs syms r.symbolId with
  | .error e => .error e
  | .ok symValue =>
    match getSec secs r.sect with
    | none => .error .KeyError
    | some sec =>
      let relocValue := sec.address + r.offset
      match relocSize isa r.relocType with
      | none => .error .KeyError
      | some size =>
        let data := slice sec.data r.offset size
        if data.length ≠ size then .error .AssertionError
        else match Model.Reloc.apply isa r.relocType r.addend symValue data relocValue with
          | none => .error .KeyError
          | some (.error e) => .error e
          | some (.ok out) =>
            if out.length ≠ size then .error .AssertionError
            else .ok (updSec secs r.sect (fun s => { s with data := splice s.data r.offset out }))

/-- `Linker.do_relocations` -/
def doRelocations (isa : String) (syms : List Sym) : List Sec → List RelocEntry → Except Err (List Sec)
  | secs, [] => .ok secs
  | secs, r :: rs =>
    match doRelocation isa secs syms r with
    | .error e => .error e
    | .ok secs' => doRelocations isa syms secs' rs

/-! ### relocation sites (decidable side condition of the list-level theorem) -/

/-- number of bytes the relocation rewrites (0 for an unknown type: such a relocation makes the link fail) -/
def siteSize (isa : String) (r : RelocEntry) : Nat := (relocSize isa r.relocType).getD 0

/-- byte `i` of section `n` belongs to the site of `r` -/
def inSite (isa : String) (r : RelocEntry) (n : String) (i : Nat) : Prop :=
  n = r.sect ∧ r.offset ≤ i ∧ i < r.offset + siteSize isa r

/-- the sites of two relocations share no byte -/
def sitesApart (isa : String) (a b : RelocEntry) : Bool :=
  a.sect != b.sect || decide (a.offset + siteSize isa a ≤ b.offset) || decide (b.offset + siteSize isa b ≤ a.offset)

/-- all relocation sites of the list are pairwise disjoint -/
def sitesDisjoint (isa : String) : List RelocEntry → Bool
  | [] => true
  | r :: rs => rs.all (sitesApart isa r) && sitesDisjoint isa rs

end Model.LinkReloc
