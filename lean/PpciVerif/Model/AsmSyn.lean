import PpciVerif.Model.AsmLex
/-
Instruction syntaxes and how ppci prints an instance (`Syntax.render` / `Constructor.__str__`),
plus the types of the C09 table dump (`translate/c09_tables.py` → `Gen/Asm_<key>.lean`).

`Syntax.render(obj)` = concatenation over the syntax elements of
  * the element itself when it is a string (mnemonic word, whitespace, glyph),
  * `str(operand value)` when it is an operand:  a register prints its name, an `int` prints as a
    decimal numeral with a leading `-` when negative, a `str` (label) prints itself, a constructor
    prints its own syntax recursively.
-/
namespace Model.AsmSyn
open Model.AsmLex

/-! ## table types -/

inductive OpKind where
  | reg (cls : Nat)                  -- register class, index into `Config.regClasses`
  | int
  | str
  | cons (opts : List Nat)           -- one of these constructor classes (indices into `Config.syntaxes`)
  | other (d : String)               -- python `set` / `RegisterSet` (arm/thumb push/pop): not modelled
  deriving Repr, DecidableEq, Inhabited

inductive Elem where
  | word (s : String)                -- mnemonic or keyword
  | ws (s : String)                  -- whitespace, printed but not a grammar symbol
  | glyph (c : Char)
  | op (name : String) (k : OpKind)
  deriving Repr, DecidableEq, Inhabited

structure SynDesc where
  name : String
  isInstr : Bool                     -- member of `arch.isa.instructions` (else: constructor reachable from one)
  prio : Int
  elems : List Elem
  deriving Repr, DecidableEq, Inhabited

/-- a register: printed name and the pieces the real lexer splits it into (`.word` / `.glyph` only) -/
structure RegDesc where
  name : String
  pieces : List Elem
  deriving Repr, DecidableEq, Inhabited

structure RegClass where
  name : String
  regs : List RegDesc
  deriving Repr, DecidableEq, Inhabited

inductive Sym where
  | t (s : String)
  | nt (s : String)
  deriving Repr, DecidableEq, Inhabited

structure Prod where
  lhs : String
  rhs : List Sym
  prio : Int
  deriving Repr, DecidableEq, Inhabited

structure Config where
  key : String
  keywords : List String
  regClasses : List RegClass
  syntaxes : List SynDesc
  grammar : List Prod
  ranks : List (String × Nat)        -- a ranking of the nonterminals ([] when the grammar is recursive)
  deriving Repr, Inhabited

/-! ## flat syntaxes (constructor operands expanded) -/

/-- element of a flattened syntax -/
inductive Leaf where
  | word (s : List Char)
  | ws (s : List Char)
  | glyph (c : Char)
  | reg (cls : Nat)
  | int
  | label
  | other (d : String)
  deriving Repr, DecidableEq, Inhabited

def lookup (tab : List SynDesc) (i : Nat) : Option SynDesc := tab[i]?

def lookupName (tab : List SynDesc) (n : String) : Option SynDesc := tab.find? (·.name == n)

/-- flattenings of one element, given the flattenings of a constructor-option list -/
def headLeaves (sub : List Nat → List (List Leaf)) : Elem → List (List Leaf)
  | .word s => [[.word s.toList]]
  | .ws s => [[.ws s.toList]]
  | .glyph c => [[.glyph c]]
  | .op _ (.reg c) => [[.reg c]]
  | .op _ .int => [[.int]]
  | .op _ .str => [[.label]]
  | .op _ (.other d) => [[.other d]]
  | .op _ (.cons opts) => sub opts

/-- flattenings of an element list -/
def expandElems (sub : List Nat → List (List Leaf)) : List Elem → List (List Leaf)
  | [] => [[]]
  | e :: es => (headLeaves sub e).flatMap fun h => (expandElems sub es).map fun t => h ++ t

/-- all flattenings of a syntax: every choice of constructor for every constructor operand, recursively.
    `fuel` bounds the nesting depth (a missing class or exhausted fuel yields an `.other` leaf, which no
    check accepts). -/
def expand (tab : List SynDesc) : Nat → List Elem → List (List Leaf)
  | 0, es => expandElems (fun _ => [[.other "fuel"]]) es
  | f + 1, es =>
    expandElems (fun opts => opts.flatMap fun o =>
      match lookup tab o with
      | some d => expand tab f d.elems
      | none => [[.other "missing"]]) es

/-- one flattening of an element, selected by option indices (depth first, left to right) -/
def headChoice (sub : List Nat → List Nat → Option (List Leaf × List Nat)) :
    Elem → List Nat → Option (List Leaf × List Nat)
  | .word s, ch => some ([.word s.toList], ch)
  | .ws s, ch => some ([.ws s.toList], ch)
  | .glyph c, ch => some ([.glyph c], ch)
  | .op _ (.reg c), ch => some ([.reg c], ch)
  | .op _ .int, ch => some ([.int], ch)
  | .op _ .str, ch => some ([.label], ch)
  | .op _ (.other d), ch => some ([.other d], ch)
  | .op _ (.cons opts), ch => sub opts ch

def chooseElems (sub : List Nat → List Nat → Option (List Leaf × List Nat)) :
    List Elem → List Nat → Option (List Leaf × List Nat)
  | [], ch => some ([], ch)
  | e :: es, ch =>
    match headChoice sub e ch with
    | none => none
    | some (h, ch1) =>
      match chooseElems sub es ch1 with
      | none => none
      | some (t, ch2) => some (h ++ t, ch2)

/-- the flattening selected by a list of option indices; used by the driver to render one concrete
    instance.  Returns the leaves and the unused choices. -/
def expandChoice (tab : List SynDesc) : Nat → List Elem → List Nat → Option (List Leaf × List Nat)
  | 0, es, ch => chooseElems (fun _ _ => none) es ch
  | f + 1, es, ch =>
    chooseElems (fun opts ch =>
      match ch with
      | [] => none
      | k :: ch' =>
        match opts[k]? with
        | none => none
        | some o =>
          match lookup tab o with
          | some d => expandChoice tab f d.elems ch'
          | none => none) es ch

/-! ## operand values and printing -/

def digitChar (k : Nat) : Char :=
  match k with
  | 0 => '0' | 1 => '1' | 2 => '2' | 3 => '3' | 4 => '4'
  | 5 => '5' | 6 => '6' | 7 => '7' | 8 => '8' | _ => '9'

/-- decimal digits of a natural number (`str(n)` for `n ≥ 0`), most significant first -/
def natDigits (n : Nat) : List Char :=
  if h : n < 10 then [digitChar n] else natDigits (n / 10) ++ [digitChar (n % 10)]
termination_by n
decreasing_by omega

/-- `str(z)` of a Python int -/
def intStr (z : Int) : List Char :=
  if z < 0 then '-' :: natDigits z.natAbs else natDigits z.natAbs

inductive Val where
  | reg (r : RegDesc)
  | int (z : Int)
  | label (s : List Char)
  deriving Repr, DecidableEq, Inhabited

def pieceStr : Elem → List Char
  | .word s => s.toList
  | .ws s => s.toList
  | .glyph c => [c]
  | .op _ _ => []

def pieceToks : Elem → List Tok
  | .word s => [.id s.toList]
  | .glyph c => [.glyph c]
  | _ => []

/-- the text ppci prints for a flat syntax with the given operand values (in operand order) -/
def render : List Leaf → List Val → List Char
  | [], _ => []
  | .word s :: ls, vs => s ++ render ls vs
  | .ws s :: ls, vs => s ++ render ls vs
  | .glyph c :: ls, vs => c :: render ls vs
  | .reg _ :: ls, .reg r :: vs => r.name.toList ++ render ls vs
  | .int :: ls, .int z :: vs => intStr z ++ render ls vs
  | .label :: ls, .label s :: vs => s ++ render ls vs
  | _ :: ls, _ :: vs => render ls vs          -- value of the wrong kind: prints nothing (excluded by `Fits`)
  | _ :: ls, [] => render ls []

/-- the token list the grammar expects for that text -/
def tokens : List Leaf → List Val → List Tok
  | [], _ => []
  | .word s :: ls, vs => .id s :: tokens ls vs
  | .ws _ :: ls, vs => tokens ls vs
  | .glyph c :: ls, vs => .glyph c :: tokens ls vs
  | .reg _ :: ls, .reg r :: vs => r.pieces.flatMap pieceToks ++ tokens ls vs
  | .int :: ls, .int z :: vs =>
      (if z < 0 then [.glyph '-', .num z.natAbs] else [.num z.natAbs]) ++ tokens ls vs
  | .label :: ls, .label s :: vs => .id s :: tokens ls vs
  | _ :: ls, _ :: vs => tokens ls vs
  | _ :: ls, [] => tokens ls []

/-! ## the decidable spacing condition -/

/-- a register name is printed as its pieces, starts and ends with a word, and words and glyphs alternate
    safely (no `%`, no two adjacent words) -/
def piecesOK : List Elem → Bool
  | [] => false
  | [.word s] => isIdent s.toList
  | .word s :: .glyph c :: rest => isIdent s.toList && isGlyph c && c != '%' && piecesOK rest
  | _ => false

def regOK (r : RegDesc) : Bool :=
  piecesOK r.pieces && (r.pieces.flatMap pieceStr == r.name.toList)

def regClassOK (cfg : Config) (c : Nat) : Bool :=
  match cfg.regClasses[c]? with
  | some rc => rc.regs.all regOK
  | none => false

/-- how a leaf begins / ends, as far as the lexer is concerned -/
inductive Edge where
  | wordy        -- identifier character (word, register, label)
  | number       -- digit or `-` digit (integer operand)
  | glyph (c : Char)
  | space
  deriving DecidableEq, Repr

def edgeOf : Leaf → Option Edge
  | .word _ => some .wordy
  | .reg _ => some .wordy
  | .label => some .wordy
  | .int => some .number
  | .glyph c => some (.glyph c)
  | .ws _ => some .space
  | .other _ => none

/-- may a leaf ending like `a` be followed immediately by a leaf starting like `b`? -/
def compatEdge : Edge → Edge → Bool
  | .wordy, .wordy => false           -- `movr1` is one identifier
  | .wordy, .number => false          -- `bkpt2` is one identifier
  | .number, .wordy => false          -- `0x1f`, `0b1` lex as numbers; `5x` would be fine but is refused too
  | .number, .number => false         -- `12` + `3`; (`1` + `-2` would be fine but is refused too)
  | .number, .glyph c => c != '.'     -- `1.5` is a REAL
  | .glyph c, .number => c != '%'     -- `%10` is a binary number
  | _, _ => true

def leafOK (cfg : Config) : Leaf → Bool
  | .word s => isIdent s
  | .ws s => !s.isEmpty && s.all isSkip
  | .glyph c => isGlyph c
  | .reg c => regClassOK cfg c
  | .int => true
  | .label => true
  | .other _ => false

def chainOK : List Leaf → Bool
  | [] => true
  | [_] => true
  | a :: b :: rest =>
    (match edgeOf a, edgeOf b with
     | some x, some y => compatEdge x y
     | _, _ => false) && chainOK (b :: rest)

/-- the decidable condition of theorem (1) -/
def wellSpaced (cfg : Config) (ls : List Leaf) : Bool := ls.all (leafOK cfg) && chainOK ls

/-- every register of every class prints as its pieces (checked once per configuration) -/
def regsOK (cfg : Config) : Bool := cfg.regClasses.all fun rc => rc.regs.all regOK

/-- `leafOK` without re-checking the register class (that is `regsOK`) -/
def leafOKFast (cfg : Config) : Leaf → Bool
  | .word s => isIdent s
  | .ws s => !s.isEmpty && s.all isSkip
  | .glyph c => isGlyph c
  | .reg c => c < cfg.regClasses.length
  | .int => true
  | .label => true
  | .other _ => false

def wellSpacedFast (cfg : Config) (ls : List Leaf) : Bool := ls.all (leafOKFast cfg) && chainOK ls

/-- flat syntaxes of a class that contain only modelled operand kinds -/
def supported (ls : List Leaf) : Bool := ls.all fun l => match l with | .other _ => false | _ => true

def expandFuel : Nat := 6

/-- every instruction syntax of the configuration, flattened in every way, is either unsupported
    (register-set operand) or well spaced -/
def configWellSpaced (cfg : Config) : Bool :=
  regsOK cfg && cfg.syntaxes.all fun s =>
    !s.isInstr || (expand cfg.syntaxes expandFuel s.elems).all fun ls => !supported ls || wellSpacedFast cfg ls

/-- names of instruction classes that have an unsupported flattening -/
def unsupportedClasses (cfg : Config) : List String :=
  (cfg.syntaxes.filter fun s =>
    s.isInstr && (expand cfg.syntaxes expandFuel s.elems).any fun ls => !supported ls).map (·.name)

/-- names of instruction classes with a supported but not well-spaced flattening (diagnostics) -/
def badClasses (cfg : Config) : List String :=
  (cfg.syntaxes.filter fun s =>
    s.isInstr && (expand cfg.syntaxes expandFuel s.elems).any fun ls => supported ls && !wellSpaced cfg ls).map (·.name)

/-- operand values fit the flat syntax: registers come from the table, labels are identifiers -/
def Fits (cfg : Config) : List Leaf → List Val → Prop
  | [], vs => vs = []
  | .word _ :: ls, vs => Fits cfg ls vs
  | .ws _ :: ls, vs => Fits cfg ls vs
  | .glyph _ :: ls, vs => Fits cfg ls vs
  | .reg c :: ls, .reg r :: vs =>
      (∃ rc, cfg.regClasses[c]? = some rc ∧ r ∈ rc.regs) ∧ Fits cfg ls vs
  | .int :: ls, .int _ :: vs => Fits cfg ls vs
  | .label :: ls, .label s :: vs => isIdent s = true ∧ Fits cfg ls vs
  | _, _ => False

end Model.AsmSyn
